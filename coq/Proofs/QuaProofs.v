(* C06 — proofs about the model (Formats/Qua.v) and the oracle (Formats/QuaSpec.v). *)
From Coq Require Import ZArith QArith Qround Qabs List Bool Lia Lqa Permutation.
From RV Require Import Base.PyNum Formats.Qua Formats.QuaSpec.
Import ListNotations.
Open Scope Z_scope.

(* ------------------------------------------------------------------ int(): truncation moves a time by < 1 *)
Lemma Qabs_lt1 (a : Q) : (-(1) < a)%Q -> (a < 1)%Q -> (Qabs a < 1)%Q.
Proof. intros H1 H2. apply Qabs_case; intros; lra. Qed.

Lemma qtrunc_lt1 (x : Q) : (Qabs (x - inject_Z (qtrunc x)) < 1)%Q.
Proof.
  unfold qtrunc. destruct (Qle_bool 0 x) eqn:E.
  - pose proof (Qfloor_le x) as F1. pose proof (Qlt_floor x) as F2.
    rewrite inject_Z_plus in F2. change (inject_Z 1) with 1%Q in F2. apply Qabs_lt1; lra.
  - pose proof (Qfloor_le (- x)) as F1. pose proof (Qlt_floor (- x)) as F2.
    rewrite inject_Z_plus in F2. change (inject_Z 1) with 1%Q in F2.
    rewrite inject_Z_opp. apply Qabs_lt1; lra.
Qed.

Lemma qtrunc_inject (z : Z) : qtrunc (inject_Z z) = z.
Proof.
  unfold qtrunc. destruct (Qle_bool 0 (inject_Z z)) eqn:E.
  - apply Qfloor_Z.
  - rewrite <- inject_Z_opp, Qfloor_Z. lia.
Qed.

(* int(int(x)) = int(x): a second generation cannot move a time again *)
Lemma cast_int_idem (v w : ytree) : cast_int v = Some w -> cast_int w = Some w.
Proof. destruct v; simpl; intro H; inversion H; reflexivity. Qed.

Lemma lt1_true (a b : Q) : lt1 a b = true <-> (Qabs (a - b) < 1)%Q.
Proof. unfold lt1. apply Qlt_bool_iff. Qed.

(* the time written for a numeric cell is within 1 ms of the cell *)
Lemma cast_int_close (v : ytree) (q : Q) : num v = Some q ->
  exists z, cast_int v = Some (YInt z) /\ lt1 (inject_Z z) q = true.
Proof.
  destruct v; simpl; intro H; inversion H; subst.
  - exists z. split; [reflexivity|]. apply lt1_true. apply Qabs_lt1; lra.
  - exists (qtrunc q). split; [reflexivity|]. apply lt1_true.
    pose proof (qtrunc_lt1 q) as T. rewrite <- Qabs_opp.
    setoid_replace (- (inject_Z (qtrunc q) - q))%Q with (q - inject_Z (qtrunc q))%Q by ring. exact T.
Qed.

(* ------------------------------------------------------------------ Tags: split / join *)
(* the reader's  [i for i in s.split(" ") if i]  is the list of blank-separated words *)
Lemma tags_of_words_go (s cur : text) :
  filter nonempty (split_sp s cur) = words_go s cur.
Proof.
  revert cur. induction s as [|c t IH]; intro cur; simpl.
  - destruct cur as [|x cur']; simpl; [reflexivity|].
    destruct (rev cur' ++ [x]) eqn:E; [destruct (rev cur'); discriminate|reflexivity].
  - destruct (c =? 32).
    + simpl. rewrite IH. destruct cur as [|x cur']; simpl; [reflexivity|].
      destruct (rev cur' ++ [x]) eqn:E; [destruct (rev cur'); discriminate|reflexivity].
    + apply IH.
Qed.
Theorem tags_of_is_words (s : text) : tags_of s = words s.
Proof. apply tags_of_words_go. Qed.

Definition good_tag (t : text) : bool := negb (memZ 32 t) && nonempty t.

Lemma words_go_app_noblank (t rest cur : text) :
  memZ 32 t = false -> words_go (t ++ rest) cur = words_go rest (rev t ++ cur).
Proof.
  revert cur. induction t as [|c t IH]; intros cur H; [reflexivity|].
  unfold memZ in H. cbn [existsb] in H. apply orb_false_iff in H. destruct H as [H1 H2].
  rewrite Z.eqb_sym in H1. cbn [app words_go]. rewrite H1. rewrite IH by exact H2. cbn [rev]. rewrite <- app_assoc. reflexivity.
Qed.

Theorem words_join (ts : list text) : forallb good_tag ts = true -> words (join_sp ts) = ts.
Proof.
  unfold words. induction ts as [|t ts IH]; intro H; [reflexivity|].
  simpl in H. apply andb_true_iff in H. destruct H as [Ht Hts].
  unfold good_tag in Ht. apply andb_true_iff in Ht. destruct Ht as [Hb Hn]. apply negb_true_iff in Hb.
  destruct ts as [|t' ts'].
  - simpl. rewrite <- (app_nil_r t) at 1. rewrite words_go_app_noblank by exact Hb. simpl.
    rewrite app_nil_r. destruct (rev t) eqn:E.
    + destruct t; [discriminate|]. simpl in E. destruct (rev t); discriminate.
    + rewrite <- E, rev_involutive. reflexivity.
  - change (join_sp (t :: t' :: ts')) with (t ++ 32 :: join_sp (t' :: ts')).
    rewrite words_go_app_noblank by exact Hb. simpl. rewrite app_nil_r.
    destruct (rev t) eqn:E.
    + destruct t; [discriminate|]. simpl in E. destruct (rev t); discriminate.
    + rewrite <- E, rev_involutive. f_equal. apply IH. exact Hts.
Qed.

(* ------------------------------------------------------------------ soundness of the boolean oracles *)
Lemma all2_Forall2 {A B} (p : A -> B -> bool) (P : A -> B -> Prop) :
  (forall a b, p a b = true -> P a b) -> forall l m, all2 p l m = true -> Forall2 P l m.
Proof.
  intros HP. induction l as [|x l IH]; destruct m as [|y m]; simpl; intro H; try discriminate; constructor.
  - apply HP. apply andb_true_iff in H. tauto.
  - apply IH. apply andb_true_iff in H. tauto.
Qed.

Lemma remove1_perm {A} (eqb : A -> A -> bool) x l l' :
  remove1 eqb x l = Some l' -> exists y, eqb x y = true /\ Permutation l (y :: l').
Proof.
  revert l'. induction l as [|y t IH]; simpl; intros l' H; [discriminate|].
  destruct (eqb x y) eqn:E.
  - inversion H; subst. exists y. split; [exact E|apply Permutation_refl].
  - destruct (remove1 eqb x t) as [t'|] eqn:R; [|discriminate]. inversion H; subst.
    destruct (IH t' eq_refl) as [z [Ez Pz]]. exists z. split; [exact Ez|].
    eapply perm_trans; [apply perm_skip; exact Pz|apply perm_swap].
Qed.

Lemma perm_eqb_sound {A} (eqb : A -> A -> bool) (a b : list A) :
  perm_eqb eqb a b = true -> exists b', Permutation b b' /\ Forall2 (fun x y => eqb x y = true) a b'.
Proof.
  revert b. induction a as [|x a IH]; intros b H; simpl in H.
  - destruct b; [|discriminate]. exists []. split; constructor.
  - destruct (remove1 eqb x b) as [b1|] eqn:R; [|discriminate].
    destruct (remove1_perm _ _ _ _ R) as [y [Ey Py]].
    destruct (IH b1 H) as [b2 [P2 F2]].
    exists (y :: b2). split; [eapply perm_trans; [exact Py|apply perm_skip; exact P2]|constructor; assumption].
Qed.

Lemma note_closeb_sound a b : note_closeb a b = true -> note_close a b.
Proof.
  unfold note_closeb, note_close. intro H.
  repeat (apply andb_true_iff in H; destruct H as [H ?]).
  split; [apply Z.eqb_eq; exact H|]. split; [apply lt1_true; assumption|]. split; [|assumption].
  destruct (n_end a), (n_end b); try discriminate; auto. apply lt1_true. assumption.
Qed.
Lemma pt_closeb_sound a b : pt_closeb a b = true -> pt_close a b.
Proof.
  unfold pt_closeb, pt_close. intro H. apply andb_true_iff in H. destruct H as [H1 H2].
  split; [apply lt1_true; exact H1|apply Qeq_bool_iff; exact H2].
Qed.

Theorem den_closeb_sound e a : den_closeb e a = true -> den_close e a.
Proof.
  unfold den_closeb, den_close. intro H.
  repeat (apply andb_true_iff in H; destruct H as [H ?]).
  split; [exists (d_notes a); split; [apply Permutation_refl|eapply all2_Forall2; [apply note_closeb_sound|exact H]]|].
  split; [exists (d_bpms a); split; [apply Permutation_refl|eapply all2_Forall2; [apply pt_closeb_sound|assumption]]|].
  split; [exists (d_svs a); split; [apply Permutation_refl|eapply all2_Forall2; [apply pt_closeb_sound|assumption]]|].
  assumption.
Qed.

Theorem den_eqb_sound e a : den_eqb e a = true -> den_eq e a.
Proof.
  unfold den_eqb, den_eq. intro H.
  repeat (apply andb_true_iff in H; destruct H as [H ?]).
  split; [apply perm_eqb_sound; exact H|]. split; [apply perm_eqb_sound; assumption|].
  split; [apply perm_eqb_sound; assumption|assumption].
Qed.

(* what the four oracles of Corr/RunC06.v establish when they answer true *)
Definition ReadSpec (doc : ytree) (out : option chart) : Prop :=
  exists c e a, out = Some c /\ qua_denote doc = Some e /\ chart_denote c = Some a /\ den_eq e a.
Definition WriteSpec (c : chart) (out : option ytree) : Prop :=
  exists d e a, out = Some d /\ wf_qua_docb d = true /\ qua_denote d = Some e /\ chart_denote c = Some a
                /\ den_close e a /\ all_declared (d_meta e) = true.
Definition WriteReadSpec (c : chart) (out : option chart) : Prop :=
  exists c' e a, out = Some c' /\ chart_denote c = Some e /\ chart_denote c' = Some a /\ den_close e a.

Theorem read_specb_sound doc out : read_specb doc out = true -> ReadSpec doc out.
Proof.
  unfold read_specb, ReadSpec. destruct out as [c|]; [|discriminate].
  destruct (qua_denote doc) as [e|] eqn:E1; [|discriminate]. destruct (chart_denote c) as [a|] eqn:E2; [|discriminate].
  intro H. exists c, e, a. split; [reflexivity|]. split; [reflexivity|]. split; [exact E2|]. apply den_eqb_sound; exact H.
Qed.
Theorem write_specb_sound c out : write_specb c out = true -> WriteSpec c out.
Proof.
  unfold write_specb, WriteSpec. destruct out as [d|]; [|discriminate]. intro H.
  apply andb_true_iff in H. destruct H as [W H].
  destruct (qua_denote d) as [e|] eqn:E1; [|discriminate]. destruct (chart_denote c) as [a|] eqn:E2; [|discriminate].
  apply andb_true_iff in H. destruct H as [H1 H2].
  exists d, e, a. split; [reflexivity|]. split; [exact W|]. split; [exact E1|]. split; [reflexivity|].
  split; [apply den_closeb_sound; exact H1|exact H2].
Qed.
Theorem wr_specb_sound c out : wr_specb c out = true -> WriteReadSpec c out.
Proof.
  unfold wr_specb, WriteReadSpec. destruct out as [c'|]; [|discriminate].
  destruct (chart_denote c) as [e|] eqn:E1; [|discriminate]. destruct (chart_denote c') as [a|] eqn:E2; [|discriminate].
  intro H. exists c', e, a. split; [reflexivity|]. split; [reflexivity|]. split; [exact E2|]. apply den_closeb_sound; exact H.
Qed.

(* ------------------------------------------------------------------ the to_yaml pipelines, row by row *)
Lemma omap_bind {A B C} (f : A -> option B) (g : B -> option C) (l : list A) :
  omap f l >>= omap g = omap (fun x => f x >>= g) l.
Proof.
  induction l as [|x l IH]; [reflexivity|]. simpl.
  destruct (f x) as [y|]; simpl.
  - destruct (omap f l) as [r|]; simpl in *.
    + rewrite <- IH. reflexivity.
    + rewrite <- IH. destruct (g y); reflexivity.
  - reflexivity.
Qed.
Lemma omap_some_map {A B} (f : A -> option B) (h : A -> B) (l : list A) :
  (forall x, In x l -> f x = Some (h x)) -> omap f l = Some (map h l).
Proof.
  induction l as [|x l IH]; intro H; [reflexivity|]. simpl.
  rewrite (H x (or_introl eq_refl)). rewrite IH; [reflexivity|]. intros y Hy. apply H. right. exact Hy.
Qed.

(* cells of a well-typed chart, and what the writer makes of them *)
Definition trunc_cell (v : ytree) : Z := match v with YInt z => z | YFloat q => qtrunc q | _ => 0 end.
Definition lane_cell (v : ytree) : Z := match v with YInt z => z + 1 | YFloat q => qtrunc (Qred (q + 1)) | _ => 0 end.
Definition sum_cell (a b : ytree) : Z :=
  match cell_add a b with Some v => trunc_cell v | None => 0 end.

Definition hit_row (x : ytree * ytree * ytree) : row :=
  let '(o, c, k) := x in [(N_offset, o); (N_column, c); (N_keysounds, k)].
Definition canon_hits (l : list (ytree * ytree * ytree)) : frame :=
  mkFrame [N_offset; N_column; N_keysounds] (map hit_row l).
Definition hit_out (x : ytree * ytree * ytree) : row :=
  let '(o, c, k) := x in [(K_StartTime, YInt (trunc_cell o)); (K_Lane, YInt (lane_cell c)); (K_KeySounds, k)].

Lemma is_num_cases v : is_num v = true -> (exists z, v = YInt z) \/ (exists q, v = YFloat q).
Proof. destruct v; simpl; intro H; try discriminate; eauto. Qed.

Lemma hits_to_yaml_rows rows :
  hits_to_yaml (mkFrame [N_offset; N_column; N_keysounds] rows)
  = omap (fun r => row_upd N_column plus1 r >>= row_upd N_offset cast_int >>= row_upd N_column cast_int) rows
    >>= fun rs => Some (map (map (fun kv => (ren1 ren_out (fst kv), snd kv))) rs).
Proof.
  rewrite <- !omap_bind. unfold hits_to_yaml, fr_map_col.
  change (fr_has N_column {| f_cols := [N_offset; N_column; N_keysounds]; f_rows := rows |}) with true. cbv iota. cbn [f_rows f_cols].
  destruct (omap (row_upd N_column plus1) rows) as [r1|]; [|reflexivity]. cbn [bind].
  change (fr_has N_offset {| f_cols := [N_offset; N_column; N_keysounds]; f_rows := r1 |}) with true. cbv iota. cbn [f_rows f_cols].
  destruct (omap (row_upd N_offset cast_int) r1) as [r2|]; [|reflexivity]. cbn [bind].
  change (fr_has N_column {| f_cols := [N_offset; N_column; N_keysounds]; f_rows := r2 |}) with true. cbv iota. cbn [f_rows f_cols].
  destruct (omap (row_upd N_column cast_int) r2) as [r3|]; reflexivity.
Qed.

Lemma hit_row_written x :
  let '(o, c, k) := x in
  is_num o = true -> cell_col c = true ->
  (row_upd N_column plus1 (hit_row x) >>= row_upd N_offset cast_int >>= row_upd N_column cast_int)
  = Some [(N_offset, YInt (trunc_cell o)); (N_column, YInt (lane_cell c)); (N_keysounds, k)].
Proof.
  destruct x as [[o c] k]. intros Ho Hc.
  destruct (is_num_cases o Ho) as [[z ->]|[q ->]];
  (destruct c as [zc|qc| | | | | |]; try discriminate Hc; reflexivity).
Qed.

Lemma qtrunc_comp (x y : Q) : (x == y)%Q -> qtrunc x = qtrunc y.
Proof.
  intro E. unfold qtrunc. rewrite (Qleb_comp 0%Q 0%Q (Qeq_refl 0%Q) x y E).
  destruct (Qle_bool 0 y); [apply Qfloor_comp; exact E|]. f_equal. apply Qfloor_comp. rewrite E. reflexivity.
Qed.

(* the written lane is the lane of the cell (column + 1), also for a column stored as an integral float *)
Lemma lane_cell_is_lane_of c l : lane_of c = Some l -> lane_cell c = l.
Proof.
  destruct c as [z|q| | | | | |]; cbn [lane_of lane_cell]; intro H; try discriminate.
  - inversion H. reflexivity.
  - destruct (Qeq_bool q (inject_Z (Qfloor q))) eqn:E; [|discriminate]. inversion H; subst. apply Qeq_bool_iff in E.
    rewrite (qtrunc_comp _ (inject_Z (Qfloor q + 1))); [apply qtrunc_inject|].
    eapply Qeq_trans; [apply Qred_correct|]. rewrite inject_Z_plus. change (inject_Z 1) with 1%Q. lra.
Qed.

Definition hit_ok (x : ytree * ytree * ytree) : bool := let '(o, c, k) := x in is_num o && cell_col c && is_ks k.

(* QuaHitList.to_yaml on a list with the declared columns: one record per row, StartTime = int(offset),
   Lane = column + 1, KeySounds untouched *)
Theorem hits_to_yaml_canonical l : forallb hit_ok l = true -> hits_to_yaml (canon_hits l) = Some (map hit_out l).
Proof.
  intro H. unfold canon_hits. rewrite hits_to_yaml_rows.
  set (h := fun r : row => match r with
                           | [(_, o); (_, c); (_, k)] => [(N_offset, YInt (trunc_cell o)); (N_column, YInt (lane_cell c)); (N_keysounds, k)]
                           | _ => [] end).
  assert (E: omap (fun r : row => row_upd N_column plus1 r >>= row_upd N_offset cast_int >>= row_upd N_column cast_int)
                  (map hit_row l) = Some (map h (map hit_row l))).
  { apply omap_some_map. intros r Hr. apply in_map_iff in Hr. destruct Hr as [[[o c] k] [<- Hx]].
    rewrite forallb_forall in H. specialize (H _ Hx). unfold hit_ok in H.
    apply andb_true_iff in H. destruct H as [H Hk]. apply andb_true_iff in H. destruct H as [Ho Hc].
    exact (hit_row_written (o, c, k) Ho Hc). }
  rewrite E. cbn [bind]. f_equal. rewrite !map_map. apply map_ext. intros [[o c] k]. reflexivity.
Qed.

Lemma is_ks_ks_of k : is_ks k = true -> exists ks, ks_of k = Some ks.
Proof. destruct k; try discriminate. simpl. intro H. rewrite H. eauto. Qed.
Lemma texts_eqb_refl ks : texts_eqb ks ks = true.
Proof.
  induction ks as [|t ks IH]; [reflexivity|]. simpl. rewrite IH.
  assert (X: text_eqb t t = true) by (induction t as [|a t IHt]; [reflexivity|]; simpl; rewrite Z.eqb_refl; exact IHt).
  rewrite X. reflexivity.
Qed.

Local Opaque lane_of ks_of is_ks texts_eqb.
(* every record written for a hit is well-formed and denotes the hit with its time moved by < 1 ms *)
Theorem hit_out_ok x : hit_ok x = true ->
  rec_okb note_keys (YMap (hit_out x)) = true /\
  exists n n', note_denote (YMap (hit_out x)) = Some n /\ hit_row_denote (hit_row x) = Some n' /\ note_closeb n n' = true.
Proof.
  destruct x as [[o c] k]. unfold hit_ok. intro H.
  apply andb_true_iff in H. destruct H as [H Hk]. apply andb_true_iff in H. destruct H as [Ho Hc].
  unfold cell_col in Hc. destruct (lane_of c) as [l|] eqn:El; [|discriminate].
  pose proof (lane_cell_is_lane_of c l El) as Hl.
  destruct (is_ks_ks_of k Hk) as [ks Eks].
  destruct (is_num_cases o Ho) as [[z ->]|[q ->]].
  - split.
    + unfold rec_okb, note_keys, hit_out, K_KeySounds, K_StartTime, K_Lane, K_EndTime; simpl. rewrite ?Hl, ?Hc, ?Hk. reflexivity.
    + exists (mkNote l (inject_Z z) None ks), (mkNote l (inject_Z z) None ks).
      unfold note_denote, hit_row_denote, get_default, hit_out, hit_row, K_KeySounds, K_StartTime, K_Lane, K_EndTime, N_offset, N_column, N_keysounds; simpl. rewrite ?Hl, ?El, ?Eks. split; [reflexivity|]. split; [reflexivity|].
      unfold note_closeb. simpl. rewrite Z.eqb_refl. simpl.
      rewrite ?texts_eqb_refl, ?andb_true_r. apply lt1_true. apply Qabs_lt1; lra.
  - split.
    + unfold rec_okb, note_keys, hit_out, K_KeySounds, K_StartTime, K_Lane, K_EndTime; simpl. rewrite ?Hl, ?Hc, ?Hk. reflexivity.
    + exists (mkNote l (inject_Z (qtrunc q)) None ks), (mkNote l q None ks).
      unfold note_denote, hit_row_denote, get_default, hit_out, hit_row, K_KeySounds, K_StartTime, K_Lane, K_EndTime, N_offset, N_column, N_keysounds; simpl. rewrite ?Hl, ?El, ?Eks. split; [reflexivity|]. split; [reflexivity|].
      unfold note_closeb. simpl. rewrite Z.eqb_refl. simpl.
      rewrite ?texts_eqb_refl, ?andb_true_r. apply lt1_true.
      pose proof (qtrunc_lt1 q) as Q1. rewrite <- Qabs_opp.
      setoid_replace (- (inject_Z (qtrunc q) - q))%Q with (q - inject_Z (qtrunc q))%Q by ring. exact Q1.
Qed.
Local Transparent lane_of ks_of is_ks texts_eqb.

(* a hold: EndTime = int(offset + length) is within 1 ms of the hold's end *)
Lemma hold_end_close (o ln : ytree) (qo ql : Q) : num o = Some qo -> num ln = Some ql ->
  exists v z, cell_add o ln = Some v /\ cast_int v = Some (YInt z) /\ lt1 (inject_Z z) (qo + ql) = true.
Proof.
  intros Ho Hl. destruct o; simpl in Ho; inversion Ho; subst; destruct ln; simpl in Hl; inversion Hl; subst; simpl.
  - exists (YInt (z + z0)), (z + z0). split; [reflexivity|]. split; [reflexivity|].
    apply lt1_true. rewrite inject_Z_plus. apply Qabs_lt1; lra.
  - eexists _, _. split; [reflexivity|]. split; [reflexivity|]. apply lt1_true.
    pose proof (qtrunc_lt1 (Qred (inject_Z z + ql))) as T. rewrite <- Qabs_opp.
    rewrite Qred_correct in T at 1.
    setoid_replace (- (inject_Z (qtrunc (Qred (inject_Z z + ql))) - (inject_Z z + ql)))%Q
      with (inject_Z z + ql - inject_Z (qtrunc (Qred (inject_Z z + ql))))%Q by ring. exact T.
  - eexists _, _. split; [reflexivity|]. split; [reflexivity|]. apply lt1_true.
    pose proof (qtrunc_lt1 (Qred (qo + inject_Z z))) as T. rewrite <- Qabs_opp.
    rewrite Qred_correct in T at 1.
    setoid_replace (- (inject_Z (qtrunc (Qred (qo + inject_Z z))) - (qo + inject_Z z)))%Q
      with (qo + inject_Z z - inject_Z (qtrunc (Qred (qo + inject_Z z))))%Q by ring. exact T.
  - eexists _, _. split; [reflexivity|]. split; [reflexivity|]. apply lt1_true.
    pose proof (qtrunc_lt1 (Qred (qo + ql))) as T. rewrite <- Qabs_opp.
    rewrite Qred_correct in T at 1.
    setoid_replace (- (inject_Z (qtrunc (Qred (qo + ql))) - (qo + ql)))%Q
      with (qo + ql - inject_Z (qtrunc (Qred (qo + ql))))%Q by ring. exact T.
Qed.

(* ------------------------------------------------------------------ reader, record by record: timing points and
   scroll velocities are read as the format says (omitted StartTime = 0, Bpm = 120, Multiplier = 1) *)
Theorem read_bpm_row_denotes (r : row) p : point_denote K_Bpm 120%Q (YMap r) = Some p ->
  point_row_denote N_bpm [(N_offset, getd K_StartTime (YInt 0) r); (N_bpm, getd K_Bpm (YInt 120) r); (N_metronome, YInt 4)] = Some p.
Proof.
  unfold point_denote, point_row_denote, get_default, getd, N_offset, N_bpm, N_metronome. simpl.
  destruct (assoc K_StartTime r) as [s|]; destruct (assoc K_Bpm r) as [b|]; simpl;
    repeat match goal with |- context [num ?v] => destruct (num v) end; intro H; try discriminate; exact H.
Qed.
Theorem read_sv_row_denotes (r : row) p : point_denote K_Multiplier 1%Q (YMap r) = Some p ->
  point_row_denote N_multiplier [(N_offset, getd K_StartTime (YInt 0) r); (N_multiplier, getd K_Multiplier (YFloat 1) r)] = Some p.
Proof.
  unfold point_denote, point_row_denote, get_default, getd, N_offset, N_multiplier. simpl.
  destruct (assoc K_StartTime r) as [s|]; destruct (assoc K_Multiplier r) as [b|]; simpl;
    repeat match goal with |- context [num ?v] => destruct (num v) end; intro H; try discriminate; exact H.
Qed.

(* ------------------------------------------------------------------ the statements that are FALSE of the faithful model:
   concrete witnesses (each isolates one defect; InitialScrollVelocity is declared except in the last one) *)
Definition doc_of (isv : bool) (notes : list ytree) : ytree :=
  YMap ((if isv then [(K_InitialScrollVelocity, YFloat 1)] else [])
        ++ [(K_HitObjects, YList notes); (K_TimingPoints, YList []); (K_SliderVelocities, YList [])]).
Definition wit_omit_keysounds := doc_of true [YMap [(K_StartTime, YInt 10); (K_Lane, YInt 2)]].
Definition wit_hold_omit_start := doc_of true
  [YMap [(K_EndTime, YInt 30); (K_Lane, YInt 2); (K_KeySounds, YList [])];
   YMap [(K_StartTime, YInt 3); (K_EndTime, YInt 30); (K_Lane, YInt 2); (K_KeySounds, YList [])]].
Definition wit_holds_all_omit_start := doc_of true [YMap [(K_EndTime, YInt 30); (K_Lane, YInt 2); (K_KeySounds, YList [])]].
Definition wit_all_omit_lane := doc_of true [YMap [(K_StartTime, YInt 5); (K_KeySounds, YList [])]].
Definition wit_omit_isv := doc_of false [YMap [(K_StartTime, YInt 5); (K_Lane, YInt 1); (K_KeySounds, YList [])]].
Definition wit_clean := doc_of true
  [YMap [(K_Lane, YInt 1); (K_KeySounds, YList [])];
   YMap [(K_StartTime, YInt 3); (K_EndTime, YInt 30); (K_Lane, YInt 7); (K_KeySounds, YList [YStr [97]])]].

Definition read_ok (doc : ytree) : bool := read_specb doc (Live.read doc).
Definition rw_ok (doc : ytree) : bool := rw_specb doc (Live.read doc >>= Live.write).
Definition read_ok_OLD (doc : ytree) : bool := read_specb doc (Live.read_OLD doc).
Definition rw_ok_OLD (doc : ytree) : bool := rw_specb doc (Live.read_OLD doc >>= Live.write).

(* the OLD reader (before fix 736886e) violated the property on these documents ... *)
Theorem OLD_read_omitted_keysounds_refuted :
  wf_docb wit_omit_keysounds = true /\ read_ok_OLD wit_omit_keysounds = false /\ rw_ok_OLD wit_omit_keysounds = false.
Proof. vm_compute. repeat split. Qed.
Theorem OLD_read_hold_omitted_starttime_refuted :
  wf_docb wit_hold_omit_start = true /\ read_ok_OLD wit_hold_omit_start = false /\ rw_ok_OLD wit_hold_omit_start = false.
Proof. vm_compute. repeat split. Qed.
Theorem OLD_read_holds_all_omit_starttime_refuted :
  wf_docb wit_holds_all_omit_start = true /\ Live.read_OLD wit_holds_all_omit_start = None.
Proof. vm_compute. repeat split. Qed.
Theorem OLD_read_all_omit_lane_refuted :
  wf_docb wit_all_omit_lane = true /\ Live.read_OLD wit_all_omit_lane = None.
Proof. vm_compute. repeat split. Qed.
(* ... and the current reader satisfies it on each of them (read, write-after-read) *)
Theorem qua_read_former_witnesses_ok :
  forallb (fun d => wf_docb d && read_ok d && rw_ok d)
          [wit_omit_keysounds; wit_hold_omit_start; wit_holds_all_omit_start; wit_all_omit_lane] = true.
Proof. vm_compute. reflexivity. Qed.

(* a chart as the converters produced it on the pinned tree: extra `index` column, NaN keysounds *)
Definition wit_conv_chart (index nan : bool) : chart :=
  let ix := if index then [(N_index, YInt 0)] else [] in
  let ixc := if index then [N_index] else [] in
  mkChart (mkFrame (ixc ++ [N_column; N_offset; N_keysounds])
                   [ix ++ [(N_column, YInt 0); (N_offset, YFloat (201 # 2)); (N_keysounds, if nan then YNaN else YList [])]])
          (mkFrame (ixc ++ [N_keysounds; N_length; N_column; N_offset]) [])
          (mkFrame (ixc ++ [N_bpm; N_metronome; N_offset]) [ix ++ [(N_bpm, YInt 150); (N_metronome, YFloat 4); (N_offset, YInt 0)]])
          (mkFrame [N_multiplier; N_offset] [])
          (map (fun kd => if fst kd =? K_InitialScrollVelocity then YFloat 1 else snd kd) Live.meta_defaults).
Definition write_ok (c : chart) : bool := write_specb c (Live.write c).
Theorem qua_write_index_key_refuted :
  wf_chartb true (wit_conv_chart true false) = true /\ write_ok (wit_conv_chart true false) = false.
Proof. vm_compute. repeat split. Qed.
Theorem qua_write_keysounds_nan_refuted :
  wf_chartb true (wit_conv_chart false true) = true /\ write_ok (wit_conv_chart false true) = false.
Proof. vm_compute. repeat split. Qed.
(* the same chart with declared columns only and list keysounds is written correctly, read back, and stable *)
Theorem qua_write_clean_chart_ok :
  let c := wit_conv_chart false false in
  wf_chartb false c = true /\ write_ok c = true /\ wr_specb c (Live.write c >>= Live.read) = true.
Proof. vm_compute. repeat split. Qed.
(* InitialScrollVelocity.  OLD defaults (before e825b78): a document that omits it was read with '' and written with ''
   in a float field *)
Theorem OLD_isv_default_refuted :
  wf_docb wit_omit_isv = true /\
  read_specb wit_omit_isv (Live.read_OLDMETA wit_omit_isv) = false /\
  rw_specb wit_omit_isv (Live.read_OLDMETA wit_omit_isv >>= Live.write_OLDMETA) = false.
Proof. vm_compute. repeat split. Qed.
(* now: the live default is the float 1.0, the document is read and written back correctly *)
Theorem qua_isv_default_is_float_1 : assoc K_InitialScrollVelocity Live.meta_defaults = Some (YFloat 1).
Proof. vm_compute. reflexivity. Qed.
Theorem qua_isv_omitted_ok : wf_docb wit_omit_isv = true /\ read_ok wit_omit_isv = true /\ rw_ok wit_omit_isv = true.
Proof. vm_compute. repeat split. Qed.
(* every live default has the declared type of its key *)
Theorem qua_meta_defaults_typed :
  all2 (fun kt kd => (fst kt =? fst kd) && has_type (if fst kt =? ref_tags_key then 4 else snd kt) (snd kd))
       ref_meta_table Live.meta_defaults = true.
Proof. vm_compute. reflexivity. Qed.
(* non-vacuity: a document inside every guard (hit with omitted StartTime, hold, key sound) is read as it denotes,
   written well-formed, and a second generation is identical *)
Theorem qua_clean_doc_ok :
  wf_docb wit_clean = true /\ read_ok wit_clean = true /\ rw_ok wit_clean = true /\
  (let w1 := Live.read wit_clean >>= Live.write in
   match w1, w1 >>= Live.read >>= Live.write with Some a, Some b => tree_eqb true a b | _, _ => false end) = true.
Proof. vm_compute. repeat split. Qed.

(* ------------------------------------------------------------------ the repaired note reader on the record shapes the
   OLD reader got wrong, for ALL values (symbolic evaluation of the pipeline, arithmetic kept abstract) *)
(* the reader agrees with qua_denote on a list of note records: frame produced, every row denotable, same notes *)
Definition reads_as_denoted (reader : list row -> option frame) (rowden : row -> option noteD) (recs : list row) : Prop :=
  exists fr ns es, reader recs = Some fr /\ omap rowden (f_rows fr) = Some ns /\
                   omap note_denote (map YMap recs) = Some es /\ all2 note_eqb es ns = true.

Ltac q_fin := apply Qeq_bool_iff; rewrite ?Qred_correct, ?inject_Z_plus, ?inject_Z_opp; rewrite ?Qred_correct;
              change (inject_Z 0) with 0%Q; change (inject_Z 1) with 1%Q; try lra; try ring.
Ltac use_texts := repeat match goal with H : is_text_list _ = true |- _ => rewrite H end.
Ltac notes_fin :=
  cbv [all2 note_eqb n_lane n_start n_end n_ks oq_eqb];
  repeat (apply andb_true_iff; split); try reflexivity;
  try (apply Z.eqb_eq; lia); try apply texts_eqb_refl; try q_fin.
Ltac shape_tac :=
  do 3 eexists; split; [cbv - [Z.add Z.opp Qred Qplus Qopp inject_Z]; reflexivity|];
  split; [cbv - [Z.add Z.opp Qred Qplus Qopp inject_Z is_text_list texts_of Qeq_bool Qfloor]; use_texts; reflexivity|];
  split; [cbv - [Z.add Z.opp Qred Qplus Qopp inject_Z is_text_list texts_of]; use_texts; reflexivity|];
  notes_fin.

(* a hold that omits StartTime is read with length EndTime - 0 *)
Theorem hold_omitting_starttime_read e l ks : is_text_list ks = true ->
  reads_as_denoted holds_from_yaml hold_row_denote [[(K_EndTime, YInt e); (K_Lane, YInt l); (K_KeySounds, YList ks)]].
Proof. intro H. shape_tac. Qed.
(* ... also next to a complete hold (the case the OLD reader read with length 0) *)
Theorem hold_omitting_starttime_beside_complete_read e1 l1 ks1 s2 e2 l2 ks2 :
  is_text_list ks1 = true -> is_text_list ks2 = true ->
  reads_as_denoted holds_from_yaml hold_row_denote
    [[(K_EndTime, YInt e1); (K_Lane, YInt l1); (K_KeySounds, YList ks1)];
     [(K_StartTime, YInt s2); (K_EndTime, YInt e2); (K_Lane, YInt l2); (K_KeySounds, YList ks2)]].
Proof. intros H1 H2. shape_tac. Qed.
(* omitted KeySounds read as [] (alone, and beside a note that has them); omitted Lane everywhere reads as lane 1 *)
Theorem hit_omitting_keysounds_read s l : 
  reads_as_denoted hits_from_yaml hit_row_denote [[(K_StartTime, YInt s); (K_Lane, YInt l)]].
Proof. shape_tac. Qed.
Theorem hit_omitting_keysounds_beside_complete_read s1 l1 s2 l2 ks2 : is_text_list ks2 = true ->
  reads_as_denoted hits_from_yaml hit_row_denote
    [[(K_StartTime, YInt s1); (K_Lane, YInt l1)]; [(K_KeySounds, YList ks2); (K_Lane, YInt l2); (K_StartTime, YInt s2)]].
Proof. intro H. shape_tac. Qed.
Theorem hits_all_omitting_lane_read s1 ks1 s2 : is_text_list ks1 = true ->
  reads_as_denoted hits_from_yaml hit_row_denote [[(K_StartTime, YInt s1); (K_KeySounds, YList ks1)]; [(K_StartTime, YInt s2)]].
Proof. intro H. shape_tac. Qed.
Theorem holds_all_omitting_lane_and_start_read e1 e2 :
  reads_as_denoted holds_from_yaml hold_row_denote [[(K_EndTime, YInt e1)]; [(K_EndTime, YInt e2)]].
Proof. shape_tac. Qed.
Theorem empty_hit_record_read : reads_as_denoted hits_from_yaml hit_row_denote [[]].
Proof. shape_tac. Qed.

(* ################################################################## WRITER, for every chart in the strict domain
   (declared columns in ANY order, typed cells, typed metadata) *)
(* ================================================================== general row machinery *)
Fixpoint row_map (F : Z -> ytree -> option ytree) (r : row) : option row :=
  match r with
  | [] => Some []
  | (k, v) :: t => match F k v, row_map F t with Some v', Some t' => Some ((k, v') :: t') | _, _ => None end
  end.
Lemma row_upd_is_map c g r : row_upd c g r = row_map (fun k v => if k =? c then g v else Some v) r.
Proof. induction r as [|[k v] t IH]; [reflexivity|]. simpl. rewrite IH. reflexivity. Qed.
Lemma row_map_bind F G r : row_map F r >>= row_map G = row_map (fun k v => F k v >>= G k) r.
Proof.
  induction r as [|[k v] t IH]; [reflexivity|]. simpl.
  destruct (F k v) as [v'|]; simpl; [|reflexivity].
  destruct (row_map F t) as [t'|]; simpl in *.
  - rewrite <- IH. reflexivity.
  - rewrite <- IH. destruct (G k v'); reflexivity.
Qed.
Lemma row_map_total F h r : (forall k v, In (k, v) r -> F k v = Some (h k v)) ->
  row_map F r = Some (map (fun kv => (fst kv, h (fst kv) (snd kv))) r).
Proof.
  induction r as [|[k v] t IH]; intro H; [reflexivity|]. simpl.
  rewrite (H k v (or_introl eq_refl)). rewrite IH; [reflexivity|]. intros k' v' Hin. apply H. right. exact Hin.
Qed.

Lemma assoc_In {A} k (l : list (Z * A)) v : assoc k l = Some v -> In (k, v) l.
Proof.
  induction l as [|[k' v'] t IH]; simpl; [discriminate|]. destruct (k =? k') eqn:E.
  - intro H. inversion H; subst. apply Z.eqb_eq in E. subst. left. reflexivity.
  - intro H. right. apply IH. exact H.
Qed.
Lemma memZ_In k l : memZ k l = true <-> In k l.
Proof.
  unfold memZ. rewrite existsb_exists. split.
  - intros [x [Hx E]]. apply Z.eqb_eq in E. subst. exact Hx.
  - intro H. exists k. split; [exact H|apply Z.eqb_refl].
Qed.
Lemma assoc_mem {A} k (l : list (Z * A)) : memZ k (map fst l) = true -> exists v, assoc k l = Some v.
Proof.
  induction l as [|[k' v'] t IH]; simpl; [discriminate|]. unfold memZ in *. simpl.
  destruct (k =? k') eqn:E; simpl; [eauto|exact IH].
Qed.
Lemma assoc_notin {A} k (l : list (Z * A)) : memZ k (map fst l) = false -> assoc k l = None.
Proof.
  induction l as [|[k' v'] t IH]; simpl; [reflexivity|]. unfold memZ in *. simpl.
  destruct (k =? k') eqn:E; simpl; [discriminate|exact IH].
Qed.
Lemma assoc_app {A} k (l1 l2 : list (Z * A)) :
  assoc k (l1 ++ l2) = match assoc k l1 with Some v => Some v | None => assoc k l2 end.
Proof. induction l1 as [|[k' v'] t IH]; simpl; [reflexivity|]. destruct (k =? k'); [reflexivity|exact IH]. Qed.

(* looking a key up after renaming the keys and mapping the cells *)
Lemma assoc_map_ren (ren : Z -> Z) (h : Z -> ytree -> ytree) (r : row) (k : Z) :
  (forall k', In k' (map fst r) -> ren k' = ren k -> k' = k) ->
  assoc (ren k) (map (fun kv => (ren (fst kv), h (fst kv) (snd kv))) r) = option_map (h k) (assoc k r).
Proof.
  induction r as [|[k0 v0] t IH]; intro H; [reflexivity|]. simpl.
  destruct (k =? k0) eqn:E.
  - apply Z.eqb_eq in E. subst. rewrite Z.eqb_refl. reflexivity.
  - destruct (ren k =? ren k0) eqn:E2.
    + apply Z.eqb_eq in E2. symmetry in E2. apply (H k0 (or_introl eq_refl)) in E2. subst. rewrite Z.eqb_refl in E. discriminate.
    + apply IH. intros k' Hk'. apply H. right. exact Hk'.
Qed.
Lemma assoc_map_ren_none (ren : Z -> Z) (h : Z -> ytree -> ytree) (r : row) (K : Z) :
  (forall k', In k' (map fst r) -> ren k' <> K) ->
  assoc K (map (fun kv => (ren (fst kv), h (fst kv) (snd kv))) r) = None.
Proof.
  induction r as [|[k0 v0] t IH]; intro H; [reflexivity|]. simpl.
  destruct (K =? ren k0) eqn:E.
  - apply Z.eqb_eq in E. exfalso. apply (H k0 (or_introl eq_refl)). symmetry. exact E.
  - apply IH. intros k' Hk'. apply H. right. exact Hk'.
Qed.
Lemma nodupZ_NoDup l : nodupZ l = true <-> NoDup l.
Proof.
  induction l as [|x t IH]; simpl; [split; [constructor|reflexivity]|]. rewrite andb_true_iff, negb_true_iff. split.
  - intros [H1 H2]. constructor; [|apply IH; exact H2]. intro Hin. apply memZ_In in Hin. congruence.
  - intro H. inversion H; subst. split; [|apply IH; assumption].
    destruct (memZ x t) eqn:E; [apply memZ_In in E; contradiction|reflexivity].
Qed.
Lemma nodupZ_map_inj (f : Z -> Z) l : (forall x y, In x l -> In y l -> f x = f y -> x = y) -> nodupZ l = true -> nodupZ (map f l) = true.
Proof.
  intros Hinj H. apply nodupZ_NoDup in H. apply nodupZ_NoDup. induction H as [|x t Hx Ht IH]; [constructor|].
  simpl. constructor.
  - intro Hin. apply in_map_iff in Hin. destruct Hin as [y [Ey Hy]].
    assert (y = x) by (apply Hinj; [right; exact Hy|left; reflexivity|exact Ey]). subst. contradiction.
  - apply IH. intros a b Ha Hb. apply Hinj; right; assumption.
Qed.
Lemma listZ_eqb_eq a b : listZ_eqb a b = true -> a = b.
Proof.
  revert b. induction a as [|x a IH]; destruct b as [|y b]; simpl; intro H; try discriminate; [reflexivity|].
  apply andb_true_iff in H. destruct H as [H1 H2]. apply Z.eqb_eq in H1. subst. f_equal. apply IH. exact H2.
Qed.

(* frame-level: a column update is a row-wise update, and keeps the columns *)
Lemma fr_map_col_rows c g f : fr_has c f = true ->
  fr_map_col c g f = match omap (row_upd c g) (f_rows f) with Some rs => Some (mkFrame (f_cols f) rs) | None => None end.
Proof. intro H. unfold fr_map_col. rewrite H. reflexivity. Qed.

(* ================================================================== what frame_okb (strict) gives *)
Definition row_typed (decl : list (Z * (ytree -> bool))) (cols : list Z) (r : row) : Prop :=
  map fst r = cols /\ forall k v, In (k, v) r -> exists p, assoc k decl = Some p /\ p v = true.
Lemma frame_ok_inv decl f : frame_okb decl false f = true ->
  NoDup (f_cols f) /\ (forall c, In c (map fst decl) -> In c (f_cols f)) /\
  (forall c, In c (f_cols f) -> has_key c decl = true) /\
  Forall (row_typed decl (f_cols f)) (f_rows f).
Proof.
  unfold frame_okb. intro H. repeat (apply andb_true_iff in H; destruct H as [H ?]).
  split; [apply nodupZ_NoDup; exact H|]. split.
  { intros c Hc. rewrite forallb_forall in H2. apply memZ_In. apply H2. exact Hc. }
  split.
  { intros c Hc. rewrite forallb_forall in H1. specialize (H1 c Hc). rewrite andb_false_l, orb_false_r in H1. exact H1. }
  apply Forall_forall. intros r Hr. rewrite forallb_forall in H0. specialize (H0 r Hr).
  apply andb_true_iff in H0. destruct H0 as [E T]. apply listZ_eqb_eq in E. split; [exact E|].
  intros k v Hin. rewrite forallb_forall in T. specialize (T (k, v) Hin). cbn [fst snd] in T.
  assert (Hk: In k (f_cols f)) by (rewrite <- E; apply in_map_iff; exists (k, v); auto).
  rewrite forallb_forall in H1. specialize (H1 k Hk). rewrite andb_false_l, orb_false_r in H1.
  unfold has_key in H1. destruct (assoc k decl) as [p|]; [|discriminate]. exists p. auto.
Qed.

Lemma omap_all2 {A B C} (f : A -> option B) (g : A -> option C) (p : B -> C -> bool) (l : list A) :
  (forall x, In x l -> exists n n', f x = Some n /\ g x = Some n' /\ p n n' = true) ->
  exists ns ns', omap f l = Some ns /\ omap g l = Some ns' /\ all2 p ns ns' = true.
Proof.
  induction l as [|x l IH]; intro H; [exists [], []; auto|].
  destruct (H x (or_introl eq_refl)) as [n [n' [E1 [E2 E3]]]].
  destruct IH as [ns [ns' [F1 [F2 F3]]]]; [intros y Hy; apply H; right; exact Hy|].
  exists (n :: ns), (n' :: ns'). simpl. rewrite E1, E2, F1, F2, E3, F3. auto.
Qed.
Lemma omap_map {A B C} (f : B -> option C) (g : A -> B) l : omap f (map g l) = omap (fun x => f (g x)) l.
Proof. induction l as [|x l IH]; [reflexivity|]. simpl. rewrite IH. reflexivity. Qed.
Lemma omap_forallb {A B} (f : A -> option B) (q : A -> bool) l : True -> forallb q l = true -> forallb q l = true.
Proof. auto. Qed.

(* a record's denotation depends only on what its four keys hold *)
Lemma note_denote_assoc r1 r2 :
  assoc K_StartTime r1 = assoc K_StartTime r2 -> assoc K_Lane r1 = assoc K_Lane r2 ->
  assoc K_KeySounds r1 = assoc K_KeySounds r2 -> assoc K_EndTime r1 = assoc K_EndTime r2 ->
  note_denote (YMap r1) = note_denote (YMap r2).
Proof. intros A B C D. unfold note_denote, get_default. rewrite A, B, C, D. reflexivity. Qed.
Lemma hit_row_denote_assoc r1 r2 :
  assoc N_offset r1 = assoc N_offset r2 -> assoc N_column r1 = assoc N_column r2 ->
  assoc N_keysounds r1 = assoc N_keysounds r2 -> hit_row_denote r1 = hit_row_denote r2.
Proof. intros A B C. unfold hit_row_denote. rewrite A, B, C. reflexivity. Qed.

(* ================================================================== QuaHitList.to_yaml, any column order *)
Lemma hits_to_yaml_rows_gen f : fr_has N_offset f = true -> fr_has N_column f = true ->
  hits_to_yaml f
  = omap (fun r => row_upd N_column plus1 r >>= row_upd N_offset cast_int >>= row_upd N_column cast_int) (f_rows f)
    >>= fun rs => Some (map (map (fun kv => (ren1 ren_out (fst kv), snd kv))) rs).
Proof.
  intros Ho Hc. rewrite <- !omap_bind. unfold hits_to_yaml.
  rewrite (fr_map_col_rows _ _ f Hc).
  destruct (omap (row_upd N_column plus1) (f_rows f)) as [r1|]; [|reflexivity]. cbn [bind].
  rewrite fr_map_col_rows by exact Ho. cbn [f_rows f_cols].
  destruct (omap (row_upd N_offset cast_int) r1) as [r2|]; [|reflexivity]. cbn [bind].
  rewrite fr_map_col_rows by exact Hc. cbn [f_rows f_cols].
  destruct (omap (row_upd N_column cast_int) r2) as [r3|]; reflexivity.
Qed.

Definition h_hit (k : Z) (v : ytree) : ytree :=
  if k =? N_offset then YInt (trunc_cell v) else if k =? N_column then YInt (lane_cell v) else v.
Definition out_row (h : Z -> ytree -> ytree) (r : row) : row :=
  map (fun kv => (ren1 ren_out (fst kv), h (fst kv) (snd kv))) r.

Lemma cell_ks_is_ks v : cell_ks false v = is_ks v.
Proof. destruct v; reflexivity. Qed.
Lemma cell_col_plus1 c : cell_col c = true -> (plus1 c >>= cast_int) = Some (YInt (lane_cell c)).
Proof. destruct c as [z|q| | | | | |]; try discriminate; reflexivity. Qed.
Lemma is_num_cast_int o : is_num o = true -> cast_int o = Some (YInt (trunc_cell o)).
Proof. destruct o; try discriminate; reflexivity. Qed.

Lemma hit_decl_keys k p : assoc k (hit_decl false) = Some p -> k = N_offset \/ k = N_column \/ k = N_keysounds.
Proof.
  unfold hit_decl. simpl. destruct (k =? N_offset) eqn:E1; [apply Z.eqb_eq in E1; auto|].
  destruct (k =? N_column) eqn:E2; [apply Z.eqb_eq in E2; auto|].
  destruct (k =? N_keysounds) eqn:E3; [apply Z.eqb_eq in E3; auto|discriminate].
Qed.

Lemma bind_ext {A B} (x : option A) (f g : A -> option B) : (forall a, f a = g a) -> x >>= f = x >>= g.
Proof. intro H. destruct x; simpl; auto. Qed.
Lemma row_map_then_upd F c g r :
  row_map F r >>= row_upd c g = row_map (fun k v => F k v >>= (fun v => if k =? c then g v else Some v)) r.
Proof. rewrite <- row_map_bind. apply bind_ext. intro a. apply row_upd_is_map. Qed.

Lemma hit_row_pipeline cols r : row_typed (hit_decl false) cols r ->
  (row_upd N_column plus1 r >>= row_upd N_offset cast_int >>= row_upd N_column cast_int)
  = Some (map (fun kv => (fst kv, h_hit (fst kv) (snd kv))) r).
Proof.
  intros [_ T]. rewrite (row_upd_is_map N_column plus1 r), !row_map_then_upd. apply row_map_total.
  intros k v Hin. destruct (T k v Hin) as [p [Ep Hp]].
  destruct (hit_decl_keys k p Ep) as [ -> | [ -> | -> ] ]; cbv in Ep; inversion Ep; subst p; unfold h_hit; cbn [bind Z.eqb N_offset N_column N_keysounds Pos.eqb].
  - cbn. rewrite (is_num_cast_int v Hp). reflexivity.
  - cbn. pose proof (cell_col_plus1 v Hp) as E. unfold bind in E. destruct (plus1 v) as [w|]; [|discriminate]. cbn. exact E.
  - reflexivity.
Qed.

Lemma ren_out_cases k : k = N_offset \/ k = N_column \/ k = N_keysounds \/ k = N_length \/ k = N_bpm \/ k = N_multiplier \/ k = N_metronome -> True.
Proof. auto. Qed.

Lemma is_lane_lane_cell v : cell_col v = true -> is_lane (YInt (lane_cell v)) = true.
Proof.
  unfold cell_col. destruct (lane_of v) as [l|] eqn:E; [|discriminate]. intro H.
  rewrite (lane_cell_is_lane_of v l E). exact H.
Qed.

Lemma hit_decl_o : assoc N_offset (hit_decl false) = Some is_num. Proof. reflexivity. Qed.
Lemma hit_decl_c : assoc N_column (hit_decl false) = Some cell_col. Proof. reflexivity. Qed.
Lemma hit_decl_k : assoc N_keysounds (hit_decl false) = Some (cell_ks false). Proof. reflexivity. Qed.

Section HitRow.
  Variable cols : list Z.
  Variable r : row.
  Hypothesis Hnd : NoDup cols.
  Hypothesis Hall : forall c, In c (map fst (hit_decl false)) -> In c cols.
  Hypothesis Honly : forall c, In c cols -> has_key c (hit_decl false) = true.
  Hypothesis Hty : row_typed (hit_decl false) cols r.

  Lemma hit_keys k : In k (map fst r) -> k = N_offset \/ k = N_column \/ k = N_keysounds.
  Proof.
    destruct Hty as [E _]. rewrite E. intro H. specialize (Honly k H). unfold has_key in Honly.
    destruct (assoc k (hit_decl false)) as [p|] eqn:Ep; [|discriminate]. exact (hit_decl_keys k p Ep).
  Qed.
  Lemma hit_get k : In k (map fst (hit_decl false)) -> exists v p, assoc k r = Some v /\ assoc k (hit_decl false) = Some p /\ p v = true.
  Proof.
    intro H. destruct Hty as [E T]. assert (M: memZ k (map fst r) = true) by (apply memZ_In; rewrite E; apply Hall; exact H).
    destruct (assoc_mem k r M) as [v Ev]. destruct (T k v (assoc_In _ _ _ Ev)) as [p [Ep Hp]]. exists v, p. auto.
  Qed.

  Lemma hit_out_row_ok :
    rec_okb note_keys (YMap (out_row h_hit r)) = true /\
    exists n n', note_denote (YMap (out_row h_hit r)) = Some n /\ hit_row_denote r = Some n' /\ note_closeb n n' = true.
  Proof.
    destruct (hit_get N_offset) as [o [po [Eo [Epo Ho]]]]; [simpl; auto|].
    destruct (hit_get N_column) as [c [pc [Ec [Epc Hc]]]]; [simpl; auto|].
    destruct (hit_get N_keysounds) as [k [pk [Ek [Epk Hk]]]]; [simpl; auto|].
    rewrite hit_decl_o in Epo. rewrite hit_decl_c in Epc. rewrite hit_decl_k in Epk.
    inversion Epo; inversion Epc; inversion Epk; subst po pc pk. clear Epo Epc Epk.
    rewrite cell_ks_is_ks in Hk.
    assert (A1: assoc K_StartTime (out_row h_hit r) = Some (YInt (trunc_cell o))).
    { change K_StartTime with (ren1 ren_out N_offset). unfold out_row. rewrite assoc_map_ren.
      - rewrite Eo. reflexivity.
      - intros k' Hk'. destruct (hit_keys k' Hk') as [ -> | [ -> | -> ] ]; cbv; intro X; try reflexivity; discriminate. }
    assert (A2: assoc K_Lane (out_row h_hit r) = Some (YInt (lane_cell c))).
    { change K_Lane with (ren1 ren_out N_column). unfold out_row. rewrite assoc_map_ren.
      - rewrite Ec. reflexivity.
      - intros k' Hk'. destruct (hit_keys k' Hk') as [ -> | [ -> | -> ] ]; cbv; intro X; try reflexivity; discriminate. }
    assert (A3: assoc K_KeySounds (out_row h_hit r) = Some k).
    { change K_KeySounds with (ren1 ren_out N_keysounds). unfold out_row. rewrite assoc_map_ren.
      - rewrite Ek. reflexivity.
      - intros k' Hk'. destruct (hit_keys k' Hk') as [ -> | [ -> | -> ] ]; cbv; intro X; try reflexivity; discriminate. }
    assert (A4: assoc K_EndTime (out_row h_hit r) = None).
    { unfold out_row. apply assoc_map_ren_none.
      intros k' Hk'. destruct (hit_keys k' Hk') as [ -> | [ -> | -> ] ]; cbv; discriminate. }
    assert (OK: hit_ok (o, c, k) = true) by (unfold hit_ok; rewrite Ho, Hc, Hk; reflexivity).
    destruct (hit_out_ok (o, c, k) OK) as [_ [n [n' [D1 [D2 D3]]]]].
    split.
    - unfold rec_okb. apply andb_true_iff. split.
      + unfold out_row. rewrite map_map. cbn [fst].
        rewrite <- (map_map fst (ren1 ren_out)). apply nodupZ_map_inj.
        * intros x y Hx Hy. destruct (hit_keys x Hx) as [ -> | [ -> | -> ] ]; destruct (hit_keys y Hy) as [ -> | [ -> | -> ] ]; cbv; intro X; try reflexivity; discriminate.
        * apply nodupZ_NoDup. destruct Hty as [E _]. rewrite E. exact Hnd.
      + apply forallb_forall. intros [k' v'] Hin. unfold out_row in Hin. apply in_map_iff in Hin.
        destruct Hin as [[k0 v0] [E Hin]]. cbn [fst snd] in E. inversion E; subst k' v'. clear E.
        destruct Hty as [_ T]. destruct (T k0 v0 Hin) as [p [Ep Hp]].
        destruct (hit_decl_keys k0 p Ep) as [ -> | [ -> | -> ] ];
          [rewrite hit_decl_o in Ep|rewrite hit_decl_c in Ep|rewrite hit_decl_k in Ep]; inversion Ep; subst p; cbn [fst snd].
        * reflexivity.
        * change (is_lane (YInt (lane_cell v0)) = true). apply is_lane_lane_cell. exact Hp.
        * change (is_ks v0 = true). rewrite <- cell_ks_is_ks. exact Hp.
    - exists n, n'. split; [|split; [|exact D3]].
      + rewrite <- D1. apply note_denote_assoc; [rewrite A1|rewrite A2|rewrite A3|rewrite A4]; reflexivity.
      + rewrite <- D2. apply hit_row_denote_assoc; [rewrite Eo|rewrite Ec|rewrite Ek]; reflexivity.
  Qed.
End HitRow.

Lemma out_row_split h r :
  map (fun kv => (ren1 ren_out (fst kv), snd kv)) (map (fun kv => (fst kv, h (fst kv) (snd kv))) r) = out_row h r.
Proof. unfold out_row. rewrite map_map. reflexivity. Qed.

Definition SectionOK {R} (rowden : R -> option noteD) (src : list R) (allowed : list (Z * (ytree -> bool))) (rows : list row) : Prop :=
  forallb (rec_okb allowed) (map YMap rows) = true /\
  exists ns ns', omap note_denote (map YMap rows) = Some ns /\ omap rowden src = Some ns' /\ all2 note_closeb ns ns' = true.

Theorem hits_to_yaml_ok f : frame_okb (hit_decl false) false f = true ->
  exists rows, hits_to_yaml f = Some rows /\ SectionOK hit_row_denote (f_rows f) note_keys rows.
Proof.
  intro H. destruct (frame_ok_inv _ _ H) as [Hnd [Hall [Honly Hrows]]]. rewrite Forall_forall in Hrows.
  exists (map (out_row h_hit) (f_rows f)). split.
  - rewrite hits_to_yaml_rows_gen; try (apply memZ_In; apply Hall; simpl; auto).
    rewrite (omap_some_map _ (fun r => map (fun kv => (fst kv, h_hit (fst kv) (snd kv))) r)).
    + cbn [bind]. f_equal. rewrite map_map. apply map_ext. intro r. apply out_row_split.
    + intros r Hr. exact (hit_row_pipeline _ r (Hrows r Hr)).
  - assert (P: forall r, In r (f_rows f) ->
               rec_okb note_keys (YMap (out_row h_hit r)) = true /\
               exists n n', note_denote (YMap (out_row h_hit r)) = Some n /\ hit_row_denote r = Some n' /\ note_closeb n n' = true).
    { intros r Hr. exact (hit_out_row_ok (f_cols f) r Hnd Hall Honly (Hrows r Hr)). }
    split.
    + rewrite map_map. apply forallb_forall. intros y Hy. apply in_map_iff in Hy. destruct Hy as [r [<- Hr]]. apply (P r Hr).
    + rewrite map_map, omap_map.
      destruct (omap_all2 (fun r => note_denote (YMap (out_row h_hit r))) hit_row_denote note_closeb (f_rows f)) as [ns [ns' X]].
      * intros r Hr. apply (P r Hr).
      * exists ns, ns'. exact X.
Qed.

(* ================================================================== QuaHoldList.to_yaml, any column order *)
Lemma omap_Some {A B} (g : A -> B) l : omap (fun x => Some (g x)) l = Some (map g l).
Proof. induction l as [|x l IH]; [reflexivity|]. simpl. rewrite IH. reflexivity. Qed.
Lemma omap_ext {A B} (f g : A -> option B) l : (forall x, In x l -> f x = g x) -> omap f l = omap g l.
Proof.
  induction l as [|x l IH]; intro H; [reflexivity|]. simpl. rewrite (H x (or_introl eq_refl)).
  rewrite IH; [reflexivity|]. intros y Hy. apply H. right. exact Hy.
Qed.
Lemma assoc_remove_key {A} k c (l : list (Z * A)) : k <> c -> assoc k (remove_key c l) = assoc k l.
Proof.
  intro N. induction l as [|[k' v'] t IH]; [reflexivity|]. simpl. destruct (c =? k') eqn:E.
  - apply Z.eqb_eq in E. subst. destruct (k =? k') eqn:E2; [apply Z.eqb_eq in E2; contradiction|exact IH].
  - simpl. destruct (k =? k'); [reflexivity|exact IH].
Qed.
Lemma In_remove_key {A} k v c (l : list (Z * A)) : In (k, v) (remove_key c l) -> In (k, v) l /\ k <> c.
Proof.
  induction l as [|[k' v'] t IH]; simpl; [tauto|]. destruct (c =? k') eqn:E.
  - intro H. destruct (IH H). auto.
  - intros [H|H]; [inversion H; subst; split; [auto|intro X; subst; rewrite Z.eqb_refl in E; discriminate]|destruct (IH H); auto].
Qed.
Lemma keys_remove_key {A} c (l : list (Z * A)) : map fst (remove_key c l) = filter (fun k => negb (k =? c)) (map fst l).
Proof.
  induction l as [|[k' v'] t IH]; [reflexivity|]. simpl. rewrite (Z.eqb_sym k' c). destruct (c =? k'); simpl; rewrite IH; reflexivity.
Qed.
Lemma is_num_add o l : is_num o = true -> is_num l = true -> exists v, cell_add o l = Some v /\ is_num v = true.
Proof. destruct o; try discriminate; destruct l; try discriminate; simpl; eauto. Qed.

Definition hold_sum (r : row) : option ytree :=
  match assoc N_offset r, assoc N_length r with Some o, Some l => cell_add o l | _, _ => None end.
Definition hold_row_steps (r : row) : option row :=
  hold_sum r >>= fun v =>
  row_upd N_column plus1 (remove_key N_length (r ++ [(K_EndTime, v)])) >>= row_upd N_offset cast_int >>=
  row_upd N_column cast_int >>= row_upd K_EndTime cast_int.

Lemma filter_In_keep (p : Z -> bool) x l : In x l -> p x = true -> In x (filter p l).
Proof. intros. apply filter_In. auto. Qed.

Lemma holds_to_yaml_rows_gen f :
  In N_offset (f_cols f) -> In N_column (f_cols f) -> In N_length (f_cols f) -> ~ In K_EndTime (f_cols f) ->
  (forall r, In r (f_rows f) -> map fst r = f_cols f) ->
  holds_to_yaml f = omap hold_row_steps (f_rows f) >>= fun rs => Some (map (map (fun kv => (ren1 ren_out (fst kv), snd kv))) rs).
Proof.
  intros Io Ic Il Ne Hk. unfold holds_to_yaml, fr_set_col.
  assert (Hf: fr_has K_EndTime f = false).
  { unfold fr_has. destruct (memZ K_EndTime (f_cols f)) eqn:E; [apply memZ_In in E; contradiction|reflexivity]. }
  rewrite Hf.
  rewrite (omap_ext _ (fun r => hold_sum r >>= fun v => Some (r ++ [(K_EndTime, v)]))).
  2:{ intros r Hr. unfold hold_sum. destruct (assoc N_offset r) as [o|]; [|reflexivity]. destruct (assoc N_length r) as [l|]; [|reflexivity].
      destruct (cell_add o l) as [v|]; [|reflexivity]. cbn [bind].
      unfold has_key. rewrite assoc_notin; [reflexivity|]. rewrite (Hk r Hr).
      destruct (memZ K_EndTime (f_cols f)) eqn:E; [apply memZ_In in E; contradiction|reflexivity]. }
  rewrite (omap_ext hold_row_steps
            (fun r => (hold_sum r >>= (fun v => Some (r ++ [(K_EndTime, v)]))) >>=
                      (fun r' => row_upd N_column plus1 (remove_key N_length r') >>= row_upd N_offset cast_int >>= row_upd N_column cast_int >>= row_upd K_EndTime cast_int))).
  2:{ intros r _. unfold hold_row_steps. destruct (hold_sum r); reflexivity. }
  rewrite <- omap_bind.
  destruct (omap (fun r => hold_sum r >>= (fun v => Some (r ++ [(K_EndTime, v)]))) (f_rows f)) as [r0|]; [|reflexivity].
  cbn [bind]. unfold fr_drop.
  assert (H1: fr_has N_length {| f_cols := f_cols f ++ [K_EndTime]; f_rows := r0 |} = true).
  { apply memZ_In. cbn [f_cols]. apply in_or_app. left. exact Il. }
  rewrite H1. cbn [bind f_cols f_rows].
  set (cols' := filter (fun k => negb (k =? N_length)) (f_cols f ++ [K_EndTime])).
  assert (Mc: memZ N_column cols' = true) by (apply memZ_In; apply filter_In_keep; [apply in_or_app; left; exact Ic|reflexivity]).
  assert (Mo: memZ N_offset cols' = true) by (apply memZ_In; apply filter_In_keep; [apply in_or_app; left; exact Io|reflexivity]).
  assert (Me: memZ K_EndTime cols' = true) by (apply memZ_In; apply filter_In_keep; [apply in_or_app; right; left; reflexivity|reflexivity]).
  rewrite <- !omap_bind.
  rewrite fr_map_col_rows by exact Mc. cbn [f_rows f_cols]. rewrite omap_map.
  destruct (omap (fun x => row_upd N_column plus1 (remove_key N_length x)) r0) as [r1|]; [|reflexivity]. cbn [bind].
  rewrite fr_map_col_rows by exact Mo. cbn [f_rows f_cols].
  destruct (omap (row_upd N_offset cast_int) r1) as [r2|]; [|reflexivity]. cbn [bind].
  rewrite fr_map_col_rows by exact Mc. cbn [f_rows f_cols].
  destruct (omap (row_upd N_column cast_int) r2) as [r3|]; [|reflexivity]. cbn [bind].
  rewrite fr_map_col_rows by exact Me. cbn [f_rows f_cols].
  destruct (omap (row_upd K_EndTime cast_int) r3) as [r4|]; reflexivity.
Qed.

Definition h_hold (k : Z) (v : ytree) : ytree :=
  if k =? N_offset then YInt (trunc_cell v) else if k =? N_column then YInt (lane_cell v)
  else if k =? K_EndTime then YInt (trunc_cell v) else v.
Definition hold_mid (r : row) (v : ytree) : row := remove_key N_length (r ++ [(K_EndTime, v)]).

Lemma hold_decl_keys k p : assoc k (hold_decl false) = Some p ->
  k = N_offset \/ k = N_column \/ k = N_keysounds \/ k = N_length.
Proof.
  unfold hold_decl. simpl. destruct (k =? N_offset) eqn:E1; [apply Z.eqb_eq in E1; auto|].
  destruct (k =? N_column) eqn:E2; [apply Z.eqb_eq in E2; auto|].
  destruct (k =? N_keysounds) eqn:E3; [apply Z.eqb_eq in E3; auto|].
  destruct (k =? N_length) eqn:E4; [apply Z.eqb_eq in E4; auto 6|discriminate].
Qed.
Lemma hold_decl_o : assoc N_offset (hold_decl false) = Some is_num. Proof. reflexivity. Qed.
Lemma hold_decl_c : assoc N_column (hold_decl false) = Some cell_col. Proof. reflexivity. Qed.
Lemma hold_decl_k : assoc N_keysounds (hold_decl false) = Some (cell_ks false). Proof. reflexivity. Qed.
Lemma hold_decl_l : assoc N_length (hold_decl false) = Some is_num. Proof. reflexivity. Qed.

Lemma lt1_Qred a b : lt1 a b = true -> lt1 a (Qred b) = true.
Proof.
  intro H. apply lt1_true in H. apply lt1_true.
  setoid_replace (a - Qred b)%Q with (a - b)%Q; [exact H|]. rewrite Qred_correct. reflexivity.
Qed.

Local Opaque lane_of ks_of is_ks texts_eqb Qred Qplus.
Lemma hold_canon_ok o c k l v :
  is_num o = true -> cell_col c = true -> is_ks k = true -> is_num l = true -> cell_add o l = Some v ->
  exists n n',
    note_denote (YMap [(K_StartTime, YInt (trunc_cell o)); (K_Lane, YInt (lane_cell c)); (K_KeySounds, k); (K_EndTime, YInt (trunc_cell v))]) = Some n /\
    hold_row_denote [(N_offset, o); (N_column, c); (N_keysounds, k); (N_length, l)] = Some n' /\ note_closeb n n' = true.
Proof.
  intros Ho Hc Hk Hl Ev.
  unfold cell_col in Hc. destruct (lane_of c) as [ln|] eqn:El; [|discriminate].
  pose proof (lane_cell_is_lane_of c ln El) as Hln.
  destruct (is_ks_ks_of k Hk) as [ks Eks].
  assert (No: exists qo, num o = Some qo) by (destruct o; try discriminate; simpl; eauto). destruct No as [qo Eo].
  assert (Nl: exists ql, num l = Some ql) by (destruct l; try discriminate; simpl; eauto). destruct Nl as [ql Eql].
  destruct (cast_int_close o qo Eo) as [z [Ez Cz]]. rewrite (is_num_cast_int o Ho) in Ez. inversion Ez as [Ez'].
  destruct (hold_end_close o l qo ql Eo Eql) as [v' [z' [Ev' [Ez2 Cz2]]]]. rewrite Ev in Ev'. inversion Ev'; subst v'.
  assert (Hv: is_num v = true) by (destruct (is_num_add o l Ho Hl) as [w [Ew Hw]]; rewrite Ev in Ew; inversion Ew; subst; exact Hw).
  rewrite (is_num_cast_int v Hv) in Ez2. inversion Ez2 as [Ez2'].
  exists (mkNote ln (inject_Z (trunc_cell o)) (Some (inject_Z (trunc_cell v))) ks), (mkNote ln qo (Some (Qred (qo + ql))) ks).
  unfold note_denote, hold_row_denote, get_default, K_KeySounds, K_StartTime, K_Lane, K_EndTime, N_offset, N_column, N_keysounds, N_length; simpl.
  rewrite ?Hln, ?El, ?Eks, ?Eo, ?Eql. split; [reflexivity|]. split; [reflexivity|].
  unfold note_closeb. cbn [n_lane n_start n_end n_ks]. rewrite Z.eqb_refl, texts_eqb_refl. rewrite Ez', Cz. rewrite Ez2'. rewrite (lt1_Qred _ _ Cz2). reflexivity.
Qed.
Local Transparent lane_of ks_of is_ks texts_eqb Qred Qplus.

Lemma hold_row_denote_assoc r1 r2 :
  assoc N_offset r1 = assoc N_offset r2 -> assoc N_column r1 = assoc N_column r2 ->
  assoc N_keysounds r1 = assoc N_keysounds r2 -> assoc N_length r1 = assoc N_length r2 -> hold_row_denote r1 = hold_row_denote r2.
Proof. intros A B C D. unfold hold_row_denote. rewrite A, B, C, D. reflexivity. Qed.

Lemma NoDup_app_singleton (l : list Z) x : NoDup l -> ~ In x l -> NoDup (l ++ [x]).
Proof.
  intros H N. induction H as [|y t Hy Ht IH]; [constructor; [simpl; tauto|constructor]|].
  simpl. constructor.
  - intro X. apply in_app_or in X. destruct X as [X|[X|[]]]; [contradiction|subst; apply N; left; reflexivity].
  - apply IH. intro X. apply N. right. exact X.
Qed.

Section HoldRow.
  Variable cols : list Z.
  Variable r : row.
  Hypothesis Hnd : NoDup cols.
  Hypothesis Hall : forall c, In c (map fst (hold_decl false)) -> In c cols.
  Hypothesis Honly : forall c, In c cols -> has_key c (hold_decl false) = true.
  Hypothesis Hty : row_typed (hold_decl false) cols r.

  Lemma hold_keys k : In k (map fst r) -> k = N_offset \/ k = N_column \/ k = N_keysounds \/ k = N_length.
  Proof.
    destruct Hty as [E _]. rewrite E. intro H. specialize (Honly k H). unfold has_key in Honly.
    destruct (assoc k (hold_decl false)) as [p|] eqn:Ep; [|discriminate]. exact (hold_decl_keys k p Ep).
  Qed.
  Lemma hold_get k : In k (map fst (hold_decl false)) -> exists v p, assoc k r = Some v /\ assoc k (hold_decl false) = Some p /\ p v = true.
  Proof.
    intro H. destruct Hty as [E T]. assert (M: memZ k (map fst r) = true) by (apply memZ_In; rewrite E; apply Hall; exact H).
    destruct (assoc_mem k r M) as [v Ev]. destruct (T k v (assoc_In _ _ _ Ev)) as [p [Ep Hp]]. exists v, p. auto.
  Qed.
  Lemma hold_no_end : assoc K_EndTime r = None.
  Proof.
    apply assoc_notin. destruct (memZ K_EndTime (map fst r)) eqn:E; [|reflexivity].
    apply memZ_In in E. destruct (hold_keys _ E) as [X|[X|[X|X]]]; discriminate X.
  Qed.
  Lemma hold_mid_keys v k : In k (map fst (hold_mid r v)) ->
    k = N_offset \/ k = N_column \/ k = N_keysounds \/ k = K_EndTime.
  Proof.
    unfold hold_mid. rewrite keys_remove_key. intro H. apply filter_In in H. destruct H as [H N].
    rewrite map_app in H. apply in_app_or in H. destruct H as [H|H].
    - destruct (hold_keys k H) as [X|[X|[X|X]]]; auto. subst. discriminate N.
    - simpl in H. destruct H as [<-|[]]. auto 6.
  Qed.

  Lemma hold_row_pipeline : exists o c k l v,
    assoc N_offset r = Some o /\ assoc N_column r = Some c /\ assoc N_keysounds r = Some k /\ assoc N_length r = Some l /\
    is_num o = true /\ cell_col c = true /\ is_ks k = true /\ is_num l = true /\ cell_add o l = Some v /\ is_num v = true /\
    hold_row_steps r = Some (map (fun kv => (fst kv, h_hold (fst kv) (snd kv))) (hold_mid r v)).
  Proof.
    destruct (hold_get N_offset) as [o [po [Eo [Epo Ho]]]]; [simpl; auto|].
    destruct (hold_get N_column) as [c [pc [Ec [Epc Hc]]]]; [simpl; auto|].
    destruct (hold_get N_keysounds) as [k [pk [Ek [Epk Hk]]]]; [simpl; auto|].
    destruct (hold_get N_length) as [l [pl [El [Epl Hl]]]]; [simpl; auto 6|].
    rewrite hold_decl_o in Epo. rewrite hold_decl_c in Epc. rewrite hold_decl_k in Epk. rewrite hold_decl_l in Epl.
    inversion Epo; inversion Epc; inversion Epk; inversion Epl; subst po pc pk pl. clear Epo Epc Epk Epl.
    rewrite cell_ks_is_ks in Hk.
    destruct (is_num_add o l Ho Hl) as [v [Ev Hv]].
    exists o, c, k, l, v. repeat (split; [assumption|]).
    unfold hold_row_steps, hold_sum. rewrite Eo, El, Ev. cbn [bind]. fold (hold_mid r v).
    rewrite (row_upd_is_map N_column plus1), !row_map_then_upd. apply row_map_total.
    intros k0 v0 Hin. unfold hold_mid in Hin. apply In_remove_key in Hin. destruct Hin as [Hin Nk].
    apply in_app_or in Hin. destruct Hin as [Hin|Hin].
    - destruct Hty as [_ T]. destruct (T k0 v0 Hin) as [p [Ep Hp]].
      destruct (hold_decl_keys k0 p Ep) as [ -> | [ -> | [ -> | -> ] ] ]; [| | |contradiction].
      + rewrite hold_decl_o in Ep. inversion Ep; subst p. unfold h_hold. cbn. rewrite (is_num_cast_int v0 Hp). reflexivity.
      + rewrite hold_decl_c in Ep. inversion Ep; subst p. unfold h_hold. cbn.
        pose proof (cell_col_plus1 v0 Hp) as E. unfold bind in E. destruct (plus1 v0) as [w|]; [|discriminate]. cbn. rewrite E. reflexivity.
      + reflexivity.
    - simpl in Hin. destruct Hin as [Hin|[]]. inversion Hin; subst k0 v0. unfold h_hold. cbn. rewrite (is_num_cast_int v Hv). reflexivity.
  Qed.

  Definition hold_v : ytree := match hold_sum r with Some v => v | None => YNull end.
  Lemma hold_row_ok :
    hold_row_steps r = Some (map (fun kv => (fst kv, h_hold (fst kv) (snd kv))) (hold_mid r hold_v)) /\
    rec_okb note_keys (YMap (out_row h_hold (hold_mid r hold_v))) = true /\
    exists n n', note_denote (YMap (out_row h_hold (hold_mid r hold_v))) = Some n /\ hold_row_denote r = Some n' /\ note_closeb n n' = true.
  Proof.
    destruct hold_row_pipeline as [o [c [k [l [v [Eo [Ec [Ek [El [Ho [Hc [Hk [Hl [Ev [Hv Hs]]]]]]]]]]]]]]].
    assert (Ehv: hold_v = v) by (unfold hold_v, hold_sum; rewrite Eo, El, Ev; reflexivity). rewrite Ehv.
    split; [exact Hs|].
    pose proof hold_no_end as Ne.
    assert (M: forall k0, k0 <> N_length -> assoc k0 (hold_mid r v) = match assoc k0 r with Some x => Some x | None => assoc k0 [(K_EndTime, v)] end).
    { intros k0 N. unfold hold_mid. rewrite assoc_remove_key by exact N. apply assoc_app. }
    assert (A1: assoc K_StartTime (out_row h_hold (hold_mid r v)) = Some (YInt (trunc_cell o))).
    { change K_StartTime with (ren1 ren_out N_offset). unfold out_row. rewrite assoc_map_ren.
      - rewrite M by discriminate. rewrite Eo. reflexivity.
      - intros k' Hk'. destruct (hold_mid_keys v k' Hk') as [ -> | [ -> | [ -> | -> ] ] ]; cbv; intro X; try reflexivity; discriminate. }
    assert (A2: assoc K_Lane (out_row h_hold (hold_mid r v)) = Some (YInt (lane_cell c))).
    { change K_Lane with (ren1 ren_out N_column). unfold out_row. rewrite assoc_map_ren.
      - rewrite M by discriminate. rewrite Ec. reflexivity.
      - intros k' Hk'. destruct (hold_mid_keys v k' Hk') as [ -> | [ -> | [ -> | -> ] ] ]; cbv; intro X; try reflexivity; discriminate. }
    assert (A3: assoc K_KeySounds (out_row h_hold (hold_mid r v)) = Some k).
    { change K_KeySounds with (ren1 ren_out N_keysounds). unfold out_row. rewrite assoc_map_ren.
      - rewrite M by discriminate. rewrite Ek. reflexivity.
      - intros k' Hk'. destruct (hold_mid_keys v k' Hk') as [ -> | [ -> | [ -> | -> ] ] ]; cbv; intro X; try reflexivity; discriminate. }
    assert (A4: assoc K_EndTime (out_row h_hold (hold_mid r v)) = Some (YInt (trunc_cell v))).
    { change K_EndTime with (ren1 ren_out K_EndTime) at 1. unfold out_row. rewrite assoc_map_ren.
      - rewrite M by discriminate. rewrite Ne. reflexivity.
      - intros k' Hk'. destruct (hold_mid_keys v k' Hk') as [ -> | [ -> | [ -> | -> ] ] ]; cbv; intro X; try reflexivity; discriminate. }
    destruct (hold_canon_ok o c k l v Ho Hc Hk Hl Ev) as [n [n' [D1 [D2 D3]]]].
    split.
    - unfold rec_okb. apply andb_true_iff. split.
      + unfold out_row. rewrite map_map. cbn [fst].
        rewrite <- (map_map fst (ren1 ren_out)). apply nodupZ_map_inj.
        * intros x y Hx Hy. destruct (hold_mid_keys v x Hx) as [ -> | [ -> | [ -> | -> ] ] ];
            destruct (hold_mid_keys v y Hy) as [ -> | [ -> | [ -> | -> ] ] ]; cbv; intro X; try reflexivity; discriminate.
        * apply nodupZ_NoDup. unfold hold_mid. rewrite keys_remove_key. apply NoDup_filter.
          rewrite map_app. destruct Hty as [E _]. rewrite E. cbn [map fst].
          apply NoDup_app_singleton; [exact Hnd|]. intro X. rewrite <- E in X. destruct (hold_keys _ X) as [Y|[Y|[Y|Y]]]; discriminate Y.
      + apply forallb_forall. intros [k' v'] Hin. unfold out_row in Hin. apply in_map_iff in Hin.
        destruct Hin as [[k0 v0] [E Hin]]. cbn [fst snd] in E. inversion E; subst k' v'. clear E.
        unfold hold_mid in Hin. apply In_remove_key in Hin. destruct Hin as [Hin Nk]. apply in_app_or in Hin. destruct Hin as [Hin|Hin].
        * destruct Hty as [_ T]. destruct (T k0 v0 Hin) as [p [Ep Hp]].
          destruct (hold_decl_keys k0 p Ep) as [ -> | [ -> | [ -> | -> ] ] ]; [| | |contradiction];
            [rewrite hold_decl_o in Ep|rewrite hold_decl_c in Ep|rewrite hold_decl_k in Ep]; inversion Ep; subst p; cbn [fst snd].
          -- reflexivity.
          -- change (is_lane (YInt (lane_cell v0)) = true). apply is_lane_lane_cell. exact Hp.
          -- change (is_ks v0 = true). rewrite <- cell_ks_is_ks. exact Hp.
        * simpl in Hin. destruct Hin as [Hin|[]]. inversion Hin; subst k0 v0. reflexivity.
    - exists n, n'. split; [|split; [|exact D3]].
      + rewrite <- D1. apply note_denote_assoc; [rewrite A1|rewrite A2|rewrite A3|rewrite A4]; reflexivity.
      + rewrite <- D2. apply hold_row_denote_assoc; [rewrite Eo|rewrite Ec|rewrite Ek|rewrite El]; reflexivity.
  Qed.
End HoldRow.

Theorem holds_to_yaml_ok f : frame_okb (hold_decl false) false f = true ->
  exists rows, holds_to_yaml f = Some rows /\ SectionOK hold_row_denote (f_rows f) note_keys rows.
Proof.
  intro H. destruct (frame_ok_inv _ _ H) as [Hnd [Hall [Honly Hrows]]]. rewrite Forall_forall in Hrows.
  assert (P: forall r, In r (f_rows f) -> _) by (intros r Hr; exact (hold_row_ok (f_cols f) r Hnd Hall Honly (Hrows r Hr))).
  exists (map (fun r => out_row h_hold (hold_mid r (hold_v r))) (f_rows f)). split.
  - rewrite holds_to_yaml_rows_gen.
    + rewrite (omap_some_map _ (fun r => map (fun kv => (fst kv, h_hold (fst kv) (snd kv))) (hold_mid r (hold_v r)))).
      * cbn [bind]. f_equal. rewrite map_map. apply map_ext. intro r. apply out_row_split.
      * intros r Hr. apply (P r Hr).
    + apply Hall; simpl; auto.
    + apply Hall; simpl; auto.
    + apply Hall; simpl; auto 6.
    + intro X. specialize (Honly _ X). discriminate Honly.
    + intros r Hr. apply (Hrows r Hr).
  - split.
    + rewrite map_map. apply forallb_forall. intros y Hy. apply in_map_iff in Hy. destruct Hy as [r [<- Hr]]. apply (P r Hr).
    + rewrite map_map, omap_map.
      destruct (omap_all2 (fun r => note_denote (YMap (out_row h_hold (hold_mid r (hold_v r))))) hold_row_denote note_closeb (f_rows f)) as [ns [ns' X]].
      * intros r Hr. apply (P r Hr).
      * exists ns, ns'. exact X.
Qed.

(* ================================================================== QuaSvList.to_yaml / QuaBpmList.to_yaml *)
Definition float_cell (v : ytree) : ytree := match v with YInt z => YFloat (inject_Z z) | _ => v end.
Lemma is_num_cast_float v : is_num v = true -> cast_float v = Some (float_cell v) /\ is_float (float_cell v) = true /\ num (float_cell v) = num v.
Proof. destruct v; try discriminate; simpl; auto. Qed.

Definition PointsOK (kval : Z) (dflt : Q) (cval : Z) (src : list row) (allowed : list (Z * (ytree -> bool))) (rows : list row) : Prop :=
  forallb (rec_okb allowed) (map YMap rows) = true /\
  exists ps ps', omap (point_denote kval dflt) (map YMap rows) = Some ps /\ omap (point_row_denote cval) src = Some ps' /\
                 all2 pt_closeb ps ps' = true.

Lemma point_denote_assoc kval dflt r1 r2 :
  assoc K_StartTime r1 = assoc K_StartTime r2 -> assoc kval r1 = assoc kval r2 ->
  point_denote kval dflt (YMap r1) = point_denote kval dflt (YMap r2).
Proof. intros A B. unfold point_denote, get_default. rewrite A, B. reflexivity. Qed.

(* the two-column core shared by both lists: offset -> int, value column -> float, renamed *)
Section Points.
  Variable cval kval : Z.                       (* N_multiplier / K_Multiplier, N_bpm / K_Bpm *)
  Variable decl : list (Z * (ytree -> bool)).
  Variable ren : list (Z * Z).
  Hypothesis Hcv : cval <> N_offset.
  Hypothesis Hren_o : ren1 ren N_offset = K_StartTime.
  Hypothesis Hren_v : ren1 ren cval = kval.
  Hypothesis Hkv : kval <> K_StartTime.
  Hypothesis Hdecl_o : assoc N_offset decl = Some is_num.
  Hypothesis Hdecl_v : assoc cval decl = Some is_num.
  Hypothesis Hdecl_num : forall k p, assoc k decl = Some p -> p = is_num.
  (* renaming is injective on the declared columns and sends only offset / cval to StartTime / kval *)
  Hypothesis Hren_inj : forall x y, has_key x decl = true -> has_key y decl = true -> ren1 ren x = ren1 ren y -> x = y.

  Definition h_pt (k : Z) (v : ytree) : ytree :=
    if k =? N_offset then YInt (trunc_cell v) else if k =? cval then float_cell v else v.
  Definition pt_out (r : row) : row := map (fun kv => (ren1 ren (fst kv), h_pt (fst kv) (snd kv))) r.

  Variable cols : list Z.
  Variable r : row.
  Hypothesis Hnd : NoDup cols.
  Hypothesis Hall : forall c, In c (map fst decl) -> In c cols.
  Hypothesis Honly : forall c, In c cols -> has_key c decl = true.
  Hypothesis Hty : row_typed decl cols r.

  Lemma pt_key_ok k : In k (map fst r) -> has_key k decl = true.
  Proof. destruct Hty as [E _]. rewrite E. apply Honly. Qed.
  Lemma pt_get k : has_key k decl = true -> In k (map fst decl) -> exists v, assoc k r = Some v /\ is_num v = true.
  Proof.
    intros _ H. destruct Hty as [E T]. assert (M: memZ k (map fst r) = true) by (apply memZ_In; rewrite E; apply Hall; exact H).
    destruct (assoc_mem k r M) as [v Ev]. destruct (T k v (assoc_In _ _ _ Ev)) as [p [Ep Hp]].
    rewrite (Hdecl_num k p Ep) in Hp. eauto.
  Qed.
  Lemma assoc_In_keys {A} k (l : list (Z * A)) v : assoc k l = Some v -> In k (map fst l).
  Proof. intro H. apply assoc_In in H. apply in_map_iff. exists (k, v). auto. Qed.

  Lemma pt_pipeline :
    (row_upd N_offset cast_int r >>= row_upd cval cast_float) = Some (map (fun kv => (fst kv, h_pt (fst kv) (snd kv))) r).
  Proof.
    rewrite (row_upd_is_map N_offset cast_int), row_map_then_upd. apply row_map_total.
    intros k v Hin. destruct Hty as [_ T]. destruct (T k v Hin) as [p [Ep Hp]]. rewrite (Hdecl_num k p Ep) in Hp.
    unfold h_pt. destruct (k =? N_offset) eqn:E1.
    - apply Z.eqb_eq in E1. subst k. rewrite (is_num_cast_int v Hp). cbn [bind].
      destruct (N_offset =? cval) eqn:E2; [apply Z.eqb_eq in E2; symmetry in E2; contradiction|reflexivity].
    - cbn [bind]. destruct (k =? cval); [apply is_num_cast_float; exact Hp|reflexivity].
  Qed.

  Lemma pt_out_ok (allowed : list (Z * (ytree -> bool))) (dflt : Q) :
    assoc K_StartTime allowed = Some is_int -> assoc kval allowed = Some is_float ->
    (forall k, has_key k decl = true -> k <> N_offset -> k <> cval -> assoc (ren1 ren k) allowed = Some is_num) ->
    exists o x, assoc N_offset r = Some o /\ assoc cval r = Some x /\ is_num o = true /\ is_num x = true /\
      assoc K_StartTime (pt_out r) = Some (YInt (trunc_cell o)) /\ assoc kval (pt_out r) = Some (float_cell x) /\
      nodupZ (map fst (pt_out r)) = true /\
      forallb (fun kv => match assoc (fst kv) allowed with Some p => p (snd kv) | None => false end) (pt_out r) = true.
  Proof.
    intros Ao Av Aother.
    assert (Ko: has_key N_offset decl = true) by (unfold has_key; rewrite Hdecl_o; reflexivity).
    assert (Kv: has_key cval decl = true) by (unfold has_key; rewrite Hdecl_v; reflexivity).
    destruct (pt_get N_offset Ko (assoc_In_keys _ _ _ Hdecl_o)) as [o [Eo Ho]].
    destruct (pt_get cval Kv (assoc_In_keys _ _ _ Hdecl_v)) as [x [Ex Hx]].
    exists o, x. repeat (split; [assumption|]).
    split; [|split; [|split]].
    - rewrite <- Hren_o. unfold pt_out. rewrite assoc_map_ren.
      + rewrite Eo. unfold h_pt. rewrite Z.eqb_refl. reflexivity.
      + intros k' Hk'. apply Hren_inj; [apply pt_key_ok; exact Hk'|exact Ko].
    - rewrite <- Hren_v. unfold pt_out. rewrite assoc_map_ren.
      + rewrite Ex. unfold h_pt. destruct (cval =? N_offset) eqn:E; [apply Z.eqb_eq in E; contradiction|]. rewrite Z.eqb_refl. reflexivity.
      + intros k' Hk'. apply Hren_inj; [apply pt_key_ok; exact Hk'|exact Kv].
    - unfold pt_out. rewrite map_map. cbn [fst]. rewrite <- (map_map fst (ren1 ren)). apply nodupZ_map_inj.
      + intros a b Ha Hb. apply Hren_inj; apply pt_key_ok; assumption.
      + apply nodupZ_NoDup. destruct Hty as [E _]. rewrite E. exact Hnd.
    - apply forallb_forall. intros [k' v'] Hin. unfold pt_out in Hin. apply in_map_iff in Hin.
      destruct Hin as [[k0 v0] [E Hin]]. cbn [fst snd] in E. inversion E; subst k' v'. clear E. cbn [fst snd].
      destruct Hty as [_ T]. destruct (T k0 v0 Hin) as [p [Ep Hp]]. rewrite (Hdecl_num k0 p Ep) in Hp.
      assert (K0: has_key k0 decl = true) by (unfold has_key; rewrite Ep; reflexivity).
      unfold h_pt. destruct (k0 =? N_offset) eqn:E1.
      + apply Z.eqb_eq in E1. subst k0. rewrite Hren_o, Ao. reflexivity.
      + destruct (k0 =? cval) eqn:E2.
        * apply Z.eqb_eq in E2. subst k0. rewrite Hren_v, Av. apply is_num_cast_float. exact Hp.
        * rewrite (Aother k0 K0); [exact Hp| |]; intro X; subst k0; rewrite Z.eqb_refl in *; discriminate.
  Qed.
End Points.

Lemma pt_close_from_assoc kval dflt cval (R r : row) o x :
  assoc K_StartTime R = Some (YInt (trunc_cell o)) -> assoc kval R = Some (float_cell x) ->
  assoc N_offset r = Some o -> assoc cval r = Some x -> is_num o = true -> is_num x = true ->
  exists p p', point_denote kval dflt (YMap R) = Some p /\ point_row_denote cval r = Some p' /\ pt_closeb p p' = true.
Proof.
  intros A1 A2 Eo Ex Ho Hx.
  assert (No: exists qo, num o = Some qo) by (destruct o; try discriminate; simpl; eauto). destruct No as [qo Nqo].
  assert (Nx: exists qx, num x = Some qx) by (destruct x; try discriminate; simpl; eauto). destruct Nx as [qx Nqx].
  destruct (cast_int_close o qo Nqo) as [z [Ez Cz]]. rewrite (is_num_cast_int o Ho) in Ez. inversion Ez as [Ez'].
  destruct (is_num_cast_float x Hx) as [_ [_ Nf]].
  exists (inject_Z (trunc_cell o), qx), (qo, qx).
  unfold point_denote, point_row_denote, get_default. rewrite A1, A2, Eo, Ex, Nf, Nqo, Nqx. cbn [num].
  split; [reflexivity|]. split; [reflexivity|].
  unfold pt_closeb. cbn [fst snd]. rewrite Ez', Cz. apply Qeq_bool_iff. reflexivity.
Qed.

Definition ren_sv : list (Z * Z) := [(N_offset, K_StartTime); (N_multiplier, K_Multiplier)].
Definition ren_bpm : list (Z * Z) := [(N_offset, K_StartTime); (N_bpm, K_Bpm)].

Lemma svs_to_yaml_rows_gen f : fr_has N_offset f = true -> fr_has N_multiplier f = true ->
  svs_to_yaml f = omap (fun r => row_upd N_offset cast_int r >>= row_upd N_multiplier cast_float) (f_rows f)
                  >>= fun rs => Some (map (map (fun kv => (ren1 ren_sv (fst kv), snd kv))) rs).
Proof.
  intros Ho Hm. rewrite <- omap_bind. unfold svs_to_yaml.
  rewrite (fr_map_col_rows _ _ f Ho).
  destruct (omap (row_upd N_offset cast_int) (f_rows f)) as [r1|]; [|reflexivity]. cbn [bind].
  rewrite fr_map_col_rows by exact Hm. cbn [f_rows f_cols].
  destruct (omap (row_upd N_multiplier cast_float) r1) as [r2|]; reflexivity.
Qed.

Lemma sv_decl_keys k p : assoc k sv_decl = Some p -> (k = N_offset \/ k = N_multiplier) /\ p = is_num.
Proof.
  unfold sv_decl. simpl. destruct (k =? N_offset) eqn:E1; [apply Z.eqb_eq in E1; intro H; inversion H; auto|].
  destruct (k =? N_multiplier) eqn:E2; [apply Z.eqb_eq in E2; intro H; inversion H; auto|discriminate].
Qed.
Lemma has_key_sv k : has_key k sv_decl = true -> k = N_offset \/ k = N_multiplier.
Proof. unfold has_key. destruct (assoc k sv_decl) eqn:E; [|discriminate]. intros _. apply (sv_decl_keys k _ E). Qed.

Theorem svs_to_yaml_ok f : frame_okb sv_decl false f = true ->
  exists rows, svs_to_yaml f = Some rows /\ PointsOK K_Multiplier 1%Q N_multiplier (f_rows f) sv_keys rows.
Proof.
  intro H. destruct (frame_ok_inv _ _ H) as [Hnd [Hall [Honly Hrows]]]. rewrite Forall_forall in Hrows.
  assert (Inj: forall x y, has_key x sv_decl = true -> has_key y sv_decl = true -> ren1 ren_sv x = ren1 ren_sv y -> x = y).
  { intros x y Hx Hy. destruct (has_key_sv x Hx) as [ -> | -> ]; destruct (has_key_sv y Hy) as [ -> | -> ]; cbv; intro X; try reflexivity; discriminate. }
  assert (Num: forall k p, assoc k sv_decl = Some p -> p = is_num) by (intros k p E; apply (sv_decl_keys k p E)).
  assert (P: forall r, In r (f_rows f) ->
     rec_okb sv_keys (YMap (pt_out N_multiplier ren_sv r)) = true /\
     exists p p', point_denote K_Multiplier 1%Q (YMap (pt_out N_multiplier ren_sv r)) = Some p /\ point_row_denote N_multiplier r = Some p' /\ pt_closeb p p' = true).
  { intros r Hr.
    destruct (pt_out_ok N_multiplier K_Multiplier sv_decl ren_sv ltac:(discriminate) eq_refl eq_refl eq_refl eq_refl Num Inj
                (f_cols f) r Hnd Hall Honly (Hrows r Hr) sv_keys 1%Q eq_refl eq_refl) as [o [x [Eo [Ex [Ho [Hx [A1 [A2 [ND FA]]]]]]]]].
    { intros k Hk N1 N2. destruct (has_key_sv k Hk); contradiction. }
    split; [unfold rec_okb; rewrite ND, FA; reflexivity|].
    exact (pt_close_from_assoc K_Multiplier 1%Q N_multiplier _ r o x A1 A2 Eo Ex Ho Hx). }
  exists (map (pt_out N_multiplier ren_sv) (f_rows f)). split.
  - rewrite svs_to_yaml_rows_gen; try (apply memZ_In; apply Hall; simpl; auto).
    rewrite (omap_some_map _ (fun r => map (fun kv => (fst kv, h_pt N_multiplier (fst kv) (snd kv))) r)).
    + cbn [bind]. f_equal. rewrite map_map. apply map_ext. intro r. unfold pt_out. rewrite map_map. reflexivity.
    + intros r Hr. apply (pt_pipeline N_multiplier sv_decl ltac:(discriminate) Num (f_cols f) r (Hrows r Hr)).
  - split.
    + rewrite map_map. apply forallb_forall. intros y Hy. apply in_map_iff in Hy. destruct Hy as [r [<- Hr]]. apply (P r Hr).
    + rewrite map_map, omap_map.
      destruct (omap_all2 (fun r => point_denote K_Multiplier 1%Q (YMap (pt_out N_multiplier ren_sv r))) (point_row_denote N_multiplier) pt_closeb (f_rows f)) as [ps [ps' X]].
      * intros r Hr. apply (P r Hr).
      * exists ps, ps'. exact X.
Qed.

Lemma bpms_to_yaml_rows_gen f : fr_has N_offset f = true -> fr_has N_bpm f = true -> fr_has N_metronome f = true ->
  bpms_to_yaml f = omap (fun r => row_upd N_offset cast_int r >>= row_upd N_bpm cast_float) (f_rows f)
                   >>= fun rs => Some (map (remove_key N_metronome) (map (map (fun kv => (ren1 ren_bpm (fst kv), snd kv))) rs)).
Proof.
  intros Ho Hb Hm. rewrite <- omap_bind. unfold bpms_to_yaml.
  rewrite (fr_map_col_rows _ _ f Ho).
  destruct (omap (row_upd N_offset cast_int) (f_rows f)) as [r1|]; [|reflexivity]. cbn [bind].
  rewrite fr_map_col_rows by exact Hb. cbn [f_rows f_cols].
  destruct (omap (row_upd N_bpm cast_float) r1) as [r2|]; [|reflexivity]. cbn [bind].
  unfold fr_drop.
  assert (X: fr_has N_metronome (fr_rename [(N_offset, K_StartTime); (N_bpm, K_Bpm)] {| f_cols := f_cols f; f_rows := r2 |}) = true).
  { unfold fr_has, fr_rename. cbn [f_cols]. apply memZ_In. apply memZ_In in Hm.
    change N_metronome with (ren1 [(N_offset, K_StartTime); (N_bpm, K_Bpm)] N_metronome) at 1. apply in_map. exact Hm. }
  rewrite X. reflexivity.
Qed.

Lemma bpm_decl_keys k p : assoc k bpm_decl = Some p -> (k = N_offset \/ k = N_bpm \/ k = N_metronome) /\ p = is_num.
Proof.
  unfold bpm_decl. simpl. destruct (k =? N_offset) eqn:E1; [apply Z.eqb_eq in E1; intro H; inversion H; auto|].
  destruct (k =? N_bpm) eqn:E2; [apply Z.eqb_eq in E2; intro H; inversion H; auto|].
  destruct (k =? N_metronome) eqn:E3; [apply Z.eqb_eq in E3; intro H; inversion H; auto|discriminate].
Qed.
Lemma has_key_bpm k : has_key k bpm_decl = true -> k = N_offset \/ k = N_bpm \/ k = N_metronome.
Proof. unfold has_key. destruct (assoc k bpm_decl) eqn:E; [|discriminate]. intros _. apply (bpm_decl_keys k _ E). Qed.

Definition tp_keys_m : list (Z * (ytree -> bool)) := tp_keys ++ [(N_metronome, is_num)].

Theorem bpms_to_yaml_ok f : frame_okb bpm_decl false f = true ->
  exists rows, bpms_to_yaml f = Some rows /\ PointsOK K_Bpm 120%Q N_bpm (f_rows f) tp_keys rows.
Proof.
  intro H. destruct (frame_ok_inv _ _ H) as [Hnd [Hall [Honly Hrows]]]. rewrite Forall_forall in Hrows.
  assert (Inj: forall x y, has_key x bpm_decl = true -> has_key y bpm_decl = true -> ren1 ren_bpm x = ren1 ren_bpm y -> x = y).
  { intros x y Hx Hy. destruct (has_key_bpm x Hx) as [ -> | [ -> | -> ] ]; destruct (has_key_bpm y Hy) as [ -> | [ -> | -> ] ];
      cbv; intro X; try reflexivity; discriminate. }
  assert (Num: forall k p, assoc k bpm_decl = Some p -> p = is_num) by (intros k p E; apply (bpm_decl_keys k p E)).
  set (fin := fun r => remove_key N_metronome (pt_out N_bpm ren_bpm r)).
  assert (P: forall r, In r (f_rows f) ->
     rec_okb tp_keys (YMap (fin r)) = true /\
     exists p p', point_denote K_Bpm 120%Q (YMap (fin r)) = Some p /\ point_row_denote N_bpm r = Some p' /\ pt_closeb p p' = true).
  { intros r Hr.
    destruct (pt_out_ok N_bpm K_Bpm bpm_decl ren_bpm ltac:(discriminate) eq_refl eq_refl eq_refl eq_refl Num Inj
                (f_cols f) r Hnd Hall Honly (Hrows r Hr) tp_keys_m 120%Q eq_refl eq_refl) as [o [x [Eo [Ex [Ho [Hx [A1 [A2 [ND FA]]]]]]]]].
    { intros k Hk N1 N2. destruct (has_key_bpm k Hk) as [X|[X|X]]; try contradiction. subst k. reflexivity. }
    split.
    - unfold rec_okb, fin. apply andb_true_iff. split.
      + rewrite keys_remove_key. apply nodupZ_NoDup. apply NoDup_filter. apply nodupZ_NoDup. exact ND.
      + apply forallb_forall. intros [k v] Hin. apply In_remove_key in Hin. destruct Hin as [Hin Nk].
        rewrite forallb_forall in FA. specialize (FA (k, v) Hin). cbn [fst snd] in *.
        unfold tp_keys_m in FA. rewrite assoc_app in FA. destruct (assoc k tp_keys) as [p|]; [exact FA|].
        simpl in FA. destruct (k =? N_metronome) eqn:E; [apply Z.eqb_eq in E; contradiction|discriminate].
    - unfold fin.
      apply (pt_close_from_assoc K_Bpm 120%Q N_bpm _ r o x); try assumption.
      + rewrite assoc_remove_key by discriminate. exact A1.
      + rewrite assoc_remove_key by discriminate. exact A2. }
  exists (map fin (f_rows f)). split.
  - rewrite bpms_to_yaml_rows_gen; try (apply memZ_In; apply Hall; simpl; auto).
    rewrite (omap_some_map _ (fun r => map (fun kv => (fst kv, h_pt N_bpm (fst kv) (snd kv))) r)).
    + cbn [bind]. f_equal. rewrite !map_map. apply map_ext. intro r. unfold fin, pt_out. rewrite map_map. reflexivity.
    + intros r Hr. apply (pt_pipeline N_bpm bpm_decl ltac:(discriminate) Num (f_cols f) r (Hrows r Hr)).
  - split.
    + rewrite map_map. apply forallb_forall. intros y Hy. apply in_map_iff in Hy. destruct Hy as [r [<- Hr]]. apply (P r Hr).
    + rewrite map_map, omap_map.
      destruct (omap_all2 (fun r => point_denote K_Bpm 120%Q (YMap (fin r))) (point_row_denote N_bpm) pt_closeb (f_rows f)) as [ps [ps' X]].
      * intros r Hr. apply (P r Hr).
      * exists ps, ps'. exact X.
Qed.

(* ================================================================== metadata and the assembly of the document *)
Lemma omap_app {A B} (f : A -> option B) l1 l2 r1 r2 :
  omap f l1 = Some r1 -> omap f l2 = Some r2 -> omap f (l1 ++ l2) = Some (r1 ++ r2).
Proof.
  revert r1. induction l1 as [|x l1 IH]; intros r1 H1 H2; simpl in *.
  - inversion H1. exact H2.
  - destruct (f x) as [y|]; [|discriminate]. destruct (omap f l1) as [t|]; [|discriminate]. inversion H1; subst.
    rewrite (IH t eq_refl H2). reflexivity.
Qed.
Lemma all2_app {A B} (p : A -> B -> bool) a1 b1 a2 b2 :
  all2 p a1 b1 = true -> all2 p a2 b2 = true -> all2 p (a1 ++ a2) (b1 ++ b2) = true.
Proof.
  revert b1. induction a1 as [|x a1 IH]; destruct b1 as [|y b1]; simpl; intros H1 H2; try discriminate; [exact H2|].
  apply andb_true_iff in H1. destruct H1 as [H H1]. rewrite H. apply IH; assumption.
Qed.
Lemma texts_map_YStr l : is_text_list l = true -> map YStr (texts_of l) = l.
Proof.
  induction l as [|x l IH]; [reflexivity|]. simpl. intro H. apply andb_true_iff in H. destruct H as [Hx Hl].
  destruct x; try discriminate. simpl. rewrite IH by exact Hl. reflexivity.
Qed.
Lemma omap_texts l : is_text_list l = true ->
  omap (fun x => match x with YStr s => Some s | _ => None end) l = Some (texts_of l).
Proof.
  induction l as [|x l IH]; [reflexivity|]. simpl. intro H. apply andb_true_iff in H. destruct H as [Hx Hl].
  destruct x; try discriminate. rewrite IH by exact Hl. reflexivity.
Qed.
Lemma tags_ok l : forallb tag_okb l = true -> is_text_list l = true /\ forallb good_tag (texts_of l) = true.
Proof.
  induction l as [|x l IH]; [auto|]. simpl. intro H. apply andb_true_iff in H. destruct H as [Hx Hl].
  destruct (IH Hl) as [I1 I2]. destruct x; try discriminate. simpl. rewrite I1, I2.
  unfold tag_okb in Hx. unfold good_tag, nonempty. split; [reflexivity|]. rewrite Hx. reflexivity.
Qed.
Lemma text_eqb_refl t : text_eqb t t = true.
Proof. induction t as [|a t IH]; [reflexivity|]. simpl. rewrite Z.eqb_refl. exact IH. Qed.
Lemma tree_eqb_textlist l : is_text_list l = true -> tree_eqb true (YList l) (YList l) = true.
Proof.
  intro H. simpl. induction l as [|x l IH]; [reflexivity|]. simpl in H. apply andb_true_iff in H. destruct H as [Hx Hl].
  destruct x; try discriminate. simpl. rewrite text_eqb_refl. apply IH. exact Hl.
Qed.
Lemma tree_eqb_refl_typed ty v : has_type ty v = true -> tree_eqb true v v = true.
Proof.
  destruct v; simpl; intro H; try discriminate.
  - apply Z.eqb_refl.
  - apply Qeq_bool_iff. reflexivity.
  - apply text_eqb_refl.
  - destruct b; reflexivity.
  - apply andb_true_iff in H. destruct H as [_ H]. apply (tree_eqb_textlist l H).
Qed.

(* ------------------------------------------------------------------ QuaMap.write, whole document *)
Definition ref_keys : list Z := map fst ref_meta_table.

Lemma all2_length {A B} (p : A -> B -> bool) a b : all2 p a b = true -> length a = length b.
Proof.
  revert b. induction a as [|x a IH]; destruct b as [|y b]; simpl; intro H; try discriminate; [reflexivity|].
  apply andb_true_iff in H. destruct H as [_ H]. f_equal. apply IH. exact H.
Qed.
Lemma has_type_str s : has_type 0 (YStr s) = true. Proof. reflexivity. Qed.
Ltac d21 l H := do 21 (destruct l as [|? l]; [simpl in H; discriminate|]); destruct l; [|simpl in H; discriminate].
Local Opaque has_type tag_okb words join_sp texts_of note_denote point_denote rec_okb tree_eqb note_closeb pt_closeb hit_row_denote hold_row_denote point_row_denote.
Theorem qua_write_ok ds c : length ds = length ref_meta_table -> wf_chartb false c = true ->
  write_specb c (qua_write (combine ref_keys ds) c) = true.
Proof.
  intros Hds Hwf. unfold wf_chartb in Hwf.
  do 4 (apply andb_true_iff in Hwf; destruct Hwf as [Hwf ?]).
  rename Hwf into Fh, H into Hm, H0 into Fs, H1 into Fb, H2 into Fl.
  destruct c as [fh fl fb fs m]. cbn [c_hits c_holds c_bpms c_svs c_meta] in *.
  unfold meta_okb, ref_meta_table in Hm.
  pose proof (all2_length _ _ _ Hm) as Lm. symmetry in Lm.
  d21 m Lm. d21 ds Hds. clear Lm Hds.
  cbn [all2 fst snd] in Hm. unfold ref_tags_key, K_InitialScrollVelocity in Hm. cbn [Z.eqb Pos.eqb andb orb] in Hm.

  cbn [all2 fst snd] in Hm. unfold ref_tags_key, K_InitialScrollVelocity in Hm. cbn [Z.eqb Pos.eqb andb orb] in Hm.
  rewrite !orb_false_r in Hm.
  repeat (apply andb_true_iff in Hm; let T := fresh "T" in destruct Hm as [T Hm]).
  destruct y13 as [| | | | | |lt|]; try discriminate T13.
  destruct (tags_ok lt T13) as [Tl Tg].
  destruct (hits_to_yaml_ok fh Fh) as [h [Eh [Oh [nh [nh' [Dh [Dh' Ch]]]]]]].
  destruct (holds_to_yaml_ok fl Fl) as [l [El [Ol [nl [nl' [Dl [Dl' Cl]]]]]]].
  destruct (bpms_to_yaml_ok fb Fb) as [b [Eb [Ob [pb [pb' [Db [Db' Cb]]]]]]].
  destruct (svs_to_yaml_ok fs Fs) as [s [Es [Os [ps [ps' [Dsv [Dsv' Cs]]]]]]].
  unfold qua_write. cbn [c_hits c_holds c_bpms c_svs c_meta]. rewrite Eb, Es, Eh, El.
  unfold write_meta, ref_keys, ref_meta_table. cbn [map fst combine length Nat.eqb negb omap K_Tags Z.eqb Pos.eqb].
  rewrite (omap_texts lt Tl). cbn [bind].
  unfold write_specb.
  assert (CD: chart_denote {| c_hits := fh; c_holds := fl; c_bpms := fb; c_svs := fs;
                              c_meta := [y; y0; y1; y2; y3; y4; y5; y6; y7; y8; y9; y10; y11; y12; YList lt; y14; y15; y16; y17; y18; y19] |}
              = Some (mkDen (nh' ++ nl') pb' ps' (map Some [y; y0; y1; y2; y3; y4; y5; y6; y7; y8; y9; y10; y11; y12; YList lt; y14; y15; y16; y17; y18; y19]))).
  { unfold chart_denote. cbn [c_hits c_holds c_bpms c_svs c_meta]. rewrite Dh', Dl', Db', Dsv'. reflexivity. }
  rewrite CD. clear CD.
  set (d := YMap _).
  assert (QD: qua_denote d = Some (mkDen (nh ++ nl) pb ps (map Some [y; y0; y1; y2; y3; y4; y5; y6; y7; y8; y9; y10; y11; y12; YList lt; y14; y15; y16; y17; y18; y19]))).
  { subst d. unfold qua_denote, section_denote, meta_denote, ref_meta_table, ref_tags_key, K_HitObjects, K_TimingPoints, K_SliderVelocities. simpl. rewrite map_app.
    match goal with |- context [omap note_denote ?t] => replace (omap note_denote t) with (Some (nh ++ nl)) by (symmetry; apply omap_app; assumption) end.
    rewrite Db, Dsv.
    rewrite T, T0, T1, T2, T3, T4, T5, T6, T7, T8, T9, T10, T11, T12, T14, T15, T16, T17, T18, T19.
    rewrite (words_join _ Tg), (texts_map_YStr lt Tl). reflexivity. }
  rewrite QD. clear QD.
  apply andb_true_iff. split; [|apply andb_true_iff; split].
  - subst d. unfold wf_qua_docb, section_okb, sections, ref_meta_table, K_HitObjects, K_TimingPoints, K_SliderVelocities. simpl.
    rewrite T, T0, T1, T2, T3, T4, T5, T6, T7, T8, T9, T10, T11, T12, T14, T15, T16, T17, T18, T19, has_type_str.
    rewrite Ob, Os. simpl.
    match goal with |- context [forallb (rec_okb note_keys) ?t] => replace (forallb (rec_okb note_keys) t) with true end; [reflexivity|].
    symmetry. rewrite map_app, forallb_app. change (forallb (rec_okb note_keys) (map YMap h) && forallb (rec_okb note_keys) (map YMap l) = true).
    rewrite Oh, Ol. reflexivity.
  - unfold den_closeb. cbn [d_notes d_bpms d_svs d_meta]. rewrite (all2_app _ _ _ _ _ Ch Cl), Cb, Cs.
    unfold meta_refinesb, ref_meta_table, ref_tags_key. simpl.
    rewrite (tree_eqb_refl_typed _ _ T), (tree_eqb_refl_typed _ _ T0), (tree_eqb_refl_typed _ _ T1), (tree_eqb_refl_typed _ _ T2),
      (tree_eqb_refl_typed _ _ T3), (tree_eqb_refl_typed _ _ T4), (tree_eqb_refl_typed _ _ T5), (tree_eqb_refl_typed _ _ T6),
      (tree_eqb_refl_typed _ _ T7), (tree_eqb_refl_typed _ _ T8), (tree_eqb_refl_typed _ _ T9), (tree_eqb_refl_typed _ _ T10),
      (tree_eqb_refl_typed _ _ T11), (tree_eqb_refl_typed _ _ T12), (tree_eqb_textlist lt Tl), (tree_eqb_refl_typed _ _ T14),
      (tree_eqb_refl_typed _ _ T15), (tree_eqb_refl_typed _ _ T16), (tree_eqb_refl_typed _ _ T17), (tree_eqb_refl_typed _ _ T18),
      (tree_eqb_refl_typed _ _ T19). reflexivity.
  - reflexivity.
Qed.
Local Transparent has_type tag_okb words join_sp texts_of note_denote point_denote rec_okb tree_eqb note_closeb pt_closeb hit_row_denote hold_row_denote point_row_denote.

(* the same for the writer instantiated with the live default table *)
Theorem qua_write_live_ok c : wf_chartb false c = true -> write_specb c (Live.write c) = true.
Proof.
  intro H. unfold Live.write.
  assert (E: Live.meta_defaults = combine ref_keys (map snd Live.meta_defaults)) by (vm_compute; reflexivity).
  rewrite E. apply qua_write_ok; [vm_compute; reflexivity|exact H].
Qed.
(* QuaMap.write of a strict chart: a well-formed document that denotes the chart with every time moved by < 1 ms *)
Theorem qua_write_wf_denotes c : wf_chartb false c = true -> WriteSpec c (Live.write c).
Proof. intro H. apply write_specb_sound. apply qua_write_live_ok. exact H. Qed.

(* ################################################################## READER *)
(* ---- multiset equality by removal: two sufficient conditions ---- *)
Lemma perm_eqb_Forall2 {A} (eqb : A -> A -> bool) e a :
  Forall2 (fun x y => eqb x y = true) e a -> perm_eqb eqb e a = true.
Proof. induction 1 as [|x y e a H _ IH]; [reflexivity|]. simpl. rewrite H. exact IH. Qed.

Lemma remove1_skip {A} (eqb : A -> A -> bool) x a1 y a2 :
  (forall z, In z a1 -> eqb x z = false) -> eqb x y = true -> remove1 eqb x (a1 ++ y :: a2) = Some (a1 ++ a2).
Proof.
  intros H E. induction a1 as [|z a1 IH]; simpl; [rewrite E; reflexivity|].
  rewrite (H z (or_introl eq_refl)). rewrite IH; [reflexivity|]. intros w Hw. apply H. right. exact Hw.
Qed.

Lemma perm_eqb_two_classes {A} (eqb : A -> A -> bool) (cls : A -> bool) e a1 a2 :
  Forall2 (fun x y => eqb x y = true) (filter cls e) a1 ->
  Forall2 (fun x y => eqb x y = true) (filter (fun x => negb (cls x)) e) a2 ->
  (forall x z, In x e -> cls x = false -> In z a1 -> eqb x z = false) ->
  perm_eqb eqb e (a1 ++ a2) = true.
Proof.
  revert a1 a2. induction e as [|x e IH]; intros a1 a2 H1 H2 Hsep; simpl in *.
  - inversion H1; inversion H2; subst. reflexivity.
  - destruct (cls x) eqn:C; simpl in *.
    + inversion H1 as [|? y ? a1' E H1']; subst. simpl. rewrite E.
      apply IH; [exact H1'|exact H2|]. intros x0 z Hx0 Cx0 Hz. apply Hsep; auto. right. exact Hz.
    + inversion H2 as [|? y ? a2' E H2']; subst.
      rewrite (remove1_skip eqb x a1 y a2'); [|intros z Hz; apply Hsep; auto|exact E].
      apply IH; [exact H1|exact H2'|]. intros x0 z Hx0 Cx0 Hz. apply Hsep; auto.
Qed.

(* ---- timing points and scroll velocities ---- *)
Lemma pt_eqb_refl p : pt_eqb p p = true.
Proof. unfold pt_eqb. apply andb_true_iff. split; apply Qeq_bool_iff; reflexivity. Qed.
Lemma Forall2_refl {A} (R : A -> A -> Prop) l : (forall x, R x x) -> Forall2 R l l.
Proof. intro H. induction l; constructor; auto. Qed.

Lemma read_bpms_denote cols recs ps : omap (point_denote K_Bpm 120%Q) (map YMap recs) = Some ps ->
  omap (point_row_denote N_bpm) (f_rows (read_bpms cols recs)) = Some ps.
Proof.
  destruct recs as [|r0 recs0]; [simpl; auto|]. set (recs := r0 :: recs0). intro H.
  change (f_rows (read_bpms cols recs)) with
    (map (fun r => [(N_offset, getd K_StartTime (YInt 0) r); (N_bpm, getd K_Bpm (YInt 120) r); (N_metronome, YInt 4)]) recs).
  clearbody recs. revert ps H. induction recs as [|r recs IH]; intros ps H; [exact H|].
  cbn [map omap] in H. destruct (point_denote K_Bpm 120%Q (YMap r)) as [p|] eqn:E; [|discriminate].
  destruct (omap (point_denote K_Bpm 120%Q) (map YMap recs)) as [t|] eqn:E2; [|discriminate]. inversion H; subst.
  cbn [map omap]. rewrite (read_bpm_row_denotes r p E). rewrite (IH t eq_refl). reflexivity.
Qed.
Lemma read_svs_denote cols recs ps : omap (point_denote K_Multiplier 1%Q) (map YMap recs) = Some ps ->
  omap (point_row_denote N_multiplier) (f_rows (read_svs cols recs)) = Some ps.
Proof.
  destruct recs as [|r0 recs0]; [simpl; auto|]. set (recs := r0 :: recs0). intro H.
  change (f_rows (read_svs cols recs)) with
    (map (fun r => [(N_offset, getd K_StartTime (YInt 0) r); (N_multiplier, getd K_Multiplier (YFloat 1) r)]) recs).
  clearbody recs. revert ps H. induction recs as [|r recs IH]; intros ps H; [exact H|].
  cbn [map omap] in H. destruct (point_denote K_Multiplier 1%Q (YMap r)) as [p|] eqn:E; [|discriminate].
  destruct (omap (point_denote K_Multiplier 1%Q) (map YMap recs)) as [t|] eqn:E2; [|discriminate]. inversion H; subst.
  cbn [map omap]. rewrite (read_sv_row_denotes r p E). rewrite (IH t eq_refl). reflexivity.
Qed.

(* ---- metadata ---- *)
Definition meta_decl1 (d : row) (kt : Z * Z) : option (option ytree) :=
  let '(k, ty) := kt in
  match assoc k d with
  | None => Some None
  | Some v => if k =? ref_tags_key then
                match v with YStr s => Some (Some (YList (map YStr (words s)))) | _ => None end
              else if has_type ty v then Some (Some v) else None
  end.
Definition read_meta1 (d : row) (kd : Z * ytree) : option ytree :=
  let '(k, dflt) := kd in
  if k =? K_Tags then
    match assoc k d with
    | None => Some (YList [])
    | Some (YStr s) => Some (YList (map YStr (tags_of s)))
    | Some _ => None
    end
  else Some (getd k dflt d).
Definition refine1 (kt : Z * Z) (da : option ytree * option ytree) : bool :=
  let '(d, a) := da in
  match d, a with
  | Some v, Some w => tree_eqb true v w
  | None, Some w => has_type (if fst kt =? ref_tags_key then 4 else snd kt) w
  | _, None => false
  end.
Lemma meta_denote_unfold d : meta_denote d = omap (meta_decl1 d) ref_meta_table. Proof. reflexivity. Qed.
Lemma read_meta_unfold md d : read_meta md d = omap (read_meta1 d) md. Proof. reflexivity. Qed.
Lemma meta_refinesb_unfold dc ac : meta_refinesb dc ac =
  all2 refine1 ref_meta_table (combine dc ac) && Nat.eqb (length dc) (length ref_meta_table) && Nat.eqb (length ac) (length ref_meta_table).
Proof. reflexivity. Qed.

Lemma is_text_list_map_YStr ws : is_text_list (map YStr ws) = true.
Proof. induction ws; simpl; auto. Qed.

Lemma meta_read_ok tbl md d d' decl :
  (forall k, In k (map fst tbl) -> assoc k d' = assoc k d) ->
  all2 (fun kt kd => (fst kt =? fst kd) && has_type (if fst kt =? ref_tags_key then 4 else snd kt) (snd kd)) tbl md = true ->
  omap (meta_decl1 d) tbl = Some decl ->
  exists act, omap (read_meta1 d') md = Some act /\ all2 refine1 tbl (combine decl (map Some act)) = true /\
              length act = length tbl /\ length decl = length tbl.
Proof.
  revert md decl. induction tbl as [|[k ty] tbl IH]; intros md decl Hd Hall Hdec.
  - destruct md; [|discriminate]. inversion Hdec; subst. exists []. auto.
  - destruct md as [|[k' dflt] md]; [discriminate|]. cbn [all2 fst snd] in Hall.
    apply andb_true_iff in Hall. destruct Hall as [Hk Hall]. apply andb_true_iff in Hk. destruct Hk as [Ek Hty].
    apply Z.eqb_eq in Ek. subst k'.
    cbn [omap] in Hdec. destruct (meta_decl1 d (k, ty)) as [dk|] eqn:E1; [|discriminate].
    destruct (omap (meta_decl1 d) tbl) as [dt|] eqn:E2; [|discriminate]. inversion Hdec; subst decl. clear Hdec.
    destruct (IH md dt) as [at_ [A1 [A2 [A3 A4]]]]; [intros k0 Hk0; apply Hd; right; exact Hk0|exact Hall|reflexivity|].
    assert (Ea: assoc k d' = assoc k d) by (apply Hd; left; reflexivity).
    unfold meta_decl1 in E1. unfold ref_tags_key in *.
    assert (X: exists a, read_meta1 d' (k, dflt) = Some a /\ refine1 (k, ty) (dk, Some a) = true).
    { unfold read_meta1, K_Tags, getd, refine1, ref_tags_key. cbn [fst snd]. rewrite Ea.
      destruct (assoc k d) as [v|].
      - destruct (k =? 115) eqn:Et.
        + destruct v; try discriminate. inversion E1; subst dk. eexists. split; [reflexivity|].
          rewrite tags_of_is_words. apply tree_eqb_textlist. apply is_text_list_map_YStr.
        + destruct (has_type ty v) eqn:Hv; [|discriminate]. inversion E1; subst dk. exists v. split; [reflexivity|].
          apply (tree_eqb_refl_typed ty v Hv).
      - inversion E1; subst dk. destruct (k =? 115) eqn:Et.
        + eexists. split; reflexivity.
        + exists dflt. split; [reflexivity|exact Hty]. }
    destruct X as [a [Xa Xr]].
    exists (a :: at_). cbn [omap]. rewrite Xa, A1. cbn [map combine all2 length]. rewrite Xr, A2, A3, A4. auto.
Qed.

(* ---- frames in explicit form: every row lists the columns [cols] (named by [kn]) with cells [f c r] ---- *)
Definition rowK (kn : Z -> Z) (f : Z -> row -> ytree) (cols : list Z) (r : row) : row := map (fun c => (kn c, f c r)) cols.
Definition frameK kn f cols recs : frame := mkFrame (map kn cols) (map (rowK kn f cols) recs).
Definition upd_f (kn : Z -> Z) (k : Z) (g' : ytree -> ytree) (f : Z -> row -> ytree) : Z -> row -> ytree :=
  fun c r => if kn c =? k then g' (f c r) else f c r.

Lemma row_upd_rowK kn f cols r k g g' :
  (forall c, In c cols -> kn c = k -> g (f c r) = Some (g' (f c r))) ->
  row_upd k g (rowK kn f cols r) = Some (rowK kn (upd_f kn k g' f) cols r).
Proof.
  unfold rowK, upd_f. induction cols as [|c cols IH]; intro H; [reflexivity|]. cbn [map row_upd].
  rewrite IH by (intros c' Hc'; apply H; right; exact Hc').
  destruct (kn c =? k) eqn:E.
  - apply Z.eqb_eq in E. rewrite (H c (or_introl eq_refl) E). reflexivity.
  - reflexivity.
Qed.
Lemma fr_map_col_frameK kn f cols recs k g g' :
  In k (map kn cols) ->
  (forall r c, In r recs -> In c cols -> kn c = k -> g (f c r) = Some (g' (f c r))) ->
  fr_map_col k g (frameK kn f cols recs) = Some (frameK kn (upd_f kn k g' f) cols recs).
Proof.
  intros Hk Hg. unfold frameK. rewrite fr_map_col_rows by (apply memZ_In; exact Hk). cbn [f_rows f_cols].
  rewrite omap_map. rewrite (omap_some_map _ (rowK kn (upd_f kn k g' f) cols)).
  - reflexivity.
  - intros r Hr. apply row_upd_rowK. intros c Hc E. apply Hg; assumption.
Qed.
Lemma fr_rename_frameK R kn f cols recs :
  fr_rename R (frameK kn f cols recs) = frameK (fun c => ren1 R (kn c)) f cols recs.
Proof.
  unfold fr_rename, frameK, rowK. cbn [f_cols f_rows]. rewrite !map_map. f_equal.
  apply map_ext. intro r. rewrite map_map. reflexivity.
Qed.
Lemma fr_require_frameK_id req f cols recs :
  (forall r c, In r recs -> In c req -> ~ In c cols -> f c r = YNaN) ->
  fr_require req (frameK (fun c => c) f cols recs)
  = frameK (fun c => c) f (cols ++ filter (fun c => negb (memZ c cols)) req) recs.
Proof.
  intro H. unfold fr_require, frameK. cbn [f_cols f_rows]. rewrite !map_id. f_equal.
  rewrite map_map. apply map_ext_in. intros r Hr. unfold rowK. rewrite map_app. f_equal.
  apply map_ext_in. intros c Hc. apply filter_In in Hc. destruct Hc as [Hc Hn].
  rewrite H; auto. intro X. apply memZ_In in X. rewrite X in Hn. discriminate.
Qed.
Lemma fr_require_noop req f : (forall c, In c req -> In c (f_cols f)) -> fr_require req f = f.
Proof.
  intro H. unfold fr_require.
  assert (E: filter (fun c => negb (memZ c (f_cols f))) req = []).
  { induction req as [|c req IH]; [reflexivity|]. simpl.
    assert (M: memZ c (f_cols f) = true) by (apply memZ_In; apply H; left; reflexivity). rewrite M. simpl.
    apply IH. intros c' Hc'. apply H. right. exact Hc'. }
  rewrite E. rewrite app_nil_r. destruct f as [cols rows]. cbn [f_cols f_rows]. f_equal.
  rewrite <- (map_id rows) at 2. apply map_ext. intro r. apply app_nil_r.
Qed.
Lemma assoc_rowK kn f cols r c :
  In c cols -> (forall c', In c' cols -> kn c' = kn c -> c' = c) -> assoc (kn c) (rowK kn f cols r) = Some (f c r).
Proof.
  unfold rowK. induction cols as [|c0 cols IH]; intros Hin Hinj; [contradiction|]. cbn [map assoc].
  destruct (kn c =? kn c0) eqn:E.
  - apply Z.eqb_eq in E. symmetry in E. apply (Hinj c0 (or_introl eq_refl)) in E. subst. reflexivity.
  - destruct Hin as [->|Hin]; [rewrite Z.eqb_refl in E; discriminate|].
    apply IH; [exact Hin|]. intros c' Hc'. apply Hinj. right. exact Hc'.
Qed.

(* pd.DataFrame(dicts) in explicit form *)
Definition getNaN (c : Z) (r : row) : ytree := match assoc c r with Some v => v | None => YNaN end.
Definition promo (fl : list Z) (c : Z) (v : ytree) : ytree :=
  match v with YInt z => if memZ c fl then YFloat (inject_Z z) else v | _ => v end.
Lemma fr_of_dicts_frameK recs : exists fl,
  fr_of_dicts recs = frameK (fun c => c) (fun c r => promo fl c (getNaN c r)) (keys_union recs) recs.
Proof.
  unfold fr_of_dicts, promote. set (cols := keys_union recs).
  exists (filter (fun c => col_floats c (map (row_on cols) recs)) cols).
  unfold frameK. rewrite map_id. f_equal. rewrite map_map. apply map_ext. intro r.
  unfold row_on, rowK. rewrite map_map. apply map_ext. intro c. cbn [fst snd]. unfold promo, getNaN.
  destruct (assoc c r) as [v|]; [|reflexivity]. destruct v; try reflexivity.
  destruct (memZ c _); reflexivity.
Qed.

(* ---- keys_union ---- *)
Lemma dedup_spec l : forall seen x, In x (dedup l seen) <-> In x l /\ ~ In x seen.
Proof.
  induction l as [|y l IH]; intros seen x; simpl; [tauto|].
  destruct (memZ y seen) eqn:M.
  - rewrite IH. apply memZ_In in M. split; [tauto|]. intros [[->|H] N]; [contradiction|tauto].
  - assert (Ny: ~ In y seen) by (intro X; apply memZ_In in X; congruence).
    simpl. rewrite IH. simpl. split.
    + intros [->|[H N]]; [tauto|]. split; [tauto|]. intro X. apply N. right. exact X.
    + intros [[->|H] N]; [tauto|]. destruct (Z.eq_dec y x) as [->|Ne]; [tauto|]. right. split; [exact H|]. intros [X|X]; [contradiction|tauto].
Qed.
Lemma dedup_NoDup l : forall seen, NoDup (dedup l seen).
Proof.
  induction l as [|y l IH]; intro seen; simpl; [constructor|]. destruct (memZ y seen); [apply IH|].
  constructor; [|apply IH]. intro X. apply dedup_spec in X. destruct X as [_ N]. apply N. left. reflexivity.
Qed.
Lemma keys_union_In recs c : In c (keys_union recs) <-> exists r, In r recs /\ In c (map fst r).
Proof.
  unfold keys_union. rewrite dedup_spec. split.
  - intros [H _]. apply in_concat in H. destruct H as [ks [Hks Hc]]. apply in_map_iff in Hks. destruct Hks as [r [<- Hr]]. eauto.
  - intros [r [Hr Hc]]. split; [|tauto]. apply in_concat. exists (map fst r). split; [apply in_map; exact Hr|exact Hc].
Qed.
Lemma NoDup_app_disj (a b : list Z) : NoDup a -> NoDup b -> (forall x, In x a -> ~ In x b) -> NoDup (a ++ b).
Proof.
  intros Ha Hb D. induction Ha as [|x a Hx Ha IH]; [exact Hb|]. simpl. constructor.
  - intro X. apply in_app_or in X. destruct X as [X|X]; [contradiction|]. apply (D x (or_introl eq_refl) X).
  - apply IH. intros y Hy. apply D. right. exact Hy.
Qed.
Lemma assoc_None_notin {A} k (l : list (Z * A)) : ~ In k (map fst l) -> assoc k l = None.
Proof. intro H. apply assoc_notin. destruct (memZ k (map fst l)) eqn:E; [apply memZ_In in E; contradiction|reflexivity]. Qed.

(* columns after reindexing with the required raw keys *)
Definition with_req (req cols : list Z) : list Z := cols ++ filter (fun c => negb (memZ c cols)) req.
Lemma with_req_In req cols c : In c (with_req req cols) <-> In c cols \/ In c req.
Proof.
  unfold with_req. rewrite in_app_iff, filter_In. split.
  - intros [H|[H _]]; auto.
  - intros [H|H]; [auto|]. destruct (memZ c cols) eqn:M; [left; apply memZ_In; exact M|right; auto].
Qed.
Lemma with_req_NoDup req cols : NoDup cols -> NoDup req -> NoDup (with_req req cols).
Proof.
  intros Hc Hr. apply NoDup_app_disj; [exact Hc|apply NoDup_filter; exact Hr|].
  intros x Hx X. apply filter_In in X. destruct X as [_ X]. apply memZ_In in Hx. rewrite Hx in X. discriminate.
Qed.

(* total versions of the cell functions on the values that occur *)
Definition fill0 (v : ytree) : ytree := fillna (YInt 0) v.
Definition fill1 (v : ytree) : ytree := fillna (YInt 1) v.
Definition ks_fix' (v : ytree) : ytree := match v with YList _ => v | _ => YList [] end.
Definition minus1' (v : ytree) : ytree :=
  match v with YInt z => YInt (z + - (1)) | YFloat q => YFloat (Qred (q + inject_Z (- (1)))) | _ => v end.
Lemma minus1_total v : is_num v = true -> minus1 v = Some (minus1' v).
Proof. destruct v; try discriminate; reflexivity. Qed.

(* ---- QuaHitList.from_yaml in explicit form ---- *)
Definition idk (c : Z) : Z := c.
Definition RH : list (Z * Z) := [(K_StartTime, N_offset); (K_Lane, N_column); (K_KeySounds, N_keysounds)].
Definition renH (c : Z) : Z := ren1 RH (idk c).
Definition reqH : list Z := [K_StartTime; K_Lane; K_KeySounds].
Definition fH (fl : list Z) : Z -> row -> ytree :=
  upd_f renH N_column fill0 (upd_f renH N_offset fill0 (upd_f renH N_column minus1'
    (upd_f idk K_KeySounds ks_fix' (upd_f idk K_Lane fill1 (upd_f idk K_StartTime fill0
       (fun c r => promo fl c (getNaN c r))))))).

Lemma fH_start fl r : fH fl K_StartTime r = fill0 (fill0 (promo fl K_StartTime (getNaN K_StartTime r))). Proof. reflexivity. Qed.
Lemma fH_lane fl r : fH fl K_Lane r = fill0 (minus1' (fill1 (promo fl K_Lane (getNaN K_Lane r)))). Proof. reflexivity. Qed.
Lemma fH_ks fl r : fH fl K_KeySounds r = ks_fix' (promo fl K_KeySounds (getNaN K_KeySounds r)). Proof. reflexivity. Qed.

Definition lane_typed (r : row) : Prop := assoc K_Lane r = None \/ exists z, assoc K_Lane r = Some (YInt z).

Lemma in_req_cols req recs c : In c req -> In c (with_req req (keys_union recs)).
Proof. intro H. apply with_req_In. right. exact H. Qed.

Definition keys124 (recs : list row) : Prop :=
  forall r c, In r recs -> In c (map fst r) -> c = K_StartTime \/ c = K_Lane \/ c = K_KeySounds.
Lemma C1_keys recs c : keys124 recs -> In c (with_req reqH (keys_union recs)) -> c = K_StartTime \/ c = K_Lane \/ c = K_KeySounds.
Proof.
  intros Hk H. apply with_req_In in H. destruct H as [H|H].
  - apply keys_union_In in H. destruct H as [r [Hr Hc]]. exact (Hk r c Hr Hc).
  - simpl in H. destruct H as [<-|[<-|[<-|[]]]]; auto.
Qed.

Lemma hits_from_yaml_explicit recs :
  keys124 recs -> (forall r, In r recs -> lane_typed r) ->
  exists fl, hits_from_yaml recs = Some (frameK renH (fH fl) (with_req reqH (keys_union recs)) recs).
Proof.
  intros Hk Hl. unfold hits_from_yaml. destruct (fr_of_dicts_frameK recs) as [fl E]. exists fl. rewrite E.
  change (fun c : Z => c) with idk.
  rewrite (fr_require_frameK_id [K_StartTime; K_Lane; K_KeySounds]).
  2:{ intros r c Hr _ Hn. unfold getNaN. rewrite assoc_None_notin; [reflexivity|].
      intro X. apply Hn. apply keys_union_In. exists r. auto. }
  fold reqH. fold (with_req reqH (keys_union recs)). set (C1 := with_req reqH (keys_union recs)).
  assert (I1: In K_StartTime C1) by (apply in_req_cols; simpl; auto).
  assert (I2: In K_Lane C1) by (apply in_req_cols; simpl; auto).
  assert (I4: In K_KeySounds C1) by (apply in_req_cols; simpl; auto).
  rewrite (fr_map_col_frameK idk _ C1 recs K_StartTime (some_fill (YInt 0)) fill0); [|rewrite map_id; exact I1|reflexivity]. cbn [bind].
  rewrite (fr_map_col_frameK idk _ C1 recs K_Lane (some_fill (YInt 1)) fill1); [|rewrite map_id; exact I2|reflexivity]. cbn [bind].
  rewrite (fr_map_col_frameK idk _ C1 recs K_KeySounds ks_fix ks_fix'); [|rewrite map_id; exact I4|reflexivity]. cbn [bind].
  rewrite fr_rename_frameK. fold RH. change (fun c : Z => ren1 RH (idk c)) with renH.
  rewrite (fr_map_col_frameK renH _ C1 recs N_column minus1 minus1').
  2:{ change N_column with (renH K_Lane). apply in_map. exact I2. }
  2:{ intros r c Hr Hc Ec. apply minus1_total.
      assert (c = K_Lane).
      { destruct (C1_keys recs c Hk Hc) as [ -> | [ -> | -> ] ]; [discriminate Ec|reflexivity|discriminate Ec]. }
      subst c. unfold upd_f, idk. cbn [Z.eqb K_Lane K_StartTime K_KeySounds Pos.eqb].
      unfold getNaN, promo. destruct (Hl r Hr) as [En|[z Ez]]; [rewrite En; reflexivity|rewrite Ez].
      destruct (memZ K_Lane fl); reflexivity. }
  cbn [bind].
  rewrite fr_require_noop.
  2:{ intros c Hc. unfold frameK. cbn [f_cols]. simpl in Hc. destruct Hc as [<-|[<-|[<-|[]]]].
      - change N_offset with (renH K_StartTime). apply in_map. exact I1.
      - change N_column with (renH K_Lane). apply in_map. exact I2.
      - change N_keysounds with (renH K_KeySounds). apply in_map. exact I4. }
  rewrite (fr_map_col_frameK renH _ C1 recs N_offset (some_fill (YInt 0)) fill0);
    [|change N_offset with (renH K_StartTime); apply in_map; exact I1|reflexivity]. cbn [bind].
  rewrite (fr_map_col_frameK renH _ C1 recs N_column (some_fill (YInt 0)) fill0);
    [|change N_column with (renH K_Lane); apply in_map; exact I2|reflexivity].
  reflexivity.
Qed.

Definition hit_rec_typed (r : row) : Prop :=
  NoDup (map fst r) /\
  forall k v, In (k, v) r -> (k = K_StartTime /\ is_int v = true) \/ (k = K_Lane /\ is_lane v = true) \/ (k = K_KeySounds /\ is_ks v = true).

Lemma assoc_cases {A} k (l : list (Z * A)) : assoc k l = None \/ exists v, assoc k l = Some v /\ In (k, v) l.
Proof. destruct (assoc k l) as [v|] eqn:E; [right; exists v; split; [reflexivity|apply assoc_In; exact E]|left; reflexivity]. Qed.

Lemma hit_typed_start r : hit_rec_typed r -> assoc K_StartTime r = None \/ exists z, assoc K_StartTime r = Some (YInt z).
Proof.
  intros [_ T]. destruct (assoc_cases K_StartTime r) as [E|[v [E Hin]]]; [auto|right].
  destruct (T _ _ Hin) as [[_ H]|[[X _]|[X _]]]; try discriminate X. destruct v; try discriminate. eauto.
Qed.
Lemma hit_typed_lane r : hit_rec_typed r -> assoc K_Lane r = None \/ exists z, assoc K_Lane r = Some (YInt z) /\ 1 <= z.
Proof.
  intros [_ T]. destruct (assoc_cases K_Lane r) as [E|[v [E Hin]]]; [auto|right].
  destruct (T _ _ Hin) as [[X _]|[[_ H]|[X _]]]; try discriminate X. destruct v; try discriminate. exists z. split; [exact E|].
  simpl in H. apply Z.leb_le. exact H.
Qed.
Lemma hit_typed_ks r : hit_rec_typed r -> assoc K_KeySounds r = None \/ exists l, assoc K_KeySounds r = Some (YList l) /\ is_text_list l = true.
Proof.
  intros [_ T]. destruct (assoc_cases K_KeySounds r) as [E|[v [E Hin]]]; [auto|right].
  destruct (T _ _ Hin) as [[X _]|[[X _]|[_ H]]]; try discriminate X. destruct v; try discriminate. eauto.
Qed.
Lemma hit_typed_noend r : hit_rec_typed r -> assoc K_EndTime r = None.
Proof.
  intros [_ T]. destruct (assoc_cases K_EndTime r) as [E|[v [E Hin]]]; [exact E|].
  destruct (T _ _ Hin) as [[X _]|[[X _]|[X _]]]; discriminate X.
Qed.
Lemma hit_typed_keys recs : Forall hit_rec_typed recs -> keys124 recs.
Proof.
  intros H r c Hr Hc. rewrite Forall_forall in H. destruct (H r Hr) as [_ T].
  apply in_map_iff in Hc. destruct Hc as [[k v] [<- Hin]]. destruct (T _ _ Hin) as [[X _]|[[X _]|[X _]]]; auto.
Qed.

Lemma lane_of_float_int q z : (q == inject_Z z)%Q -> lane_of (YFloat q) = Some (z + 1).
Proof.
  intro E. unfold lane_of. assert (F: Qfloor q = z) by (rewrite (Qfloor_comp _ _ E); apply Qfloor_Z).
  rewrite F. assert (B: Qeq_bool q (inject_Z z) = true) by (apply Qeq_bool_iff; exact E). rewrite B. reflexivity.
Qed.

(* the three cells of a row read from a typed hit record *)
Lemma fH_start_ok fl r : hit_rec_typed r ->
  exists q, num (fH fl K_StartTime r) = Some q /\ get_default K_StartTime r num 0%Q = Some q.
Proof.
  intro T. rewrite fH_start. unfold get_default, getNaN, promo.
  destruct (hit_typed_start r T) as [E|[z E]]; rewrite E.
  - exists 0%Q. split; reflexivity.
  - exists (inject_Z z). destruct (memZ K_StartTime fl); split; reflexivity.
Qed.
Lemma fH_lane_ok fl r : hit_rec_typed r ->
  exists l, lane_of (fH fl K_Lane r) = Some l /\ get_default K_Lane r int_of 1 = Some l /\ 1 <= l.
Proof.
  intro T. rewrite fH_lane. unfold get_default, getNaN, promo.
  destruct (hit_typed_lane r T) as [E|[z [E Hz]]]; rewrite E.
  - exists 1. split; [reflexivity|split; [reflexivity|lia]].
  - exists z. destruct (memZ K_Lane fl).
    + cbn [fill1 fillna minus1' fill0]. split; [|split; [reflexivity|exact Hz]].
      replace z with (z - 1 + 1) at 2 by lia. apply lane_of_float_int.
      rewrite Qred_correct. rewrite <- inject_Z_plus. replace (z + - (1)) with (z - 1) by lia. reflexivity.
    + cbn [fill1 fillna minus1' fill0 lane_of int_of]. split; [f_equal; lia|split; [reflexivity|exact Hz]].
Qed.
Lemma fH_ks_ok fl r : hit_rec_typed r ->
  exists ks, ks_of (fH fl K_KeySounds r) = Some ks /\ get_default K_KeySounds r ks_of [] = Some ks /\ cell_ks false (fH fl K_KeySounds r) = true.
Proof.
  intro T. rewrite fH_ks. unfold get_default, getNaN, promo.
  destruct (hit_typed_ks r T) as [E|[l [E Hl]]]; rewrite E.
  - exists []. repeat split; reflexivity.
  - exists (texts_of l). cbn [ks_fix' ks_of cell_ks]. rewrite Hl. repeat split; reflexivity.
Qed.

Lemma listZ_eqb_refl l : listZ_eqb l l = true.
Proof. induction l as [|x l IH]; [reflexivity|]. simpl. rewrite Z.eqb_refl. exact IH. Qed.
Lemma rowK_keys kn f cols r : map fst (rowK kn f cols r) = map kn cols.
Proof. unfold rowK. rewrite map_map. reflexivity. Qed.
Lemma note_eqb_refl n : note_eqb n n = true.
Proof.
  unfold note_eqb. rewrite Z.eqb_refl, texts_eqb_refl.
  assert (A: Qeq_bool (n_start n) (n_start n) = true) by (apply Qeq_bool_iff; reflexivity). rewrite A.
  destruct (n_end n); simpl; [|reflexivity]. assert (B: Qeq_bool q q = true) by (apply Qeq_bool_iff; reflexivity). rewrite B. reflexivity.
Qed.

Lemma renH_inj a b : (a = K_StartTime \/ a = K_Lane \/ a = K_KeySounds) -> (b = K_StartTime \/ b = K_Lane \/ b = K_KeySounds) ->
  renH a = renH b -> a = b.
Proof. intros [ -> | [ -> | -> ] ] [ -> | [ -> | -> ] ]; cbv; intro X; try reflexivity; discriminate. Qed.

Lemma omap_same {A B} (f g : A -> option B) l :
  (forall x, In x l -> exists n, f x = Some n /\ g x = Some n) -> exists ns, omap f l = Some ns /\ omap g l = Some ns.
Proof.
  induction l as [|x l IH]; intro H; [exists []; auto|].
  destruct (H x (or_introl eq_refl)) as [n [E1 E2]]. destruct IH as [ns [E3 E4]]; [intros y Hy; apply H; right; exact Hy|].
  exists (n :: ns). cbn [omap]. rewrite E1, E2, E3, E4. auto.
Qed.

Theorem hits_from_yaml_ok recs : Forall hit_rec_typed recs ->
  exists fr, hits_from_yaml recs = Some fr /\ frame_okb (hit_decl false) false fr = true /\
    exists ns, omap hit_row_denote (f_rows fr) = Some ns /\ omap note_denote (map YMap recs) = Some ns.
Proof.
  intro HT. pose proof (hit_typed_keys recs HT) as Hk. rewrite Forall_forall in HT.
  destruct (hits_from_yaml_explicit recs Hk) as [fl E].
  { intros r Hr. destruct (hit_typed_lane r (HT r Hr)) as [X|[z [X _]]]; [left; exact X|right; eauto]. }
  set (C1 := with_req reqH (keys_union recs)) in *.
  assert (ND: NoDup C1).
  { apply with_req_NoDup; [apply dedup_NoDup|]. repeat constructor; simpl; intuition discriminate. }
  assert (I1: In K_StartTime C1) by (apply in_req_cols; simpl; auto).
  assert (I2: In K_Lane C1) by (apply in_req_cols; simpl; auto).
  assert (I4: In K_KeySounds C1) by (apply in_req_cols; simpl; auto).
  assert (CK: forall c, In c C1 -> c = K_StartTime \/ c = K_Lane \/ c = K_KeySounds) by (intros c Hc; exact (C1_keys recs c Hk Hc)).
  exists (frameK renH (fH fl) C1 recs). split; [exact E|]. split.
  - unfold frame_okb, frameK. cbn [f_cols f_rows]. apply andb_true_iff; split; [apply andb_true_iff; split; [apply andb_true_iff; split|]|].
    + apply nodupZ_map_inj; [|apply nodupZ_NoDup; exact ND]. intros a b Ha Hb. apply renH_inj; apply CK; assumption.
    + apply forallb_forall. intros c Hc. apply memZ_In. simpl in Hc. destruct Hc as [<-|[<-|[<-|[]]]].
      * change N_offset with (renH K_StartTime). apply in_map. exact I1.
      * change N_column with (renH K_Lane). apply in_map. exact I2.
      * change N_keysounds with (renH K_KeySounds). apply in_map. exact I4.
    + apply forallb_forall. intros c' Hc'. apply in_map_iff in Hc'. destruct Hc' as [c [<- Hc]].
      destruct (CK c Hc) as [ -> | [ -> | -> ] ]; reflexivity.
    + apply forallb_forall. intros row Hrow. apply in_map_iff in Hrow. destruct Hrow as [r [<- Hr]].
      rewrite rowK_keys, listZ_eqb_refl. cbn [andb]. unfold rowK. apply forallb_forall. intros [k v] Hin.
      apply in_map_iff in Hin. destruct Hin as [c [Ec Hc]]. inversion Ec; subst k v. clear Ec. cbn [fst snd].
      pose proof (HT r Hr) as Tr.
      destruct (CK c Hc) as [ -> | [ -> | -> ] ].
      * change (is_num (fH fl K_StartTime r) = true). destruct (fH_start_ok fl r Tr) as [q [Eq _]].
        destruct (fH fl K_StartTime r); try discriminate Eq; reflexivity.
      * change (cell_col (fH fl K_Lane r) = true). destruct (fH_lane_ok fl r Tr) as [l [El [_ Hl]]]. unfold cell_col. rewrite El.
        apply Z.leb_le. exact Hl.
      * change (cell_ks false (fH fl K_KeySounds r) = true). destruct (fH_ks_ok fl r Tr) as [ks [_ [_ X]]]. exact X.
  - unfold frameK. cbn [f_rows]. rewrite !omap_map.
    assert (P: forall r, In r recs -> exists n, hit_row_denote (rowK renH (fH fl) C1 r) = Some n /\ note_denote (YMap r) = Some n).
    { intros r Hr. pose proof (HT r Hr) as Tr.
      destruct (fH_start_ok fl r Tr) as [q [Q1 Q2]]. destruct (fH_lane_ok fl r Tr) as [l [L1 [L2 _]]]. destruct (fH_ks_ok fl r Tr) as [ks [K1 [K2 _]]].
      exists (mkNote l q None ks). split.
      - unfold hit_row_denote.
        change N_offset with (renH K_StartTime). rewrite (assoc_rowK renH (fH fl) C1 r K_StartTime I1) by (intros c' Hc' X; apply renH_inj; auto).
        change N_column with (renH K_Lane). rewrite (assoc_rowK renH (fH fl) C1 r K_Lane I2) by (intros c' Hc' X; apply renH_inj; auto).
        change N_keysounds with (renH K_KeySounds). rewrite (assoc_rowK renH (fH fl) C1 r K_KeySounds I4) by (intros c' Hc' X; apply renH_inj; auto).
        rewrite Q1, L1, K1. reflexivity.
      - unfold note_denote. rewrite Q2, L2, K2, (hit_typed_noend r Tr). reflexivity. }
    apply omap_same. exact P.
Qed.

(* ---- QuaHoldList.from_yaml in explicit form ---- *)
Definition sub' (a b : ytree) : ytree := match cell_sub a b with Some v => v | None => YNull end.
Definition set_len (f : Z -> row -> ytree) : Z -> row -> ytree :=
  fun c r => if c =? K_EndTime then sub' (f K_EndTime r) (f K_StartTime r) else f c r.

Lemma row_const_upd f cols r k v :
  row_upd k (fun _ => Some v) (rowK idk f cols r) = Some (rowK idk (fun c r' => if c =? k then v else f c r') cols r).
Proof.
  unfold rowK, idk. induction cols as [|c cols IH]; [reflexivity|]. cbn [map row_upd]. rewrite IH.
  destruct (c =? k); reflexivity.
Qed.
Lemma fr_set_len_frameK f cols recs :
  In K_EndTime cols -> In K_StartTime cols ->
  (forall r, In r recs -> exists v, cell_sub (f K_EndTime r) (f K_StartTime r) = Some v) ->
  fr_set_col K_EndTime (fun r => match assoc K_EndTime r, assoc K_StartTime r with
                                 | Some e, Some s => cell_sub e s | _, _ => None end) (frameK idk f cols recs)
  = Some (frameK idk (set_len f) cols recs).
Proof.
  intros Ie Is Hv. unfold fr_set_col, frameK. cbn [f_rows f_cols].
  assert (Hh: fr_has K_EndTime {| f_cols := map idk cols; f_rows := map (rowK idk f cols) recs |} = true).
  { apply memZ_In. cbn [f_cols]. unfold idk. rewrite map_id. exact Ie. }
  rewrite Hh. rewrite omap_map. rewrite (omap_some_map _ (rowK idk (set_len f) cols)); [reflexivity|].
  intros r Hr.
  change K_EndTime with (idk K_EndTime) at 1. rewrite (assoc_rowK idk f cols r K_EndTime Ie) by (intros; assumption).
  change K_StartTime with (idk K_StartTime) at 1. rewrite (assoc_rowK idk f cols r K_StartTime Is) by (intros; assumption).
  destruct (Hv r Hr) as [v Ev]. rewrite Ev.
  assert (Hk: has_key K_EndTime (rowK idk f cols r) = true).
  { unfold has_key. change K_EndTime with (idk K_EndTime) at 1. rewrite (assoc_rowK idk f cols r K_EndTime Ie) by (intros; assumption). reflexivity. }
  rewrite Hk. rewrite row_const_upd. f_equal. unfold rowK. apply map_ext. intro c. unfold set_len, sub'.
  destruct (c =? K_EndTime); [rewrite Ev|]; reflexivity.
Qed.

Definition RL : list (Z * Z) := [(K_StartTime, N_offset); (K_Lane, N_column); (K_KeySounds, N_keysounds); (K_EndTime, N_length)].
Definition renL (c : Z) : Z := ren1 RL (idk c).
Definition reqL : list Z := [K_StartTime; K_Lane; K_KeySounds; K_EndTime].
Definition fL (fl : list Z) : Z -> row -> ytree :=
  upd_f renL N_length fill0 (upd_f renL N_column fill0 (upd_f renL N_offset fill0 (upd_f renL N_column minus1'
    (set_len (upd_f idk K_KeySounds ks_fix' (upd_f idk K_Lane fill1 (upd_f idk K_StartTime fill0
       (fun c r => promo fl c (getNaN c r))))))))).
Lemma fL_start fl r : fL fl K_StartTime r = fill0 (fill0 (promo fl K_StartTime (getNaN K_StartTime r))). Proof. reflexivity. Qed.
Lemma fL_lane fl r : fL fl K_Lane r = fill0 (minus1' (fill1 (promo fl K_Lane (getNaN K_Lane r)))). Proof. reflexivity. Qed.
Lemma fL_ks fl r : fL fl K_KeySounds r = ks_fix' (promo fl K_KeySounds (getNaN K_KeySounds r)). Proof. reflexivity. Qed.
Lemma fL_len fl r : fL fl K_EndTime r =
  fill0 (sub' (promo fl K_EndTime (getNaN K_EndTime r)) (fill0 (promo fl K_StartTime (getNaN K_StartTime r)))). Proof. reflexivity. Qed.

Definition keys1234 (recs : list row) : Prop :=
  forall r c, In r recs -> In c (map fst r) -> c = K_StartTime \/ c = K_Lane \/ c = K_KeySounds \/ c = K_EndTime.
Lemma CL_keys recs c : keys1234 recs -> In c (with_req reqL (keys_union recs)) ->
  c = K_StartTime \/ c = K_Lane \/ c = K_KeySounds \/ c = K_EndTime.
Proof.
  intros Hk H. apply with_req_In in H. destruct H as [H|H].
  - apply keys_union_In in H. destruct H as [r [Hr Hc]]. exact (Hk r c Hr Hc).
  - simpl in H. destruct H as [<-|[<-|[<-|[<-|[]]]]]; auto.
Qed.
Definition start_typed (r : row) : Prop := assoc K_StartTime r = None \/ exists z, assoc K_StartTime r = Some (YInt z).
Definition end_typed (r : row) : Prop := exists z, assoc K_EndTime r = Some (YInt z).

Lemma holds_from_yaml_explicit recs :
  keys1234 recs -> (forall r, In r recs -> lane_typed r /\ start_typed r /\ end_typed r) ->
  exists fl, holds_from_yaml recs = Some (frameK renL (fL fl) (with_req reqL (keys_union recs)) recs).
Proof.
  intros Hk Hl. unfold holds_from_yaml. destruct (fr_of_dicts_frameK recs) as [fl E]. exists fl. rewrite E.
  change (fun c : Z => c) with idk.
  rewrite (fr_require_frameK_id [K_StartTime; K_Lane; K_KeySounds; K_EndTime]).
  2:{ intros r c Hr _ Hn. unfold getNaN. rewrite assoc_None_notin; [reflexivity|].
      intro X. apply Hn. apply keys_union_In. exists r. auto. }
  fold reqL. fold (with_req reqL (keys_union recs)). set (C1 := with_req reqL (keys_union recs)).
  assert (I1: In K_StartTime C1) by (apply in_req_cols; simpl; auto).
  assert (I2: In K_Lane C1) by (apply in_req_cols; simpl; auto).
  assert (I4: In K_KeySounds C1) by (apply in_req_cols; simpl; auto).
  assert (I3: In K_EndTime C1) by (apply in_req_cols; simpl; auto 6).
  rewrite (fr_map_col_frameK idk _ C1 recs K_StartTime (some_fill (YInt 0)) fill0); [|unfold idk; rewrite map_id; exact I1|reflexivity]. cbn [bind].
  rewrite (fr_map_col_frameK idk _ C1 recs K_Lane (some_fill (YInt 1)) fill1); [|unfold idk; rewrite map_id; exact I2|reflexivity]. cbn [bind].
  rewrite (fr_map_col_frameK idk _ C1 recs K_KeySounds ks_fix ks_fix'); [|unfold idk; rewrite map_id; exact I4|reflexivity]. cbn [bind].
  rewrite fr_set_len_frameK; [|exact I3|exact I1|].
  2:{ intros r Hr. destruct (Hl r Hr) as [_ [Hs [ze He]]].
      unfold upd_f, idk. cbn [Z.eqb K_Lane K_StartTime K_KeySounds K_EndTime Pos.eqb]. unfold getNaN, promo. rewrite He.
      destruct Hs as [Es|[zs Es]]; rewrite Es; destruct (memZ K_EndTime fl); try destruct (memZ K_StartTime fl); cbn; eauto. }
  cbn [bind].
  rewrite fr_rename_frameK. fold RL. change (fun c : Z => ren1 RL (idk c)) with renL.
  rewrite (fr_map_col_frameK renL _ C1 recs N_column minus1 minus1').
  2:{ change N_column with (renL K_Lane). apply in_map. exact I2. }
  2:{ intros r c Hr Hc Ec. apply minus1_total.
      assert (c = K_Lane).
      { destruct (CL_keys recs c Hk Hc) as [ -> | [ -> | [ -> | -> ] ] ]; [discriminate Ec|reflexivity|discriminate Ec|discriminate Ec]. }
      subst c. unfold set_len, upd_f, idk. cbn [Z.eqb K_Lane K_StartTime K_KeySounds K_EndTime Pos.eqb].
      unfold getNaN, promo. destruct (Hl r Hr) as [[En|[z Ez]] _]; [rewrite En; reflexivity|rewrite Ez].
      destruct (memZ K_Lane fl); reflexivity. }
  cbn [bind].
  rewrite fr_require_noop.
  2:{ intros c Hc. unfold frameK. cbn [f_cols]. simpl in Hc. destruct Hc as [<-|[<-|[<-|[<-|[]]]]].
      - change N_offset with (renL K_StartTime). apply in_map. exact I1.
      - change N_column with (renL K_Lane). apply in_map. exact I2.
      - change N_keysounds with (renL K_KeySounds). apply in_map. exact I4.
      - change N_length with (renL K_EndTime). apply in_map. exact I3. }
  rewrite (fr_map_col_frameK renL _ C1 recs N_offset (some_fill (YInt 0)) fill0);
    [|change N_offset with (renL K_StartTime); apply in_map; exact I1|reflexivity]. cbn [bind].
  rewrite (fr_map_col_frameK renL _ C1 recs N_column (some_fill (YInt 0)) fill0);
    [|change N_column with (renL K_Lane); apply in_map; exact I2|reflexivity]. cbn [bind].
  rewrite (fr_map_col_frameK renL _ C1 recs N_length (some_fill (YInt 0)) fill0);
    [|change N_length with (renL K_EndTime); apply in_map; exact I3|reflexivity].
  reflexivity.
Qed.

Definition hold_rec_typed (r : row) : Prop :=
  NoDup (map fst r) /\
  (forall k v, In (k, v) r -> (k = K_StartTime /\ is_int v = true) \/ (k = K_Lane /\ is_lane v = true) \/
                              (k = K_KeySounds /\ is_ks v = true) \/ (k = K_EndTime /\ is_int v = true)) /\
  exists v, assoc K_EndTime r = Some v.

Lemma hold_typed_start r : hold_rec_typed r -> assoc K_StartTime r = None \/ exists z, assoc K_StartTime r = Some (YInt z).
Proof.
  intros [_ [T _]]. destruct (assoc_cases K_StartTime r) as [E|[v [E Hin]]]; [auto|right].
  destruct (T _ _ Hin) as [[_ H]|[[X _]|[[X _]|[X _]]]]; try discriminate X. destruct v; try discriminate. eauto.
Qed.
Lemma hold_typed_lane r : hold_rec_typed r -> assoc K_Lane r = None \/ exists z, assoc K_Lane r = Some (YInt z) /\ 1 <= z.
Proof.
  intros [_ [T _]]. destruct (assoc_cases K_Lane r) as [E|[v [E Hin]]]; [auto|right].
  destruct (T _ _ Hin) as [[X _]|[[_ H]|[[X _]|[X _]]]]; try discriminate X. destruct v; try discriminate. exists z. split; [exact E|].
  simpl in H. apply Z.leb_le. exact H.
Qed.
Lemma hold_typed_ks r : hold_rec_typed r -> assoc K_KeySounds r = None \/ exists l, assoc K_KeySounds r = Some (YList l) /\ is_text_list l = true.
Proof.
  intros [_ [T _]]. destruct (assoc_cases K_KeySounds r) as [E|[v [E Hin]]]; [auto|right].
  destruct (T _ _ Hin) as [[X _]|[[X _]|[[_ H]|[X _]]]]; try discriminate X. destruct v; try discriminate. eauto.
Qed.
Lemma hold_typed_end r : hold_rec_typed r -> exists z, assoc K_EndTime r = Some (YInt z).
Proof.
  intros [_ [T [v E]]]. pose proof (assoc_In _ _ _ E) as Hin.
  destruct (T _ _ Hin) as [[X _]|[[X _]|[[X _]|[_ H]]]]; try discriminate X. destruct v; try discriminate. eauto.
Qed.
Lemma hold_typed_keys recs : Forall hold_rec_typed recs -> keys1234 recs.
Proof.
  intros H r c Hr Hc. rewrite Forall_forall in H. destruct (H r Hr) as [_ [T _]].
  apply in_map_iff in Hc. destruct Hc as [[k v] [<- Hin]]. destruct (T _ _ Hin) as [[X _]|[[X _]|[[X _]|[X _]]]]; auto.
Qed.

Lemma fL_start_ok fl r : hold_rec_typed r ->
  exists q, num (fL fl K_StartTime r) = Some q /\ get_default K_StartTime r num 0%Q = Some q.
Proof.
  intro T. rewrite fL_start. unfold get_default, getNaN, promo.
  destruct (hold_typed_start r T) as [E|[z E]]; rewrite E.
  - exists 0%Q. split; reflexivity.
  - exists (inject_Z z). destruct (memZ K_StartTime fl); split; reflexivity.
Qed.
Lemma fL_lane_ok fl r : hold_rec_typed r ->
  exists l, lane_of (fL fl K_Lane r) = Some l /\ get_default K_Lane r int_of 1 = Some l /\ 1 <= l.
Proof.
  intro T. rewrite fL_lane. unfold get_default, getNaN, promo.
  destruct (hold_typed_lane r T) as [E|[z [E Hz]]]; rewrite E.
  - exists 1. split; [reflexivity|split; [reflexivity|lia]].
  - exists z. destruct (memZ K_Lane fl).
    + cbn [fill1 fillna minus1' fill0]. split; [|split; [reflexivity|exact Hz]].
      replace z with (z - 1 + 1) at 2 by lia. apply lane_of_float_int.
      rewrite Qred_correct. rewrite <- inject_Z_plus. replace (z + - (1)) with (z - 1) by lia. reflexivity.
    + cbn [fill1 fillna minus1' fill0 lane_of int_of]. split; [f_equal; lia|split; [reflexivity|exact Hz]].
Qed.
Lemma fL_ks_ok fl r : hold_rec_typed r ->
  exists ks, ks_of (fL fl K_KeySounds r) = Some ks /\ get_default K_KeySounds r ks_of [] = Some ks /\ cell_ks false (fL fl K_KeySounds r) = true.
Proof.
  intro T. rewrite fL_ks. unfold get_default, getNaN, promo.
  destruct (hold_typed_ks r T) as [E|[l [E Hl]]]; rewrite E.
  - exists []. repeat split; reflexivity.
  - exists (texts_of l). cbn [ks_fix' ks_of cell_ks]. rewrite Hl. repeat split; reflexivity.
Qed.
(* the length cell: the offset plus the length is the declared end time *)
Lemma fL_len_ok fl r qs : hold_rec_typed r -> num (fL fl K_StartTime r) = Some qs ->
  exists ql ze, num (fL fl K_EndTime r) = Some ql /\ assoc K_EndTime r = Some (YInt ze) /\ (Qred (qs + ql) == inject_Z ze)%Q.
Proof.
  intros T Hs. destruct (hold_typed_end r T) as [ze Ee]. rewrite fL_start in Hs. rewrite fL_len.
  unfold getNaN, promo in *. rewrite Ee.
  destruct (hold_typed_start r T) as [E|[z E]]; rewrite E in *.
  - cbn [fill0 fillna num] in Hs. inversion Hs; subst qs.
    destruct (memZ K_EndTime fl); cbn [fill0 fillna sub' cell_sub cell_neg cell_add num]; eexists; exists ze; (split; [reflexivity|split; [reflexivity|]]);
      rewrite ?Qred_correct, ?inject_Z_plus, ?inject_Z_opp; change (inject_Z 0) with 0%Q; rewrite ?Qred_correct; ring.
  - destruct (memZ K_StartTime fl); cbn [fill0 fillna num] in Hs; inversion Hs; subst qs;
      destruct (memZ K_EndTime fl); cbn [fill0 fillna sub' cell_sub cell_neg cell_add num]; eexists; exists ze; (split; [reflexivity|split; [reflexivity|]]);
      rewrite ?Qred_correct, ?inject_Z_plus, ?inject_Z_opp; rewrite ?Qred_correct; ring.
Qed.

Lemma renL_inj a b : (a = K_StartTime \/ a = K_Lane \/ a = K_KeySounds \/ a = K_EndTime) ->
  (b = K_StartTime \/ b = K_Lane \/ b = K_KeySounds \/ b = K_EndTime) -> renL a = renL b -> a = b.
Proof. intros [ -> | [ -> | [ -> | -> ] ] ] [ -> | [ -> | [ -> | -> ] ] ]; cbv; intro X; try reflexivity; discriminate. Qed.
Lemma omap_rel {A B} (f g : A -> option B) (R : B -> B -> Prop) l :
  (forall x, In x l -> exists n n', f x = Some n /\ g x = Some n' /\ R n' n) ->
  exists ns es, omap f l = Some ns /\ omap g l = Some es /\ Forall2 R es ns.
Proof.
  induction l as [|x l IH]; intro H; [exists [], []; auto|].
  destruct (H x (or_introl eq_refl)) as [n [n' [E1 [E2 E3]]]]. destruct IH as [ns [es [E4 [E5 E6]]]]; [intros y Hy; apply H; right; exact Hy|].
  exists (n :: ns), (n' :: es). cbn [omap]. rewrite E1, E2, E4, E5. auto.
Qed.

Theorem holds_from_yaml_ok recs : Forall hold_rec_typed recs ->
  exists fr, holds_from_yaml recs = Some fr /\ frame_okb (hold_decl false) false fr = true /\
    exists ns es, omap hold_row_denote (f_rows fr) = Some ns /\ omap note_denote (map YMap recs) = Some es /\
                  Forall2 (fun x y => note_eqb x y = true) es ns.
Proof.
  intro HT. pose proof (hold_typed_keys recs HT) as Hk. rewrite Forall_forall in HT.
  destruct (holds_from_yaml_explicit recs Hk) as [fl E].
  { intros r Hr. pose proof (HT r Hr) as Tr. split; [|split].
    - destruct (hold_typed_lane r Tr) as [X|[z [X _]]]; [left; exact X|right; eauto].
    - exact (hold_typed_start r Tr).
    - exact (hold_typed_end r Tr). }
  set (C1 := with_req reqL (keys_union recs)) in *.
  assert (ND: NoDup C1).
  { apply with_req_NoDup; [apply dedup_NoDup|]. repeat constructor; simpl; intuition discriminate. }
  assert (I1: In K_StartTime C1) by (apply in_req_cols; simpl; auto).
  assert (I2: In K_Lane C1) by (apply in_req_cols; simpl; auto).
  assert (I4: In K_KeySounds C1) by (apply in_req_cols; simpl; auto).
  assert (I3: In K_EndTime C1) by (apply in_req_cols; simpl; auto 6).
  assert (CK: forall c, In c C1 -> c = K_StartTime \/ c = K_Lane \/ c = K_KeySounds \/ c = K_EndTime) by (intros c Hc; exact (CL_keys recs c Hk Hc)).
  exists (frameK renL (fL fl) C1 recs). split; [exact E|]. split.
  - unfold frame_okb, frameK. cbn [f_cols f_rows]. apply andb_true_iff; split; [apply andb_true_iff; split; [apply andb_true_iff; split|]|].
    + apply nodupZ_map_inj; [|apply nodupZ_NoDup; exact ND]. intros a b Ha Hb. apply renL_inj; apply CK; assumption.
    + apply forallb_forall. intros c Hc. apply memZ_In. simpl in Hc. destruct Hc as [<-|[<-|[<-|[<-|[]]]]].
      * change N_offset with (renL K_StartTime). apply in_map. exact I1.
      * change N_column with (renL K_Lane). apply in_map. exact I2.
      * change N_keysounds with (renL K_KeySounds). apply in_map. exact I4.
      * change N_length with (renL K_EndTime). apply in_map. exact I3.
    + apply forallb_forall. intros c' Hc'. apply in_map_iff in Hc'. destruct Hc' as [c [<- Hc]].
      destruct (CK c Hc) as [ -> | [ -> | [ -> | -> ] ] ]; reflexivity.
    + apply forallb_forall. intros row Hrow. apply in_map_iff in Hrow. destruct Hrow as [r [<- Hr]].
      rewrite rowK_keys, listZ_eqb_refl. cbn [andb]. unfold rowK. apply forallb_forall. intros [k v] Hin.
      apply in_map_iff in Hin. destruct Hin as [c [Ec Hc]]. inversion Ec; subst k v. clear Ec. cbn [fst snd].
      pose proof (HT r Hr) as Tr.
      destruct (CK c Hc) as [ -> | [ -> | [ -> | -> ] ] ].
      * change (is_num (fL fl K_StartTime r) = true). destruct (fL_start_ok fl r Tr) as [q [Eq _]].
        destruct (fL fl K_StartTime r); try discriminate Eq; reflexivity.
      * change (cell_col (fL fl K_Lane r) = true). destruct (fL_lane_ok fl r Tr) as [l [El [_ Hl]]]. unfold cell_col. rewrite El.
        apply Z.leb_le. exact Hl.
      * change (cell_ks false (fL fl K_KeySounds r) = true). destruct (fL_ks_ok fl r Tr) as [ks [_ [_ X]]]. exact X.
      * change (is_num (fL fl K_EndTime r) = true). destruct (fL_start_ok fl r Tr) as [q [Eq _]].
        destruct (fL_len_ok fl r q Tr Eq) as [ql [ze [El _]]]. destruct (fL fl K_EndTime r); try discriminate El; reflexivity.
  - unfold frameK. cbn [f_rows]. rewrite !omap_map.
    apply omap_rel. intros r Hr. pose proof (HT r Hr) as Tr.
    destruct (fL_start_ok fl r Tr) as [q [Q1 Q2]]. destruct (fL_lane_ok fl r Tr) as [l [L1 [L2 _]]]. destruct (fL_ks_ok fl r Tr) as [ks [K1 [K2 _]]].
    destruct (fL_len_ok fl r q Tr Q1) as [ql [ze [E1 [E2 E3]]]].
    exists (mkNote l q (Some (Qred (q + ql))) ks), (mkNote l q (Some (inject_Z ze)) ks). split; [|split].
    + unfold hold_row_denote.
      change N_offset with (renL K_StartTime). rewrite (assoc_rowK renL (fL fl) C1 r K_StartTime I1) by (intros c' Hc' X; apply renL_inj; auto).
      change N_column with (renL K_Lane). rewrite (assoc_rowK renL (fL fl) C1 r K_Lane I2) by (intros c' Hc' X; apply renL_inj; auto).
      change N_keysounds with (renL K_KeySounds). rewrite (assoc_rowK renL (fL fl) C1 r K_KeySounds I4) by (intros c' Hc' X; apply renL_inj; auto).
      change N_length with (renL K_EndTime). rewrite (assoc_rowK renL (fL fl) C1 r K_EndTime I3) by (intros c' Hc' X; apply renL_inj; auto 6).
      rewrite Q1, L1, K1, E1. reflexivity.
    + unfold note_denote. rewrite Q2, L2, K2, E2. reflexivity.
    + unfold note_eqb. cbn [n_lane n_start n_end n_ks oq_eqb]. rewrite Z.eqb_refl, texts_eqb_refl.
      assert (A: Qeq_bool q q = true) by (apply Qeq_bool_iff; reflexivity). rewrite A.
      assert (B: Qeq_bool (inject_Z ze) (Qred (q + ql)) = true) by (apply Qeq_bool_iff; symmetry; exact E3). rewrite B. reflexivity.
Qed.

(* ---- from the boolean domain predicate to typed records ---- *)
Definition rec_typed (allowed : list (Z * (ytree -> bool))) (r : row) : Prop :=
  NoDup (map fst r) /\ forall k v, In (k, v) r -> exists p, assoc k allowed = Some p /\ p v = true.
Lemma rec_okb_inv allowed v : rec_okb allowed v = true -> exists r, v = YMap r /\ rec_typed allowed r.
Proof.
  destruct v; try discriminate. simpl. intro H. apply andb_true_iff in H. destruct H as [H1 H2].
  exists kvs. split; [reflexivity|]. split; [apply nodupZ_NoDup; exact H1|].
  intros k v Hin. rewrite forallb_forall in H2. specialize (H2 (k, v) Hin). cbn [fst snd] in H2.
  destruct (assoc k allowed) as [p|]; [eauto|discriminate].
Qed.
Lemma rec_list_inv allowed l : forallb (rec_okb allowed) l = true ->
  exists recs, l = map YMap recs /\ as_rows (YList l) = Some recs /\ Forall (rec_typed allowed) recs.
Proof.
  induction l as [|v l IH]; intro H; [exists []; simpl; auto|].
  simpl in H. apply andb_true_iff in H. destruct H as [Hv Hl].
  destruct (rec_okb_inv allowed v Hv) as [r [-> Tr]]. destruct (IH Hl) as [recs [-> [E F]]].
  exists (r :: recs). split; [reflexivity|]. split; [|constructor; assumption].
  simpl in *. rewrite E. reflexivity.
Qed.

Lemma note_in_cases k p : assoc k note_keys_in = Some p ->
  (k = K_StartTime /\ p = is_int) \/ (k = K_Lane /\ p = is_lane) \/ (k = K_EndTime /\ p = is_int) \/ (k = K_KeySounds /\ p = is_ks).
Proof.
  unfold note_keys_in. simpl.
  destruct (k =? K_StartTime) eqn:E1; [apply Z.eqb_eq in E1; intro H; inversion H; auto|].
  destruct (k =? K_Lane) eqn:E2; [apply Z.eqb_eq in E2; intro H; inversion H; auto|].
  destruct (k =? K_EndTime) eqn:E3; [apply Z.eqb_eq in E3; intro H; inversion H; auto|].
  destruct (k =? K_KeySounds) eqn:E4; [apply Z.eqb_eq in E4; intro H; inversion H; auto 6|discriminate].
Qed.
Lemma has_key_In {A} k (l : list (Z * A)) : In k (map fst l) -> has_key k l = true.
Proof. intro H. unfold has_key. apply memZ_In in H. destruct (assoc_mem k l H) as [v E]. rewrite E. reflexivity. Qed.

Lemma note_hit_typed r : rec_typed note_keys_in r -> has_key K_EndTime r = false -> hit_rec_typed r.
Proof.
  intros [ND T] He. split; [exact ND|]. intros k v Hin. destruct (T k v Hin) as [p [Ep Hp]].
  destruct (note_in_cases k p Ep) as [[-> ->]|[[-> ->]|[[-> ->]|[-> ->]]]]; auto.
  exfalso. rewrite has_key_In in He; [discriminate|]. apply in_map_iff. exists (K_EndTime, v). auto.
Qed.
Lemma note_hold_typed r : rec_typed note_keys_in r -> has_key K_EndTime r = true -> hold_rec_typed r.
Proof.
  intros [ND T] He. split; [exact ND|]. split.
  - intros k v Hin. destruct (T k v Hin) as [p [Ep Hp]].
    destruct (note_in_cases k p Ep) as [[-> ->]|[[-> ->]|[[-> ->]|[-> ->]]]]; auto 6.
  - unfold has_key in He. destruct (assoc K_EndTime r) as [v|]; [eauto|discriminate].
Qed.

(* every typed note record is denotable, and it is a hit exactly when it has no EndTime *)
Lemma hit_rec_denotes r : hit_rec_typed r -> exists n, note_denote (YMap r) = Some n /\ n_end n = None.
Proof.
  intro T. destruct (fH_start_ok [] r T) as [q [_ Q]]. destruct (fH_lane_ok [] r T) as [l [_ [L _]]]. destruct (fH_ks_ok [] r T) as [ks [_ [K _]]].
  exists (mkNote l q None ks). unfold note_denote. rewrite Q, L, K, (hit_typed_noend r T). auto.
Qed.
Lemma hold_rec_denotes r : hold_rec_typed r -> exists n e, note_denote (YMap r) = Some n /\ n_end n = Some e.
Proof.
  intro T. destruct (fL_start_ok [] r T) as [q [_ Q]]. destruct (fL_lane_ok [] r T) as [l [_ [L _]]]. destruct (fL_ks_ok [] r T) as [ks [_ [K _]]].
  destruct (hold_typed_end r T) as [ze E].
  exists (mkNote l q (Some (inject_Z ze)) ks), (inject_Z ze). unfold note_denote. rewrite Q, L, K, E. auto.
Qed.

Definition is_hit (n : noteD) : bool := match n_end n with None => true | Some _ => false end.
Lemma omap_filter {A B} (f : A -> option B) (p : A -> bool) (cls : B -> bool) l es :
  omap f l = Some es -> (forall x n, In x l -> f x = Some n -> cls n = p x) -> omap f (filter p l) = Some (filter cls es).
Proof.
  revert es. induction l as [|x l IH]; intros es H Hc; simpl in *; [inversion H; reflexivity|].
  destruct (f x) as [n|] eqn:E; [|discriminate]. destruct (omap f l) as [t|] eqn:E2; [|discriminate]. inversion H; subst es.
  simpl. rewrite (Hc x n (or_introl eq_refl) E). destruct (p x); simpl.
  - rewrite E. rewrite (IH t eq_refl); [reflexivity|]. intros y m Hy. apply Hc. right. exact Hy.
  - apply (IH t eq_refl). intros y m Hy. apply Hc. right. exact Hy.
Qed.
Lemma omap_total {A B} (f : A -> option B) l : (forall x, In x l -> exists n, f x = Some n) -> exists ns, omap f l = Some ns.
Proof.
  induction l as [|x l IH]; intro H; [exists []; reflexivity|]. destruct (H x (or_introl eq_refl)) as [n E].
  destruct IH as [ns E2]; [intros y Hy; apply H; right; exact Hy|]. exists (n :: ns). simpl. rewrite E, E2. reflexivity.
Qed.

(* ---- _read_notes ---- *)
Lemma filter_Forall {A} (P : A -> Prop) p l : Forall P l -> Forall P (filter p l).
Proof. intro H. apply Forall_forall. intros x Hx. apply filter_In in Hx. rewrite Forall_forall in H. apply H. tauto. Qed.

Lemma read_notes_ok hc lc recs :
  frame_okb (hit_decl false) false (mkFrame hc []) = true -> frame_okb (hold_decl false) false (mkFrame lc []) = true ->
  Forall (rec_typed note_keys_in) recs ->
  exists fh fl es nh nl,
    read_notes hc lc hits_from_yaml holds_from_yaml recs = Some (fh, fl) /\
    frame_okb (hit_decl false) false fh = true /\ frame_okb (hold_decl false) false fl = true /\
    omap note_denote (map YMap recs) = Some es /\
    omap hit_row_denote (f_rows fh) = Some nh /\ omap hold_row_denote (f_rows fl) = Some nl /\
    perm_eqb note_eqb es (nh ++ nl) = true.
Proof.
  intros Hhc Hlc HT. rewrite Forall_forall in HT.
  set (ph := fun r : row => negb (has_key K_EndTime r)). set (pl := fun r : row => has_key K_EndTime r).
  assert (TH: Forall hit_rec_typed (filter ph recs)).
  { apply Forall_forall. intros r Hr. apply filter_In in Hr. destruct Hr as [Hr Hp]. apply note_hit_typed; [apply HT; exact Hr|].
    unfold ph in Hp. apply negb_true_iff in Hp. exact Hp. }
  assert (TL: Forall hold_rec_typed (filter pl recs)).
  { apply Forall_forall. intros r Hr. apply filter_In in Hr. destruct Hr as [Hr Hp]. apply note_hold_typed; [apply HT; exact Hr|exact Hp]. }
  (* every record denotes *)
  assert (DN: forall r, In r recs -> exists n, note_denote (YMap r) = Some n /\ is_hit n = ph r).
  { intros r Hr. unfold ph. destruct (has_key K_EndTime r) eqn:E.
    - destruct (hold_rec_denotes r (note_hold_typed r (HT r Hr) E)) as [n [e [D1 D2]]]. exists n. split; [exact D1|]. unfold is_hit. rewrite D2. reflexivity.
    - destruct (hit_rec_denotes r (note_hit_typed r (HT r Hr) E)) as [n [D1 D2]]. exists n. split; [exact D1|]. unfold is_hit. rewrite D2. reflexivity. }
  destruct (omap_total (fun r => note_denote (YMap r)) recs) as [es Ees]; [intros r Hr; destruct (DN r Hr) as [n [D _]]; eauto|].
  assert (Fh: omap (fun r => note_denote (YMap r)) (filter ph recs) = Some (filter is_hit es)).
  { apply omap_filter; [exact Ees|]. intros r n Hr E. destruct (DN r Hr) as [n' [D C]]. rewrite D in E. inversion E; subst. exact C. }
  assert (Fl: omap (fun r => note_denote (YMap r)) (filter pl recs) = Some (filter (fun n => negb (is_hit n)) es)).
  { apply omap_filter; [exact Ees|]. intros r n Hr E. destruct (DN r Hr) as [n' [D C]]. rewrite D in E. inversion E; subst. rewrite C. unfold ph, pl. apply negb_involutive. }
  (* the two readers *)
  assert (RH: exists fh nh, match filter ph recs with [] => Some (mkFrame hc []) | _ => hits_from_yaml (filter ph recs) end = Some fh /\
              frame_okb (hit_decl false) false fh = true /\ omap hit_row_denote (f_rows fh) = Some nh /\ nh = filter is_hit es).
  { destruct (filter ph recs) as [|r0 t] eqn:Ef.
    - exists (mkFrame hc []), []. simpl in Fh. inversion Fh. auto.
    - destruct (hits_from_yaml_ok (r0 :: t) TH) as [fr [E1 [E2 [ns [E3 E4]]]]].
      exists fr, ns. split; [exact E1|]. split; [exact E2|]. split; [exact E3|]. rewrite omap_map in E4. rewrite E4 in Fh. inversion Fh. reflexivity. }
  assert (RL: exists fl nl, match filter pl recs with [] => Some (mkFrame lc []) | _ => holds_from_yaml (filter pl recs) end = Some fl /\
              frame_okb (hold_decl false) false fl = true /\ omap hold_row_denote (f_rows fl) = Some nl /\
              Forall2 (fun x y => note_eqb x y = true) (filter (fun n => negb (is_hit n)) es) nl).
  { destruct (filter pl recs) as [|r0 t] eqn:Ef.
    - exists (mkFrame lc []), []. simpl in Fl. inversion Fl. repeat split; auto.
    - destruct (holds_from_yaml_ok (r0 :: t) TL) as [fr [E1 [E2 [ns [es' [E3 [E4 E5]]]]]]].
      exists fr, ns. split; [exact E1|]. split; [exact E2|]. split; [exact E3|]. rewrite omap_map in E4. rewrite E4 in Fl. inversion Fl; subst. exact E5. }
  destruct RH as [fh [nh [H1 [H2 [H3 H4]]]]]. destruct RL as [fl [nl [L1 [L2 [L3 L4]]]]].
  exists fh, fl, es, nh, nl. split.
  - unfold read_notes. cbv zeta.
    change (filter (fun r : list (Z * ytree) => negb (has_key K_EndTime r)) recs) with (filter ph recs).
    change (filter (fun r : list (Z * ytree) => has_key K_EndTime r) recs) with (filter pl recs).
    match goal with |- ?X >>= _ = _ => replace X with (Some fh) by (symmetry; exact H1) end. cbn [bind].
    match goal with |- ?X >>= _ = _ => replace X with (Some fl) by (symmetry; exact L1) end. reflexivity.
  - split; [exact H2|]. split; [exact L2|]. split; [rewrite omap_map; exact Ees|]. split; [exact H3|]. split; [exact L3|].
    apply (perm_eqb_two_classes note_eqb is_hit).
    + subst nh. apply Forall2_refl. apply note_eqb_refl.
    + exact L4.
    + intros x z Hx Cx Hz. subst nh. apply filter_In in Hz. destruct Hz as [_ Cz].
      unfold is_hit in *. unfold note_eqb. destruct (n_end x); [|discriminate]. destruct (n_end z); [discriminate|].
      cbn [oq_eqb]. rewrite andb_false_r. reflexivity.
Qed.

(* ---- _read_bpms / _read_svs ---- *)
Lemma pt_rec_ok allowed kval (d0 : ytree) (dq : Q) r :
  assoc K_StartTime allowed = Some is_int -> assoc kval allowed = Some is_num -> num d0 = Some dq ->
  rec_typed allowed r ->
  exists p, point_denote kval dq (YMap r) = Some p /\ is_num (getd K_StartTime (YInt 0) r) = true /\ is_num (getd kval d0 r) = true.
Proof.
  intros A1 A2 Hd [_ T]. unfold point_denote, get_default, getd.
  assert (S: exists qs, match assoc K_StartTime r with Some v => num v | None => Some 0%Q end = Some qs /\
                        is_num (match assoc K_StartTime r with Some v => v | None => YInt 0 end) = true).
  { destruct (assoc_cases K_StartTime r) as [E|[v [E Hin]]]; rewrite E; [eauto|].
    destruct (T _ _ Hin) as [p [Ep Hp]]. rewrite A1 in Ep. inversion Ep; subst p. destruct v; try discriminate. simpl. eauto. }
  assert (V: exists qv, match assoc kval r with Some v => num v | None => Some dq end = Some qv /\
                        is_num (match assoc kval r with Some v => v | None => d0 end) = true).
  { destruct (assoc_cases kval r) as [E|[v [E Hin]]]; rewrite E.
    - exists dq. split; [reflexivity|]. destruct d0; try discriminate; reflexivity.
    - destruct (T _ _ Hin) as [p [Ep Hp]]. rewrite A2 in Ep. inversion Ep; subst p. destruct v; try discriminate; simpl; eauto. }
  destruct S as [qs [S1 S2]]. destruct V as [qv [V1 V2]]. rewrite S1, V1. eauto.
Qed.

Lemma read_bpms_ok bc recs : frame_okb bpm_decl false (mkFrame bc []) = true -> Forall (rec_typed tp_keys_in) recs ->
  frame_okb bpm_decl false (read_bpms bc recs) = true /\
  exists ps, omap (point_denote K_Bpm 120%Q) (map YMap recs) = Some ps /\ omap (point_row_denote N_bpm) (f_rows (read_bpms bc recs)) = Some ps.
Proof.
  intros Hbc HT. rewrite Forall_forall in HT.
  assert (P: forall r, In r recs -> exists p, point_denote K_Bpm 120%Q (YMap r) = Some p /\
             is_num (getd K_StartTime (YInt 0) r) = true /\ is_num (getd K_Bpm (YInt 120) r) = true).
  { intros r Hr. apply (pt_rec_ok tp_keys_in K_Bpm (YInt 120) 120%Q r); try reflexivity. apply HT. exact Hr. }
  split.
  - destruct recs as [|r0 t]; [exact Hbc|]. set (recs := r0 :: t) in *.
    change (read_bpms bc recs) with
      (mkFrame [N_offset; N_bpm; N_metronome]
         (map (fun r => [(N_offset, getd K_StartTime (YInt 0) r); (N_bpm, getd K_Bpm (YInt 120) r); (N_metronome, YInt 4)]) recs)).
    unfold frame_okb. cbn [f_cols f_rows]. apply andb_true_iff. split; [reflexivity|].
    apply forallb_forall. intros row Hrow. apply in_map_iff in Hrow. destruct Hrow as [r [<- Hr]].
    destruct (P r Hr) as [_ [_ [A B]]]. simpl. rewrite A, B. reflexivity.
  - destruct (omap_total (fun r => point_denote K_Bpm 120%Q (YMap r)) recs) as [ps E]; [intros r Hr; destruct (P r Hr) as [p [D _]]; eauto|].
    exists ps. rewrite omap_map. split; [exact E|]. apply read_bpms_denote. rewrite omap_map. exact E.
Qed.
Lemma read_svs_ok sc recs : frame_okb sv_decl false (mkFrame sc []) = true -> Forall (rec_typed sv_keys_in) recs ->
  frame_okb sv_decl false (read_svs sc recs) = true /\
  exists ps, omap (point_denote K_Multiplier 1%Q) (map YMap recs) = Some ps /\ omap (point_row_denote N_multiplier) (f_rows (read_svs sc recs)) = Some ps.
Proof.
  intros Hsc HT. rewrite Forall_forall in HT.
  assert (P: forall r, In r recs -> exists p, point_denote K_Multiplier 1%Q (YMap r) = Some p /\
             is_num (getd K_StartTime (YInt 0) r) = true /\ is_num (getd K_Multiplier (YFloat 1) r) = true).
  { intros r Hr. apply (pt_rec_ok sv_keys_in K_Multiplier (YFloat 1) 1%Q r); try reflexivity. apply HT. exact Hr. }
  split.
  - destruct recs as [|r0 t]; [exact Hsc|]. set (recs := r0 :: t) in *.
    change (read_svs sc recs) with
      (mkFrame [N_offset; N_multiplier]
         (map (fun r => [(N_offset, getd K_StartTime (YInt 0) r); (N_multiplier, getd K_Multiplier (YFloat 1) r)]) recs)).
    unfold frame_okb. cbn [f_cols f_rows]. apply andb_true_iff. split; [reflexivity|].
    apply forallb_forall. intros row Hrow. apply in_map_iff in Hrow. destruct Hrow as [r [<- Hr]].
    destruct (P r Hr) as [_ [_ [A B]]]. simpl. rewrite A, B. reflexivity.
  - destruct (omap_total (fun r => point_denote K_Multiplier 1%Q (YMap r)) recs) as [ps E]; [intros r Hr; destruct (P r Hr) as [p [D _]]; eauto|].
    exists ps. rewrite omap_map. split; [exact E|]. apply read_svs_denote. rewrite omap_map. exact E.
Qed.

(* ---- metadata: the words of a string are well-formed tags; what is read is typed ---- *)
Lemma words_go_good s : forall cur, memZ 32 cur = false -> forallb good_tag (words_go s cur) = true.
Proof.
  assert (R: forall cur, memZ 32 cur = false -> memZ 32 (rev cur) = false).
  { intros cur H. destruct (memZ 32 (rev cur)) eqn:E; [|reflexivity]. apply memZ_In in E. apply in_rev in E. apply memZ_In in E. congruence. }
  assert (N: forall x cur, nonempty (rev (x :: cur)) = true).
  { intros x cur. simpl. destruct (rev cur); reflexivity. }
  induction s as [|c s IH]; intros cur H; cbn [words_go].
  - destruct cur as [|x cur]; [reflexivity|]. cbn [forallb]. unfold good_tag. rewrite (R (x :: cur) H). rewrite (N x cur). reflexivity.
  - destruct (c =? 32) eqn:E.
    + destruct cur as [|x cur]; [apply IH; reflexivity|]. cbn [forallb]. unfold good_tag at 1. rewrite (R (x :: cur) H), (N x cur). cbn [negb andb]. apply IH. reflexivity.
    + apply IH. unfold memZ in *. cbn [existsb]. rewrite Z.eqb_sym, E. exact H.
Qed.
Lemma words_tag_okb s : forallb tag_okb (map YStr (words s)) = true.
Proof.
  pose proof (words_go_good s [] eq_refl) as H. unfold words. induction (words_go s []) as [|w ws IH]; [reflexivity|].
  simpl in *. apply andb_true_iff in H. destruct H as [Hw Hws]. rewrite (IH Hws), andb_true_r.
  unfold good_tag in Hw. unfold nonempty in Hw. apply andb_true_iff in Hw. destruct Hw as [A B]. rewrite A. destruct w; [discriminate|reflexivity].
Qed.

Definition meta_cell_okb (kt : Z * Z) (v : ytree) : bool :=
  if fst kt =? ref_tags_key then match v with YList l => forallb tag_okb l | _ => false end else has_type (snd kt) v.
Lemma meta_read_typed tbl md d d' decl act :
  (forall k, In k (map fst tbl) -> assoc k d' = assoc k d) ->
  all2 (fun kt kd => (fst kt =? fst kd) && has_type (if fst kt =? ref_tags_key then 4 else snd kt) (snd kd)) tbl md = true ->
  omap (meta_decl1 d) tbl = Some decl -> omap (read_meta1 d') md = Some act -> all2 meta_cell_okb tbl act = true.
Proof.
  revert md decl act. induction tbl as [|[k ty] tbl IH]; intros md decl act Hd Hall Hdec Hact.
  - destruct md; [|discriminate]. inversion Hact. reflexivity.
  - destruct md as [|[k' dflt] md]; [discriminate|]. cbn [all2 fst snd] in Hall.
    apply andb_true_iff in Hall. destruct Hall as [Hk Hall]. apply andb_true_iff in Hk. destruct Hk as [Ek Hty].
    apply Z.eqb_eq in Ek. subst k'.
    cbn [omap] in Hdec, Hact. destruct (meta_decl1 d (k, ty)) as [dk|] eqn:E1; [|discriminate].
    destruct (omap (meta_decl1 d) tbl) as [dt|] eqn:E2; [|discriminate].
    destruct (read_meta1 d' (k, dflt)) as [a|] eqn:E3; [|discriminate].
    destruct (omap (read_meta1 d') md) as [at_|] eqn:E4; [|discriminate]. inversion Hact; subst act.
    cbn [all2]. rewrite (IH md dt at_); [|intros k0 Hk0; apply Hd; right; exact Hk0|exact Hall|first [reflexivity|exact E2]|first [reflexivity|exact E4]].
    rewrite andb_true_r.
    assert (Ea: assoc k d' = assoc k d) by (apply Hd; left; reflexivity).
    unfold meta_decl1 in E1. unfold read_meta1, K_Tags, getd in E3. unfold meta_cell_okb, ref_tags_key in *. cbn [fst snd] in *.
    rewrite Ea in E3. destruct (assoc k d) as [v|].
    + destruct (k =? 115) eqn:Et.
      * destruct v; try discriminate. inversion E3; subst a. rewrite tags_of_is_words. apply words_tag_okb.
      * destruct (has_type ty v) eqn:Hv; [|discriminate]. inversion E3; subst a. exact Hv.
    + destruct (k =? 115) eqn:Et; inversion E3; subst a; [reflexivity|exact Hty].
Qed.
Lemma meta_denote_total tbl d :
  (forall k ty v, In (k, ty) tbl -> assoc k d = Some v -> has_type ty v = true) ->
  (forall k ty, In (k, ty) tbl -> k = ref_tags_key -> ty = 0) ->
  exists decl, omap (meta_decl1 d) tbl = Some decl.
Proof.
  induction tbl as [|[k ty] tbl IH]; intros H Ht; [exists []; reflexivity|].
  destruct IH as [dt E]; [intros k0 ty0 v0 Hin; apply H; right; exact Hin|intros k0 ty0 Hin; apply Ht; right; exact Hin|].
  assert (X: exists dk, meta_decl1 d (k, ty) = Some dk).
  { unfold meta_decl1. destruct (assoc k d) as [v|] eqn:Ev; [|eauto].
    pose proof (H k ty v (or_introl eq_refl) Ev) as Hv. destruct (k =? ref_tags_key) eqn:Et.
    - apply Z.eqb_eq in Et. rewrite (Ht k ty (or_introl eq_refl) Et) in Hv. destruct v; try discriminate Hv. eauto.
    - rewrite Hv. eauto. }
  destruct X as [dk Ek]. exists (dk :: dt). cbn [omap]. rewrite Ek, E. reflexivity.
Qed.

(* ---- QuaMap.read, whole document ---- *)
Lemma section_inv allowed k d : section_okb allowed k d = true ->
  exists l, assoc k d = Some (YList l) /\ forallb (rec_okb allowed) l = true.
Proof. unfold section_okb. destruct (assoc k d) as [v|]; [|discriminate]. destruct v; try discriminate. eauto. Qed.
Lemma In_assoc_nodup {A} (l : list (Z * A)) k v : NoDup (map fst l) -> In (k, v) l -> assoc k l = Some v.
Proof.
  induction l as [|[k' v'] t IH]; intros ND Hin; [contradiction|]. simpl. inversion ND; subst.
  destruct Hin as [E|Hin]; [inversion E; subst; rewrite Z.eqb_refl; reflexivity|].
  destruct (k =? k') eqn:Ek; [|apply IH; assumption]. apply Z.eqb_eq in Ek. subst. exfalso. apply H1. apply in_map_iff. exists (k', v). auto.
Qed.
Lemma all2_ext_in {A B} (p q : A -> B -> bool) a b : (forall x y, p x y = q x y) -> all2 p a b = all2 q a b.
Proof. intro H. revert b. induction a as [|x a IH]; destruct b as [|y b]; simpl; auto. rewrite H, IH. reflexivity. Qed.

Definition defaults_ok (hc lc bc sc : list Z) (md : list (Z * ytree)) : bool :=
  frame_okb (hit_decl false) false (mkFrame hc []) && frame_okb (hold_decl false) false (mkFrame lc [])
  && frame_okb bpm_decl false (mkFrame bc []) && frame_okb sv_decl false (mkFrame sc [])
  && all2 (fun kt kd => (fst kt =? fst kd) && has_type (if fst kt =? ref_tags_key then 4 else snd kt) (snd kd)) ref_meta_table md.

Theorem qua_read_ok hc lc bc sc md doc : defaults_ok hc lc bc sc md = true -> wf_docb doc = true ->
  exists c, qua_read_gen hc lc bc sc md hits_from_yaml holds_from_yaml doc = Some c /\
            read_specb doc (Some c) = true /\ wf_chartb false c = true.
Proof.
  intros Hdef Hwf. unfold defaults_ok in Hdef. do 4 (apply andb_true_iff in Hdef; destruct Hdef as [Hdef ?]).
  rename Hdef into Dh, H2 into Dl, H1 into Db, H0 into Ds, H into Dm.
  destruct doc as [| | | | | | |d]; try discriminate. unfold wf_docb in Hwf.
  do 4 (apply andb_true_iff in Hwf; destruct Hwf as [Hwf ?]).
  rename Hwf into Wn, H2 into Wt, H1 into Sh, H0 into Sb, H into Ss.
  apply nodupZ_NoDup in Wn.
  destruct (section_inv _ _ _ Sh) as [lh [Ah Oh]]. destruct (section_inv _ _ _ Sb) as [lb [Ab Ob]]. destruct (section_inv _ _ _ Ss) as [ls [As_ Os]].
  destruct (rec_list_inv _ _ Oh) as [rh [-> [Rh Th]]]. destruct (rec_list_inv _ _ Ob) as [rb [-> [Rb Tb]]]. destruct (rec_list_inv _ _ Os) as [rs [-> [Rs Ts]]].
  destruct (read_notes_ok hc lc rh Dh Dl Th) as [fh [fl [es [nh [nl [N1 [N2 [N3 [N4 [N5 [N6 N7]]]]]]]]]]].
  destruct (read_bpms_ok bc rb Db Tb) as [B1 [pb [B2 B3]]]. destruct (read_svs_ok sc rs Ds Ts) as [S1 [ps [S2 S3]]].
  set (d' := remove_key K_SliderVelocities (remove_key K_TimingPoints (remove_key K_HitObjects d))).
  assert (Hd': forall k, In k (map fst ref_meta_table) -> assoc k d' = assoc k d).
  { intros k Hk. unfold d'. rewrite !assoc_remove_key; [reflexivity| | |]; intro X; subst k; simpl in Hk;
      repeat (destruct Hk as [Hk|Hk]; [discriminate Hk|]); exact Hk. }
  destruct (meta_denote_total ref_meta_table d) as [decl Edecl].
  { intros k ty v Hin Ev. rewrite forallb_forall in Wt. specialize (Wt (k, v) (assoc_In _ _ _ Ev)). cbn [fst snd] in Wt.
    assert (M: memZ k sections = false).
    { simpl in Hin. repeat (destruct Hin as [Hin|Hin]; [inversion Hin; reflexivity|]). contradiction. }
    rewrite M in Wt. cbn [orb] in Wt.
    rewrite (In_assoc_nodup ref_meta_table k ty) in Wt; [exact Wt| |exact Hin]. repeat constructor; simpl; intuition discriminate. }
  { intros k ty Hin Ek. subst k. simpl in Hin. repeat (destruct Hin as [Hin|Hin]; [inversion Hin; try reflexivity|]). contradiction. }
  destruct (meta_read_ok ref_meta_table md d d' decl Hd' Dm Edecl) as [m [M1 [M2 [M3 M4]]]].
  pose proof (meta_read_typed ref_meta_table md d d' decl m Hd' Dm Edecl M1) as M5.
  exists (mkChart fh fl (read_bpms bc rb) (read_svs sc rs) m). split; [|split].
  - unfold qua_read_gen. rewrite Ah. cbn [bind]. rewrite Rh. cbn [bind]. rewrite N1. cbn [bind].
    rewrite assoc_remove_key by discriminate. rewrite Ab. cbn [bind]. rewrite Rb. cbn [bind].
    rewrite !assoc_remove_key by discriminate. rewrite As_. cbn [bind]. rewrite Rs. cbn [bind].
    fold d'. rewrite read_meta_unfold, M1. reflexivity.
  - unfold read_specb, qua_denote, section_denote. rewrite Ah, Ab, As_, N4, B2, S2. rewrite meta_denote_unfold, Edecl.
    unfold chart_denote. cbn [c_hits c_holds c_bpms c_svs c_meta]. rewrite N5, N6, B3, S3.
    rewrite M3, Nat.eqb_refl. unfold den_eqb. cbn [d_notes d_bpms d_svs d_meta]. rewrite N7.
    rewrite (perm_eqb_Forall2 pt_eqb pb pb) by (apply Forall2_refl; apply pt_eqb_refl).
    rewrite (perm_eqb_Forall2 pt_eqb ps ps) by (apply Forall2_refl; apply pt_eqb_refl).
    rewrite meta_refinesb_unfold, M2, M4, map_length, M3, Nat.eqb_refl. reflexivity.
  - unfold wf_chartb. cbn [c_hits c_holds c_bpms c_svs c_meta]. rewrite N2, N3, B1, S1. cbn [andb].
    unfold meta_okb. rewrite <- M5. apply all2_ext_in. intros [k ty] v. unfold meta_cell_okb. cbn [fst snd].
    destruct (k =? ref_tags_key); [reflexivity|]. rewrite andb_false_l, orb_false_r. reflexivity.
Qed.

(* ---- instantiation with the live tables, and the round trips ---- *)
Theorem live_defaults_ok :
  defaults_ok Tables.Tables.c06.hit_cols Tables.Tables.c06.hold_cols Tables.Tables.c06.bpm_cols Tables.Tables.c06.sv_cols Live.meta_defaults = true.
Proof. vm_compute. reflexivity. Qed.

(* QuaMap.read of a document in the domain: succeeds, yields the chart the document denotes, and that chart is strict *)
Theorem qua_read_live_ok doc : wf_docb doc = true ->
  exists c, Live.read doc = Some c /\ read_specb doc (Some c) = true /\ wf_chartb false c = true.
Proof. intro H. exact (qua_read_ok _ _ _ _ _ doc live_defaults_ok H). Qed.
Theorem qua_read_denotes doc : wf_docb doc = true -> ReadSpec doc (Live.read doc).
Proof.
  intro H. destruct (qua_read_live_ok doc H) as [c [E [S _]]]. rewrite E. apply read_specb_sound. exact S.
Qed.

(* a written document is a document of the reader's domain *)
Lemma rec_okb_mono (a b : list (Z * (ytree -> bool))) v :
  (forall k p, assoc k a = Some p -> exists q, assoc k b = Some q /\ forall x, p x = true -> q x = true) ->
  rec_okb a v = true -> rec_okb b v = true.
Proof.
  intros M. destruct v; try discriminate. unfold rec_okb. intro H. apply andb_true_iff in H. destruct H as [H1 H2].
  rewrite H1. cbn [andb]. apply forallb_forall. intros [k x] Hin. rewrite forallb_forall in H2. specialize (H2 (k, x) Hin). cbn [fst snd] in *.
  destruct (assoc k a) as [p|] eqn:E; [|discriminate]. destruct (M k p E) as [q [Eq Hq]]. rewrite Eq. apply Hq. exact H2.
Qed.
Lemma section_okb_mono a b k d :
  (forall k p, assoc k a = Some p -> exists q, assoc k b = Some q /\ forall x, p x = true -> q x = true) ->
  section_okb a k d = true -> section_okb b k d = true.
Proof.
  intros M. unfold section_okb. destruct (assoc k d) as [v|]; [|discriminate]. destruct v; try discriminate.
  intro H. apply forallb_forall. intros x Hx. rewrite forallb_forall in H. apply (rec_okb_mono a b x M). apply H. exact Hx.
Qed.
Lemma is_float_is_num x : is_float x = true -> is_num x = true.
Proof. destruct x; try discriminate; reflexivity. Qed.
Theorem wf_qua_doc_is_wf_doc d : wf_qua_docb d = true -> wf_docb d = true.
Proof.
  destruct d; try discriminate. unfold wf_qua_docb, wf_docb. intro H.
  do 4 (apply andb_true_iff in H; destruct H as [H ?]). rewrite H. cbn [andb].
  apply andb_true_iff; split; [apply andb_true_iff; split; [apply andb_true_iff; split|]|].
  - apply forallb_forall. intros kv Hin. rewrite forallb_forall in H3. specialize (H3 kv Hin).
    destruct (memZ (fst kv) sections); [reflexivity|]. cbn [orb] in *. destruct (assoc (fst kv) ref_meta_table); [exact H3|reflexivity].
  - exact H2.
  - apply (section_okb_mono tp_keys tp_keys_in); [|exact H1].
    intros k p. unfold tp_keys, tp_keys_in. simpl. destruct (k =? K_StartTime); [intro E; inversion E; eauto|].
    destruct (k =? K_Bpm); [intro E; inversion E; exists is_num; split; [reflexivity|apply is_float_is_num]|discriminate].
  - apply (section_okb_mono sv_keys sv_keys_in); [|exact H0].
    intros k p. unfold sv_keys, sv_keys_in. simpl. destruct (k =? K_StartTime); [intro E; inversion E; eauto|].
    destruct (k =? K_Multiplier); [intro E; inversion E; exists is_num; split; [reflexivity|apply is_float_is_num]|discriminate].
Qed.

(* read after write: for every strict chart the writer produces a well-formed document denoting the chart within 1 ms,
   the reader accepts that document, reads exactly what it denotes, and hands back a strict chart again *)
Theorem qua_read_after_write c : wf_chartb false c = true ->
  exists d c', Live.write c = Some d /\ Live.read d = Some c' /\
               WriteSpec c (Some d) /\ ReadSpec d (Some c') /\ wf_chartb false c' = true.
Proof.
  intro H. pose proof (qua_write_live_ok c H) as W. destruct (Live.write c) as [d|] eqn:E; [|discriminate W].
  assert (Wd: wf_docb d = true).
  { apply wf_qua_doc_is_wf_doc. unfold write_specb in W. apply andb_true_iff in W. tauto. }
  destruct (qua_read_live_ok d Wd) as [c' [R [S T]]].
  exists d, c'. split; [reflexivity|]. split; [exact R|]. split; [apply write_specb_sound; exact W|]. split; [apply read_specb_sound; exact S|exact T].
Qed.
(* write after read: for every document of the domain the reader yields the chart it denotes and the writer turns that
   chart into a well-formed document denoting it within 1 ms (and that document is again in the reader's domain) *)
Theorem qua_write_after_read doc : wf_docb doc = true ->
  exists c d, Live.read doc = Some c /\ Live.write c = Some d /\
              ReadSpec doc (Some c) /\ WriteSpec c (Some d) /\ wf_docb d = true.
Proof.
  intro H. destruct (qua_read_live_ok doc H) as [c [R [S T]]].
  pose proof (qua_write_live_ok c T) as W. destruct (Live.write c) as [d|] eqn:E; [|discriminate W].
  exists c, d. split; [exact R|]. split; [exact E|]. split; [apply read_specb_sound; exact S|]. split; [apply write_specb_sound; exact W|].
  apply wf_qua_doc_is_wf_doc. unfold write_specb in W. apply andb_true_iff in W. tauto.
Qed.
