(* C06 — proofs about the model (Formats/Qua.v) and the oracle (Formats/QuaSpec.v). *)
From Coq Require Import ZArith QArith Qround Qabs List Bool Lia Lqa Permutation.
From RV Require Import Base.PyNum Formats.Qua Formats.QuaSpec.
Import ListNotations.
Open Scope Z_scope.

(* ------------------------------------------------------------------ int(): truncation moves a time by < 1 *)
Lemma Qabs_lt1 (a : Q) : (-(1) < a)%Q -> (a < 1)%Q -> (Qabs a < 1)%Q.
Proof. intros H1 H2. apply Qabs_case; intros; lra. Qed.

Lemma qtrunc_lt1 (x : Q) : (Qabs (x - inject_Z (qtrunc x)) < 1)%Q.
Proof.
  unfold qtrunc. destruct (Qle_bool 0 x) eqn:E.
  - pose proof (Qfloor_le x) as F1. pose proof (Qlt_floor x) as F2.
    rewrite inject_Z_plus in F2. change (inject_Z 1) with 1%Q in F2. apply Qabs_lt1; lra.
  - pose proof (Qfloor_le (- x)) as F1. pose proof (Qlt_floor (- x)) as F2.
    rewrite inject_Z_plus in F2. change (inject_Z 1) with 1%Q in F2.
    rewrite inject_Z_opp. apply Qabs_lt1; lra.
Qed.

Lemma qtrunc_inject (z : Z) : qtrunc (inject_Z z) = z.
Proof.
  unfold qtrunc. destruct (Qle_bool 0 (inject_Z z)) eqn:E.
  - apply Qfloor_Z.
  - rewrite <- inject_Z_opp, Qfloor_Z. lia.
Qed.

(* int(int(x)) = int(x): a second generation cannot move a time again *)
Lemma cast_int_idem (v w : ytree) : cast_int v = Some w -> cast_int w = Some w.
Proof. destruct v; simpl; intro H; inversion H; reflexivity. Qed.

Lemma lt1_true (a b : Q) : lt1 a b = true <-> (Qabs (a - b) < 1)%Q.
Proof. unfold lt1. apply Qlt_bool_iff. Qed.

(* the time written for a numeric cell is within 1 ms of the cell *)
Lemma cast_int_close (v : ytree) (q : Q) : num v = Some q ->
  exists z, cast_int v = Some (YInt z) /\ lt1 (inject_Z z) q = true.
Proof.
  destruct v; simpl; intro H; inversion H; subst.
  - exists z. split; [reflexivity|]. apply lt1_true. apply Qabs_lt1; lra.
  - exists (qtrunc q). split; [reflexivity|]. apply lt1_true.
    pose proof (qtrunc_lt1 q) as T. rewrite <- Qabs_opp.
    setoid_replace (- (inject_Z (qtrunc q) - q))%Q with (q - inject_Z (qtrunc q))%Q by ring. exact T.
Qed.

(* ------------------------------------------------------------------ Tags: split / join *)
(* the reader's  [i for i in s.split(" ") if i]  is the list of blank-separated words *)
Lemma tags_of_words_go (s cur : text) :
  filter nonempty (split_sp s cur) = words_go s cur.
Proof.
  revert cur. induction s as [|c t IH]; intro cur; simpl.
  - destruct cur as [|x cur']; simpl; [reflexivity|].
    destruct (rev cur' ++ [x]) eqn:E; [destruct (rev cur'); discriminate|reflexivity].
  - destruct (c =? 32).
    + simpl. rewrite IH. destruct cur as [|x cur']; simpl; [reflexivity|].
      destruct (rev cur' ++ [x]) eqn:E; [destruct (rev cur'); discriminate|reflexivity].
    + apply IH.
Qed.
Theorem tags_of_is_words (s : text) : tags_of s = words s.
Proof. apply tags_of_words_go. Qed.

Definition good_tag (t : text) : bool := negb (memZ 32 t) && nonempty t.

Lemma words_go_app_noblank (t rest cur : text) :
  memZ 32 t = false -> words_go (t ++ rest) cur = words_go rest (rev t ++ cur).
Proof.
  revert cur. induction t as [|c t IH]; intros cur H; [reflexivity|].
  unfold memZ in H. cbn [existsb] in H. apply orb_false_iff in H. destruct H as [H1 H2].
  rewrite Z.eqb_sym in H1. cbn [app words_go]. rewrite H1. rewrite IH by exact H2. cbn [rev]. rewrite <- app_assoc. reflexivity.
Qed.

Theorem words_join (ts : list text) : forallb good_tag ts = true -> words (join_sp ts) = ts.
Proof.
  unfold words. induction ts as [|t ts IH]; intro H; [reflexivity|].
  simpl in H. apply andb_true_iff in H. destruct H as [Ht Hts].
  unfold good_tag in Ht. apply andb_true_iff in Ht. destruct Ht as [Hb Hn]. apply negb_true_iff in Hb.
  destruct ts as [|t' ts'].
  - simpl. rewrite <- (app_nil_r t) at 1. rewrite words_go_app_noblank by exact Hb. simpl.
    rewrite app_nil_r. destruct (rev t) eqn:E.
    + destruct t; [discriminate|]. simpl in E. destruct (rev t); discriminate.
    + rewrite <- E, rev_involutive. reflexivity.
  - change (join_sp (t :: t' :: ts')) with (t ++ 32 :: join_sp (t' :: ts')).
    rewrite words_go_app_noblank by exact Hb. simpl. rewrite app_nil_r.
    destruct (rev t) eqn:E.
    + destruct t; [discriminate|]. simpl in E. destruct (rev t); discriminate.
    + rewrite <- E, rev_involutive. f_equal. apply IH. exact Hts.
Qed.

(* ------------------------------------------------------------------ soundness of the boolean oracles *)
Lemma all2_Forall2 {A B} (p : A -> B -> bool) (P : A -> B -> Prop) :
  (forall a b, p a b = true -> P a b) -> forall l m, all2 p l m = true -> Forall2 P l m.
Proof.
  intros HP. induction l as [|x l IH]; destruct m as [|y m]; simpl; intro H; try discriminate; constructor.
  - apply HP. apply andb_true_iff in H. tauto.
  - apply IH. apply andb_true_iff in H. tauto.
Qed.

Lemma remove1_perm {A} (eqb : A -> A -> bool) x l l' :
  remove1 eqb x l = Some l' -> exists y, eqb x y = true /\ Permutation l (y :: l').
Proof.
  revert l'. induction l as [|y t IH]; simpl; intros l' H; [discriminate|].
  destruct (eqb x y) eqn:E.
  - inversion H; subst. exists y. split; [exact E|apply Permutation_refl].
  - destruct (remove1 eqb x t) as [t'|] eqn:R; [|discriminate]. inversion H; subst.
    destruct (IH t' eq_refl) as [z [Ez Pz]]. exists z. split; [exact Ez|].
    eapply perm_trans; [apply perm_skip; exact Pz|apply perm_swap].
Qed.

Lemma perm_eqb_sound {A} (eqb : A -> A -> bool) (a b : list A) :
  perm_eqb eqb a b = true -> exists b', Permutation b b' /\ Forall2 (fun x y => eqb x y = true) a b'.
Proof.
  revert b. induction a as [|x a IH]; intros b H; simpl in H.
  - destruct b; [|discriminate]. exists []. split; constructor.
  - destruct (remove1 eqb x b) as [b1|] eqn:R; [|discriminate].
    destruct (remove1_perm _ _ _ _ R) as [y [Ey Py]].
    destruct (IH b1 H) as [b2 [P2 F2]].
    exists (y :: b2). split; [eapply perm_trans; [exact Py|apply perm_skip; exact P2]|constructor; assumption].
Qed.

Lemma note_closeb_sound a b : note_closeb a b = true -> note_close a b.
Proof.
  unfold note_closeb, note_close. intro H.
  repeat (apply andb_true_iff in H; destruct H as [H ?]).
  split; [apply Z.eqb_eq; exact H|]. split; [apply lt1_true; assumption|]. split; [|assumption].
  destruct (n_end a), (n_end b); try discriminate; auto. apply lt1_true. assumption.
Qed.
Lemma pt_closeb_sound a b : pt_closeb a b = true -> pt_close a b.
Proof.
  unfold pt_closeb, pt_close. intro H. apply andb_true_iff in H. destruct H as [H1 H2].
  split; [apply lt1_true; exact H1|apply Qeq_bool_iff; exact H2].
Qed.

Theorem den_closeb_sound e a : den_closeb e a = true -> den_close e a.
Proof.
  unfold den_closeb, den_close. intro H.
  repeat (apply andb_true_iff in H; destruct H as [H ?]).
  split; [exists (d_notes a); split; [apply Permutation_refl|eapply all2_Forall2; [apply note_closeb_sound|exact H]]|].
  split; [exists (d_bpms a); split; [apply Permutation_refl|eapply all2_Forall2; [apply pt_closeb_sound|assumption]]|].
  split; [exists (d_svs a); split; [apply Permutation_refl|eapply all2_Forall2; [apply pt_closeb_sound|assumption]]|].
  assumption.
Qed.

Theorem den_eqb_sound e a : den_eqb e a = true -> den_eq e a.
Proof.
  unfold den_eqb, den_eq. intro H.
  repeat (apply andb_true_iff in H; destruct H as [H ?]).
  split; [apply perm_eqb_sound; exact H|]. split; [apply perm_eqb_sound; assumption|].
  split; [apply perm_eqb_sound; assumption|assumption].
Qed.

(* what the four oracles of Corr/RunC06.v establish when they answer true *)
Definition ReadSpec (doc : ytree) (out : option chart) : Prop :=
  exists c e a, out = Some c /\ qua_denote doc = Some e /\ chart_denote c = Some a /\ den_eq e a.
Definition WriteSpec (c : chart) (out : option ytree) : Prop :=
  exists d e a, out = Some d /\ wf_qua_docb d = true /\ qua_denote d = Some e /\ chart_denote c = Some a
                /\ den_close e a /\ all_declared (d_meta e) = true.
Definition WriteReadSpec (c : chart) (out : option chart) : Prop :=
  exists c' e a, out = Some c' /\ chart_denote c = Some e /\ chart_denote c' = Some a /\ den_close e a.

Theorem read_specb_sound doc out : read_specb doc out = true -> ReadSpec doc out.
Proof.
  unfold read_specb, ReadSpec. destruct out as [c|]; [|discriminate].
  destruct (qua_denote doc) as [e|] eqn:E1; [|discriminate]. destruct (chart_denote c) as [a|] eqn:E2; [|discriminate].
  intro H. exists c, e, a. split; [reflexivity|]. split; [reflexivity|]. split; [exact E2|]. apply den_eqb_sound; exact H.
Qed.
Theorem write_specb_sound c out : write_specb c out = true -> WriteSpec c out.
Proof.
  unfold write_specb, WriteSpec. destruct out as [d|]; [|discriminate]. intro H.
  apply andb_true_iff in H. destruct H as [W H].
  destruct (qua_denote d) as [e|] eqn:E1; [|discriminate]. destruct (chart_denote c) as [a|] eqn:E2; [|discriminate].
  apply andb_true_iff in H. destruct H as [H1 H2].
  exists d, e, a. split; [reflexivity|]. split; [exact W|]. split; [exact E1|]. split; [reflexivity|].
  split; [apply den_closeb_sound; exact H1|exact H2].
Qed.
Theorem wr_specb_sound c out : wr_specb c out = true -> WriteReadSpec c out.
Proof.
  unfold wr_specb, WriteReadSpec. destruct out as [c'|]; [|discriminate].
  destruct (chart_denote c) as [e|] eqn:E1; [|discriminate]. destruct (chart_denote c') as [a|] eqn:E2; [|discriminate].
  intro H. exists c', e, a. split; [reflexivity|]. split; [reflexivity|]. split; [exact E2|]. apply den_closeb_sound; exact H.
Qed.

(* ------------------------------------------------------------------ the to_yaml pipelines, row by row *)
Lemma omap_bind {A B C} (f : A -> option B) (g : B -> option C) (l : list A) :
  omap f l >>= omap g = omap (fun x => f x >>= g) l.
Proof.
  induction l as [|x l IH]; [reflexivity|]. simpl.
  destruct (f x) as [y|]; simpl.
  - destruct (omap f l) as [r|]; simpl in *.
    + rewrite <- IH. reflexivity.
    + rewrite <- IH. destruct (g y); reflexivity.
  - reflexivity.
Qed.
Lemma omap_some_map {A B} (f : A -> option B) (h : A -> B) (l : list A) :
  (forall x, In x l -> f x = Some (h x)) -> omap f l = Some (map h l).
Proof.
  induction l as [|x l IH]; intro H; [reflexivity|]. simpl.
  rewrite (H x (or_introl eq_refl)). rewrite IH; [reflexivity|]. intros y Hy. apply H. right. exact Hy.
Qed.

(* cells of a well-typed chart, and what the writer makes of them *)
Definition trunc_cell (v : ytree) : Z := match v with YInt z => z | YFloat q => qtrunc q | _ => 0 end.
Definition lane_cell (v : ytree) : Z := match v with YInt z => z + 1 | YFloat q => qtrunc (Qred (q + 1)) | _ => 0 end.
Definition sum_cell (a b : ytree) : Z :=
  match cell_add a b with Some v => trunc_cell v | None => 0 end.

Definition hit_row (x : ytree * ytree * ytree) : row :=
  let '(o, c, k) := x in [(N_offset, o); (N_column, c); (N_keysounds, k)].
Definition canon_hits (l : list (ytree * ytree * ytree)) : frame :=
  mkFrame [N_offset; N_column; N_keysounds] (map hit_row l).
Definition hit_out (x : ytree * ytree * ytree) : row :=
  let '(o, c, k) := x in [(K_StartTime, YInt (trunc_cell o)); (K_Lane, YInt (lane_cell c)); (K_KeySounds, k)].

Lemma is_num_cases v : is_num v = true -> (exists z, v = YInt z) \/ (exists q, v = YFloat q).
Proof. destruct v; simpl; intro H; try discriminate; eauto. Qed.

Lemma hits_to_yaml_rows rows :
  hits_to_yaml (mkFrame [N_offset; N_column; N_keysounds] rows)
  = omap (fun r => row_upd N_column plus1 r >>= row_upd N_offset cast_int >>= row_upd N_column cast_int) rows
    >>= fun rs => Some (map (map (fun kv => (ren1 ren_out (fst kv), snd kv))) rs).
Proof.
  rewrite <- !omap_bind. unfold hits_to_yaml, fr_map_col.
  change (fr_has N_column {| f_cols := [N_offset; N_column; N_keysounds]; f_rows := rows |}) with true. cbv iota. cbn [f_rows f_cols].
  destruct (omap (row_upd N_column plus1) rows) as [r1|]; [|reflexivity]. cbn [bind].
  change (fr_has N_offset {| f_cols := [N_offset; N_column; N_keysounds]; f_rows := r1 |}) with true. cbv iota. cbn [f_rows f_cols].
  destruct (omap (row_upd N_offset cast_int) r1) as [r2|]; [|reflexivity]. cbn [bind].
  change (fr_has N_column {| f_cols := [N_offset; N_column; N_keysounds]; f_rows := r2 |}) with true. cbv iota. cbn [f_rows f_cols].
  destruct (omap (row_upd N_column cast_int) r2) as [r3|]; reflexivity.
Qed.

Lemma hit_row_written x :
  let '(o, c, k) := x in
  is_num o = true -> cell_col c = true ->
  (row_upd N_column plus1 (hit_row x) >>= row_upd N_offset cast_int >>= row_upd N_column cast_int)
  = Some [(N_offset, YInt (trunc_cell o)); (N_column, YInt (lane_cell c)); (N_keysounds, k)].
Proof.
  destruct x as [[o c] k]. intros Ho Hc.
  destruct (is_num_cases o Ho) as [[z ->]|[q ->]];
  (destruct c as [zc|qc| | | | | |]; try discriminate Hc; reflexivity).
Qed.

Lemma qtrunc_comp (x y : Q) : (x == y)%Q -> qtrunc x = qtrunc y.
Proof.
  intro E. unfold qtrunc. rewrite (Qleb_comp 0%Q 0%Q (Qeq_refl 0%Q) x y E).
  destruct (Qle_bool 0 y); [apply Qfloor_comp; exact E|]. f_equal. apply Qfloor_comp. rewrite E. reflexivity.
Qed.

(* the written lane is the lane of the cell (column + 1), also for a column stored as an integral float *)
Lemma lane_cell_is_lane_of c l : lane_of c = Some l -> lane_cell c = l.
Proof.
  destruct c as [z|q| | | | | |]; cbn [lane_of lane_cell]; intro H; try discriminate.
  - inversion H. reflexivity.
  - destruct (Qeq_bool q (inject_Z (Qfloor q))) eqn:E; [|discriminate]. inversion H; subst. apply Qeq_bool_iff in E.
    rewrite (qtrunc_comp _ (inject_Z (Qfloor q + 1))); [apply qtrunc_inject|].
    eapply Qeq_trans; [apply Qred_correct|]. rewrite inject_Z_plus. change (inject_Z 1) with 1%Q. lra.
Qed.

Definition hit_ok (x : ytree * ytree * ytree) : bool := let '(o, c, k) := x in is_num o && cell_col c && is_ks k.

(* QuaHitList.to_yaml on a list with the declared columns: one record per row, StartTime = int(offset),
   Lane = column + 1, KeySounds untouched *)
Theorem hits_to_yaml_canonical l : forallb hit_ok l = true -> hits_to_yaml (canon_hits l) = Some (map hit_out l).
Proof.
  intro H. unfold canon_hits. rewrite hits_to_yaml_rows.
  set (h := fun r : row => match r with
                           | [(_, o); (_, c); (_, k)] => [(N_offset, YInt (trunc_cell o)); (N_column, YInt (lane_cell c)); (N_keysounds, k)]
                           | _ => [] end).
  assert (E: omap (fun r : row => row_upd N_column plus1 r >>= row_upd N_offset cast_int >>= row_upd N_column cast_int)
                  (map hit_row l) = Some (map h (map hit_row l))).
  { apply omap_some_map. intros r Hr. apply in_map_iff in Hr. destruct Hr as [[[o c] k] [<- Hx]].
    rewrite forallb_forall in H. specialize (H _ Hx). unfold hit_ok in H.
    apply andb_true_iff in H. destruct H as [H Hk]. apply andb_true_iff in H. destruct H as [Ho Hc].
    exact (hit_row_written (o, c, k) Ho Hc). }
  rewrite E. cbn [bind]. f_equal. rewrite !map_map. apply map_ext. intros [[o c] k]. reflexivity.
Qed.

Lemma is_ks_ks_of k : is_ks k = true -> exists ks, ks_of k = Some ks.
Proof. destruct k; try discriminate. simpl. intro H. rewrite H. eauto. Qed.
Lemma texts_eqb_refl ks : texts_eqb ks ks = true.
Proof.
  induction ks as [|t ks IH]; [reflexivity|]. simpl. rewrite IH.
  assert (X: text_eqb t t = true) by (induction t as [|a t IHt]; [reflexivity|]; simpl; rewrite Z.eqb_refl; exact IHt).
  rewrite X. reflexivity.
Qed.

Local Opaque lane_of ks_of is_ks texts_eqb.
(* every record written for a hit is well-formed and denotes the hit with its time moved by < 1 ms *)
Theorem hit_out_ok x : hit_ok x = true ->
  rec_okb note_keys (YMap (hit_out x)) = true /\
  exists n n', note_denote (YMap (hit_out x)) = Some n /\ hit_row_denote (hit_row x) = Some n' /\ note_closeb n n' = true.
Proof.
  destruct x as [[o c] k]. unfold hit_ok. intro H.
  apply andb_true_iff in H. destruct H as [H Hk]. apply andb_true_iff in H. destruct H as [Ho Hc].
  unfold cell_col in Hc. destruct (lane_of c) as [l|] eqn:El; [|discriminate].
  pose proof (lane_cell_is_lane_of c l El) as Hl.
  destruct (is_ks_ks_of k Hk) as [ks Eks].
  destruct (is_num_cases o Ho) as [[z ->]|[q ->]].
  - split.
    + unfold rec_okb, note_keys, hit_out, K_KeySounds, K_StartTime, K_Lane, K_EndTime; simpl. rewrite ?Hl, ?Hc, ?Hk. reflexivity.
    + exists (mkNote l (inject_Z z) None ks), (mkNote l (inject_Z z) None ks).
      unfold note_denote, hit_row_denote, get_default, hit_out, hit_row, K_KeySounds, K_StartTime, K_Lane, K_EndTime, N_offset, N_column, N_keysounds; simpl. rewrite ?Hl, ?El, ?Eks. split; [reflexivity|]. split; [reflexivity|].
      unfold note_closeb. simpl. rewrite Z.eqb_refl. simpl.
      rewrite ?texts_eqb_refl, ?andb_true_r. apply lt1_true. apply Qabs_lt1; lra.
  - split.
    + unfold rec_okb, note_keys, hit_out, K_KeySounds, K_StartTime, K_Lane, K_EndTime; simpl. rewrite ?Hl, ?Hc, ?Hk. reflexivity.
    + exists (mkNote l (inject_Z (qtrunc q)) None ks), (mkNote l q None ks).
      unfold note_denote, hit_row_denote, get_default, hit_out, hit_row, K_KeySounds, K_StartTime, K_Lane, K_EndTime, N_offset, N_column, N_keysounds; simpl. rewrite ?Hl, ?El, ?Eks. split; [reflexivity|]. split; [reflexivity|].
      unfold note_closeb. simpl. rewrite Z.eqb_refl. simpl.
      rewrite ?texts_eqb_refl, ?andb_true_r. apply lt1_true.
      pose proof (qtrunc_lt1 q) as Q1. rewrite <- Qabs_opp.
      setoid_replace (- (inject_Z (qtrunc q) - q))%Q with (q - inject_Z (qtrunc q))%Q by ring. exact Q1.
Qed.
Local Transparent lane_of ks_of is_ks texts_eqb.

(* a hold: EndTime = int(offset + length) is within 1 ms of the hold's end *)
Lemma hold_end_close (o ln : ytree) (qo ql : Q) : num o = Some qo -> num ln = Some ql ->
  exists v z, cell_add o ln = Some v /\ cast_int v = Some (YInt z) /\ lt1 (inject_Z z) (qo + ql) = true.
Proof.
  intros Ho Hl. destruct o; simpl in Ho; inversion Ho; subst; destruct ln; simpl in Hl; inversion Hl; subst; simpl.
  - exists (YInt (z + z0)), (z + z0). split; [reflexivity|]. split; [reflexivity|].
    apply lt1_true. rewrite inject_Z_plus. apply Qabs_lt1; lra.
  - eexists _, _. split; [reflexivity|]. split; [reflexivity|]. apply lt1_true.
    pose proof (qtrunc_lt1 (Qred (inject_Z z + ql))) as T. rewrite <- Qabs_opp.
    rewrite Qred_correct in T at 1.
    setoid_replace (- (inject_Z (qtrunc (Qred (inject_Z z + ql))) - (inject_Z z + ql)))%Q
      with (inject_Z z + ql - inject_Z (qtrunc (Qred (inject_Z z + ql))))%Q by ring. exact T.
  - eexists _, _. split; [reflexivity|]. split; [reflexivity|]. apply lt1_true.
    pose proof (qtrunc_lt1 (Qred (qo + inject_Z z))) as T. rewrite <- Qabs_opp.
    rewrite Qred_correct in T at 1.
    setoid_replace (- (inject_Z (qtrunc (Qred (qo + inject_Z z))) - (qo + inject_Z z)))%Q
      with (qo + inject_Z z - inject_Z (qtrunc (Qred (qo + inject_Z z))))%Q by ring. exact T.
  - eexists _, _. split; [reflexivity|]. split; [reflexivity|]. apply lt1_true.
    pose proof (qtrunc_lt1 (Qred (qo + ql))) as T. rewrite <- Qabs_opp.
    rewrite Qred_correct in T at 1.
    setoid_replace (- (inject_Z (qtrunc (Qred (qo + ql))) - (qo + ql)))%Q
      with (qo + ql - inject_Z (qtrunc (Qred (qo + ql))))%Q by ring. exact T.
Qed.

(* ------------------------------------------------------------------ reader, record by record: timing points and
   scroll velocities are read as the format says (omitted StartTime = 0, Bpm = 120, Multiplier = 1) *)
Theorem read_bpm_row_denotes (r : row) p : point_denote K_Bpm 120%Q (YMap r) = Some p ->
  point_row_denote N_bpm [(N_offset, getd K_StartTime (YInt 0) r); (N_bpm, getd K_Bpm (YInt 120) r); (N_metronome, YInt 4)] = Some p.
Proof.
  unfold point_denote, point_row_denote, get_default, getd, N_offset, N_bpm, N_metronome. simpl.
  destruct (assoc K_StartTime r) as [s|]; destruct (assoc K_Bpm r) as [b|]; simpl;
    repeat match goal with |- context [num ?v] => destruct (num v) end; intro H; try discriminate; exact H.
Qed.
Theorem read_sv_row_denotes (r : row) p : point_denote K_Multiplier 1%Q (YMap r) = Some p ->
  point_row_denote N_multiplier [(N_offset, getd K_StartTime (YInt 0) r); (N_multiplier, getd K_Multiplier (YFloat 1) r)] = Some p.
Proof.
  unfold point_denote, point_row_denote, get_default, getd, N_offset, N_multiplier. simpl.
  destruct (assoc K_StartTime r) as [s|]; destruct (assoc K_Multiplier r) as [b|]; simpl;
    repeat match goal with |- context [num ?v] => destruct (num v) end; intro H; try discriminate; exact H.
Qed.

(* ------------------------------------------------------------------ the statements that are FALSE of the faithful model:
   concrete witnesses (each isolates one defect; InitialScrollVelocity is declared except in the last one) *)
Definition doc_of (isv : bool) (notes : list ytree) : ytree :=
  YMap ((if isv then [(K_InitialScrollVelocity, YFloat 1)] else [])
        ++ [(K_HitObjects, YList notes); (K_TimingPoints, YList []); (K_SliderVelocities, YList [])]).
Definition wit_omit_keysounds := doc_of true [YMap [(K_StartTime, YInt 10); (K_Lane, YInt 2)]].
Definition wit_hold_omit_start := doc_of true
  [YMap [(K_EndTime, YInt 30); (K_Lane, YInt 2); (K_KeySounds, YList [])];
   YMap [(K_StartTime, YInt 3); (K_EndTime, YInt 30); (K_Lane, YInt 2); (K_KeySounds, YList [])]].
Definition wit_holds_all_omit_start := doc_of true [YMap [(K_EndTime, YInt 30); (K_Lane, YInt 2); (K_KeySounds, YList [])]].
Definition wit_all_omit_lane := doc_of true [YMap [(K_StartTime, YInt 5); (K_KeySounds, YList [])]].
Definition wit_omit_isv := doc_of false [YMap [(K_StartTime, YInt 5); (K_Lane, YInt 1); (K_KeySounds, YList [])]].
Definition wit_clean := doc_of true
  [YMap [(K_Lane, YInt 1); (K_KeySounds, YList [])];
   YMap [(K_StartTime, YInt 3); (K_EndTime, YInt 30); (K_Lane, YInt 7); (K_KeySounds, YList [YStr [97]])]].

Definition read_ok (doc : ytree) : bool := read_specb doc (Live.read doc).
Definition rw_ok (doc : ytree) : bool := rw_specb doc (Live.read doc >>= Live.write).
Definition read_ok_OLD (doc : ytree) : bool := read_specb doc (Live.read_OLD doc).
Definition rw_ok_OLD (doc : ytree) : bool := rw_specb doc (Live.read_OLD doc >>= Live.write).

(* the OLD reader (before fix 736886e) violated the property on these documents ... *)
Theorem OLD_read_omitted_keysounds_refuted :
  wf_docb wit_omit_keysounds = true /\ read_ok_OLD wit_omit_keysounds = false /\ rw_ok_OLD wit_omit_keysounds = false.
Proof. vm_compute. repeat split. Qed.
Theorem OLD_read_hold_omitted_starttime_refuted :
  wf_docb wit_hold_omit_start = true /\ read_ok_OLD wit_hold_omit_start = false /\ rw_ok_OLD wit_hold_omit_start = false.
Proof. vm_compute. repeat split. Qed.
Theorem OLD_read_holds_all_omit_starttime_refuted :
  wf_docb wit_holds_all_omit_start = true /\ Live.read_OLD wit_holds_all_omit_start = None.
Proof. vm_compute. repeat split. Qed.
Theorem OLD_read_all_omit_lane_refuted :
  wf_docb wit_all_omit_lane = true /\ Live.read_OLD wit_all_omit_lane = None.
Proof. vm_compute. repeat split. Qed.
(* ... and the current reader satisfies it on each of them (read, write-after-read) *)
Theorem qua_read_former_witnesses_ok :
  forallb (fun d => wf_docb d && read_ok d && rw_ok d)
          [wit_omit_keysounds; wit_hold_omit_start; wit_holds_all_omit_start; wit_all_omit_lane] = true.
Proof. vm_compute. reflexivity. Qed.

(* a chart as the converters produced it on the pinned tree: extra `index` column, NaN keysounds *)
Definition wit_conv_chart (index nan : bool) : chart :=
  let ix := if index then [(N_index, YInt 0)] else [] in
  let ixc := if index then [N_index] else [] in
  mkChart (mkFrame (ixc ++ [N_column; N_offset; N_keysounds])
                   [ix ++ [(N_column, YInt 0); (N_offset, YFloat (201 # 2)); (N_keysounds, if nan then YNaN else YList [])]])
          (mkFrame (ixc ++ [N_keysounds; N_length; N_column; N_offset]) [])
          (mkFrame (ixc ++ [N_bpm; N_metronome; N_offset]) [ix ++ [(N_bpm, YInt 150); (N_metronome, YFloat 4); (N_offset, YInt 0)]])
          (mkFrame [N_multiplier; N_offset] [])
          (map (fun kd => if fst kd =? K_InitialScrollVelocity then YFloat 1 else snd kd) Live.meta_defaults).
Definition write_ok (c : chart) : bool := write_specb c (Live.write c).
Theorem qua_write_index_key_refuted :
  wf_chartb true (wit_conv_chart true false) = true /\ write_ok (wit_conv_chart true false) = false.
Proof. vm_compute. repeat split. Qed.
Theorem qua_write_keysounds_nan_refuted :
  wf_chartb true (wit_conv_chart false true) = true /\ write_ok (wit_conv_chart false true) = false.
Proof. vm_compute. repeat split. Qed.
(* the same chart with declared columns only and list keysounds is written correctly, read back, and stable *)
Theorem qua_write_clean_chart_ok :
  let c := wit_conv_chart false false in
  wf_chartb false c = true /\ write_ok c = true /\ wr_specb c (Live.write c >>= Live.read) = true.
Proof. vm_compute. repeat split. Qed.
(* InitialScrollVelocity.  OLD defaults (before e825b78): a document that omits it was read with '' and written with ''
   in a float field *)
Theorem OLD_isv_default_refuted :
  wf_docb wit_omit_isv = true /\
  read_specb wit_omit_isv (Live.read_OLDMETA wit_omit_isv) = false /\
  rw_specb wit_omit_isv (Live.read_OLDMETA wit_omit_isv >>= Live.write_OLDMETA) = false.
Proof. vm_compute. repeat split. Qed.
(* now: the live default is the float 1.0, the document is read and written back correctly *)
Theorem qua_isv_default_is_float_1 : assoc K_InitialScrollVelocity Live.meta_defaults = Some (YFloat 1).
Proof. vm_compute. reflexivity. Qed.
Theorem qua_isv_omitted_ok : wf_docb wit_omit_isv = true /\ read_ok wit_omit_isv = true /\ rw_ok wit_omit_isv = true.
Proof. vm_compute. repeat split. Qed.
(* every live default has the declared type of its key *)
Theorem qua_meta_defaults_typed :
  all2 (fun kt kd => (fst kt =? fst kd) && has_type (if fst kt =? ref_tags_key then 4 else snd kt) (snd kd))
       ref_meta_table Live.meta_defaults = true.
Proof. vm_compute. reflexivity. Qed.
(* non-vacuity: a document inside every guard (hit with omitted StartTime, hold, key sound) is read as it denotes,
   written well-formed, and a second generation is identical *)
Theorem qua_clean_doc_ok :
  wf_docb wit_clean = true /\ read_ok wit_clean = true /\ rw_ok wit_clean = true /\
  (let w1 := Live.read wit_clean >>= Live.write in
   match w1, w1 >>= Live.read >>= Live.write with Some a, Some b => tree_eqb true a b | _, _ => false end) = true.
Proof. vm_compute. repeat split. Qed.

(* ------------------------------------------------------------------ the repaired note reader on the record shapes the
   OLD reader got wrong, for ALL values (symbolic evaluation of the pipeline, arithmetic kept abstract) *)
(* the reader agrees with qua_denote on a list of note records: frame produced, every row denotable, same notes *)
Definition reads_as_denoted (reader : list row -> option frame) (rowden : row -> option noteD) (recs : list row) : Prop :=
  exists fr ns es, reader recs = Some fr /\ omap rowden (f_rows fr) = Some ns /\
                   omap note_denote (map YMap recs) = Some es /\ all2 note_eqb es ns = true.

Ltac q_fin := apply Qeq_bool_iff; rewrite ?Qred_correct, ?inject_Z_plus, ?inject_Z_opp; rewrite ?Qred_correct;
              change (inject_Z 0) with 0%Q; change (inject_Z 1) with 1%Q; try lra; try ring.
Ltac use_texts := repeat match goal with H : is_text_list _ = true |- _ => rewrite H end.
Ltac notes_fin :=
  cbv [all2 note_eqb n_lane n_start n_end n_ks oq_eqb];
  repeat (apply andb_true_iff; split); try reflexivity;
  try (apply Z.eqb_eq; lia); try apply texts_eqb_refl; try q_fin.
Ltac shape_tac :=
  do 3 eexists; split; [cbv - [Z.add Z.opp Qred Qplus Qopp inject_Z]; reflexivity|];
  split; [cbv - [Z.add Z.opp Qred Qplus Qopp inject_Z is_text_list texts_of Qeq_bool Qfloor]; use_texts; reflexivity|];
  split; [cbv - [Z.add Z.opp Qred Qplus Qopp inject_Z is_text_list texts_of]; use_texts; reflexivity|];
  notes_fin.

(* a hold that omits StartTime is read with length EndTime - 0 *)
Theorem hold_omitting_starttime_read e l ks : is_text_list ks = true ->
  reads_as_denoted holds_from_yaml hold_row_denote [[(K_EndTime, YInt e); (K_Lane, YInt l); (K_KeySounds, YList ks)]].
Proof. intro H. shape_tac. Qed.
(* ... also next to a complete hold (the case the OLD reader read with length 0) *)
Theorem hold_omitting_starttime_beside_complete_read e1 l1 ks1 s2 e2 l2 ks2 :
  is_text_list ks1 = true -> is_text_list ks2 = true ->
  reads_as_denoted holds_from_yaml hold_row_denote
    [[(K_EndTime, YInt e1); (K_Lane, YInt l1); (K_KeySounds, YList ks1)];
     [(K_StartTime, YInt s2); (K_EndTime, YInt e2); (K_Lane, YInt l2); (K_KeySounds, YList ks2)]].
Proof. intros H1 H2. shape_tac. Qed.
(* omitted KeySounds read as [] (alone, and beside a note that has them); omitted Lane everywhere reads as lane 1 *)
Theorem hit_omitting_keysounds_read s l : 
  reads_as_denoted hits_from_yaml hit_row_denote [[(K_StartTime, YInt s); (K_Lane, YInt l)]].
Proof. shape_tac. Qed.
Theorem hit_omitting_keysounds_beside_complete_read s1 l1 s2 l2 ks2 : is_text_list ks2 = true ->
  reads_as_denoted hits_from_yaml hit_row_denote
    [[(K_StartTime, YInt s1); (K_Lane, YInt l1)]; [(K_KeySounds, YList ks2); (K_Lane, YInt l2); (K_StartTime, YInt s2)]].
Proof. intro H. shape_tac. Qed.
Theorem hits_all_omitting_lane_read s1 ks1 s2 : is_text_list ks1 = true ->
  reads_as_denoted hits_from_yaml hit_row_denote [[(K_StartTime, YInt s1); (K_KeySounds, YList ks1)]; [(K_StartTime, YInt s2)]].
Proof. intro H. shape_tac. Qed.
Theorem holds_all_omitting_lane_and_start_read e1 e2 :
  reads_as_denoted holds_from_yaml hold_row_denote [[(K_EndTime, YInt e1)]; [(K_EndTime, YInt e2)]].
Proof. shape_tac. Qed.
Theorem empty_hit_record_read : reads_as_denoted hits_from_yaml hit_row_denote [[]].
Proof. shape_tac. Qed.
