(* C07, OJN reader: (1) COMPLETENESS of the boolean oracle [specb] (soundness is O2JProofs.specb_sound):
   false for a general tolerance (greedy matcher, closeness is not transitive: refuted with a witness),
   true at tolerance 0 and, for any tolerance, whenever the rows the file denotes are SEPARATED (two rows
   that could be confused are either pointwise equal or further apart than twice the tolerance);
   (2) the ONE hold buffer threaded through all packages and all difficulties: unobservable on well-formed
   files, observable on a malformed one (head left open in one difficulty, closed in the next). *)
From Coq Require Import ZArith QArith Qround Qabs List Bool Lia Lqa Permutation Setoid Morphisms.
From RV Require Import Base.PyNum Base.Bytes Formats.O2J Formats.O2JSpec Generated.Tables
  Proofs.O2JProofs Proofs.O2JHeaderProofs Proofs.O2JParseProofs Proofs.O2JComposeProofs.
Import ListNotations.
Open Scope Q_scope.

(* ================================================================== 1. the greedy matcher, generically *)
Lemma remove_first_none {A} (p : A -> bool) l : remove_first p l = None -> forall x, In x l -> p x = false.
Proof.
  induction l as [|y r IH]; intros H x Hx; [destruct Hx|]. cbn [remove_first] in H.
  destruct (p y) eqn:E; [discriminate|]. destruct (remove_first p r); [discriminate|].
  destruct Hx as [<-|Hx]; [exact E|apply IH; auto].
Qed.

Lemma perm_cons_cases {A} (y z : A) l m : Permutation (y :: l) (z :: m) ->
  (y = z /\ Permutation l m) \/ exists l', Permutation l (z :: l') /\ Permutation m (y :: l').
Proof.
  intro P. assert (Hz : In z (y :: l)) by (apply (Permutation_in _ (Permutation_sym P)); left; reflexivity).
  destruct Hz as [->|Hz]; [left; split; [reflexivity|apply (Permutation_cons_inv P)]|].
  right. apply in_split in Hz as (l1 & l2 & ->). exists (l1 ++ l2). split.
  - apply Permutation_sym, Permutation_middle.
  - apply Permutation_sym. apply (Permutation_cons_inv (a := z)).
    apply perm_trans with (y :: l1 ++ z :: l2); [|exact P].
    apply (Permutation_middle (y :: l1) l2 z).
Qed.

Lemma Forall2_swap {A B} (R : A -> B -> Prop) l1 l2 : Forall2 R l1 l2 -> Forall2 (fun b a => R a b) l2 l1.
Proof. induction 1; constructor; auto. Qed.

(* transporting a pointwise relation along a permutation of the RIGHT list *)
Lemma Forall2_perm_r {A B} (R : A -> B -> Prop) l1 l2 l2' : Forall2 R l1 l2 -> Permutation l2 l2' ->
  exists l1', Permutation l1 l1' /\ Forall2 R l1' l2'.
Proof.
  intros F P. apply Forall2_swap in F.
  destruct (Permutation_Forall2 P F) as (l1' & P' & F'). exists l1'. split; [exact P'|].
  apply Forall2_swap in F'. exact F'.
Qed.

(* the swap step: when [x] (the row being matched) is close to both [y] (its partner in the given matching)
   and [z] (the row the greedy matcher takes), the row [a'] that was matched with [z] can take [y] *)
Definition difunctional_on {A} (close : A -> A -> bool) (a : list A) : Prop :=
  forall x a', In x a -> In a' a -> forall y z,
    close x z = true -> close x y = true -> close a' z = true -> close a' y = true.

Lemma ms_match_complete_on {A} (close : A -> A -> bool) a : forall b,
  difunctional_on close a ->
  rows_match (fun x y => close x y = true) a b -> ms_match close a b = true.
Proof.
  induction a as [|x a' IH]; intros b D (b' & P & F).
  - inversion F; subst. apply Permutation_sym, Permutation_nil in P. subst b. reflexivity.
  - inversion F as [|? y ? b'' Rxy F']; subst. cbn [ms_match].
    destruct (remove_first (close x) b) as [b1|] eqn:E.
    2:{ exfalso. assert (Hy : In y b) by (apply (Permutation_in _ (Permutation_sym P)); left; reflexivity).
        rewrite (remove_first_none _ _ E y Hy) in Rxy. discriminate. }
    destruct (remove_first_perm _ _ _ E) as (z & Rxz & Pz).
    assert (D' : difunctional_on close a').
    { intros u v Hu Hv. apply D; right; assumption. }
    apply IH; [exact D'|].
    destruct (perm_cons_cases y z b'' b1) as [[-> Pb]|(l' & P1 & P2)].
    { apply perm_trans with b; [apply Permutation_sym; exact P|exact Pz]. }
    + exists b''. split; [apply Permutation_sym; exact Pb|exact F'].
    + destruct (Forall2_perm_r _ _ _ _ F' P1) as (a'' & Pa & Fa).
      inversion Fa as [|aj ? a3 ? Rjz F3]; subst.
      assert (Hj : In aj a') by (apply (Permutation_in _ (Permutation_sym Pa)); left; reflexivity).
      assert (Rjy : close aj y = true).
      { apply (D x aj (or_introl eq_refl) (or_intror Hj) y z); assumption. }
      destruct (Permutation_Forall2 (Permutation_sym Pa) (Forall2_cons aj y Rjy F3)) as (l2 & Pl & Fl).
      exists l2. split; [|exact Fl]. apply perm_trans with (y :: l'); assumption.
Qed.

Lemma ms_match_complete {A} (close : A -> A -> bool) :
  (forall x a y z, close x z = true -> close x y = true -> close a z = true -> close a y = true) ->
  forall a b, rows_match (fun x y => close x y = true) a b -> ms_match close a b = true.
Proof. intros D a b. apply ms_match_complete_on. intros x a' _ _. apply D. Qed.

(* difunctionality from an equivalence-like relation E: closeness is invariant under E on the left, and
   two rows of the list close to one row are E-related *)
Lemma difunctional_from_eqv {A} (close : A -> A -> bool) (E : A -> A -> Prop) a :
  (forall x a' y, E x a' -> close x y = true -> close a' y = true) ->
  (forall x a', In x a -> In a' a -> forall z, close x z = true -> close a' z = true -> E x a') ->
  difunctional_on close a.
Proof. intros C S x a' Hx Ha y z Rxz Rxy Raz. apply (C x a' y); [apply (S x a' Hx Ha z)|]; assumption. Qed.

(* ================================================================== 2. closeness of numbers and rows *)
Lemma q_close_iff tol a b : q_close tol a b = true <-> - tol <= a - b /\ a - b <= tol.
Proof. unfold q_close. rewrite Qle_bool_iff. apply Qabs_Qle_condition. Qed.

Lemma q_close_compat_l tol a a' b : a == a' -> q_close tol a b = true -> q_close tol a' b = true.
Proof. rewrite !q_close_iff. intros E [H1 H2]. split; lra. Qed.

Lemma q_close_refl_tol tol a : 0 <= tol -> q_close tol a a = true.
Proof. intro H. apply q_close_iff. split; lra. Qed.

(* "equal, or further apart than twice the tolerance" *)
Definition q_sep (tol p q : Q) : bool := Qeq_bool p q || Qlt_bool (tol + tol) (Qabs (p - q)).

Lemma Qabs_le_2 tol x a z : - tol <= x - z /\ x - z <= tol -> - tol <= a - z /\ a - z <= tol ->
  Qabs (x - a) <= tol + tol.
Proof. intros [H1 H2] [H3 H4]. apply Qabs_Qle_condition. split; lra. Qed.

Lemma close_sep_eq tol x a z : q_close tol x z = true -> q_close tol a z = true ->
  q_sep tol x a = true -> x == a.
Proof.
  rewrite !q_close_iff. intros Hx Ha H. unfold q_sep in H. apply orb_true_iff in H as [H|H].
  - apply Qeq_bool_iff. exact H.
  - apply Qlt_bool_iff in H. exfalso. pose proof (Qabs_le_2 tol x a z Hx Ha). lra.
Qed.

Lemma q_sep_0 p q : q_sep 0 p q = true.
Proof.
  unfold q_sep. destruct (Qeq_bool p q) eqn:E; [reflexivity|]. cbn [orb].
  apply Qeq_bool_false_neq in E. apply Qlt_bool_iff.
  apply Qabs_case; intro H.
  - destruct (Qlt_le_dec 0 (p - q)) as [L|L]; [lra|]. exfalso. apply E. lra.
  - destruct (Qlt_le_dec 0 (- (p - q))) as [L|L]; [lra|]. exfalso. apply E. lra.
Qed.

Lemma Qlt_0_abs_neq p q : Qeq_bool p q = false -> Qlt_bool (0 + 0 + (0 + 0)) (Qabs (p - q)) = true.
Proof.
  intro E. pose proof (q_sep_0 p q) as H. unfold q_sep in H. rewrite E in H. cbn [orb] in H.
  apply Qlt_bool_iff in H. apply Qlt_bool_iff. lra.
Qed.

(* ---- pointwise equality of rows (the fields the oracle compares) ---- *)
Definition hit_eqv (x a : hitrow) : Prop :=
  h_col x = h_col a /\ h_off x == h_off a /\ h_vol x = h_vol a /\ h_pan x = h_pan a.
Definition hold_eqv (x a : holdrow) : Prop :=
  l_col x = l_col a /\ l_off x == l_off a /\ l_len x == l_len a /\ l_vol x = l_vol a /\ l_pan x = l_pan a.
Definition bpm_eqv (x a : bpmrow) : Prop := b_off x == b_off a /\ b_bpm x == b_bpm a.

Lemma hit_close_iff tol x y : hit_close tol x y = true <->
  h_col x = h_col y /\ q_close tol (h_off x) (h_off y) = true /\ h_vol x = h_vol y /\ h_pan x = h_pan y.
Proof. unfold hit_close. rewrite !andb_true_iff, !Z.eqb_eq. tauto. Qed.
Lemma hold_close_iff tol x y : hold_close tol x y = true <->
  l_col x = l_col y /\ q_close tol (l_off x) (l_off y) = true /\ q_close (tol + tol) (l_len x) (l_len y) = true
  /\ l_vol x = l_vol y /\ l_pan x = l_pan y.
Proof. unfold hold_close. rewrite !andb_true_iff, !Z.eqb_eq. tauto. Qed.
Lemma bpm_close_iff tol x y : bpm_close tol x y = true <->
  q_close tol (b_off x) (b_off y) = true /\ b_bpm x == b_bpm y.
Proof. unfold bpm_close. rewrite andb_true_iff, Qeq_bool_iff. tauto. Qed.

Lemma hit_close_eqv_l tol x a y : hit_eqv x a -> hit_close tol x y = true -> hit_close tol a y = true.
Proof.
  rewrite !hit_close_iff. intros (E1 & E2 & E3 & E4) (H1 & H2 & H3 & H4).
  repeat split; try congruence. apply (q_close_compat_l _ _ _ _ E2 H2).
Qed.
Lemma hold_close_eqv_l tol x a y : hold_eqv x a -> hold_close tol x y = true -> hold_close tol a y = true.
Proof.
  rewrite !hold_close_iff. intros (E1 & E2 & E3 & E4 & E5) (H1 & H2 & H3 & H4 & H5).
  split; [congruence|]. split; [apply (q_close_compat_l _ _ _ _ E2 H2)|].
  split; [apply (q_close_compat_l _ _ _ _ E3 H3)|]. split; congruence.
Qed.
Lemma bpm_close_eqv_l tol x a y : bpm_eqv x a -> bpm_close tol x y = true -> bpm_close tol a y = true.
Proof.
  rewrite !bpm_close_iff. intros (E1 & E2) (H1 & H2).
  split; [apply (q_close_compat_l _ _ _ _ E1 H1)|]. rewrite <- E2. exact H2.
Qed.

(* ================================================================== 3. the separation guard (decidable, on the denotation only) *)
Definition hit_disc (x a : hitrow) : bool :=
  (h_col x =? h_col a)%Z && (h_vol x =? h_vol a)%Z && (h_pan x =? h_pan a)%Z.
Definition hold_disc (x a : holdrow) : bool :=
  (l_col x =? l_col a)%Z && (l_vol x =? l_vol a)%Z && (l_pan x =? l_pan a)%Z.
(* two taps with the same column/volume/pan: same time, or more than 2 tol apart *)
Definition hit_sep (tol : Q) (x a : hitrow) : bool := negb (hit_disc x a) || q_sep tol (h_off x) (h_off a).
(* two long notes with the same column/volume/pan: same start and length, or starts more than 2 tol apart,
   or lengths more than 4 tol apart (the oracle compares lengths within 2 tol) *)
Definition hold_sep (tol : Q) (x a : holdrow) : bool :=
  negb (hold_disc x a)
  || (Qeq_bool (l_off x) (l_off a) && Qeq_bool (l_len x) (l_len a))
  || Qlt_bool (tol + tol) (Qabs (l_off x - l_off a))
  || Qlt_bool (tol + tol + (tol + tol)) (Qabs (l_len x - l_len a)).
(* two tempo rows with the same tempo: same time, or more than 2 tol apart *)
Definition bpm_sep (tol : Q) (x a : bpmrow) : bool :=
  negb (Qeq_bool (b_bpm x) (b_bpm a)) || q_sep tol (b_off x) (b_off a).

Definition sep_list {A} (sep : A -> A -> bool) (l : list A) : bool := forallb (fun x => forallb (sep x) l) l.
Definition sep_hits (tol : Q) := sep_list (hit_sep tol).
Definition sep_holds (tol : Q) := sep_list (hold_sep tol).
Definition sep_bpms (tol : Q) := sep_list (bpm_sep tol).
Definition map_separated (tol : Q) (m : omap) : bool :=
  sep_hits tol (om_hits m) && sep_holds tol (om_holds m) && sep_bpms tol (om_bpms m).
Definition den_separated (tol : Q) (d : oset) : bool := forallb (map_separated tol) (os_maps d).

Lemma sep_list_in {A} (sep : A -> A -> bool) l x a : sep_list sep l = true -> In x l -> In a l -> sep x a = true.
Proof.
  unfold sep_list. intros H Hx Ha. rewrite forallb_forall in H. specialize (H x Hx).
  rewrite forallb_forall in H. exact (H a Ha).
Qed.
Lemma sep_list_all {A} (sep : A -> A -> bool) l : (forall x a, sep x a = true) -> sep_list sep l = true.
Proof. intro H. unfold sep_list. apply forallb_forall. intros x _. apply forallb_forall. intros a _. apply H. Qed.

Lemma hit_sep_eqv tol l x a z : sep_hits tol l = true -> In x l -> In a l ->
  hit_close tol x z = true -> hit_close tol a z = true -> hit_eqv x a.
Proof.
  intros S Hx Ha Cx Ca. pose proof (sep_list_in _ _ _ _ S Hx Ha) as H.
  apply hit_close_iff in Cx as (X1 & X2 & X3 & X4). apply hit_close_iff in Ca as (A1 & A2 & A3 & A4).
  unfold hit_sep, hit_disc in H.
  rewrite (proj2 (Z.eqb_eq _ _) (eq_trans X1 (eq_sym A1))), (proj2 (Z.eqb_eq _ _) (eq_trans X3 (eq_sym A3))),
          (proj2 (Z.eqb_eq _ _) (eq_trans X4 (eq_sym A4))) in H. cbn [andb negb orb] in H.
  repeat split; try congruence. apply (close_sep_eq tol _ _ _ X2 A2 H).
Qed.

Lemma hold_sep_eqv tol l x a z : sep_holds tol l = true -> In x l -> In a l ->
  hold_close tol x z = true -> hold_close tol a z = true -> hold_eqv x a.
Proof.
  intros S Hx Ha Cx Ca. pose proof (sep_list_in _ _ _ _ S Hx Ha) as H.
  apply hold_close_iff in Cx as (X1 & X2 & X3 & X4 & X5). apply hold_close_iff in Ca as (A1 & A2 & A3 & A4 & A5).
  unfold hold_sep, hold_disc in H.
  rewrite (proj2 (Z.eqb_eq _ _) (eq_trans X1 (eq_sym A1))), (proj2 (Z.eqb_eq _ _) (eq_trans X4 (eq_sym A4))),
          (proj2 (Z.eqb_eq _ _) (eq_trans X5 (eq_sym A5))) in H. cbn [andb negb orb] in H.
  assert (E : l_off x == l_off a /\ l_len x == l_len a).
  { apply q_close_iff in X2, A2, X3, A3.
    pose proof (Qabs_le_2 _ _ _ _ X2 A2) as B1. pose proof (Qabs_le_2 _ _ _ _ X3 A3) as B2.
    apply orb_true_iff in H as [H|H]; [apply orb_true_iff in H as [H|H]|].
    - apply andb_true_iff in H as [H1 H2]. split; apply Qeq_bool_iff; assumption.
    - exfalso. apply Qlt_bool_iff in H. lra.
    - exfalso. apply Qlt_bool_iff in H. lra. }
  destruct E as [E1 E2]. split; [congruence|]. split; [exact E1|]. split; [exact E2|]. split; congruence.
Qed.

Lemma bpm_sep_eqv tol l x a z : sep_bpms tol l = true -> In x l -> In a l ->
  bpm_close tol x z = true -> bpm_close tol a z = true -> bpm_eqv x a.
Proof.
  intros S Hx Ha Cx Ca. pose proof (sep_list_in _ _ _ _ S Hx Ha) as H.
  apply bpm_close_iff in Cx as (X1 & X2). apply bpm_close_iff in Ca as (A1 & A2).
  unfold bpm_sep in H.
  assert (E : b_bpm x == b_bpm a) by (rewrite X2, A2; reflexivity).
  rewrite (proj2 (Qeq_bool_iff _ _) E) in H. cbn [negb orb] in H.
  split; [apply (close_sep_eq tol _ _ _ X1 A1 H)|exact E].
Qed.

(* at tolerance 0 every denotation is separated *)
Lemma hit_sep_0 x a : hit_sep 0 x a = true.
Proof. unfold hit_sep. rewrite q_sep_0. apply orb_true_r. Qed.
Lemma bpm_sep_0 x a : bpm_sep 0 x a = true.
Proof. unfold bpm_sep. rewrite q_sep_0. apply orb_true_r. Qed.
Lemma hold_sep_0 x a : hold_sep 0 x a = true.
Proof.
  unfold hold_sep. destruct (Qeq_bool (l_off x) (l_off a)) eqn:E1.
  - destruct (Qeq_bool (l_len x) (l_len a)) eqn:E2.
    + cbn [andb]. rewrite orb_true_r. reflexivity.
    + rewrite (Qlt_0_abs_neq _ _ E2). apply orb_true_r.
  - pose proof (q_sep_0 (l_off x) (l_off a)) as H. unfold q_sep in H. rewrite E1 in H. cbn [orb] in H.
    rewrite H. rewrite orb_true_r. reflexivity.
Qed.
Lemma den_separated_0 d : den_separated 0 d = true.
Proof.
  unfold den_separated. apply forallb_forall. intros m _. unfold map_separated, sep_hits, sep_holds, sep_bpms.
  rewrite (sep_list_all _ _ hit_sep_0), (sep_list_all _ _ hold_sep_0), (sep_list_all _ _ bpm_sep_0). reflexivity.
Qed.

(* ================================================================== 4. completeness of specb *)
Lemma map_close_complete tol a b : map_separated tol a = true -> map_matches tol a b -> map_close tol a b = true.
Proof.
  unfold map_separated, map_matches, map_close, map_close_gen. intros S (M1 & M2 & M3).
  apply andb_true_iff in S as [S S3]. apply andb_true_iff in S as [S1 S2].
  rewrite (ms_match_complete_on (hit_close tol) _ _
             (difunctional_from_eqv _ hit_eqv _ (hit_close_eqv_l tol)
                (fun x a' Hx Ha z => hit_sep_eqv tol _ x a' z S1 Hx Ha)) M1).
  rewrite (ms_match_complete_on (hold_close tol) _ _
             (difunctional_from_eqv _ hold_eqv _ (hold_close_eqv_l tol)
                (fun x a' Hx Ha z => hold_sep_eqv tol _ x a' z S2 Hx Ha)) M2).
  rewrite (ms_match_complete_on (bpm_close tol) _ _
             (difunctional_from_eqv _ bpm_eqv _ (bpm_close_eqv_l tol)
                (fun x a' Hx Ha z => bpm_sep_eqv tol _ x a' z S3 Hx Ha)) M3).
  reflexivity.
Qed.

Lemma maps_close_complete tol a b : forallb (map_separated tol) a = true ->
  Forall2 (map_matches tol) a b -> maps_close tol a b = true.
Proof.
  intros S F. induction F as [|x y a' b' M _ IH]; [reflexivity|].
  cbn [forallb] in S. apply andb_true_iff in S as [S1 S2].
  unfold maps_close in *. cbn [maps_close_gen]. rewrite (map_close_complete tol x y S1 M), (IH S2). reflexivity.
Qed.

(* the oracle decides the declarative specification whenever the rows the file denotes are separated
   (no hypothesis on the implementation's output, none on the sign of tol) *)
Theorem specb_complete_separated tol f out d :
  ojn_denote f = Some d -> den_separated tol d = true -> OjnSpec tol f out -> specb tol f out = true.
Proof.
  intros D S (d' & o & D' & -> & Hh & Hm). rewrite D in D'. injection D' as <-.
  unfold specb. rewrite D. unfold oset_close. rewrite Hh. cbn [andb].
  apply maps_close_complete; assumption.
Qed.

(* at tolerance 0 (the exact stream of the harness) the oracle is complete without any guard *)
Theorem specb_complete_exact f out : OjnSpec 0 f out -> specb 0 f out = true.
Proof.
  intro H. destruct H as (d & o & D & E & R). apply (specb_complete_separated 0 f out d D (den_separated_0 d)).
  exists d, o. split; [exact D|]. split; [exact E|exact R].
Qed.

Theorem specb_decides_exact f out : specb 0 f out = true <-> OjnSpec 0 f out.
Proof. split; [apply specb_sound|apply specb_complete_exact]. Qed.

(* ================================================================== 5. completeness REFUTED for a general tolerance *)
(* Two taps of one column 1 ms apart (bpm 120: a measure is 2000 ms; slots 0 and 1 of 2000).  An output whose
   taps sit at 1 ms and -1 ms is within tolerance 1 of the file (0 -> -1, 1 -> 1), but the greedy matcher gives
   the first expected row (0 ms) the FIRST close output row (1 ms) and the second expected row (1 ms) is left
   with -1 ms: closeness is not transitive, the matcher does not backtrack.  A false alarm of the ORACLE
   (never a missed violation: specb_sound), not a defect of the reader. *)
Definition w_greedy : ofile := mkFile w_hdr [[mkPkg 0 2 2000 [(0, tap); (1, tap)]]; []; []]%Z.

Theorem specb_complete_refuted_witness :
  wf_file w_greedy = true
  /\ exists d o, ojn_denote w_greedy = Some d
       /\ map om_hits (os_maps d) = [[mkHit 0 0 0 0; mkHit 0 1 0 0]; []; []]
       /\ map om_hits (os_maps o) = [[mkHit 0 1 0 0; mkHit 0 (-1) 0 0]; []; []]
       /\ OjnSpec 1 w_greedy (Some o) /\ specb 1 w_greedy (Some o) = false
       /\ den_separated 1 d = false.
Proof.
  split; [vm_compute; reflexivity|].
  assert (H : exists d, ojn_denote w_greedy = Some d
                /\ os_maps d = [mkOMap [mkHit 0 0 0 0; mkHit 0 1 0 0] [] [mkBpm 0 120];
                                mkOMap [] [] [mkBpm 0 120]; mkOMap [] [] [mkBpm 0 120]]).
  { eexists. split; vm_compute; reflexivity. }
  destruct H as (d & D & M).
  exists d, (mkOSet (os_hdr d) [mkOMap [mkHit 0 1 0 0; mkHit 0 (-1) 0 0] [] [mkBpm 0 120];
                                 mkOMap [] [] [mkBpm 0 120]; mkOMap [] [] [mkBpm 0 120]]).
  split; [exact D|]. split; [rewrite M; reflexivity|]. split; [reflexivity|].
  assert (B : rows_match (fun x y => bpm_close 1 x y = true) [mkBpm 0 120] [mkBpm 0 120]).
  { exists [mkBpm 0 120]. split; [reflexivity|]. constructor; [vm_compute; reflexivity|constructor]. }
  assert (N : rows_match (fun x y : holdrow => hold_close 1 x y = true) [] []).
  { exists []. split; constructor. }
  assert (N' : rows_match (fun x y : hitrow => hit_close 1 x y = true) [] []).
  { exists []. split; constructor. }
  split; [|split].
  - exists d, (mkOSet (os_hdr d) [mkOMap [mkHit 0 1 0 0; mkHit 0 (-1) 0 0] [] [mkBpm 0 120];
                                   mkOMap [] [] [mkBpm 0 120]; mkOMap [] [] [mkBpm 0 120]]).
    split; [exact D|]. split; [reflexivity|]. cbn [os_hdr os_maps]. split; [apply hdr_eqb_refl|]. rewrite M.
    constructor; [|constructor; [|constructor; [|constructor]]]; unfold map_matches; cbn [om_hits om_holds om_bpms].
    + split; [|split; assumption].
      exists [mkHit 0 (-1) 0 0; mkHit 0 1 0 0]. split; [apply perm_swap|].
      constructor; [vm_compute; reflexivity|]. constructor; [vm_compute; reflexivity|constructor].
    + split; [|split]; assumption.
    + split; [|split]; assumption.
  - unfold specb. rewrite D. unfold oset_close. cbn [os_hdr os_maps]. rewrite hdr_eqb_refl, M. vm_compute. reflexivity.
  - unfold den_separated. rewrite M. vm_compute. reflexivity.
Qed.

Theorem specb_complete_refuted : exists f o, wf_file f = true /\ OjnSpec 1 f (Some o) /\ specb 1 f (Some o) = false.
Proof.
  destruct specb_complete_refuted_witness as (W & d & o & _ & _ & _ & S & B & _).
  exists w_greedy, o. split; [exact W|]. split; assumption.
Qed.

(* ================================================================== 6. one hold buffer for the whole file *)
(* [read_levels] threads ONE buffer through all difficulties (reamber creates it once per file, outside the
   loop over the difficulties).  The variant below gives every difficulty a fresh, empty buffer and drops what
   is left at its end. *)
Fixpoint read_levels_fresh (counts : list Z) (d : list Z) : option (list (list (list ev))) :=
  match counts with
  | [] => Some []
  | c :: rest =>
      match read_level (Z.to_nat c) d [] with
      | None => None
      | Some (ps, d1, _) =>
          match read_levels_fresh rest d1 with
          | None => None
          | Some r => Some (ps :: r)
          end
      end
  end.

Definition read_fresh_with (fixed trunc : bool) (b : list Z) : option oset :=
  match read_meta (firstn 300 b) with
  | None => None
  | Some h =>
      match read_levels_fresh (oh_package_count h) (skipn 300 b) with
      | None => None
      | Some lvls =>
          match all_some (map (fun pk => read_pkgs_with fixed trunc pk (oh_bpm h)) lvls) with
          | None => None
          | Some ms => Some (mkOSet h ms)
          end
      end
  end.
Definition read_fresh := read_fresh_with true false.

(* every well-formed difficulty starts from whatever it is given = [] and leaves [] (level_composition), so
   the threading cannot be observed *)
Lemma read_levels_fresh_enc levels : forall rest, Forall (fun l => wf_level l = true) levels ->
  read_levels (map (fun l => Z.of_nat (length l)) levels) (flat_map (flat_map encode_pkg) levels ++ rest) []
  = read_levels_fresh (map (fun l => Z.of_nat (length l)) levels) (flat_map (flat_map encode_pkg) levels ++ rest).
Proof.
  induction levels as [|l r IH]; intros rest H; [reflexivity|].
  inversion H as [|? ? Hl Hr]; subst. cbn [map read_levels read_levels_fresh flat_map]. rewrite Nat2Z.id, <- app_assoc.
  assert (N1 : ~ 1 == 0) by lra.
  destruct (level_composition l 1 (flat_map (flat_map encode_pkg) r ++ rest) Hl N1) as (ps & m & d & R1 & _).
  rewrite R1. rewrite (IH rest Hr). reflexivity.
Qed.

Theorem ojn_hold_buffer_sharing_unobservable : Tables.c07.layout = ref_layout ->
  forall f trail, wf_file f = true ->
  read_fixed (encode_file f ++ trail) = read_fresh (encode_file f ++ trail).
Proof.
  intros L f trail Hw. unfold wf_file in Hw.
  apply andb_true_iff in Hw as [Hw Hlv]. apply andb_true_iff in Hw as [Hw Hpc]. apply andb_true_iff in Hw as [Hh Hbpm].
  pose proof (encode_header_length (f_hdr f) (package_counts f) Hh Hpc) as Len.
  unfold read_fixed, read_fresh, read_with, read_fresh_with, encode_file. rewrite <- app_assoc.
  destruct (firstn_skipn_len (encode_header (f_hdr f) (package_counts f))
              (flat_map (flat_map encode_pkg) (f_levels f) ++ trail) 300 Len) as [F1 F2].
  rewrite F1, F2. rewrite <- (app_nil_r (encode_header (f_hdr f) (package_counts f))).
  rewrite (ojn_header_decodes L (f_hdr f) (package_counts f) [] Hh Hpc).
  destruct (denote_hdr (f_hdr f) (package_counts f)) as [h|] eqn:Dh; [|reflexivity].
  assert (Hb : oh_package_count h = package_counts f).
  { unfold denote_hdr in Dh. destruct (f32_of_bits (fh_encode_version (f_hdr f))); [|discriminate].
    destruct (f32_of_bits (fh_bpm (f_hdr f))); [|discriminate]. injection Dh as <-. reflexivity. }
  rewrite Hb. unfold package_counts. rewrite read_levels_fresh_enc; [reflexivity|].
  apply Forall_forall. rewrite forallb_forall in Hlv. exact Hlv.
Qed.

(* ... and it IS shared: a head left open at the end of difficulty 0 (malformed: wf_file = false) is closed by
   a tail of the same column in difficulty 1, which then carries a long note from measure 0 (its head, in the
   OTHER difficulty) to measure 1; with a buffer per difficulty the tail is an orphan (KeyError) *)
Definition w_leak : ofile := mkFile w_hdr [[mkPkg 0 2 1 [(0, head_)]]; [mkPkg 1 2 1 [(0, tail_)]]; []]%Z.

Theorem ojn_open_head_closed_in_next_difficulty :
  wf_file w_leak = false
  /\ (exists o, read_fixed (encode_file w_leak) = Some o
        /\ map om_holds (os_maps o) = [[]; [mkHold 0 0 2000 0 0]; []]
        /\ map om_hits (os_maps o) = [[]; []; []])
  /\ read_fresh (encode_file w_leak) = None.
Proof.
  split; [vm_compute; reflexivity|]. split; [|vm_compute; reflexivity].
  eexists. split; [vm_compute; reflexivity|]. vm_compute. auto.
Qed.
