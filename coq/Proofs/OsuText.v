(* Text-level lemmas for the whole-file C01 theorems (additions to Base/Text.v, which is shared and not
   edited here): strip decomposition, split/join over lines, characters of parsed numerals, canonical
   values of the decimal parser, find / rfind / slices, option-map over lists. *)
From Coq Require Import ZArith QArith Qround Qabs List Bool Lia Lqa.
From RV Require Import Base.PyNum Base.Text.
Import ListNotations.
Open Scope Z_scope.

(* ------------------------------------------------------------------ lists *)
Lemma forallb_rev {A} (p : A -> bool) l : forallb p (rev l) = forallb p l.
Proof.
  induction l as [|x l IH]; simpl; auto. rewrite forallb_app, IH. simpl. rewrite andb_true_r. apply andb_comm.
Qed.

Lemma dropwhile_split {A} (p : A -> bool) s : exists pre, s = pre ++ dropwhile p s /\ forallb p pre = true.
Proof.
  induction s as [|x s [pre [E F]]]; simpl; [exists []; auto|].
  destruct (p x) eqn:P; [exists (x :: pre); simpl; rewrite P; split; [congruence|auto] | exists []; auto].
Qed.

Lemma dropwhile_all {A} (p : A -> bool) a x : forallb p a = true -> dropwhile p (a ++ x) = dropwhile p x.
Proof.
  induction a as [|y a IH]; simpl; auto. intro H. apply andb_true_iff in H. destruct H as [H1 H2]. rewrite H1. auto.
Qed.
Lemma dropwhile_all_nil {A} (p : A -> bool) a : forallb p a = true -> dropwhile p a = [].
Proof. intro H. rewrite <- (app_nil_r a). rewrite dropwhile_all by exact H. reflexivity. Qed.

Lemma dropwhile_keep {A} (p : A -> bool) x r : p x = false -> dropwhile p (x :: r) = x :: r.
Proof. intro H. simpl. rewrite H. reflexivity. Qed.

(* ------------------------------------------------------------------ strip *)
Definition tight (p : Z -> bool) (m : text) : Prop := head_ok p m /\ head_ok p (rev m).

Lemma strip_with_tight p s : tight p (strip_with p s).
Proof.
  split.
  - unfold strip_with. apply head_ok_rstrip. unfold lstrip_with.
    pose proof (dropwhile_head_ok p s) as H. destruct (dropwhile p s); simpl; auto.
  - unfold strip_with, rstrip_with. rewrite rev_involutive.
    pose proof (dropwhile_head_ok p (rev (lstrip_with p s))) as H.
    destruct (dropwhile p (rev (lstrip_with p s))); simpl; auto.
Qed.

Lemma rstrip_with_split p s : exists b, s = rstrip_with p s ++ b /\ forallb p b = true.
Proof.
  unfold rstrip_with. destruct (dropwhile_split p (rev s)) as [pre [E F]].
  exists (rev pre). split; [|rewrite forallb_rev; exact F].
  rewrite <- rev_app_distr, <- E. symmetry. apply rev_involutive.
Qed.

Lemma strip_with_decomp p s :
  exists a b, s = a ++ strip_with p s ++ b /\ forallb p a = true /\ forallb p b = true.
Proof.
  unfold strip_with, lstrip_with. destruct (dropwhile_split p s) as [a [E F]].
  destruct (rstrip_with_split p (dropwhile p s)) as [b [E2 F2]].
  exists a, b. split; [|split; auto]. rewrite <- E2. exact E.
Qed.

Lemma rev_head_last (m : text) x r : rev m = x :: r -> m = rev r ++ [x].
Proof. intro H. rewrite <- (rev_involutive m), H. reflexivity. Qed.

(* the middle of  blanks ++ m ++ blanks  with m tight is what strip returns *)
Lemma strip_with_unique p a m b :
  forallb p a = true -> forallb p b = true -> tight p m -> strip_with p (a ++ m ++ b) = m.
Proof.
  intros Fa Fb [T1 T2]. unfold strip_with, lstrip_with. rewrite dropwhile_all by exact Fa.
  destruct m as [|x m'].
  - simpl. rewrite dropwhile_all_nil by exact Fb. reflexivity.
  - simpl in T1. change ((x :: m') ++ b) with (x :: (m' ++ b)). rewrite dropwhile_keep by exact T1.
    unfold rstrip_with. change (x :: m' ++ b) with ((x :: m') ++ b). rewrite rev_app_distr.
    rewrite dropwhile_all by (rewrite forallb_rev; exact Fb).
    destruct (rev (x :: m')) as [|y r] eqn:R.
    + apply (f_equal (@length Z)) in R. rewrite rev_length in R. discriminate.
    + simpl in T2. rewrite dropwhile_keep by exact T2. rewrite <- R. apply rev_involutive.
Qed.

Definition rstrip (s : text) : text := rstrip_with is_space s.
Definition stripped (s : text) : Prop := strip s = s.

Lemma strip_tight s : tight is_space (strip s).
Proof. apply strip_with_tight. Qed.
Lemma stripped_tight s : stripped s -> tight is_space s.
Proof. intro H. rewrite <- H. apply strip_tight. Qed.
Lemma tight_stripped s : tight is_space s -> stripped s.
Proof. intros [A B]. apply strip_with_id; auto. Qed.
Lemma strip_stripped s : stripped (strip s).
Proof. apply strip_idem. Qed.

Lemma strip_decomp s : exists a b, s = a ++ strip s ++ b /\ forallb is_space a = true /\ forallb is_space b = true.
Proof. apply strip_with_decomp. Qed.

Lemma strip_nil : strip [] = [].
Proof. reflexivity. Qed.

Lemma strip_all_space s : forallb is_space s = true -> strip s = [].
Proof.
  intro H. rewrite <- (app_nil_r s). change (s ++ []) with (s ++ [] ++ []).
  apply strip_with_unique; auto. split; simpl; auto.
Qed.

(* leading blanks do not matter *)
Lemma strip_lead ws s : forallb is_space ws = true -> strip (ws ++ s) = strip s.
Proof.
  intro H. destruct (strip_decomp s) as [a [b [E [Fa Fb]]]].
  rewrite E at 1. rewrite app_assoc. apply strip_with_unique; auto.
  - rewrite forallb_app, H, Fa. reflexivity.
  - apply strip_tight.
Qed.

(* trailing blanks do not matter *)
Lemma strip_trail ws s : forallb is_space ws = true -> strip (s ++ ws) = strip s.
Proof.
  intro H. destruct (strip_decomp s) as [a [b [E [Fa Fb]]]].
  rewrite E at 1. rewrite <- !app_assoc. apply strip_with_unique; auto.
  - rewrite forallb_app, H, Fb. reflexivity.
  - apply strip_tight.
Qed.

Lemma strip_rstrip s : strip (rstrip s) = strip s.
Proof.
  destruct (rstrip_with_split is_space s) as [b [E F]]. fold (rstrip s) in E.
  rewrite E at 2. symmetry. apply strip_trail. exact F.
Qed.

Lemma rstrip_all_space s : forallb is_space s = true -> rstrip s = [].
Proof.
  intro H. unfold rstrip, rstrip_with. rewrite dropwhile_all_nil by (rewrite forallb_rev; exact H). reflexivity.
Qed.

(* a tight non-empty prefix is kept; what follows is only trimmed on the right *)
Lemma strip_app_keep a b : a <> [] -> tight is_space a -> strip (a ++ b) = a ++ rstrip b.
Proof.
  intros NE [T1 T2]. destruct a as [|x a']; [congruence|]. simpl in T1.
  unfold strip, strip_with, lstrip_with. change ((x :: a') ++ b) with (x :: (a' ++ b)).
  rewrite dropwhile_keep by exact T1. change (x :: a' ++ b) with ((x :: a') ++ b).
  unfold rstrip, rstrip_with. rewrite rev_app_distr.
  destruct (dropwhile_split is_space (rev b)) as [pre [E F]].
  destruct (dropwhile is_space (rev b)) as [|y r] eqn:D.
  - rewrite app_nil_r in E. rewrite E. rewrite dropwhile_all by exact F.
    destruct (rev (x :: a')) as [|z r] eqn:R.
    + apply (f_equal (@length Z)) in R. rewrite rev_length in R. discriminate.
    + simpl in T2. rewrite dropwhile_keep by exact T2. rewrite <- R. rewrite rev_involutive. simpl. rewrite app_nil_r. reflexivity.
  - rewrite E. rewrite <- app_assoc. rewrite dropwhile_all by exact F.
    pose proof (dropwhile_head_ok is_space (rev b)) as HO. rewrite D in HO.
    change ((y :: r) ++ rev (x :: a')) with (y :: (r ++ rev (x :: a'))). rewrite dropwhile_keep by exact HO.
    change (y :: r ++ rev (x :: a')) with ((y :: r) ++ rev (x :: a')).
    rewrite rev_app_distr, rev_involutive. reflexivity.
Qed.

Lemma in_strip c s : In c (strip s) -> In c s.
Proof.
  intro H. destruct (strip_decomp s) as [a [b [E _]]]. rewrite E. apply in_or_app. right. apply in_or_app. left. exact H.
Qed.
Lemma count_all_space c s : is_space c = false -> forallb is_space s = true -> count c s = O.
Proof.
  intros Hc F. apply count_zero_iff. intro I. rewrite forallb_forall in F. apply F in I. congruence.
Qed.
Lemma count_strip c s : is_space c = false -> count c (strip s) = count c s.
Proof.
  intro Hc. destruct (strip_decomp s) as [a [b [E [Fa Fb]]]]. rewrite E at 2.
  rewrite !count_app, (count_all_space c a), (count_all_space c b) by auto. lia.
Qed.
Lemma in_strip_inv c s : is_space c = false -> In c s -> In c (strip s).
Proof.
  intros Hc I. destruct (count c (strip s)) eqn:C.
  - rewrite count_strip in C by exact Hc. apply count_zero_iff in C. contradiction.
  - destruct (in_dec Z.eq_dec c (strip s)) as [Y|N]; auto. apply count_zero_iff in N. congruence.
Qed.

(* the last piece of a tight text ends tight *)
Lemma tight_suffix x ps : stripped (x ++ ps) -> ps <> [] -> head_ok is_space (rev ps).
Proof.
  intros S NE. apply stripped_tight in S. destruct S as [_ T]. rewrite rev_app_distr in T.
  destruct (rev ps) as [|y r] eqn:R.
  - apply (f_equal (@length Z)) in R. rewrite rev_length in R. destruct ps; [congruence|discriminate].
  - simpl in *. exact T.
Qed.
Lemma tight_prefix x ps : stripped (x ++ ps) -> x <> [] -> head_ok is_space x.
Proof.
  intros S NE. apply stripped_tight in S. destruct S as [T _]. destruct x; [congruence|]. exact T.
Qed.

(* a text that ends tight is only trimmed on the left by strip *)
Lemma strip_left_only s : head_ok is_space (rev s) ->
  exists ws, s = ws ++ strip s /\ forallb is_space ws = true.
Proof.
  intro T. destruct (strip_decomp s) as [a [b [E [Fa Fb]]]]. exists a. split; auto.
  destruct b as [|y b']; [rewrite app_nil_r in E; exact E|].
  exfalso. rewrite E in T. rewrite !rev_app_distr in T.
  assert (L: exists z r, rev (y :: b') = z :: r /\ is_space z = true).
  { assert (F: forallb is_space (rev (y :: b')) = true) by (rewrite forallb_rev; exact Fb).
    destruct (rev (y :: b')) as [|z r] eqn:R.
    - apply (f_equal (@length Z)) in R. rewrite rev_length in R. discriminate.
    - exists z, r. split; auto. simpl in F. apply andb_true_iff in F. tauto. }
  destruct L as [z [r [R Z]]]. rewrite R in T. simpl in T. congruence.
Qed.

(* ------------------------------------------------------------------ split *)
Lemma split_on_sep_app c a b : split_on c (a ++ c :: b) = split_on c a ++ split_on c b.
Proof.
  induction a as [|x a IH]; simpl.
  - rewrite Z.eqb_refl. reflexivity.
  - destruct (x =? c); [rewrite IH; reflexivity|].
    rewrite IH. pose proof (split_on_nonempty c a) as NE. destruct (split_on c a); [congruence|reflexivity].
Qed.

Lemma split_on_join_flat c ls : ls <> [] -> split_on c (join c ls) = flat_map (split_on c) ls.
Proof.
  induction ls as [|a ls IH]; [congruence|]. intros _. destruct ls as [|b ls'].
  - simpl. rewrite app_nil_r. reflexivity.
  - change (join c (a :: b :: ls')) with (a ++ c :: join c (b :: ls')).
    rewrite split_on_sep_app. rewrite IH by discriminate. reflexivity.
Qed.

Lemma split_on_prefix c a s : ~ In c a ->
  split_on c (a ++ s) = match split_on c s with h :: tl => (a ++ h) :: tl | [] => [a] end.
Proof.
  induction a as [|x a IH]; intro H.
  - simpl. pose proof (split_on_nonempty c s). destruct (split_on c s); [congruence|reflexivity].
  - simpl. destruct (Z.eqb_spec x c) as [E|E]; [exfalso; apply H; left; auto|].
    rewrite IH by (intro I; apply H; right; exact I).
    destruct (split_on c s); reflexivity.
Qed.

Lemma in_split_piece c s p x : In p (split_on c s) -> In x p -> In x s.
Proof.
  intros Hp Hx. rewrite <- (join_split c s). revert Hp. generalize (split_on c s). intro l.
  induction l as [|a l IH]; simpl; [tauto|]. intros [E|I].
  - subst. destruct l; [exact Hx|]. apply in_or_app. left. exact Hx.
  - destruct l as [|b l']; [destruct I|]. apply in_or_app. right. right. apply IH. exact I.
Qed.

Lemma count_piece_le c d s p : In p (split_on c s) -> (count d p <= count d s)%nat.
Proof.
  intro Hp. rewrite <- (join_split c s). rewrite count_join.
  assert (G: forall l, In p l -> (count d p <= sum_nat (map (count d) l))%nat).
  { induction l as [|a l IH]; simpl; [tauto|]. intros [E|I]; [subst; lia|]. specialize (IH I). lia. }
  specialize (G _ Hp). lia.
Qed.

(* ------------------------------------------------------------------ characters of parsed numerals *)
Lemma digits_val_digits s : forall acc v, digits_val acc s = Some v -> forallb is_digit s = true.
Proof.
  induction s as [|c s IH]; simpl; auto. intros acc v H. destruct (is_digit c); [|discriminate]. simpl. eapply IH; eauto.
Qed.
Lemma parse_nat_digits s v : parse_nat s = Some v -> forallb is_digit s = true.
Proof. unfold parse_nat. destruct s; [discriminate|]. apply digits_val_digits. Qed.

Definition is_sint_char (c : Z) : bool := is_digit c || (c =? 45) || (c =? 43).
Lemma digit_sint c : is_digit c = true -> is_sint_char c = true.
Proof. unfold is_sint_char. intro H. rewrite H. reflexivity. Qed.
Lemma forallb_impl {A} (p q : A -> bool) l : (forall x, p x = true -> q x = true) -> forallb p l = true -> forallb q l = true.
Proof. intros H F. rewrite forallb_forall in *. auto. Qed.

Lemma parse_int_chars s z : parse_int s = Some z -> forallb is_sint_char s = true.
Proof.
  unfold parse_int. intro H.
  assert (G: forall r v, parse_nat r = Some v -> forallb is_sint_char r = true).
  { intros r v P. eapply forallb_impl; [apply digit_sint|]. eapply parse_nat_digits; eauto. }
  destruct s as [|c r]; [discriminate|].
  destruct (Z.eqb_spec c 45) as [E|E].
  { subst. destruct (parse_nat r) eqn:P; [|discriminate]. simpl. eapply G; eauto. }
  destruct (Z.eqb_spec c 43) as [E2|E2].
  { subst. simpl. eapply G; eauto. }
  assert (P: parse_nat (c :: r) = Some z).
  { destruct c as [|p|p]; try exact H. do 6 (destruct p as [p|p|]; try exact H); congruence. }
  eapply G; eauto.
Qed.

Definition is_num_char (c : Z) : bool :=
  is_digit c || (c =? 43) || (c =? 45) || (c =? 46) || (c =? 101) || (c =? 69).

Lemma in_split2 (c : Z) (s a b : text) x : split_on c s = [a; b] -> In x s -> x = c \/ In x a \/ In x b.
Proof.
  intros S I. rewrite <- (join_split c s) in I. rewrite S in I. simpl in I.
  apply in_app_or in I. destruct I as [I|[I|I]]; auto.
Qed.
Lemma in_split1 (c : Z) (s a : text) x : split_on c s = [a] -> In x s -> In x a.
Proof. intros S I. rewrite <- (join_split c s) in I. rewrite S in I. exact I. Qed.

Lemma parse_mantissa_chars m v k : parse_mantissa m = Some (v, k) -> forall x, In x m -> is_digit x = true \/ x = 46.
Proof.
  unfold parse_mantissa. intros H x I.
  destruct (split_on 46 m) as [|ip [|fp [|? ?]]] eqn:S; try discriminate.
  - apply (in_split1 _ _ _ _ S) in I. destruct ip; [discriminate|].
    destruct (digits_val 0 (z :: ip)) eqn:D; [|discriminate]. apply digits_val_digits in D.
    rewrite forallb_forall in D. left. auto.
  - destruct (in_split2 _ _ _ _ _ S I) as [E|I2]; [right; exact E|]. left.
    destruct (ip ++ fp) eqn:A; [discriminate|]. rewrite <- A in H.
    destruct (digits_val 0 (ip ++ fp)) eqn:D; [|discriminate]. apply digits_val_digits in D.
    rewrite forallb_forall in D. apply D. apply in_or_app. exact I2.
Qed.

Lemma lower_e_num x : is_num_char (lower_e x) = true -> is_num_char x = true.
Proof.
  unfold lower_e. destruct (Z.eqb_spec x 69) as [E|E]; auto. subst. reflexivity.
Qed.

Lemma parse_udec_chars s q : parse_udec s = Some q -> forallb is_num_char s = true.
Proof.
  unfold parse_udec. intro H. apply forallb_forall. intros x I. apply lower_e_num.
  assert (I2: In (lower_e x) (map lower_e s)) by (apply in_map; exact I).
  destruct (split_on 101 (map lower_e s)) as [|m [|e [|? ?]]] eqn:S; try discriminate.
  - apply (in_split1 _ _ _ _ S) in I2. destruct (parse_mantissa m) as [[v k]|] eqn:M; [|discriminate].
    destruct (parse_mantissa_chars _ _ _ M _ I2) as [D|D]; unfold is_num_char; [rewrite D; reflexivity|rewrite D; reflexivity].
  - destruct (parse_mantissa m) as [[v k]|] eqn:M; [|discriminate].
    destruct (parse_int e) as [z|] eqn:P; [|discriminate].
    destruct (in_split2 _ _ _ _ _ S I2) as [E|[I3|I3]].
    + rewrite E. reflexivity.
    + destruct (parse_mantissa_chars _ _ _ M _ I3) as [D|D]; unfold is_num_char; rewrite D; reflexivity.
    + apply parse_int_chars in P. rewrite forallb_forall in P. specialize (P _ I3).
      unfold is_sint_char in P. unfold is_num_char.
      destruct (is_digit (lower_e x)); simpl in *; auto.
      destruct (lower_e x =? 45); simpl in *; [rewrite orb_true_r; reflexivity|].
      rewrite P. reflexivity.
Qed.

Lemma parse_dec_chars s q : parse_dec s = Some q -> forallb is_num_char s = true.
Proof.
  unfold parse_dec. intro H.
  destruct s as [|c r]; [discriminate|].
  destruct (Z.eqb_spec c 45) as [E|E].
  { subst. destruct (parse_udec r) eqn:P; [|discriminate]. simpl. eapply parse_udec_chars; eauto. }
  destruct (Z.eqb_spec c 43) as [E2|E2].
  { subst. simpl. eapply parse_udec_chars; eauto. }
  assert (P: parse_udec (c :: r) = Some q).
  { destruct c as [|p|p]; try exact H. do 6 (destruct p as [p|p|]; try exact H); congruence. }
  eapply parse_udec_chars; eauto.
Qed.

Lemma sint_num c : is_sint_char c = true -> is_num_char c = true.
Proof.
  unfold is_sint_char, is_num_char. intro H.
  destruct (is_digit c); simpl in *; auto. destruct (c =? 45); simpl in *.
  - rewrite orb_true_r. reflexivity.
  - rewrite H. reflexivity.
Qed.

Lemma num_char_not c : is_num_char c = true -> c <> 44 /\ c <> 58 /\ c <> 10 /\ c <> 34 /\ c <> 32 /\ is_space c = false.
Proof.
  unfold is_num_char, is_digit. intro H.
  assert (R: 48 <= c <= 57 \/ c = 43 \/ c = 45 \/ c = 46 \/ c = 101 \/ c = 69).
  { repeat (apply orb_true_iff in H; destruct H as [H|H]); try (apply Z.eqb_eq in H; lia).
    apply andb_true_iff in H. destruct H as [A B]. apply Z.leb_le in A. apply Z.leb_le in B. lia. }
  repeat split; try lia.
  unfold is_space, py_space. simpl.
  repeat match goal with |- context [c =? ?k] => destruct (Z.eqb_spec c k); [lia|] end. reflexivity.
Qed.

Lemma num_chars_no c s : forallb is_num_char s = true -> is_num_char c = false -> ~ In c s.
Proof. intros F P I. rewrite forallb_forall in F. apply F in I. congruence. Qed.

(* a text all of whose characters are numeral characters is unchanged by strip *)
Lemma num_chars_stripped s : forallb is_num_char s = true -> stripped s.
Proof.
  intro F. apply tight_stripped. split.
  - destruct s as [|c r]; simpl; auto. simpl in F. apply andb_true_iff in F. apply num_char_not. tauto.
  - assert (F': forallb is_num_char (rev s) = true) by (rewrite forallb_rev; exact F).
    destruct (rev s) as [|c r]; simpl; auto. simpl in F'. apply andb_true_iff in F'. apply num_char_not. tauto.
Qed.

(* fields that parse (after strip) contain neither separator *)
Lemma parsed_no_sep_dec f q c : parse_dec (strip f) = Some q -> is_space c = false -> is_num_char c = false -> ~ In c f.
Proof.
  intros P S N I. apply (in_strip_inv c f S) in I. apply parse_dec_chars in P. exact (num_chars_no c _ P N I).
Qed.
Lemma parsed_no_sep_int f z c : parse_int (strip f) = Some z -> is_space c = false -> is_num_char c = false -> ~ In c f.
Proof.
  intros P S N I. apply (in_strip_inv c f S) in I. apply parse_int_chars in P.
  apply (forallb_impl _ _ _ sint_num) in P. exact (num_chars_no c _ P N I).
Qed.

(* ------------------------------------------------------------------ canonical values *)
Lemma some_inj {A} (a b : A) : Some a = Some b -> a = b.
Proof. congruence. Qed.
Lemma Qred_idem q : Qred (Qred q) = Qred q.
Proof. apply Qred_complete. apply Qred_correct. Qed.

Lemma parse_udec_canon s q : parse_udec s = Some q -> Qred q = q.
Proof.
  unfold parse_udec. intro H.
  destruct (split_on 101 (map lower_e s)) as [|m [|e [|? ?]]]; try discriminate.
  - destruct (parse_mantissa m) as [[v k]|]; [|discriminate]. apply some_inj in H. rewrite <- H. apply Qred_idem.
  - destruct (parse_mantissa m) as [[v k]|]; [|discriminate]. destruct (parse_int e); [|discriminate].
    apply some_inj in H. rewrite <- H. apply Qred_idem.
Qed.
Lemma parse_dec_canon s q : parse_dec s = Some q -> Qred q = q.
Proof.
  unfold parse_dec. intro H.
  destruct s as [|c r]; [discriminate|].
  destruct (Z.eqb_spec c 45) as [E|E].
  { subst. destruct (parse_udec r) eqn:P; [|discriminate]. apply some_inj in H. rewrite <- H. apply Qred_idem. }
  destruct (Z.eqb_spec c 43) as [E2|E2].
  { subst. eapply parse_udec_canon; eauto. }
  assert (P: parse_udec (c :: r) = Some q).
  { destruct c as [|p|p]; try exact H. do 6 (destruct p as [p|p|]; try exact H); congruence. }
  eapply parse_udec_canon; eauto.
Qed.

Lemma Qred_inject_Z z : Qred (inject_Z z) = inject_Z z.
Proof.
  unfold inject_Z, Qred. pose proof (Z.ggcd_correct_divisors z 1) as D. pose proof (Z.ggcd_gcd z 1) as G.
  destruct (Z.ggcd z 1) as [g [a b]]. simpl in *. rewrite Z.gcd_1_r in G. subst g.
  destruct D as [D1 D2]. rewrite Z.mul_1_l in D1, D2. subst. reflexivity.
Qed.

(* two canonical values that are equal as rationals are identical *)
Lemma canon_eq a b : Qred a = a -> Qred b = b -> (a == b)%Q -> a = b.
Proof. intros A B E. rewrite <- A, <- B. apply Qred_complete. exact E. Qed.

(* ------------------------------------------------------------------ find / rfind / slices *)
Lemma find_from_app c a x i : ~ In c a -> find_from c (a ++ c :: x) i = i + zlen a.
Proof.
  revert i. induction a as [|y a IH]; intros i H; simpl.
  - rewrite Z.eqb_refl. unfold zlen. simpl. lia.
  - destruct (Z.eqb_spec y c) as [E|E]; [exfalso; apply H; left; auto|].
    rewrite IH by (intro I; apply H; right; exact I). unfold zlen. simpl length. lia.
Qed.
Lemma rfind_from_none c b i best : ~ In c b -> rfind_from c b i best = best.
Proof.
  revert i best. induction b as [|y b IH]; intros i best H; simpl; auto.
  destruct (Z.eqb_spec y c) as [E|E]; [exfalso; apply H; left; auto|].
  apply IH. intro I. apply H. right. exact I.
Qed.
Lemma rfind_from_app c x b i best : ~ In c b -> rfind_from c (x ++ c :: b) i best = i + zlen x.
Proof.
  revert i best. induction x as [|y x IH]; intros i best H; simpl.
  - rewrite Z.eqb_refl. rewrite rfind_from_none by exact H. unfold zlen. simpl. lia.
  - rewrite IH by exact H. unfold zlen. simpl length. lia.
Qed.

Lemma firstn_app_len {A} (a b : list A) : firstn (length a) (a ++ b) = a.
Proof. induction a; simpl; congruence. Qed.
Lemma skipn_app_len {A} (a b : list A) : skipn (length a) (a ++ b) = b.
Proof. induction a; simpl; congruence. Qed.

(* line[line.find(c)+1 : line.rfind(c)] on a line with at least two occurrences of c *)
Lemma slice_between c (a m b : text) : ~ In c a -> ~ In c b ->
  py_slice (a ++ c :: m ++ c :: b) (find c (a ++ c :: m ++ c :: b) + 1) (rfind c (a ++ c :: m ++ c :: b)) = m.
Proof.
  intros Ha Hb. unfold find, rfind. rewrite find_from_app by exact Ha.
  replace (a ++ c :: m ++ c :: b) with ((a ++ c :: m) ++ c :: b) at 2 by (rewrite <- app_assoc; reflexivity).
  rewrite rfind_from_app by exact Hb.
  unfold py_slice.
  assert (L: zlen (a ++ c :: m ++ c :: b) = zlen a + 1 + zlen m + 1 + zlen b).
  { unfold zlen. rewrite app_length. simpl length. rewrite app_length. simpl length. lia. }
  assert (L2: zlen (a ++ c :: m) = zlen a + 1 + zlen m).
  { unfold zlen. rewrite app_length. simpl length. lia. }
  assert (P: 0 <= zlen a /\ 0 <= zlen m /\ 0 <= zlen b) by (unfold zlen; lia).
  rewrite L, L2. unfold norm_ix.
  destruct (Z.ltb_spec (0 + zlen a + 1) 0); [lia|]. destruct (Z.ltb_spec (0 + (zlen a + 1 + zlen m)) 0); [lia|].
  rewrite !Z.min_l by lia.
  replace (Z.to_nat (0 + zlen a + 1)) with (length (a ++ [c])) by (rewrite app_length; unfold zlen; simpl; lia).
  replace (a ++ c :: m ++ c :: b) with ((a ++ [c]) ++ m ++ c :: b) by (rewrite <- app_assoc; reflexivity).
  rewrite skipn_app_len.
  replace (Z.to_nat (0 + (zlen a + 1 + zlen m) - (0 + zlen a + 1))) with (length m) by (unfold zlen; lia).
  apply firstn_app_len.
Qed.

(* ------------------------------------------------------------------ integers printed and read back, exactly *)
Lemma digits_lower_e' s : forallb is_digit s = true -> map lower_e s = s.
Proof.
  induction s as [|c s IH]; simpl; auto. intro H. apply andb_true_iff in H. destruct H as [H1 H2].
  rewrite IH by auto. f_equal. unfold lower_e. destruct (Z.eqb_spec c 69); auto. subst. discriminate.
Qed.
Lemma parse_dec_show_int_exact z : parse_dec (show_int z) = Some (inject_Z z).
Proof.
  (* the value is == inject_Z z and canonical *)
  assert (H: exists q, parse_dec (show_int z) = Some q /\ (q == inject_Z z)%Q).
  { unfold show_int. destruct (Z.ltb_spec z 0) as [L|L].
    - assert (U: exists q, parse_udec (show_nat (- z)) = Some q /\ (q == inject_Z (- z))%Q).
      { pose proof (show_nat_digits (- z)) as D. pose proof (parse_show_nat (- z) ltac:(lia)) as P.
        unfold parse_udec.
        pose proof (digits_lower_e' _ D) as DL.
        rewrite DL. rewrite split_on_no_sep by (eapply forallb_not_in; [exact D|reflexivity]).
        unfold parse_mantissa. rewrite split_on_no_sep by (eapply forallb_not_in; [exact D|reflexivity]).
        unfold parse_nat in P. destruct (show_nat (- z)) as [|c r] eqn:S; [discriminate|]. rewrite P. cbn [option_map].
        eexists. split; [reflexivity|]. rewrite Qred_correct. unfold pow10. simpl. ring. }
      destruct U as [q [P E]]. cbn [parse_dec]. rewrite P. cbn [option_map]. eexists. split; [reflexivity|].
      rewrite Qred_correct, E. rewrite inject_Z_opp. ring.
    - assert (U: exists q, parse_udec (show_nat z) = Some q /\ (q == inject_Z z)%Q).
      { pose proof (show_nat_digits z) as D. pose proof (parse_show_nat z L) as P.
        unfold parse_udec.
        pose proof (digits_lower_e' _ D) as DL.
        rewrite DL. rewrite split_on_no_sep by (eapply forallb_not_in; [exact D|reflexivity]).
        unfold parse_mantissa. rewrite split_on_no_sep by (eapply forallb_not_in; [exact D|reflexivity]).
        unfold parse_nat in P. destruct (show_nat z) as [|c r] eqn:S; [discriminate|]. rewrite P. cbn [option_map].
        eexists. split; [reflexivity|]. rewrite Qred_correct. unfold pow10. simpl. ring. }
      destruct U as [q [P E]].
      pose proof (show_nat_first_digit z) as F. destruct (show_nat z) as [|c r] eqn:S; [contradiction|].
      assert (HD: parse_dec (c :: r) = parse_udec (c :: r)).
      { unfold is_digit in F. apply andb_true_iff in F. destruct F as [F1 F2].
        apply Z.leb_le in F1. apply Z.leb_le in F2. unfold parse_dec.
        destruct c as [|p|p]; try lia. do 6 (destruct p as [p|p|]; try lia; try reflexivity). }
      rewrite HD. exists q. split; auto. }
  destruct H as [q [P E]]. rewrite P. f_equal.
  apply canon_eq; [eapply parse_dec_canon; eauto|apply Qred_inject_Z|exact E].
Qed.

Lemma show_int_num_chars z : forallb is_num_char (show_int z) = true.
Proof.
  eapply forallb_impl; [|apply show_int_chars]. intros x H. unfold is_int_char in H. unfold is_num_char.
  destruct (is_digit x); simpl in *; auto. rewrite H. rewrite orb_true_r. reflexivity.
Qed.
Lemma show_int_stripped z : stripped (show_int z).
Proof. apply strip_show_int. Qed.

(* ------------------------------------------------------------------ lines of a file *)
Lemma split_nl_free (c : Z) s : ~ In c s -> split_on c s = [s].
Proof. apply split_on_no_sep. Qed.

Lemma flat_map_single {A B} (f : A -> list B) (g : A -> B) l : (forall x, In x l -> f x = [g x]) -> flat_map f l = map g l.
Proof.
  induction l as [|a l IH]; simpl; auto. intro H. rewrite (H a (or_introl eq_refl)). simpl. f_equal.
  apply IH. intros x I. apply H. right. exact I.
Qed.
