(* C02: the whole-file statement over the FORMER domain (in_c02_domain = well formed + c02_dom + dialect_ok of SMSpec.v) is
   false of the faithful reader model; each theorem is a concrete text inside the former domain and outside c02_domb
   (which clause excludes it is noted) on which the reader fails or returns something else than the text denotes.
   All seven were replayed on the real reamber code (docs/C02.md): same behaviour as the model. *)
From Coq Require Import ZArith QArith List Bool.
From RV Require Import Formats.SMText Formats.SM Formats.SMSpec Formats.SMReadDom Proofs.SMProofs Proofs.SMReadWitness.
Import ListNotations.

Definition reads_other (txt : text) : bool :=
  match sm_denote txt, sm_read live_conf current txt with Some d, Some s => negb (read_spec 0 d s) | _, _ => false end.
Definition read_fails (txt : text) : bool :=
  match sm_denote txt, sm_read live_conf current txt with Some _, None => true | _, _ => false end.

(* a ';' inside a comment: the reader takes the rest of the comment line as an item (excluded by sep_outside 59) *)
Theorem sm_read_refuted_semicolon_in_comment :
  exists txt, in_c02_domain txt = true /\ c02_domb txt = false /\ reads_other txt = true.
Proof. exists w_semi_in_comment. vm_compute. auto. Qed.
(* a comment after the last ';' that ends with a known tag: IndexError (excluded by: the last piece is blank) *)
Theorem sm_read_refuted_trailing_comment_tag :
  exists txt, in_c02_domain txt = true /\ c02_domb txt = false /\ read_fails txt = true.
Proof. exists w_trailing_comment_tag. vm_compute. auto. Qed.
(* an item whose tag ends with "#NOTES" is taken for a chart: IndexError (excluded by tag_tame: one '#') *)
Theorem sm_read_refuted_nested_notes_tag :
  exists txt, in_c02_domain txt = true /\ c02_domb txt = false /\ read_fails txt = true.
Proof. exists w_nested_notes_tag. vm_compute. auto. Qed.
(* a malformed number in a tag the format does not need: ValueError (excluded by hdr_ok) *)
Theorem sm_read_refuted_bad_samplestart :
  exists txt, in_c02_domain txt = true /\ c02_domb txt = false /\ read_fails txt = true.
Proof. exists w_bad_samplestart. vm_compute. auto. Qed.
(* "#OFFSET :2" — the reader strips the tag and obeys it, the format does not (excluded by tag_tame: no blank) *)
Theorem sm_read_refuted_tag_blank :
  exists txt, in_c02_domain txt = true /\ c02_domb txt = false /\ reads_other txt = true.
Proof. exists w_tag_blank. vm_compute. auto. Qed.
(* an overridden malformed #OFFSET: ValueError although the last #OFFSET is fine (excluded by hdr_ok: one #OFFSET) *)
Theorem sm_read_refuted_dup_offset :
  exists txt, in_c02_domain txt = true /\ c02_domb txt = false /\ read_fails txt = true.
Proof. exists w_dup_offset. vm_compute. auto. Qed.
(* #STOPS evaluated with a #BPMS that is overridden later: ValueError (excluded by hdr_ok: one #BPMS, before #STOPS) *)
Theorem sm_read_refuted_bpms_after_stops :
  exists txt, in_c02_domain txt = true /\ c02_domb txt = false /\ read_fails txt = true.
Proof. exists w_bpms_after_stops. vm_compute. auto. Qed.

(* non-vacuity of the new domain: two charts (4 and 7 keys), holds and rolls across measures, a mid-measure tempo change,
   comments, every symbol *)
Theorem sm_read_example_two_charts :
  c02_domb w_read_two_charts = true /\
  match sm_denote w_read_two_charts with
  | Some d => (length (d_charts d) =? 2)%nat && (length (d_tempo d) =? 2)%nat
              && (10 <=? length (flat_map d_notes (d_charts d)))%nat
              && forallb (fun k => existsb (fun n => kind_eqb (dn_kind n) k) (flat_map d_notes (d_charts d)))
                         [KHit; KHold; KRoll; KMine; KLift; KFake; KKey]
  | None => false end = true.
Proof. vm_compute. auto. Qed.

(* non-vacuity of the on-lines guard: two tempo changes (given out of order) at beats 0 and 4 *)
Theorem sm_read_example_on_lines :
  c02_domb w_read_on_lines = true /\ sm_tempo_on_lines w_read_on_lines = true /\
  match sm_denote w_read_on_lines, sm_read live_conf current w_read_on_lines with
  | Some d, Some s => (length (d_tempo d) =? 2)%nat && forallb (fun c => (length (c_bpms c) =? 2)%nat) (s_maps s)
  | _, _ => false end = true.
Proof. vm_compute. auto. Qed.
