(* C02, token level: on the dialect (Formats/SMReadDom.v) the reader's view of a ';'-piece of the raw text
   (strip, split on ':', the rfind('#') comment hack, "#NOTES:" in token) and the reference view (comments removed
   first, strip, cut at the first colon) give the same tag, the same value / the same six chart fields. *)
From Coq Require Import String ZArith QArith List Bool Lia.
From RV Require Base.Text.
From RV Require Import Base.PyNum Timing.Snapper Timing.Snap Timing.TimingMap Timing.Reseat Timing.Integrate
  Formats.SMText Formats.SM Formats.SMSpec Formats.SMReadDom Proofs.SMTextFacts.
Import ListNotations.
Open Scope Z_scope.

(* ------------------------------------------------------------------ tags *)
Lemma all_nonws_clean t : (forall c, In c t -> is_ws c = false) -> clean t.
Proof.
  intro H. split.
  - destruct t as [|x t]; [exact I|]. apply H. left. reflexivity.
  - destruct (rev t) as [|x r] eqn:E; [exact I|]. apply H. apply in_rev. rewrite E. left. reflexivity.
Qed.

Lemma tag_tame_facts t : tag_tame t = true ->
  exists r, t = 35 :: r /\ ~ In 35 r /\ ~ In 47 t /\ (forall c, In c t -> is_ws c = false) /\ clean t.
Proof.
  unfold tag_tame. destruct t as [|x r]; [discriminate|].
  destruct x as [|x|x]; try discriminate. do 6 (destruct x as [x|x|]; try discriminate).
  intro H. rewrite forallb_forall in H. exists r. split; [reflexivity|].
  assert (A : forall c, In c r -> is_ws c = false /\ c <> 35 /\ c <> 47).
  { intros c Hc. specialize (H c Hc). apply andb_true_iff in H. destruct H as [H H3]. apply andb_true_iff in H. destruct H as [H1 H2].
    apply negb_true_iff in H1, H2, H3. apply Z.eqb_neq in H2, H3. auto. }
  assert (B : forall c, In c (35 :: r) -> is_ws c = false).
  { intros c [<-|Hc]; [reflexivity|apply A; exact Hc]. }
  split; [intro K; destruct (A _ K) as (_ & K2 & _); congruence|].
  split; [intros [K|K]; [discriminate|destruct (A _ K) as (_ & _ & K3); congruence]|].
  split; [exact B|apply all_nonws_clean; exact B].
Qed.

(* ------------------------------------------------------------------ the part of a piece before its first colon *)
Lemma no_slash_no_comment s : ~ In 47 s -> contains (tx "//") s = false.
Proof. intro N. apply (contains_absent _ _ 47); [left; reflexivity|exact N]. Qed.

Lemma boc_bs x : blank_or_comment x = true -> allws (bs x).
Proof.
  unfold blank_or_comment. intro H. apply orb_true_iff in H. destruct H as [H|H].
  - rewrite bs_no_comment; [exact H|]. apply no_slash_no_comment. apply allws_no_slash. exact H.
  - destruct (lstrip_decomp x) as (w & E & W & _). destruct (starts_with_eq _ _ H) as [r Er].
    rewrite E, Er, bs_ws_comment by exact W. exact W.
Qed.

Lemma lstrip_head_lines X wl : Forall (fun x => blank_or_comment x = true) X -> allws wl ->
  lstrip (with_sep 10 X ++ wl) = [] \/ starts_with (tx "//") (lstrip (with_sep 10 X ++ wl)) = true.
Proof.
  induction 1 as [|x X Hx _ IH]; intro W.
  - left. apply lstrip_allws. exact W.
  - cbn [with_sep]. rewrite <- app_assoc. cbn [app]. unfold blank_or_comment in Hx. apply orb_true_iff in Hx. destruct Hx as [Hx|Hx].
    + rewrite lstrip_ws by exact Hx. change (10 :: with_sep 10 X ++ wl) with ([10] ++ (with_sep 10 X ++ wl)).
      rewrite lstrip_ws by reflexivity. exact (IH W).
    + right. destruct (lstrip_decomp x) as (w & E & Wx & Hh). rewrite E, <- app_assoc, lstrip_ws by exact Wx.
      destruct (starts_with_eq _ _ Hx) as [r Er]. rewrite Er. rewrite <- app_assoc. cbn [app tx]. reflexivity.
Qed.

Record head_view (q0 : text) := mkHV {
  hv_Y : text; hv_W : text; hv_r : text;
  hv_q0 : q0 = hv_Y ++ head_tag q0;
  hv_tag : head_tag q0 = 35 :: hv_r;
  hv_no35 : ~ In 35 hv_r;
  hv_nows : forall c, In c (head_tag q0) -> is_ws c = false;
  hv_clean : clean (head_tag q0);
  hv_sc : sc false q0 = hv_W ++ head_tag q0;
  hv_Wws : allws hv_W;
  hv_Y_head : lstrip hv_Y = [] \/ starts_with (tx "//") (lstrip hv_Y) = true }.

Lemma head_view_of q0 : head_ok q0 = true -> exists hv : head_view q0, True.
Proof.
  unfold head_ok. intro H. apply andb_true_iff in H. destruct H as [HX HT].
  destruct (tag_tame_facts _ HT) as (r & Er & N35 & N47 & Nws & Cl).
  pose proof (text_of_pieces 10 q0) as T. pose proof (split_on_last_decomp 10 q0) as D.
  pose proof (split_pieces_no_sep 10 q0) as NL.
  unfold head_tag in *. remember (removelast (split_on 10 q0)) as X eqn:EX. remember (last (split_on 10 q0) []) as l eqn:El.
  destruct (lstrip_decomp l) as (wl & Ewl & Wwl & _).
  assert (Eq0 : q0 = (with_sep 10 X ++ wl) ++ lstrip l).
  { rewrite T at 1. rewrite Ewl at 1. rewrite app_assoc. reflexivity. }
  rewrite forallb_forall in HX. assert (FX : Forall (fun x => blank_or_comment x = true) X) by (apply Forall_forall; exact HX).
  assert (Esc : sc false q0 = (with_sep 10 (map bs X) ++ wl) ++ lstrip l).
  { rewrite <- (join_split 10 q0) at 1. rewrite sc_join_lines; [|apply split_on_nonempty|exact NL].
    rewrite D. rewrite map_app. cbn [map]. rewrite join_app_last.
    rewrite (bs_no_comment l).
    - rewrite Ewl at 1. rewrite app_assoc. reflexivity.
    - apply no_slash_no_comment. rewrite Ewl. intro K. apply in_app_or in K. destruct K as [K|K]; [exact (allws_no_slash _ Wwl K)|exact (N47 K)]. }
  unshelve eexists (mkHV q0 (with_sep 10 X ++ wl) (with_sep 10 (map bs X) ++ wl) r _ _ N35 _ _ _ _ _); unfold head_tag; rewrite <- ?El; try assumption; try exact I.
  - apply allws_app. split; [|exact Wwl]. apply allws_with_sep. apply Forall_forall. intros y Hy.
    apply in_map_iff in Hy. destruct Hy as (x & <- & Hx). apply boc_bs. apply HX. exact Hx.
  - apply lstrip_head_lines; assumption.
Qed.

(* s[0] = s[0][s[0].rfind('#'):] unless it starts with '#' *)
Definition hack (s0 : text) : text := if starts_with [35] s0 then s0 else slice_from_rfind 35 s0.

Lemma hack_head q0 (hv : head_view q0) : strip q0 = lstrip (hv_Y q0 hv) ++ head_tag q0 /\ hack (strip q0) = head_tag q0.
Proof.
  destruct hv as [Y W r Eq0 Er N35 Nws Cl Esc WW HY]. cbn [hv_Y].
  assert (Ne : head_tag q0 <> []) by (rewrite Er; discriminate).
  assert (S : strip q0 = lstrip Y ++ head_tag q0) by (rewrite Eq0 at 1; apply strip_suffix_clean; assumption).
  split; [exact S|]. rewrite S. unfold hack. destruct HY as [HY|HY].
  - rewrite HY. cbn [app]. rewrite Er. cbn [starts_with]. rewrite Z.eqb_refl. reflexivity.
  - destruct (starts_with_eq _ _ HY) as [u Eu]. rewrite Eu. cbn [tx app]. cbn [starts_with].
    change (35 =? 47) with false. cbn [andb]. rewrite Er.
    change (47 :: 47 :: u ++ 35 :: r) with ((47 :: 47 :: u) ++ 35 :: r). apply slice_from_rfind_app. exact N35.
Qed.

(* ------------------------------------------------------------------ items of the reference parser *)
Definition item_of (p : text) : option (text * text) :=
  match strip p with [] => None | it => parse_item it end.

Lemma items_go_snoc A l : items_go (A ++ [l]) =
  match strip l with [] => map_opt item_of A | _ => None end.
Proof.
  induction A as [|p A IH].
  - reflexivity.
  - cbn [app]. destruct (A ++ [l]) as [|y r] eqn:E; [destruct A; discriminate|].
    change (items_go (p :: y :: r)) with
      (match strip p with [] => None | it => match parse_item it, items_go (y :: r) with Some x, Some l0 => Some (x :: l0) | _, _ => None end end).
    rewrite IH. destruct (strip l) eqn:SL.
    + cbn [map_opt]. change (item_of p) with (match strip p with [] => None | it => parse_item it end). destruct (strip p) eqn:SP; reflexivity.
    + destruct (strip p); [reflexivity|]. destruct (parse_item _); reflexivity.
Qed.

Lemma cut_colon_app' (tag v acc : text) : ~ In 58 tag -> cut_colon acc (tag ++ 58 :: v) = Some (rev acc ++ tag, v).
Proof.
  revert acc. induction tag as [|x tag IH]; intros acc N.
  - cbn. rewrite frev_rev, app_nil_r. reflexivity.
  - cbn [app cut_colon]. destruct (x =? 58) eqn:E; [apply Z.eqb_eq in E; exfalso; apply N; left; exact E|].
    rewrite IH by (intro K; apply N; right; exact K). cbn [rev]. rewrite <- app_assoc. reflexivity.
Qed.
Lemma parse_item_tag r v : ~ In 58 (35 :: r) -> parse_item ((35 :: r) ++ 58 :: v) = Some (35 :: r, v).
Proof. intro N. cbn [app parse_item]. change (35 :: r ++ 58 :: v) with ((35 :: r) ++ 58 :: v). rewrite cut_colon_app' by exact N. reflexivity. Qed.

(* pieces of a split contain no separator *)
Lemma split_piece_no_sep c s q : In q (split_on c s) -> ~ In c q.
Proof. intro H. pose proof (split_pieces_no_sep c s) as F. rewrite Forall_forall in F. exact (F q H). Qed.

(* ------------------------------------------------------------------ a header piece  #TAG:value *)
Theorem meta_piece p q0 q1 : split_on 58 p = [q0; q1] -> sep_outside 58 false p = true -> head_ok q0 = true ->
  no_comment q1 = true -> text_eqb (head_tag q0) (tx "#NOTES") = false ->
  item_of (sc false p) = Some (head_tag q0, rstrip q1)
  /\ strip p <> [] /\ map strip (split_on 58 (strip p)) = [strip q0; strip q1]
  /\ strip q0 <> [] /\ hack (strip q0) = head_tag q0
  /\ contains (tx "#NOTES:") (strip p) = false.
Proof.
  intros Sp G H0 H1 Hn. destruct (head_view_of q0 H0) as [hv _].
  destruct (hack_head q0 hv) as [S0 Hk]. destruct hv as [Y W r Eq0 Er N35 Nws Cl Esc WW HY]. cbn [hv_Y] in S0.
  assert (Ne : head_tag q0 <> []) by (rewrite Er; discriminate).
  assert (N0 : ~ In 58 q0) by (apply (split_piece_no_sep 58 p); rewrite Sp; left; reflexivity).
  assert (N1 : ~ In 58 q1) by (apply (split_piece_no_sep 58 p); rewrite Sp; right; left; reflexivity).
  assert (Nt : ~ In 58 (head_tag q0)) by (intro K; apply N0; rewrite Eq0; apply in_or_app; right; exact K).
  assert (Ep : p = q0 ++ 58 :: q1).
  { rewrite <- (join_split 58 p), Sp. reflexivity. }
  (* reference side *)
  assert (Esp : sc false p = W ++ head_tag q0 ++ 58 :: q1).
  { rewrite <- (join_split 58 (sc false p)). rewrite (sc_split_false 58 p eq_refl eq_refl G), Sp. cbn [map join].
    rewrite Esc, (sc_no_comment q1), <- app_assoc; [reflexivity|]. unfold no_comment in H1. apply negb_true_iff in H1. exact H1. }
  assert (Est : strip (sc false p) = head_tag q0 ++ 58 :: rstrip q1).
  { rewrite Esp. change (58 :: q1) with ([58] ++ q1). rewrite (app_assoc (head_tag q0)), (app_assoc W).
    rewrite <- (app_assoc W). rewrite (strip_around W (head_tag q0 ++ [58]) q1).
    - rewrite (lstrip_allws W WW). cbn [app]. rewrite <- app_assoc. reflexivity.
    - destruct (head_tag q0); discriminate.
    - destruct Cl as [C1 C2]. split; [apply head_ok_app; assumption|]. rewrite rev_app_distr. reflexivity. }
  split.
  { unfold item_of. rewrite Est. rewrite Er in *. cbn [app]. change (35 :: r ++ 58 :: rstrip q1) with ((35 :: r) ++ 58 :: rstrip q1).
    apply parse_item_tag. exact Nt. }
  (* reader side *)
  assert (Ms : map strip (split_on 58 (strip p)) = [strip q0; strip q1]).
  { rewrite (map_split_strip_gen strip 58 p eq_refl strip_ws_l strip_ws_r), Sp. reflexivity. }
  assert (Stp : strip p = lstrip Y ++ head_tag q0 ++ 58 :: rstrip q1).
  { rewrite Ep, Eq0 at 1. rewrite <- app_assoc. change (58 :: q1) with ([58] ++ q1). rewrite (app_assoc (head_tag q0)).
    rewrite (strip_around Y (head_tag q0 ++ [58]) q1).
    - rewrite <- app_assoc. reflexivity.
    - destruct (head_tag q0); discriminate.
    - destruct Cl as [C1 C2]. split; [apply head_ok_app; assumption|]. rewrite rev_app_distr. reflexivity. }
  split; [rewrite Stp; destruct (lstrip Y); [destruct (head_tag q0); [congruence|discriminate]|discriminate]|].
  split; [exact Ms|]. split; [rewrite S0; destruct (lstrip Y); [exact Ne|discriminate]|]. split; [exact Hk|].
  (* "#NOTES:" is not in the token *)
  destruct (contains (tx "#NOTES:") (strip p)) eqn:C; [|reflexivity]. exfalso.
  rewrite Stp, app_assoc in C. change (tx "#NOTES:") with (tx "#NOTES" ++ [58]) in C.
  assert (NY : ~ In 58 (lstrip Y ++ head_tag q0)).
  { rewrite <- S0. destruct (strip_spec q0) as (w1 & w2 & E & _). intro K. apply N0. rewrite E. apply in_or_app. right. apply in_or_app. left. exact K. }
  assert (Nr : ~ In 58 (rstrip q1)).
  { destruct (rstrip_decomp q1) as (w & E & _). intro K. apply N1. rewrite E. apply in_or_app. left. exact K. }
  destruct (contains_one_sep (tx "#NOTES") 58 _ _ (fun K => ltac:(cbn in K; intuition discriminate)) NY Nr C) as [a' Ea].
  rewrite Er in Ea. change (tx "#NOTES") with (35 :: tx "NOTES") in Ea.
  assert (T : r = tx "NOTES").
  { apply (last_sep_unique 35 (lstrip Y) r a' (tx "NOTES")); [exact N35| |exact Ea]. cbn. intuition discriminate. }
  rewrite Er, T in Hn. discriminate.
Qed.

(* the piece after the last ';' *)
Lemma last_piece pl : all_ws pl = true ->
  strip pl = [] /\ strip (sc false pl) = [].
Proof.
  intro H. split; [apply strip_allws; exact H|]. apply strip_allws. unfold allws. apply forallb_forall.
  intros x Hx. apply (sc_in x pl false) in Hx. unfold all_ws in H. rewrite forallb_forall in H. exact (H x Hx).
Qed.

(* ------------------------------------------------------------------ a chart piece  #NOTES:type:desc:diff:meter:radar:data *)
Theorem notes_piece p q0 c1 c2 c3 c4 c5 c6 : split_on 58 p = [q0; c1; c2; c3; c4; c5; c6] ->
  sep_outside 58 false p = true -> head_ok q0 = true -> forallb no_comment [c1; c2; c3; c4; c5] = true ->
  head_tag q0 = tx "#NOTES" ->
  (exists V, item_of (sc false p) = Some (tx "#NOTES", V)
             /\ map strip (split_on 58 V) = [strip c1; strip c2; strip c3; strip c4; strip c5; strip (sc false c6)])
  /\ contains (tx "#NOTES:") (strip p) = true
  /\ exists r0 l w2, split_on 58 (strip p) = [r0; c1; c2; c3; c4; c5; l] /\ c6 = l ++ w2 /\ allws w2.
Proof.
  intros Sp G H0 Hc Ht. destruct (head_view_of q0 H0) as [hv _].
  destruct hv as [Y W r Eq0 Er N35 Nws Cl Esc WW HY]. rewrite Ht in *.
  cbn [forallb] in Hc. repeat (apply andb_true_iff in Hc; destruct Hc as [? Hc]).
  assert (NC : forall c, no_comment c = true -> sc false c = c).
  { intros c K. apply sc_no_comment. unfold no_comment in K. apply negb_true_iff in K. exact K. }
  set (Zr := c1 ++ 58 :: c2 ++ 58 :: c3 ++ 58 :: c4 ++ 58 :: c5 ++ 58 :: sc false c6).
  assert (Esp : sc false p = W ++ tx "#NOTES:" ++ Zr).
  { rewrite <- (join_split 58 (sc false p)). rewrite (sc_split_false 58 p eq_refl eq_refl G), Sp. cbn [map join].
    rewrite Esc, !NC by assumption. rewrite <- !app_assoc. reflexivity. }
  assert (Cn : clean (tx "#NOTES:")) by (split; reflexivity).
  assert (Est : strip (sc false p) = tx "#NOTES" ++ 58 :: rstrip Zr).
  { rewrite Esp, (strip_around W (tx "#NOTES:") Zr); [|discriminate|exact Cn]. rewrite (lstrip_allws W WW). reflexivity. }
  assert (NS : forall c, In c [q0; c1; c2; c3; c4; c5; c6] -> ~ In 58 c).
  { intros c Hc'. apply (split_piece_no_sep 58 p). rewrite Sp. exact Hc'. }
  split.
  { exists (rstrip Zr). split.
    - unfold item_of. rewrite Est. apply (parse_item_tag (tx "NOTES")). cbn. intuition discriminate.
    - rewrite (map_split_rstrip_gen strip 58 Zr eq_refl strip_ws_r). unfold Zr.
      assert (N6 : ~ In 58 (sc false c6)) by (intro K; apply (sc_in 58 c6 false) in K; revert K; apply NS; cbn; tauto).
      rewrite !split_on_app by (apply NS; cbn; tauto). rewrite split_on_no_sep by exact N6. reflexivity. }
  assert (Ep : p = Y ++ tx "#NOTES:" ++ c1 ++ 58 :: c2 ++ 58 :: c3 ++ 58 :: c4 ++ 58 :: c5 ++ 58 :: c6).
  { rewrite <- (join_split 58 p), Sp. cbn [join]. rewrite Eq0 at 1. rewrite <- !app_assoc. reflexivity. }
  split.
  { rewrite Ep, (strip_around Y (tx "#NOTES:") _); [|discriminate|exact Cn]. apply contains_mid. }
  destruct (strip_spec p) as (w1 & w2 & E & W1 & W2 & _).
  pose proof Sp as Sp'. rewrite E in Sp'. rewrite (split_ws_l 58 w1 _ eq_refl W1), (split_ws_r 58 (strip p) w2 eq_refl W2) in Sp'.
  set (R := removelast (split_on 58 (strip p))) in *. set (l := last (split_on 58 (strip p)) []) in *.
  pose proof (split_on_last_decomp 58 (strip p)) as D. fold R in D. fold l in D.
  destruct R as [|r0 R']; cbn [app] in Sp'; [discriminate|]. inversion Sp' as [[E0 ER]].
  assert (ER' : R' ++ [l ++ w2] = [c1; c2; c3; c4; c5] ++ [c6]) by exact ER.
  apply app_inj_tail in ER'. destruct ER' as [-> E6].
  exists r0, l, w2. split; [exact D|]. split; [symmetry; exact E6|exact W2].
Qed.
