(* C02, chart body, output side: the lists the reader returns (_expand: column-major, times looked up by Snap) are, kind
   by kind, a permutation of the objects its final state stands for; together with Proofs/SMReadSim.v: a permutation of
   the objects the reference semantics denotes — nothing invented, nothing dropped. *)
From Coq Require Import String ZArith QArith Qround List Bool Lia Lqa Sorting.Permutation.
From RV Require Import Base.PyNum Timing.Snapper Timing.Snap Timing.TimingMap Timing.Reseat Timing.Integrate
  Formats.SMText Formats.SM Formats.SMSpec Proofs.SMProofs Proofs.SMWriteProofs Proofs.SMReadSim.
Import ListNotations.
Open Scope Z_scope.

Definition to4 (n : dnote) : note4 := (dn_col n, dn_time n, dn_len n).
Lemma dnotes_of_eq k l : dnotes_of k l = map to4 (filter (fun n => kind_eqb (dn_kind n) k) l).
Proof. reflexivity. Qed.

(* ---- permutation facts ---- *)
Lemma Permutation_filter {A} (f : A -> bool) l l' : Permutation l l' -> Permutation (filter f l) (filter f l').
Proof.
  induction 1 as [|x l l' _ IH|x y l|l l' l'' _ IH1 _ IH2]; cbn [filter].
  - constructor.
  - destruct (f x); [apply perm_skip|]; exact IH.
  - destruct (f x), (f y); try apply Permutation_refl. apply perm_swap.
  - eapply perm_trans; eassumption.
Qed.
Lemma dnotes_of_perm k l l' : Permutation l l' -> Permutation (dnotes_of k l) (dnotes_of k l').
Proof. intro P. rewrite !dnotes_of_eq. apply Permutation_map. apply Permutation_filter. exact P. Qed.

Lemma filter_filter {A} (f g : A -> bool) l : filter f (filter g l) = filter (fun x => g x && f x) l.
Proof. induction l as [|x l IH]; [reflexivity|]. cbn [filter]. destruct (g x); cbn [filter andb]; rewrite IH; reflexivity. Qed.

(* grouping a list by a key in [a, a+n) is a permutation *)
Lemma group_perm {A} (key : A -> Z) l : forall n a,
  Forall (fun x => Z.of_nat a <= key x < Z.of_nat (a + n)) l ->
  Permutation (flat_map (fun c => filter (fun x => key x =? Z.of_nat c) l) (seq a n)) l.
Proof.
  induction l as [|x l IH]; intros n a F.
  - cbn [filter]. induction (seq a n); cbn; auto.
  - inversion F as [|? ? Fx Fl]; subst. cbn [filter].
    assert (G : forall n a, Permutation (flat_map (fun c => if key x =? Z.of_nat c then x :: filter (fun y => key y =? Z.of_nat c) l
                                                          else filter (fun y => key y =? Z.of_nat c) l) (seq a n))
                              ((if (Z.of_nat a <=? key x) && (key x <? Z.of_nat (a + n)) then [x] else [])
                               ++ flat_map (fun c => filter (fun y => key y =? Z.of_nat c) l) (seq a n))).
    { clear. induction n as [|n IHn]; intro a.
      - cbn. replace (a + 0)%nat with a by lia. destruct (Z.of_nat a <=? key x) eqn:E1, (key x <? Z.of_nat a) eqn:E2; cbn; try constructor.
        apply Z.leb_le in E1. apply Z.ltb_lt in E2. lia.
      - cbn [seq flat_map]. specialize (IHn (S a)). destruct (key x =? Z.of_nat a) eqn:E.
        + apply Z.eqb_eq in E.
          assert (E1 : (Z.of_nat a <=? key x) && (key x <? Z.of_nat (a + S n)) = true) by (apply andb_true_iff; split; [apply Z.leb_le|apply Z.ltb_lt]; lia).
          assert (E2 : (Z.of_nat (S a) <=? key x) && (key x <? Z.of_nat (S a + n)) = false) by (apply andb_false_iff; left; apply Z.leb_gt; lia).
          rewrite E1. rewrite E2 in IHn. cbn [app] in *. apply perm_skip. apply Permutation_app_head. exact IHn.
        + apply Z.eqb_neq in E. eapply perm_trans; [apply Permutation_app_head; exact IHn|].
          assert (E3 : (Z.of_nat (S a) <=? key x) && (key x <? Z.of_nat (S a + n)) = (Z.of_nat a <=? key x) && (key x <? Z.of_nat (a + S n))).
          { replace (S a + n)%nat with (a + S n)%nat by lia. f_equal. destruct (Z.of_nat (S a) <=? key x) eqn:A1, (Z.of_nat a <=? key x) eqn:A2; try reflexivity.
            - apply Z.leb_le in A1. apply Z.leb_gt in A2. lia.
            - apply Z.leb_gt in A1. apply Z.leb_le in A2. lia. }
          rewrite E3. apply Permutation_app_swap_app. }
    eapply perm_trans; [apply G|].
    assert (E : (Z.of_nat a <=? key x) && (key x <? Z.of_nat (a + n)) = true) by (apply andb_true_iff; split; [apply Z.leb_le|apply Z.ltb_lt]; lia).
    rewrite E. cbn [app]. apply perm_skip. apply IH. exact Fl.
Qed.

Lemma map_opt_all {A B} (f : A -> option B) (g : A -> B) l : (forall x, In x l -> f x = Some (g x)) -> map_opt f l = Some (map g l).
Proof.
  induction l as [|x l IH]; intro H; [reflexivity|]. cbn [map_opt map]. rewrite (H x (or_introl eq_refl)), IH; [reflexivity|].
  intros y Hy. apply H. right. exact Hy.
Qed.

Section Expand.
Variables (tbl : list Q) (types : list (text * option Z)).
Let cf := ref_conf tbl types.
Variable tau : snap -> Q.
Variable mp : list (snap * Q).

Definition evkey (k : kind) (c : nat) (e : kind * Z * snap) : bool := kind_eqb (fst (fst e)) k && (snd (fst e) =? Z.of_nat c).
Definition colmajor (k : kind) (evs : list (kind * Z * snap)) (n : nat) : list (kind * Z * snap) :=
  flat_map (fun c => filter (evkey k c) evs) (seq 0 n).

Lemma expand_simple_ok k evs n : (forall e, In e evs -> lookup_snap (snd e) mp = Some (tau (snd e))) ->
  expand_simple mp k evs n = Some (map (fun e : kind * Z * snap => (tau (snd e), snd (fst e))) (colmajor k evs n)).
Proof.
  intro H. unfold expand_simple. apply map_opt_all. intros e He. apply in_flat_map in He. destruct He as (c & _ & He).
  apply filter_In in He. destruct He as [He _]. rewrite (H e He). reflexivity.
Qed.

Lemma colmajor_perm k evs n : Forall (fun e : kind * Z * snap => 0 <= snd (fst e) < Z.of_nat n) evs ->
  Permutation (colmajor k evs n) (filter (fun e : kind * Z * snap => kind_eqb (fst (fst e)) k) evs).
Proof.
  intro F. unfold colmajor.
  assert (E : forall c, filter (evkey k c) evs = filter (fun e : kind * Z * snap => snd (fst e) =? Z.of_nat c) (filter (fun e : kind * Z * snap => kind_eqb (fst (fst e)) k) evs)).
  { intro c. rewrite filter_filter. reflexivity. }
  rewrite (flat_map_ext _ _ E). apply (group_perm (fun e : kind * Z * snap => snd (fst e))).
  apply Forall_forall. intros e He. apply filter_In in He. destruct He as [He _]. rewrite Forall_forall in F. cbn. exact (F e He).
Qed.

(* simple objects of kind k *)
Theorem simple_out (st : nst) k out : is_simple k = true ->
  Forall (fun e : kind * Z * snap => 0 <= snd (fst e) < 18 /\ is_simple (fst (fst e)) = true) (n_simple st) ->
  (forall e, In e (n_simple st) -> lookup_snap (snd e) mp = Some (tau (snd e))) ->
  expand_simple mp k (rev (n_simple st)) 18 = Some out ->
  Permutation (simple4 out) (dnotes_of k (notes_of_st tau st)).
Proof.
  intros Hk F L E. rewrite expand_simple_ok in E by (intros e He; apply L; apply in_rev; exact He). inversion E; subst out. clear E.
  unfold simple4. rewrite map_map. rewrite dnotes_of_eq. unfold notes_of_st. rewrite !filter_app.
  assert (Z1 : forall k' a ll, k' <> k -> filter (fun n => kind_eqb (dn_kind n) k) (flat_cols tau k' a ll) = []).
  { intros k' a ll Ne. revert a. induction ll as [|l ll IH]; intro a; [reflexivity|]. cbn [flat_cols]. rewrite filter_app, IH, app_nil_r.
    unfold contrib. induction l as [|[h [t|]] l IHl]; cbn; auto. destruct k', k; cbn; try exact IHl; congruence. }
  rewrite (Z1 KHold), (Z1 KRoll), !app_nil_r by (destruct k; discriminate).
  assert (E1 : filter (fun n => kind_eqb (dn_kind n) k) (map (convS tau) (n_simple st))
               = map (convS tau) (filter (fun e : kind * Z * snap => kind_eqb (fst (fst e)) k) (n_simple st))).
  { clear. induction (n_simple st) as [|e l IH]; [reflexivity|]. cbn [map filter]. cbn [convS dn_kind]. destruct (kind_eqb (fst (fst e)) k); cbn [map]; rewrite IH; reflexivity. }
  rewrite E1, map_map.
  eapply perm_trans; [apply Permutation_map; apply colmajor_perm|].
  - apply Forall_forall. intros e He. apply in_rev in He. rewrite Forall_forall in F. destruct (F e He) as [F1 _]. exact F1.
  - eapply perm_trans; [apply Permutation_map; apply Permutation_filter; apply Permutation_sym; apply Permutation_rev|].
    apply Permutation_refl.
Qed.

(* long notes *)
Definition hold_items (a : nat) (ll : list (list hentry)) : list (Z * hentry) :=
  flat_map (fun cl : nat * list hentry => map (fun e => (Z.of_nat (fst cl), e)) (snd cl)) (combine (seq a (length ll)) ll).
Definition hold_out (ce : Z * hentry) : option (Q * Z * Q) :=
  match snd (snd ce) with
  | None => None
  | Some t => match lookup_snap (fst (snd ce)) mp, lookup_snap t mp with
              | Some ho, Some to => Some (ho, fst ce, Qred (to - ho))
              | _, _ => None end
  end.

Lemma expand_hold_eq ll : expand_hold mp ll = map_opt hold_out (hold_items 0 ll).
Proof. reflexivity. Qed.

Lemma hold_column k c l : closedb l = true ->
  (forall h t, In (h, Some t) l -> lookup_snap h mp = Some (tau h) /\ lookup_snap t mp = Some (tau t)) ->
  exists L, map_opt hold_out (map (fun e => (Z.of_nat c, e)) l) = Some L /\ hold4 L = map to4 (contrib tau k c l).
Proof.
  induction l as [|[h [t|]] l IH]; intros C H.
  - exists []. split; reflexivity.
  - cbn [closedb forallb snd] in C. destruct (IH C) as (L & E1 & E2); [intros h' t' K; apply H; right; exact K|].
    destruct (H h t (or_introl eq_refl)) as [Lh Lt].
    exists ((tau h, Z.of_nat c, Qred (tau t - tau h)) :: L). split.
    + cbn [map map_opt]. unfold hold_out at 1. cbn [fst snd]. rewrite Lh, Lt, E1. reflexivity.
    + cbn [hold4 map]. fold (hold4 L). rewrite E2. reflexivity.
  - cbn in C. discriminate.
Qed.

Lemma map_opt_app {A B} (f : A -> option B) a b la lb : map_opt f a = Some la -> map_opt f b = Some lb -> map_opt f (a ++ b) = Some (la ++ lb).
Proof.
  revert la. induction a as [|x a IH]; intros la Ha Hb.
  - inversion Ha; subst. exact Hb.
  - cbn [map_opt app] in Ha |- *. destruct (f x); [|discriminate]. destruct (map_opt f a) eqn:E; [|discriminate]. inversion Ha; subst.
    rewrite (IH l eq_refl Hb). reflexivity.
Qed.

Theorem hold_out_ok k ll : forall a, forallb closedb ll = true ->
  (forall l h t, In l ll -> In (h, Some t) l -> lookup_snap h mp = Some (tau h) /\ lookup_snap t mp = Some (tau t)) ->
  exists L, map_opt hold_out (hold_items a ll) = Some L /\ hold4 L = map to4 (flat_cols tau k a ll).
Proof.
  induction ll as [|l ll IH]; intros a C H.
  - exists []. split; reflexivity.
  - cbn [forallb] in C. apply andb_true_iff in C. destruct C as [C1 C2].
    destruct (hold_column k a l C1 (fun h t K => H l h t (or_introl eq_refl) K)) as (L1 & E1 & F1).
    destruct (IH (S a) C2 (fun l' h t K1 K2 => H l' h t (or_intror K1) K2)) as (L2 & E2 & F2).
    exists (L1 ++ L2). split.
    + unfold hold_items. cbn [length seq combine flat_map fst snd]. apply map_opt_app; [exact E1|exact E2].
    + unfold hold4 in *. rewrite map_app, F1, F2. cbn [flat_cols]. rewrite map_app. reflexivity.
Qed.

Theorem hold_out_perm (st : nst) k (ll : list (list hentry)) out :
  Forall (fun e : kind * Z * snap => is_simple (fst (fst e)) = true) (n_simple st) ->
  forallb closedb ll = true ->
  (forall l h t, In l ll -> In (h, Some t) l -> lookup_snap h mp = Some (tau h) /\ lookup_snap t mp = Some (tau t)) ->
  expand_hold mp ll = Some out -> (k = KHold /\ ll = n_holds st \/ k = KRoll /\ ll = n_rolls st) ->
  hold4 out = dnotes_of k (notes_of_st tau st).
Proof.
  intros F C H E K. rewrite expand_hold_eq in E. destruct (hold_out_ok k ll 0 C H) as (L & E1 & E2). rewrite E1 in E. inversion E; subst out.
  rewrite E2, dnotes_of_eq. unfold notes_of_st. rewrite !filter_app.
  assert (Z0 : filter (fun n => kind_eqb (dn_kind n) k) (map (convS tau) (n_simple st)) = []).
  { induction F as [|e l Fe _ IH]; [reflexivity|]. cbn [map filter convS dn_kind]. rewrite IH.
    destruct K as [[-> _]|[-> _]]; destruct (fst (fst e)); try discriminate; reflexivity. }
  assert (Z1 : forall k' a ll', k' <> k -> filter (fun n => kind_eqb (dn_kind n) k) (flat_cols tau k' a ll') = []).
  { intros k' a ll' Ne. revert a. induction ll' as [|l ll' IH]; intro a; [reflexivity|]. cbn [flat_cols]. rewrite filter_app, IH, app_nil_r.
    unfold contrib. induction l as [|[h [t|]] l IHl]; cbn; auto. destruct k', k; cbn; try exact IHl; congruence. }
  assert (Z2 : forall a ll', filter (fun n => kind_eqb (dn_kind n) k) (flat_cols tau k a ll') = flat_cols tau k a ll').
  { intros a ll'. revert a. induction ll' as [|l ll' IH]; intro a; [reflexivity|]. cbn [flat_cols]. rewrite filter_app, IH. f_equal.
    unfold contrib. induction l as [|[h [t|]] l IHl]; [reflexivity| |exact IHl].
    cbn [flat_map snd fst app filter dn_kind]. replace (kind_eqb k k) with true by (destruct k; reflexivity). f_equal. exact IHl. }
  rewrite Z0. destruct K as [[-> ->]|[-> ->]].
  - rewrite Z2, (Z1 KRoll) by discriminate. rewrite app_nil_r. reflexivity.
  - rewrite Z2, (Z1 KHold) by discriminate. reflexivity.
Qed.
End Expand.
