From Coq Require Import ZArith QArith Qround Qabs List Bool Lia Lqa.
From RV Require Import Base.PyNum Timing.Snapper.
Import ListNotations.
Open Scope Q_scope.

Lemma Qabs_cases x : (0 <= x /\ Qabs x == x) \/ (x <= 0 /\ Qabs x == - x).
Proof.
  destruct (Qlt_le_dec x 0) as [H|H].
  - right. split; [lra|]. apply Qabs_neg. lra.
  - left. split; [lra|]. apply Qabs_pos. lra.
Qed.
Ltac qabs_goal := repeat match goal with |- context [Qabs ?x] =>
  let H := fresh "Hab" in let E := fresh "Eab" in
  destruct (Qabs_cases x) as [[H E]|[H E]]; rewrite E; clear E end.

Lemma Qabs_le_both a b : (a <= b /\ - a <= b) -> Qabs a <= b.
Proof. intros [H1 H2]. apply Qabs_case; intros; lra. Qed.

Lemma last_indep (w : Q) l d1 d2 : last (w :: l) d1 = last (w :: l) d2.
Proof. revert w. induction l as [|x l IH]; intros w; [reflexivity|]. change (last (x :: l) d1 = last (x :: l) d2). apply IH. Qed.

Lemma last_cons_default (v : Q) l d : last (v :: l) d = last l v.
Proof. destruct l as [|w l]; [reflexivity|]. change (last (w :: l) d = last (w :: l) v). apply last_indep. Qed.

Lemma sorted_gap_last g prev l : sorted_gap g prev l = true -> prev <= last l prev.
Proof.
  revert prev. induction l as [|v l IH]; intros prev H.
  - simpl. lra.
  - simpl in H. apply andb_true_iff in H. destruct H as [H H3]. apply andb_true_iff in H. destruct H as [H1 H2].
    apply Qlt_bool_iff in H1. specialize (IH v H3).
    rewrite last_cons_default. lra.
Qed.

(* core lemma: nearest, within g/2, member *)
Lemma bisect_pick_spec g prev l rem :
  sorted_gap g prev l = true -> prev < rem -> rem <= last l prev ->
  let r := bisect_pick prev l rem in
  In r (prev :: l) /\
  (forall t, (t <= prev \/ In t l) -> Qabs (rem - r) <= Qabs (rem - t)) /\
  2 * Qabs (rem - r) <= g.
Proof.
  revert prev. induction l as [|v l IH]; intros prev Hs Hlt Hle; [cbn in Hle|rewrite last_cons_default in Hle]; cbn [sorted_gap bisect_pick In] in *.
  - exfalso; lra.
  - apply andb_true_iff in Hs. destruct Hs as [Hs Hs3]. apply andb_true_iff in Hs. destruct Hs as [Hs1 Hs2].
    apply Qlt_bool_iff in Hs1. apply Qle_bool_iff in Hs2.
    destruct (Qle_bool rem v) eqn:E.
    + apply Qle_bool_iff in E.
      assert (Hrest: forall t, In t l -> v <= t).
      { clear - Hs3. revert v Hs3. induction l as [|w l IH]; intros v H t Hin; simpl in *; [tauto|].
        apply andb_true_iff in H. destruct H as [H H3]. apply andb_true_iff in H. destruct H as [H1 H2].
        apply Qlt_bool_iff in H1. destruct Hin as [->|Hin]; [lra|]. specialize (IH w H3 t Hin). lra. }
      destruct (Qlt_bool (rem - prev) (v - rem)) eqn:E2.
      * apply Qlt_bool_iff in E2. split; [left; reflexivity|]. split.
        -- intros t [Ht|[Ht|Ht]].
           ++ qabs_goal; lra.
           ++ subst t. qabs_goal; lra.
           ++ specialize (Hrest t Ht). qabs_goal; lra.
        -- qabs_goal; lra.
      * apply Qlt_bool_false in E2. split; [right; left; reflexivity|]. split.
        -- intros t [Ht|[Ht|Ht]].
           ++ qabs_goal; lra.
           ++ subst t. qabs_goal; lra.
           ++ specialize (Hrest t Ht). qabs_goal; lra.
        -- qabs_goal; lra.
    + apply Qle_bool_false in E.
      assert (Hle': rem <= last l v) by exact Hle.
      specialize (IH v Hs3 E Hle'). cbv zeta in IH. destruct IH as [I1 [I2 I3]].
      split; [right; exact I1|]. split; [|exact I3].
      intros t [Ht|[Ht|Ht]].
      * apply I2. left. lra.
      * apply I2. left. subst t. lra.
      * apply I2. right. exact Ht.
Qed.

Section Table.
  Variable g : Q.
  Variable tbl : list Q.
  Hypothesis Hok : table_ok g tbl = true.

  Lemma table_shape : exists v0 l, tbl = v0 :: l /\ v0 == 0 /\ sorted_gap g v0 l = true /\ last l v0 == 1.
  Proof.
    unfold table_ok in Hok. destruct tbl as [|v0 l] eqn:Et; [discriminate|].
    apply andb_true_iff in Hok. destruct Hok as [H H3]. apply andb_true_iff in H. destruct H as [H1 H2].
    apply Qeq_bool_iff in H1. apply Qeq_bool_iff in H3.
    exists v0, l. repeat split; auto. rewrite last_cons_default in H3. exact H3.
  Qed.

  (* Snapping a fraction in [0,1] returns a table element, none strictly nearer, within g/2. *)
  Theorem snap_frac_nearest rem : 0 <= rem -> rem <= 1 ->
    In (snap_frac tbl rem) tbl /\
    (forall t, In t tbl -> Qabs (rem - snap_frac tbl rem) <= Qabs (rem - t)) /\
    2 * Qabs (rem - snap_frac tbl rem) <= g.
  Proof.
    intros H0 H1. destruct table_shape as [v0 [l [-> [Hv0 [Hs Hl]]]]]. cbn [snap_frac].
    destruct (Qle_bool rem v0) eqn:E.
    - apply Qle_bool_iff in E. split; [left; reflexivity|].
      assert (Hall: forall t, In t l -> v0 <= t).
      { clear - Hs. revert v0 Hs. induction l as [|w l IH]; intros v H t Hin; simpl in *; [tauto|].
        apply andb_true_iff in H. destruct H as [H H3]. apply andb_true_iff in H. destruct H as [H1 H2].
        apply Qlt_bool_iff in H1. destruct Hin as [->|Hin]; [lra|]. specialize (IH w H3 t Hin). lra. }
      assert (Hg: 0 <= g).
      { destruct l as [|w l']; cbn [sorted_gap last] in *.
        - exfalso; lra.
        - apply andb_true_iff in Hs. destruct Hs as [H H3]. apply andb_true_iff in H. destruct H as [Ha Hb].
          apply Qlt_bool_iff in Ha. apply Qle_bool_iff in Hb. lra. }
      split.
      + intros t [Ht|Ht]; [subst t; apply Qle_refl|]. specialize (Hall t Ht). qabs_goal; lra.
      + qabs_goal; lra.
    - apply Qle_bool_false in E.
      assert (Hle: rem <= last l v0) by lra.
      pose proof (bisect_pick_spec g v0 l rem Hs E Hle) as [P1 [P2 P3]].
      split; [exact P1|]. split; [|exact P3].
      intros t [Ht|Ht]; apply P2; [left; subst t; lra|right; exact Ht].
  Qed.

  (* a table element is a fixed point *)
  Theorem snap_frac_fix t : In t tbl -> 0 <= t -> t <= 1 -> snap_frac tbl t == t.
  Proof.
    intros Hin H0 H1. destruct (snap_frac_nearest t H0 H1) as [_ [N _]].
    specialize (N t Hin). revert N. qabs_goal; lra.
  Qed.

  Lemma table_range t : In t tbl -> 0 <= t /\ t <= 1.
  Proof.
    destruct table_shape as [v0 [l [-> [Hv0 [Hs Hl]]]]].
    pose proof (sorted_gap_last g v0 l Hs) as Hv1.
    intros [Ht|Ht]; [subst; split; lra|].
    assert (G: forall v0, sorted_gap g v0 l = true -> In t l -> v0 < t /\ t <= last l v0).
    { clear. induction l as [|w l' IH]; intros v0 Hs Ht; [destruct Ht|].
      cbn [sorted_gap] in Hs. rewrite last_cons_default.
      apply andb_true_iff in Hs. destruct Hs as [H H3]. apply andb_true_iff in H. destruct H as [Ha Hb].
      apply Qlt_bool_iff in Ha. destruct Ht as [->|Ht].
      - split; [lra|]. apply (sorted_gap_last g t l' H3).
      - destruct (IH w H3 Ht) as [I1 I2]. split; [lra|]. exact I2. }
    destruct (G v0 Hs Ht). split; lra.
  Qed.

  (* ---- full snapper ---- *)
  Theorem snapper_snap_within x : 2 * Qabs (x - snapper_snap tbl x) <= g.
  Proof.
    unfold snapper_snap. rewrite Qred_correct.
    pose proof (frac_range x) as [F0 F1].
    destruct (snap_frac_nearest (frac x)) as [_ [_ W]]; [lra|lra|].
    unfold frac in *. revert W. qabs_goal; lra.
  Qed.

  Theorem snapper_snap_in_table x :
    exists t k, In t tbl /\ snapper_snap tbl x == t + inject_Z k.
  Proof.
    unfold snapper_snap. pose proof (frac_range x) as [F0 F1].
    destruct (snap_frac_nearest (frac x)) as [I _]; [lra|lra|].
    exists (snap_frac tbl (frac x)), (Qfloor x). split; auto. rewrite Qred_correct. reflexivity.
  Qed.

  Instance frac_comp : Proper (Qeq ==> Qeq) frac.
  Proof. intros a b E. unfold frac. rewrite (Qfloor_comp a b E). lra. Qed.

  Lemma bisect_pick_comp a b : a == b -> forall l v0, bisect_pick v0 l a = bisect_pick v0 l b.
  Proof.
    intros E. induction l as [|w l' IH]; intros v0; cbn [bisect_pick]; auto.
    assert (E1: Qle_bool a w = Qle_bool b w) by (rewrite E; reflexivity).
    assert (E2: Qlt_bool (a - v0) (w - a) = Qlt_bool (b - v0) (w - b)).
    { unfold Qlt_bool. f_equal. rewrite E. reflexivity. }
    rewrite E1, E2, IH. reflexivity.
  Qed.

  Lemma snap_frac_comp a b : a == b -> snap_frac tbl a = snap_frac tbl b.
  Proof.
    intros E. destruct tbl as [|v0 l]; cbn [snap_frac]; auto.
    assert (E1: Qle_bool a v0 = Qle_bool b v0) by (rewrite E; reflexivity).
    rewrite E1, (bisect_pick_comp a b E). reflexivity.
  Qed.

  (* idempotence of Snapper.snap *)
  Theorem snapper_snap_idem x : snapper_snap tbl (snapper_snap tbl x) == snapper_snap tbl x.
  Proof.
    destruct (snapper_snap_in_table x) as [t [k [Hin E]]].
    destruct (table_range t Hin) as [T0 T1].
    unfold snapper_snap at 1. rewrite Qred_correct.
    destruct (Qlt_le_dec t 1) as [Hlt|Hge].
    - destruct (frac_of_unit t k T0 Hlt) as [Fr Fl].
      assert (E1: frac (snapper_snap tbl x) == t) by (rewrite E; exact Fr).
      assert (E2: Qfloor (snapper_snap tbl x) = k) by (rewrite E; exact Fl).
      rewrite (snap_frac_comp _ _ E1), E2. rewrite (snap_frac_fix t Hin T0 T1). rewrite E. reflexivity.
    - assert (Et: t == 1) by lra.
      assert (E': snapper_snap tbl x == 0 + inject_Z (k + 1)).
      { rewrite E, Et, inject_Z_plus. change (inject_Z 1) with 1. lra. }
      destruct (frac_of_unit 0 (k+1)) as [Fr Fl]; [lra|lra|].
      assert (E1: frac (snapper_snap tbl x) == 0) by (rewrite E'; exact Fr).
      assert (E2: Qfloor (snapper_snap tbl x) = (k+1)%Z) by (rewrite E'; exact Fl).
      rewrite (snap_frac_comp _ _ E1), E2.
      destruct table_shape as [v0 [l [Et' [Hv0 _]]]].
      assert (In0: In v0 tbl) by (rewrite Et'; left; reflexivity).
      assert (S0: snap_frac tbl 0 == 0).
      { rewrite <- (snap_frac_comp v0 0 Hv0). rewrite (snap_frac_fix v0 In0); lra. }
      rewrite S0, E'. reflexivity.
  Qed.
End Table.
