(* C06 — generations: QuaMap.write o QuaMap.read on written documents, at whole-document level.

   (I)   every document the writer produces from a strict chart has the decidable shape [gen_docb]
         (all 21 metadata keys in the writer's order, then TimingPoints, SliderVelocities, HitObjects; every record
         complete; hits before holds; one key order per note kind with EndTime last; Tags normalised);
   (II)  on EVERY document of that shape  write (read d)  is the same document: [doc_same] (same top-level keys in the
         same order, Leibniz-identical metadata values and note records, timing-point / scroll-velocity records in
         the same order holding the same key -> value maps: only the order of the two keys inside such a record may
         differ), and Leibniz-equal to d when d's point records have StartTime first ([pts_canonb]);
   (III) hence generation 2 = generation 1 and every later generation = generation 2 exactly.
   Built on the explicit pipeline lemmas of Proofs/QuaProofs.v; nothing there is re-proved. *)
From Coq Require Import ZArith QArith Qround Qabs List Bool Lia Lqa Permutation.
From RV Require Import Base.PyNum Formats.Qua Formats.QuaSpec Formats.QuaGenSpec Proofs.QuaProofs.
Import ListNotations.
Open Scope Z_scope.

(* ================================================================== small list / dictionary facts *)
Lemma text_eqb_eq a : forall b, text_eqb a b = true -> a = b.
Proof.
  induction a as [|x a IH]; destruct b as [|y b]; simpl; intro H; try discriminate; [reflexivity|].
  apply andb_true_iff in H. destruct H as [H1 H2]. apply Z.eqb_eq in H1. subst. f_equal. apply IH. exact H2.
Qed.
Lemma assoc_in_keys {A} k (l : list (Z * A)) : In k (map fst l) -> exists v, assoc k l = Some v.
Proof. intro H. apply assoc_mem. apply memZ_In. exact H. Qed.
Lemma has_key_true {A} k (l : list (Z * A)) : has_key k l = true -> In k (map fst l).
Proof.
  unfold has_key. destruct (assoc k l) as [v|] eqn:E; [|discriminate]. intros _.
  apply in_map_iff. exists (k, v). split; [reflexivity|apply assoc_In; exact E].
Qed.
Lemma has_key_false {A} k (l : list (Z * A)) : ~ In k (map fst l) -> has_key k l = false.
Proof. intro H. unfold has_key. rewrite assoc_None_notin by exact H. reflexivity. Qed.

(* a row with distinct keys is the list of its keys with their values *)
Lemma row_rebuild (r : row) : NoDup (map fst r) -> map (fun c => (c, getNaN c r)) (map fst r) = r.
Proof.
  intro ND. rewrite map_map. rewrite <- (map_id r) at 2. apply map_ext_in. intros [k v] Hin. cbn [fst].
  unfold getNaN. rewrite (In_assoc_nodup r k v ND Hin). reflexivity.
Qed.
Lemma row_same_keys_eq (r1 r2 : row) : NoDup (map fst r1) -> NoDup (map fst r2) -> map fst r1 = map fst r2 ->
  (forall k, assoc k r1 = assoc k r2) -> r1 = r2.
Proof.
  intros N1 N2 K E. rewrite <- (row_rebuild r1 N1), <- (row_rebuild r2 N2), K. apply map_ext. intro c.
  unfold getNaN. rewrite E. reflexivity.
Qed.

Lemma remove_key_notin {A} k (l : list (Z * A)) : ~ In k (map fst l) -> remove_key k l = l.
Proof.
  induction l as [|[k' v] t IH]; intro H; [reflexivity|]. simpl.
  destruct (k =? k') eqn:E; [apply Z.eqb_eq in E; subst; exfalso; apply H; left; reflexivity|].
  f_equal. apply IH. intro X. apply H. right. exact X.
Qed.
Lemma remove_key_app {A} k (l1 l2 : list (Z * A)) : remove_key k (l1 ++ l2) = remove_key k l1 ++ remove_key k l2.
Proof. induction l1 as [|[k' v] t IH]; [reflexivity|]. simpl. destruct (k =? k'); [exact IH|simpl; f_equal; exact IH]. Qed.

Lemma omap_Forall2 {A B} (f : A -> option B) l r : Forall2 (fun x y => f x = Some y) l r -> omap f l = Some r.
Proof. induction 1 as [|x y l r H _ IH]; [reflexivity|]. simpl. rewrite H, IH. reflexivity. Qed.
Lemma combine_map_r {A B} (g : A -> B) l : combine l (map g l) = map (fun x => (x, g x)) l.
Proof. induction l as [|x l IH]; [reflexivity|]. simpl. rewrite IH. reflexivity. Qed.
Lemma filter_all {A} (p : A -> bool) l : forallb p l = true -> filter p l = l.
Proof. induction l as [|x l IH]; [reflexivity|]. simpl. intro H. apply andb_true_iff in H. destruct H as [H1 H2]. rewrite H1, IH by exact H2. reflexivity. Qed.
Lemma filter_none {A} (p : A -> bool) l : forallb (fun x => negb (p x)) l = true -> filter p l = [].
Proof.
  induction l as [|x l IH]; [reflexivity|]. simpl. intro H. apply andb_true_iff in H. destruct H as [H1 H2].
  apply negb_true_iff in H1. rewrite H1. apply IH. exact H2.
Qed.
Lemma forallb_negb_negb {A} (p : A -> bool) l : forallb (fun x => negb (negb (p x))) l = forallb p l.
Proof. induction l as [|x l IH]; [reflexivity|]. simpl. rewrite negb_involutive, IH. reflexivity. Qed.

(* numeric cells whose value is an integer truncate to it *)
Lemma inject_Z_eq z z' : (inject_Z z == inject_Z z')%Q -> z = z'.
Proof. unfold Qeq, inject_Z. simpl. lia. Qed.
Lemma num_trunc v q z : num v = Some q -> (q == inject_Z z)%Q -> trunc_cell v = z.
Proof.
  destruct v; simpl; intros H E; inversion H; subst.
  - apply inject_Z_eq. exact E.
  - rewrite (qtrunc_comp _ _ E). apply qtrunc_inject.
Qed.
Lemma num_add o l qo ql : num o = Some qo -> num l = Some ql ->
  exists v qv, cell_add o l = Some v /\ num v = Some qv /\ (qv == qo + ql)%Q.
Proof.
  destruct o; cbn [num]; intro Ho; inversion Ho; subst; destruct l; cbn [num]; intro Hl; inversion Hl; subst;
    cbn [cell_add]; eexists; eexists; (split; [reflexivity|split; [cbn [num]; reflexivity|]]);
    rewrite ?Qred_correct, ?inject_Z_plus; reflexivity.
Qed.

(* ================================================================== keys_union of records with one key order *)
Lemma dedup_all_seen l : forall seen, (forall x, In x l -> In x seen) -> dedup l seen = [].
Proof.
  induction l as [|x l IH]; intros seen H; [reflexivity|]. simpl.
  assert (M: memZ x seen = true) by (apply memZ_In; apply H; left; reflexivity). rewrite M.
  apply IH. intros y Hy. apply H. right. exact Hy.
Qed.
Lemma dedup_app_fresh K : forall rest seen, NoDup K -> (forall x, In x K -> ~ In x seen) ->
  dedup (K ++ rest) seen = K ++ dedup rest (rev K ++ seen).
Proof.
  induction K as [|x K IH]; intros rest seen ND F; [reflexivity|]. inversion ND; subst. simpl.
  assert (M: memZ x seen = false).
  { destruct (memZ x seen) eqn:E; [|reflexivity]. apply memZ_In in E. exfalso. apply (F x); [left; reflexivity|exact E]. }
  rewrite M. f_equal. rewrite IH.
  - rewrite <- app_assoc. reflexivity.
  - assumption.
  - intros y Hy [X|X]; [subst; contradiction|]. apply (F y); [right; exact Hy|exact X].
Qed.
Lemma keys_union_uniform K (recs : list row) : NoDup K -> recs <> [] -> (forall r, In r recs -> map fst r = K) ->
  keys_union recs = K.
Proof.
  intros ND NE HK. destruct recs as [|r0 t]; [contradiction|]. unfold keys_union. cbn [map concat].
  rewrite (HK r0 (or_introl eq_refl)). rewrite dedup_app_fresh; [|exact ND|intros x _ []].
  rewrite dedup_all_seen; [apply app_nil_r|].
  intros x Hx. apply in_concat in Hx. destruct Hx as [ks [Hks Hx]]. apply in_map_iff in Hks. destruct Hks as [r [<- Hr]].
  rewrite (HK r (or_intror Hr)) in Hx. apply in_or_app. left. apply -> (in_rev K x). exact Hx.
Qed.
Lemma with_req_id req K : (forall c, In c req -> In c K) -> with_req req K = K.
Proof.
  intro H. unfold with_req.
  assert (E: filter (fun c => negb (memZ c K)) req = []).
  { induction req as [|c req IH]; [reflexivity|]. simpl.
    assert (M: memZ c K = true) by (apply memZ_In; apply H; left; reflexivity). rewrite M. simpl.
    apply IH. intros c' Hc'. apply H. right. exact Hc'. }
  rewrite E. apply app_nil_r.
Qed.

(* ================================================================== the four to_yaml pipelines in explicit form *)
Lemma hits_to_yaml_explicit f : frame_okb (hit_decl false) false f = true ->
  hits_to_yaml f = Some (map (out_row h_hit) (f_rows f)).
Proof.
  intro H. destruct (frame_ok_inv _ _ H) as [Hnd [Hall [Honly Hrows]]]. rewrite Forall_forall in Hrows.
  rewrite hits_to_yaml_rows_gen; try (apply memZ_In; apply Hall; simpl; auto).
  rewrite (omap_some_map _ (fun r => map (fun kv => (fst kv, h_hit (fst kv) (snd kv))) r)).
  - cbn [bind]. f_equal. rewrite map_map. apply map_ext. intro r. apply out_row_split.
  - intros r Hr. exact (hit_row_pipeline _ r (Hrows r Hr)).
Qed.
Definition hold_out (r : row) : row := out_row h_hold (hold_mid r (hold_v r)).
Lemma holds_to_yaml_explicit f : frame_okb (hold_decl false) false f = true ->
  holds_to_yaml f = Some (map hold_out (f_rows f)).
Proof.
  intro H. destruct (frame_ok_inv _ _ H) as [Hnd [Hall [Honly Hrows]]]. rewrite Forall_forall in Hrows.
  assert (P: forall r, In r (f_rows f) -> _) by (intros r Hr; exact (hold_row_ok (f_cols f) r Hnd Hall Honly (Hrows r Hr))).
  rewrite holds_to_yaml_rows_gen.
  - rewrite (omap_some_map _ (fun r => map (fun kv => (fst kv, h_hold (fst kv) (snd kv))) (hold_mid r (hold_v r)))).
    + cbn [bind]. f_equal. rewrite map_map. apply map_ext. intro r. apply out_row_split.
    + intros r Hr. apply (P r Hr).
  - apply Hall; simpl; auto.
  - apply Hall; simpl; auto.
  - apply Hall; simpl; auto 6.
  - intro X. specialize (Honly _ X). discriminate Honly.
  - intros r Hr. apply (Hrows r Hr).
Qed.
Definition sv_out (r : row) : row := pt_out N_multiplier ren_sv r.
Definition bpm_out (r : row) : row := remove_key N_metronome (pt_out N_bpm ren_bpm r).
Lemma svs_to_yaml_explicit f : frame_okb sv_decl false f = true -> svs_to_yaml f = Some (map sv_out (f_rows f)).
Proof.
  intro H. destruct (frame_ok_inv _ _ H) as [Hnd [Hall [Honly Hrows]]]. rewrite Forall_forall in Hrows.
  assert (Num: forall k p, assoc k sv_decl = Some p -> p = is_num) by (intros k p E; apply (sv_decl_keys k p E)).
  rewrite svs_to_yaml_rows_gen; try (apply memZ_In; apply Hall; simpl; auto).
  rewrite (omap_some_map _ (fun r => map (fun kv => (fst kv, h_pt N_multiplier (fst kv) (snd kv))) r)).
  - cbn [bind]. f_equal. rewrite map_map. apply map_ext. intro r. unfold sv_out, pt_out. rewrite map_map. reflexivity.
  - intros r Hr. apply (pt_pipeline N_multiplier sv_decl ltac:(discriminate) Num (f_cols f) r (Hrows r Hr)).
Qed.
Lemma bpms_to_yaml_explicit f : frame_okb bpm_decl false f = true -> bpms_to_yaml f = Some (map bpm_out (f_rows f)).
Proof.
  intro H. destruct (frame_ok_inv _ _ H) as [Hnd [Hall [Honly Hrows]]]. rewrite Forall_forall in Hrows.
  assert (Num: forall k p, assoc k bpm_decl = Some p -> p = is_num) by (intros k p E; apply (bpm_decl_keys k p E)).
  rewrite bpms_to_yaml_rows_gen; try (apply memZ_In; apply Hall; simpl; auto).
  rewrite (omap_some_map _ (fun r => map (fun kv => (fst kv, h_pt N_bpm (fst kv) (snd kv))) r)).
  - cbn [bind]. f_equal. rewrite !map_map. apply map_ext. intro r. unfold bpm_out, pt_out. rewrite map_map. reflexivity.
  - intros r Hr. apply (pt_pipeline N_bpm bpm_decl ltac:(discriminate) Num (f_cols f) r (Hrows r Hr)).
Qed.

(* ================================================================== write o read on one COMPLETE record *)
(* ---- a hit record carrying all three keys: the row read from it is written back as the record itself ---- *)
Lemma hit_keys_of R c : hit_rec_typed R -> In c (map fst R) -> c = K_StartTime \/ c = K_Lane \/ c = K_KeySounds.
Proof.
  intros [_ T] H. apply in_map_iff in H. destruct H as [[k v] [<- Hin]]. cbn [fst].
  destruct (T _ _ Hin) as [[X _]|[[X _]|[X _]]]; auto.
Qed.
Lemma present_not_none {A} k (l : list (Z * A)) : In k (map fst l) -> assoc k l = None -> False.
Proof. intros H E. destruct (assoc_in_keys k l H) as [v Ev]. congruence. Qed.

Lemma hit_record_fixed fl R :
  hit_rec_typed R -> In K_StartTime (map fst R) -> In K_Lane (map fst R) -> In K_KeySounds (map fst R) ->
  out_row h_hit (rowK renH (fH fl) (map fst R) R) = R.
Proof.
  intros T I1 I2 I3. pose proof T as [ND _].
  transitivity (map (fun c => (c, getNaN c R)) (map fst R)); [|apply row_rebuild; exact ND].
  unfold out_row, rowK. rewrite map_map. apply map_ext_in. intros c Hc. cbn [fst snd].
  destruct (hit_keys_of R c T Hc) as [ -> | [ -> | -> ] ].
  - change (renH K_StartTime) with N_offset. change (ren1 ren_out N_offset) with K_StartTime. f_equal.
    change (h_hit N_offset (fH fl K_StartTime R)) with (YInt (trunc_cell (fH fl K_StartTime R))).
    destruct (hit_typed_start R T) as [E|[z E]]; [destruct (present_not_none _ _ I1 E)|].
    unfold getNaN. rewrite E. f_equal. destruct (fH_start_ok fl R T) as [q [Q1 Q2]].
    unfold get_default in Q2. rewrite E in Q2. cbn [num] in Q2. inversion Q2; subst q.
    apply (num_trunc _ _ z Q1). reflexivity.
  - change (renH K_Lane) with N_column. change (ren1 ren_out N_column) with K_Lane. f_equal.
    change (h_hit N_column (fH fl K_Lane R)) with (YInt (lane_cell (fH fl K_Lane R))).
    destruct (hit_typed_lane R T) as [E|[z [E Hz]]]; [destruct (present_not_none _ _ I2 E)|].
    unfold getNaN. rewrite E. f_equal. destruct (fH_lane_ok fl R T) as [l [L1 [L2 _]]].
    unfold get_default in L2. rewrite E in L2. cbn [int_of] in L2. inversion L2; subst l.
    apply lane_cell_is_lane_of. exact L1.
  - change (renH K_KeySounds) with N_keysounds. change (ren1 ren_out N_keysounds) with K_KeySounds. f_equal.
    change (h_hit N_keysounds (fH fl K_KeySounds R)) with (fH fl K_KeySounds R). rewrite fH_ks.
    destruct (hit_typed_ks R T) as [E|[l [E Hl]]]; [destruct (present_not_none _ _ I3 E)|].
    unfold getNaN. rewrite E. reflexivity.
Qed.

(* ---- a hold record carrying all four keys, EndTime last ---- *)
Lemma hold_keys_of R c : hold_rec_typed R -> In c (map fst R) ->
  c = K_StartTime \/ c = K_Lane \/ c = K_KeySounds \/ c = K_EndTime.
Proof.
  intros [_ [T _]] H. apply in_map_iff in H. destruct H as [[k v] [<- Hin]]. cbn [fst].
  destruct (T _ _ Hin) as [[X _]|[[X _]|[[X _]|[X _]]]]; auto.
Qed.

Lemma hold_record_fixed fl R K' :
  hold_rec_typed R -> map fst R = K' ++ [K_EndTime] ->
  In K_StartTime K' -> In K_Lane K' -> In K_KeySounds K' ->
  hold_out (rowK renL (fL fl) (map fst R) R) = R.
Proof.
  intros T EK I1 I2 I3. pose proof T as [ND _].
  assert (J1: In K_StartTime (map fst R)) by (rewrite EK; apply in_or_app; left; exact I1).
  assert (J2: In K_Lane (map fst R)) by (rewrite EK; apply in_or_app; left; exact I2).
  assert (J3: In K_KeySounds (map fst R)) by (rewrite EK; apply in_or_app; left; exact I3).
  assert (J4: In K_EndTime (map fst R)) by (rewrite EK; apply in_or_app; right; left; reflexivity).
  assert (K3: forall c, In c K' -> c = K_StartTime \/ c = K_Lane \/ c = K_KeySounds).
  { intros c Hc. assert (Hc': In c (map fst R)) by (rewrite EK; apply in_or_app; left; exact Hc).
    destruct (hold_keys_of R c T Hc') as [X|[X|[X|X]]]; auto. subst c. exfalso.
    rewrite EK in ND. apply NoDup_remove_2 in ND. rewrite app_nil_r in ND. contradiction. }
  assert (Inj: forall c c', In c' (map fst R) -> In c (map fst R) -> renL c' = renL c -> c' = c).
  { intros c c' Hc' Hc. apply renL_inj; apply (hold_keys_of R _ T); assumption. }
  destruct (hold_typed_start R T) as [Es|[zs Es]]; [destruct (present_not_none _ _ J1 Es)|].
  destruct (hold_typed_lane R T) as [El|[zl [El Hzl]]]; [destruct (present_not_none _ _ J2 El)|].
  destruct (hold_typed_ks R T) as [Ek|[lk [Ek Hlk]]]; [destruct (present_not_none _ _ J3 Ek)|].
  destruct (fL_start_ok fl R T) as [qs [Q1 Q2]].
  unfold get_default in Q2. rewrite Es in Q2. cbn [num] in Q2. inversion Q2; subst qs. clear Q2.
  destruct (fL_len_ok fl R _ T Q1) as [ql [ze [E1 [E2 E3]]]].
  destruct (num_add _ _ _ _ Q1 E1) as [v [qv [Av [Nv Ev]]]].
  assert (Tv: trunc_cell v = ze).
  { apply (num_trunc _ _ ze Nv). rewrite Ev. rewrite <- E3. rewrite Qred_correct. reflexivity. }
  set (F := rowK renL (fL fl) (map fst R) R).
  assert (Ao: assoc N_offset F = Some (fL fl K_StartTime R)).
  { change N_offset with (renL K_StartTime). apply assoc_rowK; [exact J1|]. intros c' Hc'. apply Inj; assumption. }
  assert (Al: assoc N_length F = Some (fL fl K_EndTime R)).
  { change N_length with (renL K_EndTime). apply assoc_rowK; [exact J4|]. intros c' Hc'. apply Inj; assumption. }
  assert (Hv: hold_v F = v) by (unfold hold_v, hold_sum; rewrite Ao, Al, Av; reflexivity).
  unfold hold_out. rewrite Hv.
  assert (Mid: hold_mid F v = map (fun c => (renL c, fL fl c R)) K' ++ [(K_EndTime, v)]).
  { unfold hold_mid, F, rowK. rewrite EK, map_app. cbn [map]. rewrite <- app_assoc. rewrite remove_key_app.
    rewrite remove_key_notin.
    - change (renL K_EndTime) with N_length. reflexivity.
    - rewrite map_map. cbn [fst]. intro X. apply in_map_iff in X. destruct X as [c [Ec Hc]].
      destruct (K3 c Hc) as [ -> | [ -> | -> ] ]; discriminate Ec. }
  rewrite Mid. unfold out_row. rewrite map_app, map_map. cbn [map fst snd].
  transitivity (map (fun c => (c, getNaN c R)) (map fst R)); [|apply row_rebuild; exact ND].
  rewrite EK, map_app. cbn [map]. f_equal.
  - apply map_ext_in. intros c Hc. destruct (K3 c Hc) as [ -> | [ -> | -> ] ].
    + change (renL K_StartTime) with N_offset. change (ren1 ren_out N_offset) with K_StartTime. f_equal.
      change (h_hold N_offset (fL fl K_StartTime R)) with (YInt (trunc_cell (fL fl K_StartTime R))).
      unfold getNaN. rewrite Es. f_equal. apply (num_trunc _ _ zs Q1). reflexivity.
    + change (renL K_Lane) with N_column. change (ren1 ren_out N_column) with K_Lane. f_equal.
      change (h_hold N_column (fL fl K_Lane R)) with (YInt (lane_cell (fL fl K_Lane R))).
      unfold getNaN. rewrite El. f_equal. destruct (fL_lane_ok fl R T) as [l [L1 [L2 _]]].
      unfold get_default in L2. rewrite El in L2. cbn [int_of] in L2. inversion L2; subst l.
      apply lane_cell_is_lane_of. exact L1.
    + change (renL K_KeySounds) with N_keysounds. change (ren1 ren_out N_keysounds) with K_KeySounds. f_equal.
      change (h_hold N_keysounds (fL fl K_KeySounds R)) with (fL fl K_KeySounds R). rewrite fL_ks.
      unfold getNaN. rewrite Ek. reflexivity.
  - change (ren1 ren_out K_EndTime) with K_EndTime. change (h_hold K_EndTime v) with (YInt (trunc_cell v)).
    unfold getNaN. rewrite E2, Tv. reflexivity.
Qed.

(* ---- timing points / scroll velocities: a complete record is written back as its two entries, StartTime first ---- *)
Definition canon_pt (kval : Z) (r : row) : row := [(K_StartTime, getNaN K_StartTime r); (kval, getNaN kval r)].
Definition row_same (r1 r2 : row) : Prop :=
  NoDup (map fst r1) /\ NoDup (map fst r2) /\ forall k, assoc k r1 = assoc k r2.

Lemma bpm_record_fixed r : rec_typed tp_keys r -> In K_StartTime (map fst r) -> In K_Bpm (map fst r) ->
  bpm_out [(N_offset, getd K_StartTime (YInt 0) r); (N_bpm, getd K_Bpm (YInt 120) r); (N_metronome, YInt 4)] = canon_pt K_Bpm r
  /\ row_same (canon_pt K_Bpm r) r.
Proof.
  intros [ND T] I1 I2.
  destruct (assoc_in_keys _ _ I1) as [s Es]. destruct (assoc_in_keys _ _ I2) as [b Eb].
  destruct (T _ _ (assoc_In _ _ _ Es)) as [ps [Eps Hs]]. destruct (T _ _ (assoc_In _ _ _ Eb)) as [pb [Epb Hb]].
  cbv in Eps. inversion Eps; subst ps. cbv in Epb. inversion Epb; subst pb.
  destruct s; try discriminate Hs. destruct b; try discriminate Hb.
  unfold getd, canon_pt, getNaN. rewrite Es, Eb. split; [reflexivity|].
  split; [repeat constructor; simpl; intuition discriminate|]. split; [exact ND|].
  intro k. cbn [assoc]. destruct (k =? K_StartTime) eqn:E1; [apply Z.eqb_eq in E1; subst; symmetry; exact Es|].
  destruct (k =? K_Bpm) eqn:E2; [apply Z.eqb_eq in E2; subst; symmetry; exact Eb|].
  symmetry. apply assoc_None_notin. intro X. apply in_map_iff in X. destruct X as [[k' v] [<- Hin]]. cbn [fst] in *.
  destruct (T _ _ Hin) as [p [Ep _]]. unfold tp_keys in Ep. cbn [assoc] in Ep. rewrite E1, E2 in Ep. discriminate.
Qed.
Lemma sv_record_fixed r : rec_typed sv_keys r -> In K_StartTime (map fst r) -> In K_Multiplier (map fst r) ->
  sv_out [(N_offset, getd K_StartTime (YInt 0) r); (N_multiplier, getd K_Multiplier (YFloat 1) r)] = canon_pt K_Multiplier r
  /\ row_same (canon_pt K_Multiplier r) r.
Proof.
  intros [ND T] I1 I2.
  destruct (assoc_in_keys _ _ I1) as [s Es]. destruct (assoc_in_keys _ _ I2) as [b Eb].
  destruct (T _ _ (assoc_In _ _ _ Es)) as [ps [Eps Hs]]. destruct (T _ _ (assoc_In _ _ _ Eb)) as [pb [Epb Hb]].
  cbv in Eps. inversion Eps; subst ps. cbv in Epb. inversion Epb; subst pb.
  destruct s; try discriminate Hs. destruct b; try discriminate Hb.
  unfold getd, canon_pt, getNaN. rewrite Es, Eb. split; [reflexivity|].
  split; [repeat constructor; simpl; intuition discriminate|]. split; [exact ND|].
  intro k. cbn [assoc]. destruct (k =? K_StartTime) eqn:E1; [apply Z.eqb_eq in E1; subst; symmetry; exact Es|].
  destruct (k =? K_Multiplier) eqn:E2; [apply Z.eqb_eq in E2; subst; symmetry; exact Eb|].
  symmetry. apply assoc_None_notin. intro X. apply in_map_iff in X. destruct X as [[k' v] [<- Hin]]. cbn [fst] in *.
  destruct (T _ _ Hin) as [p [Ep _]]. unfold sv_keys in Ep. cbn [assoc] in Ep. rewrite E1, E2 in Ep. discriminate.
Qed.

(* the shape of a generation document (decidable): Formats/QuaGenSpec.v (gen_docb, pts_canonb) *)

(* ---- equality of documents, said precisely ----
   doc_same d1 d2: the same top-level keys in the same order; every metadata value identical (Leibniz: a YAML int is an int,
   a float a float, same text); the note records identical, in the same order, with the same key order; the timing-point
   and scroll-velocity records in the same order, each the same key -> value map with identical values (only the order of
   the keys inside such a record may differ). *)
Definition recs_same (l1 l2 : list row) : Prop := Forall2 row_same l1 l2.
Definition doc_same (d1 d2 : ytree) : Prop :=
  exists file b1 s1 b2 s2 notes,
    d1 = YMap (file ++ [(K_TimingPoints, YList (map YMap b1)); (K_SliderVelocities, YList (map YMap s1));
                        (K_HitObjects, YList (map YMap notes))]) /\
    d2 = YMap (file ++ [(K_TimingPoints, YList (map YMap b2)); (K_SliderVelocities, YList (map YMap s2));
                        (K_HitObjects, YList (map YMap notes))]) /\
    recs_same b1 b2 /\ recs_same s1 s2.

Lemma row_same_sym a b : row_same a b -> row_same b a.
Proof. intros [A [B C]]. split; [exact B|]. split; [exact A|]. intro k. symmetry. apply C. Qed.
Lemma row_same_trans a b c : row_same a b -> row_same b c -> row_same a c.
Proof. intros [A [B C]] [_ [D E]]. split; [exact A|]. split; [exact D|]. intro k. rewrite C. apply E. Qed.
Lemma recs_same_trans a : forall b c, recs_same a b -> recs_same b c -> recs_same a c.
Proof.
  induction a as [|x a IH]; intros b c H1 H2; inversion H1; subst; inversion H2; subst; constructor.
  - eapply row_same_trans; eassumption.
  - eapply IH; eassumption.
Qed.
Lemma recs_same_sym a : forall b, recs_same a b -> recs_same b a.
Proof. induction a as [|x a IH]; intros b H; inversion H; subst; constructor; [apply row_same_sym; assumption|apply IH; assumption]. Qed.
Lemma map_YMap_inj (a b : list row) : map YMap a = map YMap b -> a = b.
Proof.
  revert b. induction a as [|x a IH]; destruct b as [|y b]; simpl; intro H; try discriminate; [reflexivity|].
  inversion H; subst. f_equal. apply IH. assumption.
Qed.
Lemma doc_same_sym d1 d2 : doc_same d1 d2 -> doc_same d2 d1.
Proof.
  intros (file & b1 & s1 & b2 & s2 & notes & E1 & E2 & B & S).
  exists file, b2, s2, b1, s1, notes. repeat (split; [assumption|]). split; apply recs_same_sym; assumption.
Qed.
Lemma app_same_len {A} (l1 : list A) : forall l2 t1 t2, length l1 = length l2 -> l1 ++ t1 = l2 ++ t2 -> l1 = l2 /\ t1 = t2.
Proof.
  induction l1 as [|x l1 IH]; destruct l2 as [|y l2]; simpl; intros t1 t2 L E; try discriminate; [auto|].
  inversion E; subst. destruct (IH l2 t1 t2) as [P Q]; [lia|assumption|]. subst. auto.
Qed.
Lemma doc_same_trans d1 d2 d3 : doc_same d1 d2 -> doc_same d2 d3 -> doc_same d1 d3.
Proof.
  intros (file & b1 & s1 & b2 & s2 & notes & E1 & E2 & B & S) (file' & b2' & s2' & b3 & s3 & notes' & E2' & E3 & B' & S').
  subst d1 d3. rewrite E2 in E2'. inversion E2' as [E]. clear E2'.
  assert (L: length file = length file').
  { apply (f_equal (@length _)) in E. rewrite !app_length in E. simpl in E. lia. }
  destruct (app_same_len _ _ _ _ L E) as [<- T]. inversion T as [[Tb Ts Tn]].
  apply map_YMap_inj in Tb. apply map_YMap_inj in Ts. apply map_YMap_inj in Tn. subst b2' s2' notes'.
  exists file, b1, s1, b3, s3, notes. split; [reflexivity|]. split; [reflexivity|].
  split; eapply recs_same_trans; eassumption.
Qed.

(* ================================================================== write o read, section by section *)
Lemma hits_first_split l : hits_first l = true ->
  filter (fun r => negb (is_hold r)) l ++ filter is_hold l = l.
Proof.
  induction l as [|r t IH]; intro H; [reflexivity|]. cbn [hits_first] in H. cbn [filter].
  destruct (is_hold r) eqn:E; cbn [negb].
  - rewrite filter_none by (rewrite forallb_negb_negb; exact H). rewrite filter_all by exact H. reflexivity.
  - cbn [app]. f_equal. apply IH. exact H.
Qed.
Lemma last_is_split k l : last_is k l = true -> exists l', l = l' ++ [k].
Proof.
  unfold last_is. destruct (rev l) as [|x t] eqn:E; [discriminate|]. intro H. apply Z.eqb_eq in H. subst x.
  exists (rev t). rewrite <- (rev_involutive l), E. reflexivity.
Qed.
Lemma uniform_keys r0 t : uniform (r0 :: t) = true -> forall r, In r (r0 :: t) -> map fst r = map fst r0.
Proof. unfold uniform. intros H r Hr. rewrite forallb_forall in H. apply listZ_eqb_eq. apply H. exact Hr. Qed.
Lemma omap_str_map ts : omap (fun x => match x with YStr s => Some s | _ => None end) (map YStr ts) = Some ts.
Proof. induction ts as [|t ts IH]; [reflexivity|]. simpl. rewrite IH. reflexivity. Qed.

Lemma notes_fixed hc lc recs :
  frame_okb (hit_decl false) false (mkFrame hc []) = true -> frame_okb (hold_decl false) false (mkFrame lc []) = true ->
  Forall (rec_typed note_keys) recs -> notes_shape recs = true ->
  exists fh fl h l, read_notes hc lc hits_from_yaml holds_from_yaml recs = Some (fh, fl) /\
    hits_to_yaml fh = Some h /\ holds_to_yaml fl = Some l /\ h ++ l = recs.
Proof.
  intros Hhc Hlc HT Hs. unfold notes_shape in Hs.
  do 4 (apply andb_true_iff in Hs; destruct Hs as [Hs ?]). rename Hs into S1, H2 into S2, H1 into S3, H0 into S4, H into S5.
  set (ph := fun r : row => negb (is_hold r)) in *.
  pose proof (hits_first_split recs S1) as Split. fold ph in Split.
  rewrite Forall_forall in HT.
  assert (TH: Forall hit_rec_typed (filter ph recs)).
  { apply Forall_forall. intros r Hr. apply filter_In in Hr. destruct Hr as [Hr Hp]. apply note_hit_typed; [apply (HT r Hr)|].
    unfold ph in Hp. apply negb_true_iff in Hp. exact Hp. }
  assert (TL: Forall hold_rec_typed (filter is_hold recs)).
  { apply Forall_forall. intros r Hr. apply filter_In in Hr. destruct Hr as [Hr Hp]. apply note_hold_typed; [apply (HT r Hr)|exact Hp]. }
  assert (Has: forall r, In r recs -> In K_StartTime (map fst r) /\ In K_Lane (map fst r) /\ In K_KeySounds (map fst r)).
  { intros r Hr. rewrite forallb_forall in S4. specialize (S4 r Hr).
    apply andb_true_iff in S4. destruct S4 as [S4 C]. apply andb_true_iff in S4. destruct S4 as [A B].
    repeat split; apply has_key_true; assumption. }
  (* hits *)
  assert (RH: exists fh, match filter ph recs with [] => Some (mkFrame hc []) | _ => hits_from_yaml (filter ph recs) end = Some fh /\
                         hits_to_yaml fh = Some (filter ph recs)).
  { destruct (filter ph recs) as [|r0 t] eqn:Ef.
    - exists (mkFrame hc []). split; [reflexivity|]. rewrite hits_to_yaml_explicit by exact Hhc. reflexivity.
    - set (H := r0 :: t) in *. set (K := map fst r0).
      assert (UK: forall r, In r H -> map fst r = K) by (apply uniform_keys; exact S2).
      assert (In0: In r0 recs) by (apply (proj1 (filter_In ph r0 recs)); rewrite Ef; left; reflexivity).
      assert (T0: hit_rec_typed r0) by (rewrite Forall_forall in TH; apply TH; left; reflexivity).
      assert (NDK: NoDup K) by (destruct T0 as [ND _]; exact ND).
      destruct (Has r0 In0) as [I1 [I2 I3]]. fold K in I1, I2, I3.
      destruct (hits_from_yaml_ok H TH) as [fr [E1 [E2 _]]].
      destruct (hits_from_yaml_explicit H (hit_typed_keys H TH)) as [fl E].
      { intros r Hr. rewrite Forall_forall in TH. destruct (hit_typed_lane r (TH r Hr)) as [X|[z [X _]]]; [left; exact X|right; eauto]. }
      rewrite (keys_union_uniform K H NDK ltac:(discriminate) UK) in E.
      rewrite (with_req_id reqH K) in E by (intros c Hc; simpl in Hc; destruct Hc as [<-|[<-|[<-|[]]]]; assumption).
      exists fr. split; [exact E1|]. rewrite hits_to_yaml_explicit by exact E2.
      rewrite E in E1. inversion E1; subst fr. unfold frameK. cbn [f_rows]. rewrite map_map. f_equal.
      rewrite <- (map_id H) at 2. apply map_ext_in. intros R HR. rewrite <- (UK R HR).
      rewrite Forall_forall in TH. rewrite <- (UK R HR) in I1, I2, I3. apply hit_record_fixed; auto. }
  (* holds *)
  assert (RL: exists fl, match filter is_hold recs with [] => Some (mkFrame lc []) | _ => holds_from_yaml (filter is_hold recs) end = Some fl /\
                         holds_to_yaml fl = Some (filter is_hold recs)).
  { destruct (filter is_hold recs) as [|r0 t] eqn:Ef.
    - exists (mkFrame lc []). split; [reflexivity|]. rewrite holds_to_yaml_explicit by exact Hlc. reflexivity.
    - set (H := r0 :: t) in *. set (K := map fst r0).
      assert (UK: forall r, In r H -> map fst r = K) by (apply uniform_keys; exact S3).
      assert (In0: In r0 recs) by (apply (proj1 (filter_In is_hold r0 recs)); rewrite Ef; left; reflexivity).
      assert (T0: hold_rec_typed r0) by (rewrite Forall_forall in TL; apply TL; left; reflexivity).
      assert (NDK: NoDup K) by (destruct T0 as [ND _]; exact ND).
      destruct (Has r0 In0) as [I1 [I2 I3]]. fold K in I1, I2, I3.
      assert (LK: last_is K_EndTime K = true) by (rewrite forallb_forall in S5; apply (S5 r0); left; reflexivity).
      destruct (last_is_split _ _ LK) as [K' EK].
      assert (I1': In K_StartTime K') by (rewrite EK in I1; apply in_app_or in I1; destruct I1 as [X|[X|[]]]; [exact X|discriminate X]).
      assert (I2': In K_Lane K') by (rewrite EK in I2; apply in_app_or in I2; destruct I2 as [X|[X|[]]]; [exact X|discriminate X]).
      assert (I3': In K_KeySounds K') by (rewrite EK in I3; apply in_app_or in I3; destruct I3 as [X|[X|[]]]; [exact X|discriminate X]).
      assert (I4: In K_EndTime K) by (rewrite EK; apply in_or_app; right; left; reflexivity).
      destruct (holds_from_yaml_ok H TL) as [fr [E1 [E2 _]]].
      destruct (holds_from_yaml_explicit H (hold_typed_keys H TL)) as [fl E].
      { intros r Hr. rewrite Forall_forall in TL. pose proof (TL r Hr) as Tr. split; [|split].
        - destruct (hold_typed_lane r Tr) as [X|[z [X _]]]; [left; exact X|right; eauto].
        - exact (hold_typed_start r Tr).
        - exact (hold_typed_end r Tr). }
      rewrite (keys_union_uniform K H NDK ltac:(discriminate) UK) in E.
      rewrite (with_req_id reqL K) in E by (intros c Hc; simpl in Hc; destruct Hc as [<-|[<-|[<-|[<-|[]]]]]; assumption).
      exists fr. split; [exact E1|]. rewrite holds_to_yaml_explicit by exact E2.
      rewrite E in E1. inversion E1; subst fr. unfold frameK. cbn [f_rows]. rewrite map_map. f_equal.
      rewrite <- (map_id H) at 2. apply map_ext_in. intros R HR. rewrite <- (UK R HR).
      rewrite Forall_forall in TL. apply (hold_record_fixed fl R K'); auto. rewrite (UK R HR). exact EK. }
  destruct RH as [fh [H1 H2]]. destruct RL as [fl [L1 L2]].
  exists fh, fl, (filter ph recs), (filter is_hold recs). split; [|split; [exact H2|split; [exact L2|exact Split]]].
  unfold read_notes. cbv zeta.
  change (filter (fun r : list (Z * ytree) => negb (has_key K_EndTime r)) recs) with (filter ph recs).
  change (filter (fun r : list (Z * ytree) => has_key K_EndTime r) recs) with (filter is_hold recs).
  match goal with |- ?X >>= _ = _ => replace X with (Some fh) by (symmetry; exact H1) end. cbn [bind].
  match goal with |- ?X >>= _ = _ => replace X with (Some fl) by (symmetry; exact L1) end. reflexivity.
Qed.

Lemma rec_typed_mono (a b : list (Z * (ytree -> bool))) r :
  (forall k p, assoc k a = Some p -> exists q, assoc k b = Some q /\ forall x, p x = true -> q x = true) ->
  rec_typed a r -> rec_typed b r.
Proof.
  intros M [ND T]. split; [exact ND|]. intros k v Hin. destruct (T k v Hin) as [p [Ep Hp]].
  destruct (M k p Ep) as [q [Eq Hq]]. exists q. split; [exact Eq|apply Hq; exact Hp].
Qed.
Lemma tp_keys_in_mono k p : assoc k tp_keys = Some p -> exists q, assoc k tp_keys_in = Some q /\ forall x, p x = true -> q x = true.
Proof.
  unfold tp_keys, tp_keys_in. simpl. destruct (k =? K_StartTime); [intro E; inversion E; eauto|].
  destruct (k =? K_Bpm); [intro E; inversion E; exists is_num; split; [reflexivity|apply is_float_is_num]|discriminate].
Qed.
Lemma sv_keys_in_mono k p : assoc k sv_keys = Some p -> exists q, assoc k sv_keys_in = Some q /\ forall x, p x = true -> q x = true.
Proof.
  unfold sv_keys, sv_keys_in. simpl. destruct (k =? K_StartTime); [intro E; inversion E; eauto|].
  destruct (k =? K_Multiplier); [intro E; inversion E; exists is_num; split; [reflexivity|apply is_float_is_num]|discriminate].
Qed.

Lemma bpms_fixed bc recs : frame_okb bpm_decl false (mkFrame bc []) = true ->
  Forall (rec_typed tp_keys) recs -> points_shape K_Bpm recs = true ->
  bpms_to_yaml (read_bpms bc recs) = Some (map (canon_pt K_Bpm) recs) /\ recs_same (map (canon_pt K_Bpm) recs) recs.
Proof.
  intros Hbc HT Hs.
  assert (HT': Forall (rec_typed tp_keys_in) recs).
  { apply Forall_forall. intros r Hr. rewrite Forall_forall in HT. apply (rec_typed_mono tp_keys tp_keys_in r tp_keys_in_mono). apply HT. exact Hr. }
  destruct (read_bpms_ok bc recs Hbc HT') as [Ok _]. rewrite bpms_to_yaml_explicit by exact Ok.
  unfold points_shape in Hs. rewrite forallb_forall in Hs. rewrite Forall_forall in HT.
  assert (P: forall r, In r recs -> _) by (intros r Hr; specialize (Hs r Hr); apply andb_true_iff in Hs; destruct Hs as [A B];
    exact (bpm_record_fixed r (HT r Hr) (has_key_true _ _ A) (has_key_true _ _ B))).
  split.
  - destruct recs as [|r0 t]; [reflexivity|]. set (rs := r0 :: t) in *.
    change (f_rows (read_bpms bc rs)) with
      (map (fun r => [(N_offset, getd K_StartTime (YInt 0) r); (N_bpm, getd K_Bpm (YInt 120) r); (N_metronome, YInt 4)]) rs).
    rewrite map_map. f_equal. apply map_ext_in. intros r Hr. apply (P r Hr).
  - unfold recs_same. clear - P. induction recs as [|r t IH]; constructor.
    + apply (P r). left. reflexivity.
    + apply IH. intros r' Hr'. apply P. right. exact Hr'.
Qed.
Lemma svs_fixed sc recs : frame_okb sv_decl false (mkFrame sc []) = true ->
  Forall (rec_typed sv_keys) recs -> points_shape K_Multiplier recs = true ->
  svs_to_yaml (read_svs sc recs) = Some (map (canon_pt K_Multiplier) recs) /\ recs_same (map (canon_pt K_Multiplier) recs) recs.
Proof.
  intros Hsc HT Hs.
  assert (HT': Forall (rec_typed sv_keys_in) recs).
  { apply Forall_forall. intros r Hr. rewrite Forall_forall in HT. apply (rec_typed_mono sv_keys sv_keys_in r sv_keys_in_mono). apply HT. exact Hr. }
  destruct (read_svs_ok sc recs Hsc HT') as [Ok _]. rewrite svs_to_yaml_explicit by exact Ok.
  unfold points_shape in Hs. rewrite forallb_forall in Hs. rewrite Forall_forall in HT.
  assert (P: forall r, In r recs -> _) by (intros r Hr; specialize (Hs r Hr); apply andb_true_iff in Hs; destruct Hs as [A B];
    exact (sv_record_fixed r (HT r Hr) (has_key_true _ _ A) (has_key_true _ _ B))).
  split.
  - destruct recs as [|r0 t]; [reflexivity|]. set (rs := r0 :: t) in *.
    change (f_rows (read_svs sc rs)) with
      (map (fun r => [(N_offset, getd K_StartTime (YInt 0) r); (N_multiplier, getd K_Multiplier (YFloat 1) r)]) rs).
    rewrite map_map. f_equal. apply map_ext_in. intros r Hr. apply (P r Hr).
  - unfold recs_same. clear - P. induction recs as [|r t IH]; constructor.
    + apply (P r). left. reflexivity.
    + apply IH. intros r' Hr'. apply P. right. exact Hr'.
Qed.

(* ---- metadata: reading a complete block with normalised Tags and writing it again gives the block ---- *)
Lemma meta_fixed md (file : row) :
  map fst md = map fst file -> NoDup (map fst file) -> tags_norm file = true ->
  exists m, read_meta md file = Some m /\ write_meta md m = Some file.
Proof.
  intros EK ND TN. unfold tags_norm in TN.
  destruct (assoc K_Tags file) as [vt|] eqn:Et; [|discriminate]. destruct vt as [| | |s| | | |]; try discriminate.
  apply text_eqb_eq in TN.
  set (val := fun k => getNaN k file).
  set (g := fun kd : Z * ytree => if fst kd =? K_Tags then YList (map YStr (tags_of s)) else val (fst kd)).
  exists (map g md). split.
  - rewrite read_meta_unfold. apply omap_some_map. intros [k dflt] Hin. unfold read_meta1, g. cbn [fst].
    destruct (k =? K_Tags) eqn:E.
    + apply Z.eqb_eq in E. subst k. rewrite Et. reflexivity.
    + assert (Hk: In k (map fst file)) by (rewrite <- EK; apply in_map_iff; exists (k, dflt); auto).
      destruct (assoc_in_keys _ _ Hk) as [v Ev]. unfold getd, val, getNaN. rewrite Ev. reflexivity.
  - unfold write_meta. rewrite map_length, Nat.eqb_refl. cbn [negb]. rewrite combine_map_r, omap_map.
    rewrite (omap_some_map _ (fun kd => (fst kd, val (fst kd)))).
    + f_equal. rewrite <- (map_map fst (fun k => (k, val k))). rewrite EK. apply row_rebuild. exact ND.
    + intros [k dflt] _. unfold g. cbn [fst].
      destruct (k =? K_Tags) eqn:E; [|reflexivity].
      apply Z.eqb_eq in E. subst k. rewrite omap_str_map. cbn [bind]. unfold val, getNaN. rewrite Et.
      rewrite tags_of_is_words, TN. reflexivity.
Qed.

(* ================================================================== (II) write o read on a whole generation document *)
Lemma as_rows_map recs : as_rows (YList (map YMap recs)) = Some recs.
Proof. unfold as_rows. rewrite omap_map. rewrite (omap_Some (fun x : row => x)). rewrite map_id. reflexivity. Qed.
Lemma all2_fst_keys (md : list (Z * ytree)) : forall tbl : list (Z * Z),
  all2 (fun kt kd => (fst kt =? fst kd) && has_type (if fst kt =? ref_tags_key then 4 else snd kt) (snd kd)) tbl md = true ->
  map fst md = map fst tbl.
Proof.
  induction md as [|[k v] md IH]; destruct tbl as [|[k' ty] tbl]; simpl; intro H; try discriminate; [reflexivity|].
  apply andb_true_iff in H. destruct H as [H1 H2]. apply andb_true_iff in H1. destruct H1 as [H1 _].
  apply Z.eqb_eq in H1. subst. f_equal. apply IH. exact H2.
Qed.
Lemma ref_keys_nodup : NoDup ref_keys.
Proof. apply nodupZ_NoDup. vm_compute. reflexivity. Qed.
Lemma ref_keys_no_section k : In k sec_keys -> ~ In k ref_keys.
Proof. intros H X. apply memZ_In in X. simpl in H. destruct H as [<-|[<-|[<-|[]]]]; vm_compute in X; discriminate. Qed.

(* a document with the top-level keys of a generation document, taken apart *)
Lemma gen_doc_split (kvs : row) : listZ_eqb (map fst kvs) (ref_keys ++ sec_keys) = true ->
  exists file vb vs vh, kvs = file ++ [(K_TimingPoints, vb); (K_SliderVelocities, vs); (K_HitObjects, vh)] /\ map fst file = ref_keys.
Proof.
  intro H. apply listZ_eqb_eq in H. apply map_eq_app in H. destruct H as [file [secs [E [E1 E2]]]].
  destruct secs as [|[k1 v1] [|[k2 v2] [|[k3 v3] [|? ?]]]]; try discriminate E2. inversion E2; subst.
  exists file, v1, v2, v3. auto.
Qed.
Lemma assoc_file_sec {A} (file : list (Z * A)) k secs : map fst file = ref_keys -> In k sec_keys ->
  assoc k (file ++ secs) = assoc k secs.
Proof. intros E H. rewrite assoc_app, assoc_None_notin; [reflexivity|]. rewrite E. apply ref_keys_no_section. exact H. Qed.

Theorem gen_doc_fixed hc lc bc sc md d : defaults_ok hc lc bc sc md = true -> gen_docb d = true ->
  exists c d', qua_read_gen hc lc bc sc md hits_from_yaml holds_from_yaml d = Some c /\ wf_chartb false c = true /\
               qua_write md c = Some d' /\ doc_same d' d /\ pts_canonb d' = true.
Proof.
  intros Hdef Hg. unfold gen_docb in Hg. apply andb_true_iff in Hg. destruct Hg as [Wq Hg].
  destruct (qua_read_ok hc lc bc sc md d Hdef (wf_qua_doc_is_wf_doc d Wq)) as [c0 [R0 [_ Wc0]]].
  unfold defaults_ok in Hdef. do 4 (apply andb_true_iff in Hdef; destruct Hdef as [Hdef ?]).
  rename Hdef into Dh, H2 into Dl, H1 into Db, H0 into Ds, H into Dm.
  destruct d as [| | | | | | |kvs]; try discriminate.
  do 4 (apply andb_true_iff in Hg; destruct Hg as [Hg ?]). rename Hg into Gk, H2 into Gt, H1 into Gb, H0 into Gs, H into Gn.
  destruct (gen_doc_split kvs Gk) as [file [vb [vs [vh [Ekvs Ef]]]]]. subst kvs.
  set (secs := [(K_TimingPoints, vb); (K_SliderVelocities, vs); (K_HitObjects, vh)]) in *.
  assert (Ab: assoc K_TimingPoints (file ++ secs) = Some vb) by (rewrite assoc_file_sec; [reflexivity|exact Ef|simpl; auto]).
  assert (As_: assoc K_SliderVelocities (file ++ secs) = Some vs) by (rewrite assoc_file_sec; [reflexivity|exact Ef|simpl; auto]).
  assert (Ah: assoc K_HitObjects (file ++ secs) = Some vh) by (rewrite assoc_file_sec; [reflexivity|exact Ef|simpl; auto]).
  unfold wf_qua_docb in Wq. do 4 (apply andb_true_iff in Wq; destruct Wq as [Wq ?]).
  rename Wq into Wn, H2 into Wt, H1 into Sh, H0 into Sb, H into Ss.
  destruct (section_inv _ _ _ Sh) as [lh [Ah' Oh]]. destruct (section_inv _ _ _ Sb) as [lb [Ab' Ob]]. destruct (section_inv _ _ _ Ss) as [ls [As' Os]].
  rewrite Ah in Ah'. rewrite Ab in Ab'. rewrite As_ in As'. inversion Ah'; inversion Ab'; inversion As'; subst vh vb vs. clear Ah' Ab' As'.
  destruct (rec_list_inv _ _ Oh) as [rh [-> [Rh Th]]]. destruct (rec_list_inv _ _ Ob) as [rb [-> [Rb Tb]]]. destruct (rec_list_inv _ _ Os) as [rs [-> [Rs Ts]]].
  rewrite Ab in Gb. rewrite As_ in Gs. rewrite Ah in Gn. unfold on_rows in Gb, Gs, Gn. rewrite Rb in Gb. rewrite Rs in Gs. rewrite Rh in Gn.
  destruct (notes_fixed hc lc rh Dh Dl Th Gn) as [fh [fl [h [l [N1 [N2 [N3 N4]]]]]]].
  destruct (bpms_fixed bc rb Db Tb Gb) as [B1 B2]. destruct (svs_fixed sc rs Ds Ts Gs) as [S1 S2].
  (* the metadata block *)
  assert (Hrm: remove_key K_SliderVelocities (remove_key K_TimingPoints (remove_key K_HitObjects (file ++ secs))) = file).
  { rewrite !remove_key_app. rewrite !(remove_key_notin _ file) by (rewrite Ef; apply ref_keys_no_section; simpl; auto).
    subst secs. cbn. apply app_nil_r. }
  assert (NDf: NoDup (map fst file)) by (rewrite Ef; exact ref_keys_nodup).
  assert (TNf: tags_norm file = true).
  { unfold tags_norm in *. rewrite assoc_app in Gt. destruct (assoc K_Tags file) as [v|]; [exact Gt|]. subst secs. cbn in Gt. discriminate. }
  destruct (meta_fixed md file) as [m [M1 M2]]; [rewrite Ef; exact (all2_fst_keys md ref_meta_table Dm)|exact NDf|exact TNf|].
  assert (R: qua_read_gen hc lc bc sc md hits_from_yaml holds_from_yaml (YMap (file ++ secs))
             = Some (mkChart fh fl (read_bpms bc rb) (read_svs sc rs) m)).
  { unfold qua_read_gen. rewrite Ah. cbn [bind]. rewrite Rh. cbn [bind]. rewrite N1. cbn [bind].
    rewrite assoc_remove_key by discriminate. rewrite Ab. cbn [bind]. rewrite Rb. cbn [bind].
    rewrite !assoc_remove_key by discriminate. rewrite As_. cbn [bind]. rewrite Rs. cbn [bind].
    rewrite Hrm, M1. reflexivity. }
  rewrite R in R0. inversion R0; subst c0. clear R0.
  eexists. eexists. split; [exact R|]. split; [exact Wc0|].
  split; [|split].
  - unfold qua_write. cbn [c_hits c_holds c_bpms c_svs c_meta]. rewrite M2. cbn [bind]. rewrite B1. cbn [bind].
    rewrite S1. cbn [bind]. rewrite N2. cbn [bind]. rewrite N3. cbn [bind]. reflexivity.
  - exists file, (map (canon_pt K_Bpm) rb), (map (canon_pt K_Multiplier) rs), rb, rs, rh.
    subst secs. rewrite N4. auto.
  - unfold pts_canonb.
    rewrite (assoc_file_sec file K_TimingPoints _ Ef) by (simpl; auto).
    rewrite (assoc_file_sec file K_SliderVelocities _ Ef) by (simpl; auto).
    cbn [assoc K_TimingPoints K_SliderVelocities Z.eqb Pos.eqb on_rows]. rewrite !as_rows_map.
    apply andb_true_iff. split; unfold pts_canon; rewrite forallb_forall; intros r Hr; apply in_map_iff in Hr;
      destruct Hr as [x [<- _]]; reflexivity.
Qed.

(* ================================================================== (I) what the writer produces has that shape *)
Lemma out_row_keys h r : map fst (out_row h r) = map (ren1 ren_out) (map fst r).
Proof. unfold out_row. rewrite !map_map. reflexivity. Qed.
Lemma hold_out_keys r : map fst (hold_out r) = map (ren1 ren_out) (filter (fun k => negb (k =? N_length)) (map fst r)) ++ [K_EndTime].
Proof.
  unfold hold_out. rewrite out_row_keys. unfold hold_mid. rewrite keys_remove_key, map_app, filter_app, map_app. reflexivity.
Qed.
Lemma uniform_of (K : list Z) l : (forall r : row, In r l -> map fst r = K) -> uniform l = true.
Proof.
  intro H. destruct l as [|r0 t]; [reflexivity|]. unfold uniform. apply forallb_forall. intros r Hr.
  rewrite (H r Hr), (H r0 (or_introl eq_refl)). apply listZ_eqb_refl.
Qed.
Lemma hits_first_app h l : forallb (fun r => negb (is_hold r)) h = true -> forallb is_hold l = true -> hits_first (h ++ l) = true.
Proof.
  intros Hh Hl. induction h as [|r h IH]; simpl.
  - destruct l as [|r l]; [reflexivity|]. simpl in *. apply andb_true_iff in Hl. destruct Hl as [A B]. rewrite A. exact B.
  - simpl in Hh. apply andb_true_iff in Hh. destruct Hh as [A B]. apply negb_true_iff in A. rewrite A. apply IH. exact B.
Qed.
Lemma last_is_app k l : last_is k (l ++ [k]) = true.
Proof. unfold last_is. rewrite rev_app_distr. simpl. apply Z.eqb_refl. Qed.
Lemma In_ren_out c cols : In c cols -> In (ren1 ren_out c) (map (ren1 ren_out) cols).
Proof. apply in_map. Qed.

Section WrittenNotes.
  Variable fh fl : frame.
  Hypothesis Fh : frame_okb (hit_decl false) false fh = true.
  Hypothesis Fl : frame_okb (hold_decl false) false fl = true.

  Lemma written_hit_keys r : In r (f_rows fh) -> map fst (out_row h_hit r) = map (ren1 ren_out) (f_cols fh).
  Proof.
    intro Hr. destruct (frame_ok_inv _ _ Fh) as [_ [_ [_ Hrows]]]. rewrite Forall_forall in Hrows.
    destruct (Hrows r Hr) as [E _]. rewrite out_row_keys, E. reflexivity.
  Qed.
  Lemma written_hold_keys r : In r (f_rows fl) ->
    map fst (hold_out r) = map (ren1 ren_out) (filter (fun k => negb (k =? N_length)) (f_cols fl)) ++ [K_EndTime].
  Proof.
    intro Hr. destruct (frame_ok_inv _ _ Fl) as [_ [_ [_ Hrows]]]. rewrite Forall_forall in Hrows.
    destruct (Hrows r Hr) as [E _]. rewrite hold_out_keys, E. reflexivity.
  Qed.
  Lemma hit_cols_only c : In c (f_cols fh) -> c = N_offset \/ c = N_column \/ c = N_keysounds.
  Proof.
    intro H. destruct (frame_ok_inv _ _ Fh) as [_ [_ [Honly _]]]. specialize (Honly c H). unfold has_key in Honly.
    destruct (assoc c (hit_decl false)) as [p|] eqn:Ep; [|discriminate]. exact (hit_decl_keys c p Ep).
  Qed.
  Lemma hold_cols_only c : In c (f_cols fl) -> c = N_offset \/ c = N_column \/ c = N_keysounds \/ c = N_length.
  Proof.
    intro H. destruct (frame_ok_inv _ _ Fl) as [_ [_ [Honly _]]]. specialize (Honly c H). unfold has_key in Honly.
    destruct (assoc c (hold_decl false)) as [p|] eqn:Ep; [|discriminate]. exact (hold_decl_keys c p Ep).
  Qed.
  Lemma written_hit_not_hold r : In r (f_rows fh) -> is_hold (out_row h_hit r) = false.
  Proof.
    intro Hr. unfold is_hold. apply has_key_false. rewrite (written_hit_keys r Hr). intro X.
    apply in_map_iff in X. destruct X as [c [Ec Hc]]. destruct (hit_cols_only c Hc) as [ -> | [ -> | -> ] ]; discriminate Ec.
  Qed.
  Lemma written_hold_is_hold r : In r (f_rows fl) -> is_hold (hold_out r) = true.
  Proof.
    intro Hr. unfold is_hold. apply has_key_In. rewrite (written_hold_keys r Hr). apply in_or_app. right. left. reflexivity.
  Qed.
  Lemma written_hit_complete r : In r (f_rows fh) ->
    has_key K_StartTime (out_row h_hit r) && has_key K_Lane (out_row h_hit r) && has_key K_KeySounds (out_row h_hit r) = true.
  Proof.
    intro Hr. destruct (frame_ok_inv _ _ Fh) as [_ [Hall _]].
    rewrite !has_key_In; [reflexivity| | |]; rewrite (written_hit_keys r Hr).
    - change K_KeySounds with (ren1 ren_out N_keysounds). apply in_map. apply Hall. simpl. auto.
    - change K_Lane with (ren1 ren_out N_column). apply in_map. apply Hall. simpl. auto.
    - change K_StartTime with (ren1 ren_out N_offset). apply in_map. apply Hall. simpl. auto.
  Qed.
  Lemma written_hold_complete r : In r (f_rows fl) ->
    has_key K_StartTime (hold_out r) && has_key K_Lane (hold_out r) && has_key K_KeySounds (hold_out r) = true.
  Proof.
    intro Hr. destruct (frame_ok_inv _ _ Fl) as [_ [Hall _]].
    rewrite !has_key_In; [reflexivity| | |]; rewrite (written_hold_keys r Hr); apply in_or_app; left.
    - change K_KeySounds with (ren1 ren_out N_keysounds). apply in_map. apply filter_In. split; [apply Hall; simpl; auto|reflexivity].
    - change K_Lane with (ren1 ren_out N_column). apply in_map. apply filter_In. split; [apply Hall; simpl; auto|reflexivity].
    - change K_StartTime with (ren1 ren_out N_offset). apply in_map. apply filter_In. split; [apply Hall; simpl; auto|reflexivity].
  Qed.

  Lemma written_notes_shape : notes_shape (map (out_row h_hit) (f_rows fh) ++ map hold_out (f_rows fl)) = true.
  Proof.
    set (h := map (out_row h_hit) (f_rows fh)). set (l := map hold_out (f_rows fl)).
    assert (Nh: forallb (fun r => negb (is_hold r)) h = true).
    { apply forallb_forall. intros R HR. apply in_map_iff in HR. destruct HR as [r [<- Hr]]. rewrite written_hit_not_hold by exact Hr. reflexivity. }
    assert (Nl: forallb is_hold l = true).
    { apply forallb_forall. intros R HR. apply in_map_iff in HR. destruct HR as [r [<- Hr]]. apply written_hold_is_hold. exact Hr. }
    assert (E1: filter (fun r => negb (is_hold r)) (h ++ l) = h).
    { rewrite filter_app, (filter_all _ h Nh), filter_none; [apply app_nil_r|]. rewrite forallb_negb_negb. exact Nl. }
    assert (E2: filter is_hold (h ++ l) = l).
    { rewrite filter_app, (filter_none _ h Nh), (filter_all _ l Nl). reflexivity. }
    unfold notes_shape. rewrite E1, E2. rewrite (hits_first_app h l Nh Nl).
    rewrite (uniform_of (map (ren1 ren_out) (f_cols fh)) h).
    2:{ intros R HR. apply in_map_iff in HR. destruct HR as [r [<- Hr]]. apply written_hit_keys. exact Hr. }
    rewrite (uniform_of (map (ren1 ren_out) (filter (fun k => negb (k =? N_length)) (f_cols fl)) ++ [K_EndTime]) l).
    2:{ intros R HR. apply in_map_iff in HR. destruct HR as [r [<- Hr]]. apply written_hold_keys. exact Hr. }
    cbn [andb]. apply andb_true_iff. split.
    - rewrite forallb_app. apply andb_true_iff. split; apply forallb_forall; intros R HR; apply in_map_iff in HR; destruct HR as [r [<- Hr]].
      + apply written_hit_complete. exact Hr.
      + apply written_hold_complete. exact Hr.
    - apply forallb_forall. intros R HR. apply in_map_iff in HR. destruct HR as [r [<- Hr]].
      rewrite (written_hold_keys r Hr). apply last_is_app.
  Qed.
End WrittenNotes.

Lemma written_bpms_shape f : frame_okb bpm_decl false f = true -> points_shape K_Bpm (map bpm_out (f_rows f)) = true.
Proof.
  intro H. destruct (frame_ok_inv _ _ H) as [Hnd [Hall [Honly Hrows]]]. rewrite Forall_forall in Hrows.
  assert (Inj: forall x y, has_key x bpm_decl = true -> has_key y bpm_decl = true -> ren1 ren_bpm x = ren1 ren_bpm y -> x = y).
  { intros x y Hx Hy. destruct (has_key_bpm x Hx) as [ -> | [ -> | -> ] ]; destruct (has_key_bpm y Hy) as [ -> | [ -> | -> ] ];
      cbv; intro X; try reflexivity; discriminate. }
  assert (Num: forall k p, assoc k bpm_decl = Some p -> p = is_num) by (intros k p E; apply (bpm_decl_keys k p E)).
  unfold points_shape. apply forallb_forall. intros R HR. apply in_map_iff in HR. destruct HR as [r [<- Hr]].
  destruct (pt_out_ok N_bpm K_Bpm bpm_decl ren_bpm ltac:(discriminate) eq_refl eq_refl eq_refl eq_refl Num Inj
              (f_cols f) r Hnd Hall Honly (Hrows r Hr) tp_keys_m 120%Q eq_refl eq_refl) as [o [x [Eo [Ex [Ho [Hx [A1 [A2 _]]]]]]]].
  { intros k Hk N1 N2. destruct (has_key_bpm k Hk) as [X|[X|X]]; try contradiction. subst k. reflexivity. }
  unfold bpm_out, has_key. rewrite !assoc_remove_key by discriminate. rewrite A1, A2. reflexivity.
Qed.
Lemma written_svs_shape f : frame_okb sv_decl false f = true -> points_shape K_Multiplier (map sv_out (f_rows f)) = true.
Proof.
  intro H. destruct (frame_ok_inv _ _ H) as [Hnd [Hall [Honly Hrows]]]. rewrite Forall_forall in Hrows.
  assert (Inj: forall x y, has_key x sv_decl = true -> has_key y sv_decl = true -> ren1 ren_sv x = ren1 ren_sv y -> x = y).
  { intros x y Hx Hy. destruct (has_key_sv x Hx) as [ -> | -> ]; destruct (has_key_sv y Hy) as [ -> | -> ]; cbv; intro X; try reflexivity; discriminate. }
  assert (Num: forall k p, assoc k sv_decl = Some p -> p = is_num) by (intros k p E; apply (sv_decl_keys k p E)).
  unfold points_shape. apply forallb_forall. intros R HR. apply in_map_iff in HR. destruct HR as [r [<- Hr]].
  destruct (pt_out_ok N_multiplier K_Multiplier sv_decl ren_sv ltac:(discriminate) eq_refl eq_refl eq_refl eq_refl Num Inj
              (f_cols f) r Hnd Hall Honly (Hrows r Hr) sv_keys 1%Q eq_refl eq_refl) as [o [x [Eo [Ex [Ho [Hx [A1 [A2 _]]]]]]]].
  { intros k Hk N1 N2. destruct (has_key_sv k Hk); contradiction. }
  unfold sv_out, has_key. rewrite A1, A2. reflexivity.
Qed.

Lemma text_eqb_refl' t : text_eqb t t = true. Proof. apply text_eqb_refl. Qed.
Local Opaque has_type tag_okb words join_sp texts_of text_eqb.
Theorem write_gen_doc ds c : length ds = length ref_meta_table -> wf_chartb false c = true ->
  exists d, qua_write (combine ref_keys ds) c = Some d /\ gen_docb d = true.
Proof.
  intros Hds Hwf. pose proof (qua_write_ok ds c Hds Hwf) as Wok.
  unfold wf_chartb in Hwf.
  do 4 (apply andb_true_iff in Hwf; destruct Hwf as [Hwf ?]).
  rename Hwf into Fh, H into Hm, H0 into Fs, H1 into Fb, H2 into Fl.
  destruct c as [fh fl fb fs m]. cbn [c_hits c_holds c_bpms c_svs c_meta] in *.
  unfold meta_okb, ref_meta_table in Hm.
  pose proof (all2_length _ _ _ Hm) as Lm. symmetry in Lm.
  d21 m Lm. d21 ds Hds. clear Lm Hds.
  cbn [all2 fst snd] in Hm. unfold ref_tags_key, K_InitialScrollVelocity in Hm. cbn [Z.eqb Pos.eqb andb orb] in Hm.
  rewrite !orb_false_r in Hm.
  repeat (apply andb_true_iff in Hm; let T := fresh "T" in destruct Hm as [T Hm]).
  destruct y13 as [| | | | | |lt|]; try discriminate T13.
  destruct (tags_ok lt T13) as [Tl Tg].
  revert Wok. unfold qua_write. cbn [c_hits c_holds c_bpms c_svs c_meta].
  rewrite (bpms_to_yaml_explicit fb Fb), (svs_to_yaml_explicit fs Fs), (hits_to_yaml_explicit fh Fh), (holds_to_yaml_explicit fl Fl).
  unfold write_meta, ref_keys, ref_meta_table. cbn [map fst combine length Nat.eqb negb omap K_Tags Z.eqb Pos.eqb].
  rewrite (omap_texts lt Tl). cbn [bind]. intro Wok.
  eexists. split; [reflexivity|].
  unfold write_specb in Wok. apply andb_true_iff in Wok. destruct Wok as [Wq _].
  unfold gen_docb. rewrite Wq. cbn [andb].
  apply andb_true_iff; split; [apply andb_true_iff; split; [apply andb_true_iff; split; [apply andb_true_iff; split|]|]|].
  - vm_compute. reflexivity.
  - unfold tags_norm. cbn [app assoc K_Tags Z.eqb Pos.eqb]. rewrite (words_join _ Tg). apply text_eqb_refl'.
  - cbn [app assoc K_TimingPoints Z.eqb Pos.eqb on_rows]. rewrite as_rows_map. apply written_bpms_shape. exact Fb.
  - cbn [app assoc K_SliderVelocities K_TimingPoints Z.eqb Pos.eqb on_rows]. rewrite as_rows_map. apply written_svs_shape. exact Fs.
  - cbn [app assoc K_HitObjects K_SliderVelocities K_TimingPoints Z.eqb Pos.eqb on_rows]. rewrite as_rows_map. apply written_notes_shape; assumption.
Qed.
Local Transparent has_type tag_okb words join_sp texts_of text_eqb.

(* ================================================================== (III) generations, with the live tables *)
Lemma live_meta_defaults_combine : Live.meta_defaults = combine ref_keys (map snd Live.meta_defaults).
Proof. vm_compute. reflexivity. Qed.
Theorem qua_write_gen_doc c : wf_chartb false c = true -> exists d, Live.write c = Some d /\ gen_docb d = true.
Proof.
  intro H. unfold Live.write. rewrite live_meta_defaults_combine. apply write_gen_doc; [vm_compute; reflexivity|exact H].
Qed.
Theorem qua_gen_doc_fixed d : gen_docb d = true ->
  exists c d', Live.read d = Some c /\ wf_chartb false c = true /\ Live.write c = Some d' /\
               doc_same d' d /\ pts_canonb d' = true /\ gen_docb d' = true.
Proof.
  intro H. destruct (gen_doc_fixed _ _ _ _ _ d live_defaults_ok H) as [c [d' [R [W [Wr [S P]]]]]].
  exists c, d'. split; [exact R|]. split; [exact W|]. split; [exact Wr|]. split; [exact S|]. split; [exact P|].
  destruct (qua_write_gen_doc c W) as [d'' [E G]]. unfold Live.write in E. rewrite Wr in E. inversion E; subst. exact G.
Qed.

(* two documents that are the same up to the key order inside the point records, both with StartTime first, are equal *)
Lemma pts_canon_same kval b1 : forall b2, recs_same b1 b2 -> pts_canon kval b1 = true -> pts_canon kval b2 = true -> b1 = b2.
Proof.
  induction b1 as [|r1 b1 IH]; intros b2 H C1 C2; inversion H as [|? r2 ? b2' HR HT]; subst; [reflexivity|].
  cbn [pts_canon forallb] in C1, C2. apply andb_true_iff in C1. destruct C1 as [K1 C1]. apply andb_true_iff in C2. destruct C2 as [K2 C2].
  apply listZ_eqb_eq in K1. apply listZ_eqb_eq in K2. destruct HR as [N1 [N2 A]].
  f_equal; [apply row_same_keys_eq; [exact N1|exact N2|congruence|exact A]|apply IH; assumption].
Qed.
Lemma doc_same_canon_eq d' d : gen_docb d = true -> doc_same d' d -> pts_canonb d = true -> pts_canonb d' = true -> d' = d.
Proof.
  intros G (file & b1 & s1 & b2 & s2 & notes & E1 & E2 & B & S) P P'. subst d' d.
  unfold gen_docb in G. apply andb_true_iff in G. destruct G as [_ G].
  do 4 (apply andb_true_iff in G; destruct G as [G _]). apply listZ_eqb_eq in G. rewrite map_app in G.
  assert (L: length (map fst file) = length ref_keys).
  { apply (f_equal (@length _)) in G. rewrite !app_length in G. simpl in G. simpl. lia. }
  destruct (app_same_len _ _ _ _ L G) as [Ef _].
  unfold pts_canonb in P, P'.
  rewrite (assoc_file_sec file K_TimingPoints _ Ef) in P by (simpl; auto).
  rewrite (assoc_file_sec file K_TimingPoints _ Ef) in P' by (simpl; auto).
  rewrite (assoc_file_sec file K_SliderVelocities _ Ef) in P by (simpl; auto).
  rewrite (assoc_file_sec file K_SliderVelocities _ Ef) in P' by (simpl; auto).
  cbn [assoc K_TimingPoints K_SliderVelocities Z.eqb Pos.eqb on_rows] in P, P'. rewrite !as_rows_map in P, P'.
  apply andb_true_iff in P. destruct P as [P1 P2]. apply andb_true_iff in P'. destruct P' as [P1' P2'].
  rewrite (pts_canon_same K_Bpm b1 b2 B P1' P1), (pts_canon_same K_Multiplier s1 s2 S P2' P2). reflexivity.
Qed.

Definition regen (d : ytree) : option ytree := Live.read d >>= Live.write.
(* generation 1 = write c; generation (n+1) = write (read (generation n)) *)
Fixpoint generation (n : nat) (c : chart) : option ytree :=
  match n with O => Live.write c | S k => generation k c >>= regen end.

(* generation 2 = generation 1 as documents *)
Theorem qua_generation_2_is_1 c : wf_chartb false c = true ->
  exists d1 c1 d2, Live.write c = Some d1 /\ Live.read d1 = Some c1 /\ wf_chartb false c1 = true /\ Live.write c1 = Some d2 /\
                   doc_same d2 d1 /\ gen_docb d1 = true /\ gen_docb d2 = true /\ pts_canonb d2 = true.
Proof.
  intro H. destruct (qua_write_gen_doc c H) as [d1 [W1 G1]].
  destruct (qua_gen_doc_fixed d1 G1) as [c1 [d2 [R [Wc [W2 [S [P G2]]]]]]].
  exists d1, c1, d2. auto 10.
Qed.
(* ... Leibniz-equal as soon as the point records of generation 1 carry StartTime first ... *)
Theorem qua_generation_2_eq_1_canon c d1 : wf_chartb false c = true -> Live.write c = Some d1 -> pts_canonb d1 = true ->
  regen d1 = Some d1.
Proof.
  intros H W P. destruct (qua_generation_2_is_1 c H) as [d1' [c1 [d2 [W1 [R [_ [W2 [S [G1 [_ P2]]]]]]]]]].
  rewrite W in W1. inversion W1; subst d1'. unfold regen. rewrite R. cbn [bind]. rewrite W2. f_equal.
  apply doc_same_canon_eq; assumption.
Qed.
(* ... and every document of the generation shape with canonical point records is a fixed point of write o read *)
Theorem qua_regen_fixed_point d : gen_docb d = true -> pts_canonb d = true -> regen d = Some d.
Proof.
  intros G P. destruct (qua_gen_doc_fixed d G) as [c [d' [R [_ [W [S [P' _]]]]]]].
  unfold regen. rewrite R. cbn [bind]. rewrite W. f_equal. apply doc_same_canon_eq; assumption.
Qed.
(* every later generation is generation 2 exactly, which is generation 1 up to the key order inside point records *)
Theorem qua_generations_stable c : wf_chartb false c = true ->
  exists d1 d2, generation 0 c = Some d1 /\ generation 1 c = Some d2 /\ doc_same d2 d1 /\
                forall n, generation (S n) c = Some d2.
Proof.
  intro H. destruct (qua_generation_2_is_1 c H) as [d1 [c1 [d2 [W1 [R [_ [W2 [Sd [_ [G2 P2]]]]]]]]]].
  assert (E1: generation 1 c = Some d2).
  { cbn [generation]. rewrite W1. cbn [bind]. unfold regen. rewrite R. cbn [bind]. exact W2. }
  exists d1, d2. split; [exact W1|]. split; [exact E1|]. split; [exact Sd|].
  induction n as [|n IH]; [exact E1|]. change (generation (S (S n)) c) with (generation (S n) c >>= regen).
  rewrite IH. cbn [bind]. apply qua_regen_fixed_point; assumption.
Qed.

(* Leibniz equality of generation 2 and generation 1 is FALSE in general: the chart's timing-point columns in the order
   bpm, metronome, offset are written Bpm-first, and read back in the reader's fixed order offset, bpm *)
Definition first_tp_keys (d : option ytree) : list Z :=
  match d with
  | Some (YMap kvs) => match assoc K_TimingPoints kvs with Some (YList (YMap r :: _)) => map fst r | _ => [] end
  | _ => []
  end.
Theorem qua_generation_2_leibniz_refuted :
  let c := wit_conv_chart false false in
  wf_chartb false c = true /\ generation 1 c <> generation 0 c /\
  first_tp_keys (generation 0 c) = [K_Bpm; K_StartTime] /\ first_tp_keys (generation 1 c) = [K_StartTime; K_Bpm] /\
  match generation 0 c, generation 1 c with Some a, Some b => tree_eqb true b a | _, _ => false end = true /\
  generation 2 c = generation 1 c.
Proof.
  cbv zeta. split; [vm_compute; reflexivity|]. split.
  - intro X. apply (f_equal first_tp_keys) in X. vm_compute in X. discriminate.
  - split; [vm_compute; reflexivity|]. split; [vm_compute; reflexivity|]. split; vm_compute; reflexivity.
Qed.

(* ================================================================== doc_same implies the canonical document relation
   of the correspondence runner (Corr/RunC06.v: tree_eqb true = mappings up to key order, int and float distinct) *)
Fixpoint map_sub (s : bool) (kw kv : row) : bool :=
  match kv with
  | [] => true
  | (k, v) :: kv' => match assoc k kw with Some w => tree_eqb s v w | None => false end && map_sub s kw kv'
  end.
Fixpoint list_eqb (s : bool) (l m : list ytree) : bool :=
  match l, m with [], [] => true | x :: l', y :: m' => tree_eqb s x y && list_eqb s l' m' | _, _ => false end.
Lemma tree_eqb_map s kv kw : tree_eqb s (YMap kv) (YMap kw) = Nat.eqb (length kv) (length kw) && map_sub s kw kv.
Proof. cbn [tree_eqb]. f_equal. induction kv as [|[k v] kv IH]; [reflexivity|]. cbn [map_sub]. rewrite <- IH. reflexivity. Qed.
Lemma tree_eqb_list s l m : tree_eqb s (YList l) (YList m) = list_eqb s l m.
Proof. cbn [tree_eqb]. revert m. induction l as [|x l IH]; destruct m as [|y m]; try reflexivity. cbn [list_eqb]. rewrite <- IH. reflexivity. Qed.
Lemma map_sub_intro s kw kv : (forall k v, In (k, v) kv -> exists w, assoc k kw = Some w /\ tree_eqb s v w = true) ->
  map_sub s kw kv = true.
Proof.
  induction kv as [|[k v] kv IH]; intro H; [reflexivity|]. cbn [map_sub].
  destruct (H k v (or_introl eq_refl)) as [w [E T]]. rewrite E, T. apply IH. intros k' v' Hin. apply H. right. exact Hin.
Qed.
Lemma list_eqb_Forall2 s l m : Forall2 (fun x y => tree_eqb s x y = true) l m -> list_eqb s l m = true.
Proof. induction 1 as [|x y l m H _ IH]; [reflexivity|]. cbn [list_eqb]. rewrite H, IH. reflexivity. Qed.

Lemma row_same_length r1 r2 : row_same r1 r2 -> length r1 = length r2.
Proof.
  intros [N1 [N2 A]].
  assert (I12: incl (map fst r1) (map fst r2)).
  { intros k Hk. destruct (assoc_in_keys _ _ Hk) as [v Ev]. rewrite A in Ev. apply in_map_iff. exists (k, v). split; [reflexivity|apply assoc_In; exact Ev]. }
  assert (I21: incl (map fst r2) (map fst r1)).
  { intros k Hk. destruct (assoc_in_keys _ _ Hk) as [v Ev]. rewrite <- A in Ev. apply in_map_iff. exists (k, v). split; [reflexivity|apply assoc_In; exact Ev]. }
  pose proof (NoDup_incl_length N1 I12) as L1. pose proof (NoDup_incl_length N2 I21) as L2. rewrite !map_length in L1, L2. lia.
Qed.
Lemma row_same_tree_eqb r1 r2 : row_same r1 r2 -> (forall k v, In (k, v) r2 -> tree_eqb true v v = true) ->
  tree_eqb true (YMap r1) (YMap r2) = true.
Proof.
  intros S Rf. rewrite tree_eqb_map, (row_same_length r1 r2 S), Nat.eqb_refl. cbn [andb]. destruct S as [N1 [N2 A]].
  apply map_sub_intro. intros k v Hin. exists v. pose proof (In_assoc_nodup r1 k v N1 Hin) as E. rewrite A in E.
  split; [exact E|]. apply (Rf k v). apply assoc_In. exact E.
Qed.
Lemma row_same_refl r : NoDup (map fst r) -> row_same r r.
Proof. intro N. split; [exact N|]. split; [exact N|]. reflexivity. Qed.

Definition cell_okb (v : ytree) : bool := match v with YInt _ | YFloat _ => true | YList l => is_text_list l | _ => false end.
Lemma cell_ok_refl v : cell_okb v = true -> tree_eqb true v v = true.
Proof.
  destruct v; simpl; intro H; try discriminate.
  - apply Z.eqb_refl.
  - apply Qeq_bool_iff. reflexivity.
  - apply (tree_eqb_textlist l H).
Qed.
Lemma allowed_cell_ok allowed : In allowed [note_keys; tp_keys; sv_keys] -> forall k p v, assoc k allowed = Some p -> p v = true -> cell_okb v = true.
Proof.
  intros [<-|[<-|[<-|[]]]] k p v; simpl.
  - destruct (k =? K_StartTime); [intro E; inversion E; subst; destruct v; simpl; auto; discriminate|].
    destruct (k =? K_Lane); [intro E; inversion E; subst; destruct v; simpl; auto; discriminate|].
    destruct (k =? K_EndTime); [intro E; inversion E; subst; destruct v; simpl; auto; discriminate|].
    destruct (k =? K_KeySounds); [intro E; inversion E; subst; destruct v; simpl; auto; discriminate|discriminate].
  - destruct (k =? K_StartTime); [intro E; inversion E; subst; destruct v; simpl; auto; discriminate|].
    destruct (k =? K_Bpm); [intro E; inversion E; subst; destruct v; simpl; auto; discriminate|discriminate].
  - destruct (k =? K_StartTime); [intro E; inversion E; subst; destruct v; simpl; auto; discriminate|].
    destruct (k =? K_Multiplier); [intro E; inversion E; subst; destruct v; simpl; auto; discriminate|discriminate].
Qed.
Lemma typed_row_refl allowed r : In allowed [note_keys; tp_keys; sv_keys] -> rec_typed allowed r ->
  forall k v, In (k, v) r -> tree_eqb true v v = true.
Proof.
  intros Ha [_ T] k v Hin. destruct (T k v Hin) as [p [Ep Hp]]. apply cell_ok_refl. exact (allowed_cell_ok allowed Ha k p v Ep Hp).
Qed.
Lemma recs_same_list_eqb allowed b1 b2 : In allowed [note_keys; tp_keys; sv_keys] -> Forall (rec_typed allowed) b2 ->
  recs_same b1 b2 -> list_eqb true (map YMap b1) (map YMap b2) = true.
Proof.
  intros Ha T S. apply list_eqb_Forall2. revert T. induction S as [|r1 r2 b1 b2 HR _ IH]; intro T; cbn [map]; constructor.
  - inversion T; subst. apply row_same_tree_eqb; [exact HR|]. apply (typed_row_refl allowed r2 Ha). assumption.
  - inversion T; subst. apply IH. assumption.
Qed.
Lemma recs_same_refl allowed b : Forall (rec_typed allowed) b -> recs_same b b.
Proof. induction 1 as [|r b [N _] _ IH]; constructor; [apply row_same_refl; exact N|exact IH]. Qed.

Lemma section_typed allowed k (kvs : row) recs : NoDup (map fst kvs) -> In (k, YList (map YMap recs)) kvs ->
  section_okb allowed k kvs = true -> Forall (rec_typed allowed) recs.
Proof.
  intros N Hin S. destruct (section_inv _ _ _ S) as [l [E O]]. rewrite (In_assoc_nodup kvs _ _ N Hin) in E. inversion E; subst l.
  destruct (rec_list_inv _ _ O) as [recs' [E' [_ T]]]. apply map_YMap_inj in E'. subst. exact T.
Qed.

Theorem doc_same_tree_eqb d' d : wf_qua_docb d = true -> doc_same d' d -> tree_eqb true d' d = true.
Proof.
  intros W (file & b1 & s1 & b2 & s2 & notes & E1 & E2 & B & S). subst d' d.
  set (secs1 := [(K_TimingPoints, YList (map YMap b1)); (K_SliderVelocities, YList (map YMap s1)); (K_HitObjects, YList (map YMap notes))]).
  set (secs2 := [(K_TimingPoints, YList (map YMap b2)); (K_SliderVelocities, YList (map YMap s2)); (K_HitObjects, YList (map YMap notes))]) in *.
  unfold wf_qua_docb in W. do 4 (apply andb_true_iff in W; destruct W as [W ?]).
  rename W into Wn, H2 into Wt, H1 into Sh, H0 into Sb, H into Ss. apply nodupZ_NoDup in Wn.
  assert (Tb: Forall (rec_typed tp_keys) b2) by (apply (section_typed tp_keys K_TimingPoints (file ++ secs2) b2 Wn); [apply in_or_app; right; simpl; auto|exact Sb]).
  assert (Ts: Forall (rec_typed sv_keys) s2) by (apply (section_typed sv_keys K_SliderVelocities (file ++ secs2) s2 Wn); [apply in_or_app; right; simpl; auto|exact Ss]).
  assert (Tn: Forall (rec_typed note_keys) notes) by (apply (section_typed note_keys K_HitObjects (file ++ secs2) notes Wn); [apply in_or_app; right; simpl; auto|exact Sh]).
  rewrite tree_eqb_map. rewrite !app_length. cbn [length secs1 secs2]. rewrite Nat.eqb_refl. cbn [andb].
  apply map_sub_intro. intros k v Hin. apply in_app_or in Hin. destruct Hin as [Hin|Hin].
  - exists v. split; [apply (In_assoc_nodup _ _ _ Wn); apply in_or_app; left; exact Hin|].
    rewrite forallb_forall in Wt. specialize (Wt (k, v) (in_or_app _ _ _ (or_introl Hin))). cbn [fst snd] in Wt.
    destruct (memZ k sections) eqn:M.
    + exfalso. apply memZ_In in M. rewrite map_app in Wn.
      clear - M Hin Wn. assert (Hk: In k (map fst file)) by (apply in_map_iff; exists (k, v); auto).
      apply in_split in Hk. destruct Hk as [l1 [l2 El]]. rewrite El in Wn. rewrite <- app_assoc in Wn. cbn [app] in Wn.
      apply NoDup_remove_2 in Wn. apply Wn. apply in_or_app. right. apply in_or_app. right.
      simpl in M. subst secs2. cbn [map fst]. destruct M as [<-|[<-|[<-|[]]]]; simpl; auto.
    + cbn [orb] in Wt. destruct (assoc k ref_meta_table) as [ty|]; [|discriminate]. apply (tree_eqb_refl_typed ty v Wt).
  - assert (Asec: forall k' w, In (k', w) secs2 -> assoc k' (file ++ secs2) = Some w).
    { intros k' w Hw. apply (In_assoc_nodup _ _ _ Wn). apply in_or_app. right. exact Hw. }
    subst secs1. cbn [In] in Hin. destruct Hin as [X|[X|[X|[]]]]; inversion X; subst k v; clear X.
    + eexists. split; [apply Asec; simpl; auto|]. rewrite tree_eqb_list. apply (recs_same_list_eqb tp_keys); simpl; auto.
    + eexists. split; [apply Asec; simpl; auto|]. rewrite tree_eqb_list. apply (recs_same_list_eqb sv_keys); simpl; auto.
    + eexists. split; [apply Asec; simpl; auto|]. rewrite tree_eqb_list. apply (recs_same_list_eqb note_keys); simpl; auto.
      apply (recs_same_refl note_keys). exact Tn.
Qed.

(* the conjunct  otree_eqv w1 w2  of the runner's spec_ok, as a theorem about the model on the whole domains *)
Definition otree_same (a b : option ytree) : bool :=
  match a, b with Some x, Some y => tree_eqb true x y | _, _ => false end.
Theorem qua_chart_generations_tree_eqb c : wf_chartb false c = true ->
  otree_same (Live.write c >>= Live.read >>= Live.write) (Live.write c) = true.
Proof.
  intro H. destruct (qua_generation_2_is_1 c H) as [d1 [c1 [d2 [W1 [R [_ [W2 [S [G1 _]]]]]]]]].
  rewrite W1. cbn [bind]. rewrite R. cbn [bind]. rewrite W2. cbn [otree_same]. apply doc_same_tree_eqb; [|exact S].
  unfold gen_docb in G1. apply andb_true_iff in G1. tauto.
Qed.
Theorem qua_doc_generations_tree_eqb doc : wf_docb doc = true ->
  otree_same (Live.read doc >>= Live.write >>= Live.read >>= Live.write) (Live.read doc >>= Live.write) = true.
Proof.
  intro H. destruct (qua_read_live_ok doc H) as [c [R [_ T]]]. rewrite R. cbn [bind]. apply qua_chart_generations_tree_eqb. exact T.
Qed.

(* non-vacuity: a chart with float times, a hold, key sounds, timing-point columns in a non-default order *)
Definition wit_gen_chart : chart :=
  mkChart (mkFrame [N_keysounds; N_offset; N_column]
             [[(N_keysounds, YList [YStr [97]]); (N_offset, YFloat (201 # 2)); (N_column, YInt 0)];
              [(N_keysounds, YList []); (N_offset, YInt 7); (N_column, YFloat 3)]])
          (mkFrame [N_length; N_keysounds; N_column; N_offset]
             [[(N_length, YFloat (5 # 2)); (N_keysounds, YList []); (N_column, YInt 2); (N_offset, YFloat (1001 # 4))]])
          (mkFrame [N_bpm; N_metronome; N_offset] [[(N_bpm, YInt 150); (N_metronome, YFloat 4); (N_offset, YFloat (1 # 2))]])
          (mkFrame [N_multiplier; N_offset] [[(N_multiplier, YFloat (3 # 2)); (N_offset, YInt 9)]])
          (c_meta (wit_conv_chart false false)).
Example generations_nontrivial :
  wf_chartb false wit_gen_chart = true /\
  option_map gen_docb (generation 0 wit_gen_chart) = Some true /\ option_map pts_canonb (generation 0 wit_gen_chart) = Some false /\
  option_map pts_canonb (generation 1 wit_gen_chart) = Some true /\
  generation 1 wit_gen_chart <> generation 0 wit_gen_chart /\ generation 3 wit_gen_chart = generation 1 wit_gen_chart /\
  otree_same (generation 1 wit_gen_chart) (generation 0 wit_gen_chart) = true.
Proof.
  split; [vm_compute; reflexivity|]. split; [vm_compute; reflexivity|]. split; [vm_compute; reflexivity|].
  split; [vm_compute; reflexivity|]. split; [|split; vm_compute; reflexivity].
  intro X. apply (f_equal first_tp_keys) in X. vm_compute in X. discriminate.
Qed.
