(* C02, order of the reader's per-column head/tail lists: rows are read at strictly increasing positions, every column is
   touched at most once per row, so the Snaps in one column's list (head, tail, head, tail, ...) strictly increase; with
   strict monotonicity of time in the position (SMReadTimes.time_of_go_mono) two different long notes of one column have
   different head times: the returned hold / roll lists have pairwise comparable (column, time) keys. *)
From Coq Require Import String ZArith QArith Qround Qabs List Bool Lia Lqa Sorting.Permutation.
From RV Require Import Base.PyNum Timing.Snapper Timing.Snap Timing.TimingMap Timing.Reseat Timing.Integrate Timing.Domain
  Formats.SMText Formats.SM Formats.SMSpec Formats.SMReadDom
  Proofs.TimingProofs Proofs.SMProofs Proofs.SMWriteProofs Proofs.SMReadMeta Proofs.SMReadSim Proofs.SMReadExpand Proofs.SMReadTiming
  Proofs.SMReadTimes Proofs.SMCanon.
Import ListNotations.
Open Scope Q_scope.

Definition esnaps (l : list hentry) : list snap :=
  flat_map (fun e : hentry => fst e :: match snd e with Some t => [t] | None => [] end) l.
Lemma hold_snaps_eq ll : hold_snaps ll = flat_map esnaps ll.
Proof. reflexivity. Qed.
Lemma esnaps_app a b : esnaps (a ++ b) = esnaps a ++ esnaps b.
Proof. apply flat_map_app. Qed.

Fixpoint chain (l : list snap) : Prop :=
  match l with [] => True | x :: r => (forall y, In y r -> slt x y) /\ chain r end.
Lemma chain_snoc l x : chain l -> (forall y, In y l -> slt y x) -> chain (l ++ [x]).
Proof.
  induction l as [|a l IH]; intros C H; cbn [app chain].
  - split; [intros y []|exact I].
  - destruct C as [C1 C2]. split.
    + intros y Hy. apply in_app_or in Hy. destruct Hy as [Hy|[<-|[]]]; [exact (C1 y Hy)|apply H; left; reflexivity].
    + apply IH; [exact C2|]. intros y Hy. apply H. right. exact Hy.
Qed.
Lemma chain_in_order l : chain l -> forall a b, In a l -> In b l -> a = b \/ slt a b \/ slt b a.
Proof.
  induction l as [|x l IH]; intros C a b Ha Hb; [destruct Ha|]. destruct C as [C1 C2].
  destruct Ha as [<-|Ha], Hb as [<-|Hb]; auto.
Qed.

Definition in_col (st : nst) (c : nat) (l : list hentry) : Prop :=
  nth_error (n_holds st) c = Some l \/ nth_error (n_rolls st) c = Some l.
Definition Chain (st : nst) : Prop := forall c l, in_col st c l -> chain (esnaps l).
Definition ColBnd (st : nst) (so : snap) (col : nat) : Prop :=
  forall c l, in_col st c l -> forall s, In s (esnaps l) -> sle s so /\ ((col <= c)%nat -> slt s so).

Lemma sle_refl s : sle s s.
Proof. right. split; [reflexivity|lra]. Qed.

Section Order.
Variables (tbl : list Q) (types : list (text * option Z)).
Let cf := ref_conf tbl types.

Lemma upd_same st st' so col : n_holds st' = n_holds st -> n_rolls st' = n_rolls st ->
  Chain st -> ColBnd st so col -> Chain st' /\ ColBnd st' so (S col).
Proof.
  intros E1 E2 C B. split.
  - intros c l H. apply (C c l). unfold in_col in *. rewrite E1, E2 in H. exact H.
  - intros c l H s Hs. unfold in_col in H. rewrite E1, E2 in H. destruct (B c l H s Hs) as [A1 A2]. split; [exact A1|intro; apply A2; lia].
Qed.

Lemma upd_col st so col l l' (holds : bool) :
  (if holds then nth_error (n_holds st) col else nth_error (n_rolls st) col) = Some l ->
  esnaps l' = esnaps l ++ [so] -> Chain st -> ColBnd st so col ->
  let st' := if holds then mkNst (n_simple st) (replace_at col l' (n_holds st)) (n_rolls st)
             else mkNst (n_simple st) (n_holds st) (replace_at col l' (n_rolls st)) in
  Chain st' /\ ColBnd st' so (S col).
Proof.
  intros N E C B st'.
  assert (Hl : in_col st col l) by (destruct holds; [left|right]; exact N).
  assert (Lcol : forall (ll : list (list hentry)), nth_error ll col = Some l -> (col < length ll)%nat) by (intros ll K; apply nth_error_Some; congruence).
  assert (K : forall c l0, in_col st' c l0 -> (c = col /\ l0 = l') \/ in_col st c l0).
  { intros c l0 H. unfold st', in_col in *. destruct holds; cbn [n_holds n_rolls] in H.
    - destruct H as [H|H]; [|right; right; exact H]. destruct (Nat.eq_dec col c) as [<-|Ne].
      + rewrite replace_at_same in H by (apply Lcol; exact N). inversion H. left. auto.
      + rewrite replace_at_other in H by exact Ne. right. left. exact H.
    - destruct H as [H|H]; [right; left; exact H|]. destruct (Nat.eq_dec col c) as [<-|Ne].
      + rewrite replace_at_same in H by (apply Lcol; exact N). inversion H. left. auto.
      + rewrite replace_at_other in H by exact Ne. right. right. exact H. }
  split.
  - intros c l0 H. destruct (K c l0 H) as [[-> ->]|H']; [|exact (C c l0 H')]. rewrite E. apply chain_snoc; [exact (C col l Hl)|].
    intros y Hy. exact (proj2 (B col l Hl y Hy) (le_n _)).
  - intros c l0 H s Hs. destruct (K c l0 H) as [[-> ->]|H'].
    + split; [|lia]. rewrite E in Hs. apply in_app_or in Hs. destruct Hs as [Hs|[<-|[]]]; [exact (proj1 (B col l Hl s Hs))|apply sle_refl].
    + destruct (B c l0 H' s Hs) as [A1 A2]. split; [exact A1|intro; apply A2; lia].
Qed.

Lemma esnaps_head l so : esnaps (l ++ [(so, None)]) = esnaps l ++ [so].
Proof. rewrite esnaps_app. reflexivity. Qed.
Lemma esnaps_close l so : is_open l = true -> esnaps (close_last l so) = esnaps l ++ [so].
Proof. intro O. destruct (is_open_app l O) as (pre & h & ->). rewrite close_last_app, !esnaps_app, <- app_assoc. reflexivity. Qed.

Lemma read_char_order st so col c st' : read_char cf st so col c = Some st' -> Chain st -> ColBnd st so col ->
  Chain st' /\ ColBnd st' so (S col).
Proof.
  intros H C B. unfold read_char in H. unfold cf, ref_conf in H.
  cbn [k_hit k_mine k_hold_head k_roll_head k_roll_tail k_lift k_fake k_key k_max_keys] in H.
  assert (Simple : forall k, (if (Z.of_nat col <? 18)%Z then Some (mkNst ((k, Z.of_nat col, so) :: n_simple st) (n_holds st) (n_rolls st)) else None) = Some st' ->
                   Chain st' /\ ColBnd st' so (S col)).
  { intros k E. destruct (Z.of_nat col <? 18)%Z; [|discriminate]. inversion E; subst st'. apply (upd_same st); auto. }
  destruct (c =? 49)%Z; [exact (Simple _ H)|]. destruct (c =? 77)%Z; [exact (Simple _ H)|].
  destruct (c =? 50)%Z.
  { destruct (nth_error (n_holds st) col) as [l|] eqn:N; [|discriminate]. inversion H; subst st'.
    exact (upd_col st so col l _ true N (esnaps_head l so) C B). }
  destruct (c =? 52)%Z.
  { destruct (nth_error (n_rolls st) col) as [l|] eqn:N; [|discriminate]. inversion H; subst st'.
    exact (upd_col st so col l _ false N (esnaps_head l so) C B). }
  destruct (c =? 51)%Z.
  { destruct (nth_error (n_holds st) col) as [hl|] eqn:N1; [|discriminate]. destruct (nth_error (n_rolls st) col) as [rl|] eqn:N2; [|discriminate].
    destruct (is_open hl) eqn:O1.
    + inversion H; subst st'. exact (upd_col st so col hl _ true N1 (esnaps_close hl so O1) C B).
    + destruct (is_open rl) eqn:O2; [|discriminate]. inversion H; subst st'. exact (upd_col st so col rl _ false N2 (esnaps_close rl so O2) C B). }
  destruct (c =? 76)%Z; [exact (Simple _ H)|]. destruct (c =? 70)%Z; [exact (Simple _ H)|]. destruct (c =? 75)%Z; [exact (Simple _ H)|].
  inversion H; subst st'. apply (upd_same st); auto.
Qed.

Lemma read_row_order so : forall row col st st', read_row cf st so col row = Some st' -> Chain st -> ColBnd st so col ->
  Chain st' /\ exists col', ColBnd st' so col'.
Proof.
  induction row as [|c row IH]; intros col st st' H C B; cbn [read_row] in H.
  - inversion H; subst. split; [exact C|exists col; exact B].
  - destruct (c =? 48)%Z.
    + apply (IH (S col) st st' H C). intros c0 l Hl s Hs. destruct (B c0 l Hl s Hs) as [A1 A2]. split; [exact A1|intro; apply A2; lia].
    + destruct (read_char cf st so col c) as [st1|] eqn:R; [|discriminate].
      destruct (read_char_order st so col c st1 R C B) as [C1 B1]. exact (IH (S col) st1 st' H C1 B1).
Qed.

(* the position of row r of a measure of 4k rows *)
Definition pos (m k r : Z) : snap := snap_of_beat (Qred (inject_Z (4 * m) + inject_Z (4 * r) / inject_Z (4 * k))).

Lemma pos_lt m k r : (0 < k)%Z -> slt (pos m k r) (pos m k (r + 1)).
Proof.
  intro Hk. unfold pos. apply snap_lt_iff. rewrite snap_lt_beats. apply Qlt_bool_iff. rewrite !Qred_correct.
  assert (Hk' : 0 < inject_Z (4 * k)) by (change 0 with (inject_Z 0); rewrite <- Zlt_Qlt; lia).
  assert (E0 : inject_Z (4 * (r + 1)) == inject_Z (4 * r) + 4).
  { replace (4 * (r + 1))%Z with (4 * r + 4)%Z by lia. rewrite inject_Z_plus. reflexivity. }
  unfold Qdiv. set (i := / inject_Z (4 * k)). assert (Hi : 0 < i) by (apply Qinv_lt_0_compat; exact Hk').
  rewrite E0. assert (R : (inject_Z (4 * r) + 4) * i == inject_Z (4 * r) * i + 4 * i) by ring. rewrite R. lra.
Qed.
Lemma pos_next m k k' : (0 < k)%Z -> (0 < k')%Z -> pos m k (4 * k) = pos (m + 1) k' 0.
Proof.
  intros Hk Hk'. unfold pos. f_equal. apply Qred_complete.
  assert (H1 : 0 < inject_Z (4 * k)) by (change 0 with (inject_Z 0); rewrite <- Zlt_Qlt; lia).
  assert (H2 : 0 < inject_Z (4 * k')) by (change 0 with (inject_Z 0); rewrite <- Zlt_Qlt; lia).
  assert (E0 : inject_Z (4 * (m + 1)) == inject_Z (4 * m) + 4).
  { replace (4 * (m + 1))%Z with (4 * m + 4)%Z by lia. rewrite inject_Z_plus. reflexivity. }
  assert (E1 : inject_Z (4 * (4 * k)) == 4 * inject_Z (4 * k)) by (rewrite (inject_Z_mult 4 (4 * k)); reflexivity).
  rewrite E0, E1. change (inject_Z (4 * 0)) with 0. unfold Qdiv. rewrite Qmult_0_l. set (d := inject_Z (4 * k)) in *.
  assert (R : 4 * d * / d == 4) by (field; lra). rewrite R. ring.
Qed.

Definition RowStart (st : nst) (so : snap) : Prop := ColBnd st so 0.
Lemma row_next st so so' col : ColBnd st so col -> slt so so' -> RowStart st so'.
Proof.
  intros B L c l Hl s Hs. destruct (B c l Hl s Hs) as [A _].
  assert (slt s so') by (eapply sle_slt_trans; eassumption). split; [apply slt_sle; exact H|intros _; exact H].
Qed.

Lemma rows_flat_order m k : (0 <= m)%Z -> (0 < k)%Z -> forall rows r st st', (0 <= r)%Z -> (r + Z.of_nat (length rows) <= 4 * k)%Z ->
  Chain st -> RowStart st (pos m k r) -> read_rows_flat tbl types st m k r rows = Some st' ->
  Chain st' /\ RowStart st' (pos m k (r + Z.of_nat (length rows))).
Proof.
  intros Hm Hk. induction rows as [|row rows IH]; intros r st st' Hr L C B H.
  - cbn in H. inversion H; subst. cbn [length]. rewrite Z.add_0_r. auto.
  - cbn [length] in L. cbn [read_rows_flat] in H. rewrite (row_snap 0%nat (Nat.le_0_l 18) m k r Hm Hk ltac:(lia)) in H. fold (pos m k r) in H.
    match type of H with match ?X with _ => _ end = _ => destruct X as [st1|] eqn:R end; [|discriminate].
    change (read_row cf st (pos m k r) 0 row = Some st1) in R.
    destruct (read_row_order (pos m k r) row 0%nat st st1 R C B) as [C1 [col' B1]].
    destruct (IH (r + 1)%Z st1 st' ltac:(lia) ltac:(lia) C1 (row_next st1 _ _ col' B1 (pos_lt m k r Hk)) H) as [C2 B2].
    split; [exact C2|]. cbn [length]. replace (r + Z.of_nat (S (length rows)))%Z with (r + 1 + Z.of_nat (length rows))%Z by lia. exact B2.
Qed.

Definition fourk (rows : list text) : Prop := exists k, (0 < k)%Z /\ Z.of_nat (length rows) = (4 * k)%Z.

Lemma measures_order : forall ms m st st', (0 <= m)%Z -> Forall fourk (map measure_rows ms) ->
  Chain st -> (forall k, (0 < k)%Z -> RowStart st (pos m k 0)) -> read_measures cf st m ms = Some st' -> Chain st'.
Proof.
  induction ms as [|mt ms IH]; intros m st st' Hm F C B H; cbn [read_measures] in H.
  - inversion H; subst. exact C.
  - cbn [map] in F. inversion F as [|? ? (k & Hk & Lk) F']; subst.
    unfold cf in H. rewrite (read_measure_flat tbl types 0%nat (Nat.le_0_l 18) st m (measure_rows mt) k Hk Lk) in H.
    match type of H with match ?X with _ => _ end = _ => destruct X as [st1|] eqn:R end; [|discriminate].
    destruct (rows_flat_order m k Hm Hk (measure_rows mt) 0%Z st st1 ltac:(lia) ltac:(lia) C (B k Hk) R) as [C1 B1].
    apply (IH (m + 1)%Z st1 st' ltac:(lia) F' C1); [|exact H]. intros k' Hk'. rewrite Z.add_0_l, Lk in B1. rewrite <- (pos_next m k k' Hk Hk'). exact B1.
Qed.

Lemma chain_init : let st := mkNst [] (repeat [] 18) (repeat [] 18) in Chain st /\ forall so, RowStart st so.
Proof.
  cbn zeta. assert (E : forall c l, in_col (mkNst [] (repeat [] 18) (repeat [] 18)) c l -> l = []).
  { intros c l [H|H]; cbn [n_holds n_rolls] in H; apply nth_error_In, repeat_spec in H; exact H. }
  split.
  - intros c l H. rewrite (E c l H). exact I.
  - intros so c l H s Hs. rewrite (E c l H) in Hs. destruct Hs.
Qed.
End Order.

(* ------------------------------------------------------------------ row counts of the reference's measures *)
Lemma denote_measures_suffix keysZ time ms : forall m op acc ns op' acc' ns',
  denote_measures ms keysZ m time op acc ns = Some (op', acc', ns') -> exists pre, ns' = pre ++ ns.
Proof.
  induction ms as [|mt ms IH]; intros m op acc ns op' acc' ns' D.
  - cbn in D. inversion D; subst. exists []. reflexivity.
  - cbn [denote_measures] in D. fold (rowsD mt) in D. destruct (rowsD mt) as [|r0 rs] eqn:ER; [discriminate|].
    destruct (denote_rows _ _ _ _ _ _ _ _) as [[op1 acc1]|]; [|discriminate].
    destruct (IH _ _ _ _ _ _ _ D) as [pre E]. exists (pre ++ [Z.of_nat (length (r0 :: rs))]). rewrite E, <- app_assoc. reflexivity.
Qed.
Lemma denote_measures_fourk keysZ time : forall ms m op acc ns op' acc' ns',
  denote_measures ms keysZ m time op acc ns = Some (op', acc', ns') -> Forall (fun n => (n mod 4 = 0)%Z) ns' ->
  Forall fourk (map rowsD ms).
Proof.
  induction ms as [|mt ms IH]; intros m op acc ns op' acc' ns' D F; [constructor|].
  cbn [denote_measures] in D. fold (rowsD mt) in D. cbn [map]. destruct (rowsD mt) as [|r0 rs] eqn:ER; [discriminate|]. cbv zeta in D.
  match type of D with match ?X with _ => _ end = _ => destruct X as [[op1 acc1]|] eqn:DR end; [|discriminate].
  destruct (denote_measures_suffix keysZ time _ _ _ _ _ _ _ _ D) as [pre En].
  constructor; [|exact (IH _ _ _ _ _ _ _ D F)].
  rewrite En in F. apply Forall_app in F. destruct F as [_ F]. inversion F as [|? ? N4 _]; subst.
  exists (Z.of_nat (length (r0 :: rs)) / 4)%Z. pose proof (proj2 (Z.div_exact (Z.of_nat (length (r0 :: rs))) 4 ltac:(lia)) N4) as E4.
  assert (0 < Z.of_nat (length (r0 :: rs)))%Z by (cbn [length]; lia). split; lia.
Qed.

(* ------------------------------------------------------------------ comparable keys *)
Definition Pq4 (s : snap) : Prop := (0 <= s_m s)%Z /\ 0 <= s_b s /\ s_b s < 4.

Lemma simple_cmp (l : list note4) :
  (forall x, In x l -> Qred (snd (fst x)) = snd (fst x) /\ snd x = 0) -> forall x y, In x l -> In y l -> cmp_ok note4_lt x y.
Proof.
  intros H x y Hx Hy. destruct (H x Hx) as [Cx Zx]. destruct (H y Hy) as [Cy Zy].
  destruct x as [[c1 t1] n1], y as [[c2 t2] n2]. cbn [fst snd] in *. subst n1 n2. unfold cmp_ok.
  destruct (Z.lt_trichotomy c1 c2) as [L|[E|L]].
  - right. left. apply note4_lt_iff. left. exact L.
  - subst c2. destruct (Q_dec t1 t2) as [[L|L]|E].
    + right. left. apply note4_lt_iff. right. auto.
    + right. right. apply note4_lt_iff. right. auto.
    + left. rewrite <- Cx, <- Cy, (Qred_complete _ _ E). reflexivity.
  - right. right. apply note4_lt_iff. left. exact L.
Qed.

Section Cmp.
Variables (init : Q) (script : list bcs).
Hypothesis Hinc : match script with c :: rest => increasing c rest | [] => False end.
Hypothesis Hnode : forall c, In c script -> nodeQ c /\ bs_met c = 4.
Hypothesis Hhead : match script with c :: _ => s_m (bs_snap c) = 0%Z /\ s_b (bs_snap c) == 0 | [] => False end.
Let tauf := tau init script.

Lemma tau_mono a b : Pq4 a -> Pq4 b -> slt a b -> tauf a < tauf b.
Proof.
  intros (A0 & A1 & A2) (B0 & B1 & B2) L. unfold tauf, tau. rewrite !Qred_correct.
  destruct script as [|c rest] eqn:Es; [destruct Hinc|]. cbn [time_of].
  apply time_of_go_mono; auto.
  - apply Hnode. left. reflexivity.
  - intros c0 Hc. apply Hnode. right. exact Hc.
  - intros c0 Hc. destruct (Hnode c0 Hc) as [_ M]. rewrite M. auto.
  - destruct Hhead as [M0 B0']. unfold sle. rewrite M0. destruct (Z.eq_dec (s_m a) 0) as [E|N]; [right; split; [symmetry; exact E|rewrite B0'; exact A1]|left; lia].
Qed.

Lemma in_flat_cols k ll : forall a n, In n (flat_cols tauf k a ll) ->
  exists i l h t, nth_error ll i = Some l /\ In (h, Some t) l /\ n = mkDn k (Z.of_nat (a + i)) (tauf h) (Qred (tauf t - tauf h)).
Proof.
  induction ll as [|l ll IH]; intros a n H; [destruct H|]. cbn [flat_cols] in H. apply in_app_or in H. destruct H as [H|H].
  - unfold contrib in H. apply in_flat_map in H. destruct H as ([h [t|]] & He & Hn); [|destruct Hn]. destruct Hn as [<-|[]].
    exists 0%nat, l, h, t. rewrite Nat.add_0_r. auto.
  - destruct (IH (S a) n H) as (i & l0 & h & t & N & He & En). exists (S i), l0, h, t. replace (a + S i)%nat with (S a + i)%nat by lia. auto.
Qed.

Lemma chain_entries l h1 t1 h2 t2 : chain (esnaps l) -> In (h1, Some t1) l -> In (h2, Some t2) l ->
  (h1, t1) = (h2, t2) \/ slt h1 h2 \/ slt h2 h1.
Proof.
  induction l as [|[h [t|]] l IH]; intros C H1 H2; [destruct H1| |].
  - change (esnaps ((h, Some t) :: l)) with (h :: t :: esnaps l) in C. destruct C as [C1 [C2 C3]].
    assert (R : forall h' t', In (h', Some t') l -> slt h h').
    { intros h' t' K. apply C1. right. unfold esnaps. apply in_flat_map. exists (h', Some t'). split; [exact K|left; reflexivity]. }
    destruct H1 as [H1|H1], H2 as [H2|H2].
    + inversion H1; inversion H2; subst. left. reflexivity.
    + inversion H1; subst. right. left. exact (R _ _ H2).
    + inversion H2; subst. right. right. exact (R _ _ H1).
    + exact (IH C3 H1 H2).
  - change (esnaps ((h, None) :: l)) with (h :: esnaps l) in C. destruct C as [_ C3].
    destruct H1 as [H1|H1]; [discriminate|]. destruct H2 as [H2|H2]; [discriminate|]. exact (IH C3 H1 H2).
Qed.

Theorem long_cmp k ll : (forall i l, nth_error ll i = Some l -> chain (esnaps l)) ->
  (forall i l s, nth_error ll i = Some l -> In s (esnaps l) -> Pq4 s) ->
  forall x y, In x (map to4 (flat_cols tauf k 0 ll)) -> In y (map to4 (flat_cols tauf k 0 ll)) -> cmp_ok note4_lt x y.
Proof.
  intros C P x y Hx Hy. apply in_map_iff in Hx, Hy. destruct Hx as (nx & <- & Hx). destruct Hy as (ny & <- & Hy).
  destruct (in_flat_cols k ll 0 nx Hx) as (i1 & l1 & h1 & t1 & N1 & E1 & ->). destruct (in_flat_cols k ll 0 ny Hy) as (i2 & l2 & h2 & t2 & N2 & E2 & ->).
  unfold to4. cbn [dn_col dn_time dn_len Nat.add]. unfold cmp_ok.
  destruct (Nat.lt_trichotomy i1 i2) as [L|[E|L]].
  - right. left. apply note4_lt_iff. left. lia.
  - subst i2. rewrite N1 in N2. inversion N2; subst l2.
    assert (Ph : forall h t, In (h, Some t) l1 -> Pq4 h).
    { intros h t K. apply (P i1 l1 h N1). unfold esnaps. apply in_flat_map. exists (h, Some t). split; [exact K|left; reflexivity]. }
    destruct (chain_entries l1 h1 t1 h2 t2 (C i1 l1 N1) E1 E2) as [E|[L|L]].
    + inversion E; subst. left. reflexivity.
    + right. left. apply note4_lt_iff. right. split; [reflexivity|]. apply tau_mono; eauto.
    + right. right. apply note4_lt_iff. right. split; [reflexivity|]. apply tau_mono; eauto.
  - right. right. apply note4_lt_iff. left. lia.
Qed.
End Cmp.
