(* C18 — proofs about the model of hitsound_copy (Algo/HitsoundCopy.v) and its specification
   (Algo/HitsoundCopySpec.v). *)
From Coq Require Import ZArith List Bool Arith Lia Permutation.
From RV Require Import Algo.HitsoundCopy Algo.HitsoundCopySpec.
Import ListNotations.
Open Scope Z_scope.

(* ================================================================== generic multiset facts *)
Section MS.
  Context {A : Type}.
  Variable eqb : A -> A -> bool.
  Hypothesis eqb_eq : forall a b, eqb a b = true <-> a = b.

  Lemma eqb_refl' : forall a, eqb a a = true.
  Proof. intro a. apply eqb_eq. reflexivity. Qed.

  Lemma count_app : forall a l1 l2, count eqb a (l1 ++ l2) = (count eqb a l1 + count eqb a l2)%nat.
  Proof. induction l1; simpl; intros; [reflexivity | rewrite IHl1; lia]. Qed.

  Lemma count_notin : forall a l, ~ In a l -> count eqb a l = O.
  Proof.
    induction l; simpl; intros; [reflexivity|].
    destruct (eqb a a0) eqn:E.
    - apply eqb_eq in E. subst. exfalso. apply H. now left.
    - rewrite IHl; [reflexivity | intro; apply H; now right].
  Qed.

  Lemma count_in_pos : forall a l, In a l -> (1 <= count eqb a l)%nat.
  Proof.
    induction l; simpl; intros; [contradiction|].
    destruct H as [->|H]; [rewrite eqb_refl'; lia | specialize (IHl H); lia].
  Qed.

  Lemma msubb_sound : forall l1 l2, msubb eqb l1 l2 = true -> msub eqb l1 l2.
  Proof.
    intros l1 l2 H a. unfold msubb in H. rewrite forallb_forall in H.
    destruct (in_dec (fun x y => match bool_dec (eqb x y) true with
                                 | left e => left (proj1 (eqb_eq x y) e)
                                 | right n => right (fun e => n (proj2 (eqb_eq x y) e)) end) a l1) as [I|N].
    - apply H in I. now apply Nat.leb_le in I.
    - rewrite (count_notin _ _ N). lia.
  Qed.

  Lemma msubb_complete : forall l1 l2, msub eqb l1 l2 -> msubb eqb l1 l2 = true.
  Proof. intros l1 l2 H. unfold msubb. apply forallb_forall. intros a _. apply Nat.leb_le. apply H. Qed.

  Lemma meqb_sound : forall l1 l2, meqb eqb l1 l2 = true -> meq eqb l1 l2.
  Proof.
    intros l1 l2 H a. unfold meqb in H. apply andb_prop in H as [H1 H2].
    pose proof (msubb_sound _ _ H1 a). pose proof (msubb_sound _ _ H2 a). lia.
  Qed.

  Lemma count_perm : forall a l1 l2, Permutation l1 l2 -> count eqb a l1 = count eqb a l2.
  Proof. induction 1; simpl; lia. Qed.

  Lemma count_filter_split : forall a (f : A -> bool) l,
    count eqb a (filter f l ++ filter (fun x => negb (f x)) l) = count eqb a l.
  Proof.
    intros a f l. rewrite count_app. induction l; simpl; [reflexivity|].
    destruct (f a0); simpl; lia.
  Qed.
End MS.

(* ================================================================== the equality tests decide equality *)
Lemma list_eqb_eq : forall a b, list_eqb a b = true <-> a = b.
Proof.
  induction a; destruct b; simpl; split; intro H; try reflexivity; try discriminate.
  - apply andb_prop in H as [H1 H2]. apply Z.eqb_eq in H1. apply IHa in H2. now subst.
  - inversion H; subst. rewrite Z.eqb_refl. simpl. now apply IHa.
Qed.

Lemma opt_eqb_eq : forall a b, opt_eqb a b = true <-> a = b.
Proof.
  destruct a, b; simpl; split; intro H; try reflexivity; try discriminate.
  - apply Z.eqb_eq in H. now subst.
  - inversion H. apply Z.eqb_refl.
Qed.

Lemma ident_eqb_eq : forall a b, ident_eqb a b = true <-> a = b.
Proof.
  intros [[[t1 c1] l1] k1] [[[t2 c2] l2] k2]. unfold ident_eqb. split; intro H.
  - repeat (apply andb_prop in H as [H ?]). apply Z.eqb_eq in H. apply Z.eqb_eq in H2.
    apply opt_eqb_eq in H1. apply Bool.eqb_prop in H0. now subst.
  - inversion H; subst. rewrite !Z.eqb_refl. rewrite (proj2 (opt_eqb_eq l2 l2) eq_refl). rewrite Bool.eqb_reflx. reflexivity.
Qed.

Lemma atom_eqb_eq : forall a b, atom_eqb a b = true <-> a = b.
Proof.
  intros [[[t1 k1] p1] v1] [[[t2 k2] p2] v2]. unfold atom_eqb. split; intro H.
  - repeat (apply andb_prop in H as [H ?]). apply Z.eqb_eq in H. apply Z.eqb_eq in H2.
    apply list_eqb_eq in H1. apply Z.eqb_eq in H0. now subst.
  - inversion H; subst. rewrite !Z.eqb_refl. rewrite (proj2 (list_eqb_eq p2 p2) eq_refl). reflexivity.
Qed.

(* ================================================================== specb is sound *)
Lemma at_time_nil : forall t l, ~ In t (map hn_off l) -> at_time t l = [].
Proof.
  intros t l. unfold at_time. induction l; simpl; intros; [reflexivity|].
  destruct (hn_off a =? t) eqn:E.
  - apply Z.eqb_eq in E. exfalso. apply H. now left.
  - apply IHl. intro. apply H. now right.
Qed.

Lemma atoms_at_flat_nil : forall t (h : hnote -> list atom) l,
  (forall r a, In a (h r) -> atom_time a = hn_off r) ->
  ~ In t (map hn_off l) -> atoms_at t (flat_map h l) = [].
Proof.
  intros t h l Hh. unfold atoms_at. induction l; simpl; intros; [reflexivity|].
  rewrite filter_app. rewrite IHl by (intro; apply H; now right). rewrite app_nil_r.
  assert (hn_off a <> t) by (intro; apply H; now left).
  clear - Hh H0. specialize (Hh a). induction (h a) as [|x xs IH]; simpl; [reflexivity|].
  rewrite IH by (intros; apply Hh; now right).
  pose proof (Hh x (or_introl eq_refl)) as E. rewrite E.
  destruct (hn_off a =? t) eqn:E2; [apply Z.eqb_eq in E2; contradiction | reflexivity].
Qed.

Lemma bit_atoms_time : forall bits r a, In a (bit_atoms bits r) -> atom_time a = hn_off r.
Proof. intros bits r a H. unfold bit_atoms in H. apply in_map_iff in H as [b [<- _]]. reflexivity. Qed.
Lemma file_atoms_time : forall r a, In a (file_atoms r) -> atom_time a = hn_off r.
Proof. intros r a H. unfold file_atoms in H. destruct (name_empty (hn_file r)); simpl in H; [contradiction|]. destruct H as [<-|[]]. reflexivity. Qed.

Lemma bounded_at_absent : forall src tgt out t,
  ~ In t (times src) -> ~ In t (times out) -> bounded_at src tgt out t.
Proof.
  intros src tgt out t Hs Ho. unfold bounded_at, nsounding, demand, times in *.
  rewrite (at_time_nil _ _ Ho). rewrite (at_time_nil _ _ Hs). simpl. split; [reflexivity|].
  intros _ a. unfold copy_atoms. rewrite atoms_at_flat_nil; [simpl; lia | | exact Hs].
  intros r a' H. apply in_app_or in H as [H|H]; [eapply bit_atoms_time | eapply file_atoms_time]; eauto.
Qed.

Theorem specb_sound : forall src tgt out, specb src tgt out = true -> Spec src tgt out.
Proof.
  intros src tgt out H. unfold specb in H.
  apply andb_prop in H as [H Hn]. apply andb_prop in H as [H Hb]. apply andb_prop in H as [Hp Hi].
  constructor.
  - apply (meqb_sound _ ident_eqb_eq). exact Hp.
  - unfold no_inventionb in Hi. apply andb_prop in Hi as [Hi1 Hi2]. split; [|exact Hi2].
    apply (msubb_sound _ atom_eqb_eq). exact Hi1.
  - intro t. unfold boundedb in Hb. rewrite forallb_forall in Hb.
    destruct (in_dec Z.eq_dec t (times src ++ times tgt ++ times out)) as [I|N].
    + apply Hb in I. unfold bounded_atb in I. apply andb_prop in I as [I1 I2]. split.
      * now apply Nat.eqb_eq in I1.
      * intro Hle. apply orb_prop in I2 as [I2|I2].
        -- apply negb_true_iff in I2. apply Nat.leb_gt in I2. lia.
        -- apply (msubb_sound _ atom_eqb_eq). exact I2.
    + apply bounded_at_absent; intro; apply N; rewrite !in_app_iff; auto.
  - apply (msubb_sound _ atom_eqb_eq). exact Hn.
Qed.

(* and complete: the oracle fails only on a genuine violation of the declarative specification *)
Theorem specb_complete : forall src tgt out, Spec src tgt out -> specb src tgt out = true.
Proof.
  intros src tgt out [Hp [Hi1 Hi2] Hb Hn]. unfold specb.
  apply andb_true_intro; split; [apply andb_true_intro; split; [apply andb_true_intro; split|]|].
  - unfold notes_preservedb, meqb. apply andb_true_intro; split; apply msubb_complete; intro a; rewrite (Hp a); lia.
  - unfold no_inventionb. apply andb_true_intro; split; [now apply msubb_complete | exact Hi2].
  - unfold boundedb. apply forallb_forall. intros t _. destruct (Hb t) as [B1 B2]. unfold bounded_atb.
    apply andb_true_intro; split; [now apply Nat.eqb_eq|].
    destruct (demand src t <=? nnotes tgt t)%nat eqn:E; simpl; [|reflexivity].
    apply Nat.leb_le in E. apply msubb_complete. now apply B2.
  - now apply msubb_complete.
Qed.

(* ================================================================== sort_values: any validated order is a permutation *)
Lemma count_nat_pos_in : forall i p, (1 <= count_nat i p)%nat -> In i p.
Proof.
  induction p; simpl; intros; [lia|].
  destruct (Nat.eqb i a) eqn:E; [apply Nat.eqb_eq in E; now left | right; apply IHp; lia].
Qed.

Lemma perm_ok_Permutation : forall p n, perm_ok p n = true -> Permutation (seq 0 n) p.
Proof.
  intros p n H. unfold perm_ok in H. apply andb_prop in H as [H1 H2]. apply Nat.eqb_eq in H1.
  rewrite forallb_forall in H2.
  apply NoDup_Permutation_bis.
  - apply seq_NoDup.
  - rewrite seq_length. lia.
  - intros i Hi. apply H2 in Hi. apply Nat.eqb_eq in Hi. apply count_nat_pos_in. lia.
Qed.

Lemma map_nth_seq : forall (l : list hnote) d, map (fun i => nth i l d) (seq 0 (length l)) = l.
Proof.
  induction l; simpl; intros; [reflexivity|]. f_equal.
  rewrite <- seq_shift, map_map. apply IHl.
Qed.

Lemma sort_with_Permutation : forall p l s, sort_with p l = Some s -> Permutation l s.
Proof.
  intros p l s H. unfold sort_with in H.
  destruct (perm_ok p (length l)) eqn:E; simpl in H; [|discriminate].
  destruct (sortedb (apply_perm p l)); [|discriminate]. inversion H; subst. clear H.
  apply perm_ok_Permutation in E. unfold apply_perm.
  rewrite <- (map_nth_seq l dummy) at 1. now apply Permutation_map.
Qed.

(* ================================================================== notes are never touched *)
Definition ident_of (r : hnote) : ident := (hn_off r, hn_col r, hn_len r, negb (is_hit r)).

Lemma do_write_ident : forall w r, ident_of (do_write w r) = ident_of r.
Proof. destruct w; reflexivity. Qed.

Lemma apply_at_ident : forall off df ws, map ident_of (apply_at off ws df) = map ident_of df.
Proof.
  induction df; simpl; intros; [reflexivity|].
  destruct (hn_off a =? off).
  - destruct ws; simpl; [reflexivity|]. now rewrite do_write_ident, IHdf.
  - simpl. now rewrite IHdf.
Qed.

Lemma run_groups_ident : forall ogs st, map ident_of (fst (run_groups ogs st)) = map ident_of (fst st).
Proof.
  induction ogs; simpl; intros; [reflexivity|].
  rewrite IHogs. destruct st as [df smp]. destruct a as [off g]. unfold step.
  destruct (plan_groups off (group_by hn_vol g) (slots_at off df)) as [ws ss]. simpl. apply apply_at_ident.
Qed.

Lemma idents_tgt : forall tgt, forallb (fun r => is_some (hn_len r)) (hm_holds tgt) = true ->
  idents tgt = map ident_of (notes_df tgt).
Proof.
  intros tgt H. unfold idents, notes_df. rewrite map_app, map_map. f_equal.
  rewrite forallb_forall in H. apply map_ext_in. intros r Hr. apply H in Hr.
  unfold ident_of, is_hit. destruct (hn_len r); [reflexivity | discriminate].
Qed.

Lemma idents_out : forall df smp,
  idents (mkM (filter is_hit df) (filter (fun r => negb (is_hit r)) df) smp)
  = map ident_of (filter is_hit df) ++ map ident_of (filter (fun r => negb (is_hit r)) df).
Proof.
  intros. unfold idents. simpl. f_equal; apply map_ext_in; intros r Hr; apply filter_In in Hr as [_ Hr];
    unfold ident_of, is_hit in *; destruct (hn_len r); simpl in *; try discriminate; reflexivity.
Qed.

(* THE RESULT HAS EXACTLY THE TARGET'S NOTES — for all pairs of charts and every tie order of the two sorts. *)
Theorem hs_notes_preserved : forall psrc ptgt src tgt out,
  forallb (fun r => is_some (hn_len r)) (hm_holds tgt) = true ->
  hitsound_copy psrc ptgt src tgt = Some out ->
  notes_preserved tgt out.
Proof.
  intros psrc ptgt src tgt out Hwf H. unfold hitsound_copy in H.
  destruct (sort_with psrc (filter loud (notes_df src))) as [s|]; [|discriminate].
  destruct (sort_with ptgt (notes_df tgt)) as [df|] eqn:Ed; [|discriminate].
  destruct (run_groups (group_by hn_off s) (df, [])) as [df' smp] eqn:Er. inversion H; subst; clear H.
  intro a. rewrite idents_out, (idents_tgt _ Hwf).
  rewrite <- map_app.
  assert (Hp : Permutation (filter is_hit df' ++ filter (fun r => negb (is_hit r)) df') df').
  { clear. induction df'; simpl; [constructor|]. destruct (is_hit a); simpl.
    - now constructor.
    - apply Permutation_sym, Permutation_cons_app, Permutation_sym, IHdf'. }
  rewrite (count_perm _ a _ _ (Permutation_map ident_of Hp)).
  pose proof (run_groups_ident (group_by hn_off s) (df, [])) as Hi. rewrite Er in Hi. simpl in Hi. rewrite Hi.
  apply sort_with_Permutation in Ed. symmetry.
  apply count_perm. now apply Permutation_map.
Qed.

(* ================================================================== the unguarded statements are false of the faithful model *)
Definition w_note (t c hs v : Z) (f : name) : hnote := mkN t c None hs 0 0 0 v f.

(* three named samples of one volume at one time, one target note: one is placed, one becomes an event
   sample, the third is lost (the `break` in the file loop) *)
Definition w1_src := mkM [w_note 0 0 0 30 [1]; w_note 0 1 0 30 [2]; w_note 0 2 0 30 [3]] [] [].
Definition w1_tgt := mkM [w_note 0 0 0 0 [0]] [] [].

Theorem hs_named_conserved_refuted :
  exists psrc ptgt src tgt out,
    wf src tgt = true /\ tgt_silent tgt = true /\ no_semicolon src = true /\
    hitsound_copy psrc ptgt src tgt = Some out /\ ~ named_conserved src out.
Proof.
  exists [0;1;2]%nat, [0]%nat, w1_src, w1_tgt.
  eexists. do 4 (split; [vm_compute; reflexivity|]).
  intro H. apply (msubb_complete atom_eqb) in H. vm_compute in H. discriminate.
Qed.

(* a target that carries sounds of its own keeps them: the result sounds a whistle and "t.wav" (file id 9)
   that the source never had *)
Definition w2_src := mkM [w_note 8 0 2 30 [0]] [] [].
Definition w2_tgt := mkM [w_note 8 0 8 44 [9]; w_note 16 0 4 0 [0]] [] [].

Theorem hs_no_invention_refuted :
  exists psrc ptgt src tgt out,
    wf src tgt = true /\ no_semicolon src = true /\ no_multi_overflow src tgt = true /\
    hitsound_copy psrc ptgt src tgt = Some out /\ ~ no_invention src out.
Proof.
  exists [0]%nat, [0;1]%nat, w2_src, w2_tgt.
  eexists. do 4 (split; [vm_compute; reflexivity|]).
  intros [H _]. apply (msubb_complete atom_eqb) in H. vm_compute in H. discriminate.
Qed.

(* a file name with ';' ("a;b" = [1;2]) is cut in two: neither piece was in the source, the name itself is lost *)
Definition w3_src := mkM [w_note 8 0 0 5 [1; 2]] [] [].
Definition w3_tgt := mkM [w_note 8 0 0 0 [0]; w_note 8 1 0 0 [0]] [] [].

Theorem hs_semicolon_refuted :
  exists psrc ptgt src tgt out,
    wf src tgt = true /\ tgt_silent tgt = true /\ no_multi_overflow src tgt = true /\
    hitsound_copy psrc ptgt src tgt = Some out /\ ~ no_invention src out /\ ~ named_conserved src out.
Proof.
  exists [0]%nat, [0;1]%nat, w3_src, w3_tgt.
  eexists. do 4 (split; [vm_compute; reflexivity|]). split.
  - intros [H _]. apply (msubb_complete atom_eqb) in H. vm_compute in H. discriminate.
  - intro H. apply (msubb_complete atom_eqb) in H. vm_compute in H. discriminate.
Qed.

(* ================================================================== the slot rule (one time, its volume groups) *)
Definition nb (b : Z) (ws : list write) : nat :=
  length (filter (fun w => match w with WBits val _ => Z.land val b =? b | WFile _ _ => false end) ws).
Definition wfile_pairs (ws : list write) : list (Z * Z) :=
  flat_map (fun w => match w with WFile f v => [(f, v)] | WBits _ _ => [] end) ws.
Definition sample_pairs (ss : list hsample) : list (Z * Z) := map (fun s => (hd 0 (hs_file s), hs_vol s)) ss.
Definition group_pairs (vgs : list (Z * list hnote)) : list (Z * Z) :=
  flat_map (fun vg => map (fun f => (f, fst vg)) (group_files (snd vg))) vgs.
Definition need (g : list hnote) : nat :=
  (Nat.max (count_bit 2 g) (Nat.max (count_bit 4 g) (count_bit 8 g)) + length (group_files g))%nat.
Definition total_need (vgs : list (Z * list hnote)) : nat := fold_right Nat.add O (map (fun vg => need (snd vg)) vgs).
Definition total_bit (b : Z) (vgs : list (Z * list hnote)) : nat :=
  fold_right Nat.add O (map (fun vg => count_bit b (snd vg)) vgs).

Lemma nb_app : forall b w1 w2, nb b (w1 ++ w2) = (nb b w1 + nb b w2)%nat.
Proof. intros. unfold nb. now rewrite filter_app, app_length. Qed.
Lemma wfile_pairs_app : forall w1 w2, wfile_pairs (w1 ++ w2) = wfile_pairs w1 ++ wfile_pairs w2.
Proof. intros. unfold wfile_pairs. now rewrite flat_map_app. Qed.

Lemma val_bits : forall (c f w : bool),
  let val := (if c then 2 else 0) + (if f then 4 else 0) + (if w then 8 else 0) in
  (Z.land val 2 =? 2) = c /\ (Z.land val 4 =? 4) = f /\ (Z.land val 8 =? 8) = w.
Proof. destruct c, f, w; vm_compute; auto. Qed.

(* the default loop: min(k, free) notes are written; bit b is written min(count, free) times; nothing but WBits *)
Lemma default_loop_spec : forall k c f w free vol ws fr,
  default_loop k c f w free vol = (ws, fr) ->
  length ws = Nat.min k free /\ fr = (free - length ws)%nat /\ wfile_pairs ws = [] /\
  nb 2 ws = Nat.min (Nat.min k free) c /\ nb 4 ws = Nat.min (Nat.min k free) f /\ nb 8 ws = Nat.min (Nat.min k free) w.
Proof.
  induction k; simpl; intros c f w free vol ws fr H.
  - inversion H; subst. simpl. repeat split; try reflexivity; lia.
  - destruct free.
    + inversion H; subst. simpl. repeat split; try reflexivity; lia.
    + destruct (default_loop k (Nat.pred c) (Nat.pred f) (Nat.pred w) free vol) as [ws' fr'] eqn:E.
      inversion H; subst. clear H. specialize (IHk _ _ _ _ _ _ _ E) as (L & F & P & B2 & B4 & B8).
      destruct (val_bits (pos c) (pos f) (pos w)) as (V2 & V4 & V8).
      unfold nb in *. simpl. rewrite V2, V4, V8. rewrite L.
      repeat split; try lia; try assumption.
      * destruct c; simpl in *; lia.
      * destruct f; simpl in *; lia.
      * destruct w; simpl in *; lia.
Qed.

Lemma file_loop_len : forall files free off vol ws ss fr,
  file_loop files free off vol = (ws, ss, fr) ->
  length ws = Nat.min (length files) free /\ fr = (free - length ws)%nat /\ nb 2 ws = O /\ nb 4 ws = O /\ nb 8 ws = O.
Proof.
  induction files; simpl; intros free off vol ws ss fr H.
  - inversion H; subst. simpl. repeat split; lia.
  - destruct free.
    + inversion H; subst. simpl. repeat split; lia.
    + destruct (file_loop files free off vol) as [[ws' ss'] fr'] eqn:E. inversion H; subst. clear H.
      specialize (IHfiles _ _ _ _ _ _ E) as (L & F & B2 & B4 & B8). unfold nb in *. simpl. rewrite L. repeat split; try lia; assumption.
Qed.

(* when the files fit they are all written, in order, and nothing overflows *)
Lemma file_loop_fits : forall files free off vol, (length files <= free)%nat ->
  file_loop files free off vol = (map (fun x => WFile x (Z.max vol 0)) files, [], (free - length files)%nat).
Proof.
  induction files; simpl; intros; [now rewrite Nat.sub_0_r|].
  destruct free; [lia|]. rewrite IHfiles by lia. reflexivity.
Qed.

(* whatever happens, what is written or sampled is a prefix of the files: nothing is invented *)
Lemma file_loop_prefix : forall files free off vol ws ss fr, 0 <= vol ->
  file_loop files free off vol = (ws, ss, fr) ->
  exists rest, map (fun x => (x, vol)) files = wfile_pairs ws ++ sample_pairs ss ++ rest
               /\ (length rest <= length files - 1)%nat
               /\ (rest <> [] -> (fr = O /\ length ss = 1%nat)).
Proof.
  induction files; simpl; intros free off vol ws ss fr Hv H.
  - inversion H; subst. exists []. simpl. repeat split; try reflexivity; try lia; congruence.
  - destruct free.
    + inversion H; subst. exists (map (fun x => (x, vol)) files). simpl. rewrite map_length. repeat split; try reflexivity; lia.
    + destruct (file_loop files free off vol) as [[ws' ss'] fr'] eqn:E. inversion H; subst. clear H.
      destruct (IHfiles _ _ _ _ _ _ Hv E) as (rest & Eq & Len & Nz). exists rest. simpl.
      rewrite Z.max_l by lia. rewrite Eq. repeat split; try assumption; try reflexivity.
      all: try (simpl in *; lia). all: now apply Nz.
Qed.

Lemma wfile_pairs_map : forall files vol, wfile_pairs (map (fun x => WFile x vol) files) = map (fun x => (x, vol)) files.
Proof. induction files; simpl; intros; [reflexivity|]. now rewrite IHfiles. Qed.

Lemma perm_interleave : forall (a b c d e f : list (Z * Z)),
  Permutation ((a ++ b ++ c) ++ (d ++ e ++ f)) ((a ++ d) ++ (b ++ e) ++ (c ++ f)).
Proof.
  intros. rewrite <- !app_assoc. apply Permutation_app_head.
  transitivity (b ++ d ++ c ++ e ++ f).
  - apply Permutation_app_head. apply Permutation_app_swap_app.
  - transitivity (d ++ b ++ c ++ e ++ f).
    + apply Permutation_app_swap_app.
    + apply Permutation_app_head. apply Permutation_app_head. apply Permutation_app_swap_app.
Qed.

Definition spare (vgs : list (Z * list hnote)) : nat :=
  fold_right Nat.add O (map (fun vg => (length (group_files (snd vg)) - 1)%nat) vgs).

(* THE SLOT RULE, for one time and all its volume groups, every number of free notes. *)
Theorem plan_groups_spec : forall off vgs free ws ss,
  (forall vg, In vg vgs -> 0 <= fst vg) ->
  plan_groups off vgs free = (ws, ss) ->
  (* as many notes are written as the sounds need, or all of them *)
  length ws = Nat.min (total_need vgs) free
  (* never more claps / finishes / whistles than the groups have; all of them when everything fits *)
  /\ (nb 2 ws <= total_bit 2 vgs /\ nb 4 ws <= total_bit 4 vgs /\ nb 8 ws <= total_bit 8 vgs)%nat
  /\ ((total_need vgs <= free)%nat ->
        nb 2 ws = total_bit 2 vgs /\ nb 4 ws = total_bit 4 vgs /\ nb 8 ws = total_bit 8 vgs)
  (* every (file, volume) written or sampled comes from the groups; what is lost ([rest]) is bounded by the
     files beyond the first of each group, and is nothing when everything fits (then nothing is sampled either) *)
  /\ exists rest, Permutation (group_pairs vgs) (wfile_pairs ws ++ sample_pairs ss ++ rest)
                  /\ (length rest <= spare vgs)%nat
                  /\ ((total_need vgs <= free)%nat -> rest = [] /\ ss = []).
Proof.
  induction vgs as [|[vol g] vgs IH]; intros free ws ss Hv H.
  - simpl in H. inversion H; subst. unfold total_need, total_bit, nb. simpl. split; [reflexivity|]. split; [lia|]. split; [intros; lia|].
    exists []. simpl. repeat split; auto.
  - simpl in H.
    destruct (default_loop _ (count_bit 2 g) (count_bit 4 g) (count_bit 8 g) free vol) as [w1 free1] eqn:E1.
    destruct (file_loop (group_files g) free1 off vol) as [[w2 s2] free2] eqn:E2.
    destruct (plan_groups off vgs free2) as [w3 s3] eqn:E3.
    inversion H; subst; clear H.
    assert (Hvol : 0 <= vol) by (apply (Hv (vol, g)); now left).
    apply default_loop_spec in E1 as (L1 & F1 & P1 & B2 & B4 & B8).
    pose proof (file_loop_len _ _ _ _ _ _ _ E2) as (L2 & F2 & C2 & C4 & C8).
    destruct (file_loop_prefix _ _ _ _ _ _ _ Hvol E2) as (rest2 & Eq2 & Len2 & Nz2).
    destruct (IH free2 w3 s3 (fun vg I => Hv vg (or_intror I)) E3) as (L3 & (D2 & D4 & D8) & Fit3 & rest3 & Pm3 & Len3 & Fits3).
    set (k := Nat.max (count_bit 2 g) (Nat.max (count_bit 4 g) (count_bit 8 g))) in *.
    unfold total_need, total_bit, spare in *. simpl. fold (need g).
    assert (Hneed : need g = (k + length (group_files g))%nat) by reflexivity.
    rewrite !app_length, !nb_app, !wfile_pairs_app, P1. simpl.
    split; [lia|]. split; [lia|]. split.
    + intro Hfit. assert (Hfit3 : (fold_right Nat.add 0%nat (map (fun vg => need (snd vg)) vgs) <= free2)%nat) by lia.
      destruct (Fit3 Hfit3) as (G2 & G4 & G8). lia.
    + exists (rest2 ++ rest3). split; [|split].
      * unfold group_pairs in *. simpl. rewrite Eq2.
        eapply Permutation_trans; [apply Permutation_app_head; exact Pm3|].
        unfold sample_pairs. rewrite map_app. apply perm_interleave.
      * rewrite app_length. lia.
      * intro Hfit. assert (Hfit3 : (fold_right Nat.add 0%nat (map (fun vg => need (snd vg)) vgs) <= free2)%nat) by lia.
        destruct (Fits3 Hfit3) as (-> & ->).
        assert (Hf : (length (group_files g) <= free1)%nat) by lia.
        rewrite (file_loop_fits _ _ off vol Hf) in E2. inversion E2; subst.
        simpl in Eq2. rewrite wfile_pairs_map, Z.max_l in Eq2 by lia.
        rewrite <- (app_nil_r (map _ (group_files g))) in Eq2 at 1. apply app_inv_head in Eq2. subst rest2. auto.
Qed.

(* ================================================================== the guarded statements, at the level of one time
   PARTIAL: the three theorems below are the property's guarantees for the sounds of ONE time (all volume groups of
   that time, any number of target notes at that time), proved for all inputs.  What is NOT proved is their lifting
   to whole charts, i.e. [no_invention src out], [bounded src tgt out] and [named_conserved src out] for
   [hitsound_copy psrc ptgt src tgt = Some out] under [wf], [tgt_silent], [no_semicolon] (and [no_multi_overflow]):
   that needs (a) run_groups touches exactly the rows of each source time, in frame order (apply_at / slots_at
   locality, distinct group keys from usort), (b) the atoms of the written rows are the atoms of the writes when the
   target rows are silent, (c) group_by partitions the sorted loud source rows so that group_pairs / total_bit /
   total_need are the per-(time, volume) counts of the specification ([at_tv], [demand]).  On whole charts the
   statements are checked by the sound-and-complete oracle [specb] on every generated pair instead. *)

Lemma spare_zero : forall vgs, (forall vg, In vg vgs -> (length (group_files (snd vg)) <= 1)%nat) -> spare vgs = O.
Proof.
  induction vgs; intros H; [reflexivity|]. unfold spare in *. simpl.
  rewrite IHvgs by (intros; apply H; now right). specialize (H a (or_introl eq_refl)). lia.
Qed.

(* named samples: when everything fits, or no volume group has two named samples, every (file, volume) of the
   source groups is written on a note or becomes an event sample, and nothing else is *)
Theorem hs_named_conserved_guarded_partial : forall off vgs free ws ss,
  (forall vg, In vg vgs -> 0 <= fst vg) ->
  plan_groups off vgs free = (ws, ss) ->
  ((total_need vgs <= free)%nat \/ (forall vg, In vg vgs -> (length (group_files (snd vg)) <= 1)%nat)) ->
  Permutation (group_pairs vgs) (wfile_pairs ws ++ sample_pairs ss).
Proof.
  intros off vgs free ws ss Hv H G.
  destruct (plan_groups_spec _ _ _ _ _ Hv H) as (_ & _ & _ & rest & P & L & F).
  assert (rest = []) as ->.
  { destruct G as [G|G]; [now destruct (F G)|]. rewrite (spare_zero _ G) in L. destruct rest; [reflexivity | simpl in L; lia]. }
  now rewrite !app_nil_r in P.
Qed.

(* no invention, one time: the files written or sampled are a sub-multiset of the groups' files (with volume), and
   no more claps / finishes / whistles are written than the groups have *)
Theorem hs_no_invention_partial : forall off vgs free ws ss,
  (forall vg, In vg vgs -> 0 <= fst vg) ->
  plan_groups off vgs free = (ws, ss) ->
  (exists rest, Permutation (group_pairs vgs) ((wfile_pairs ws ++ sample_pairs ss) ++ rest))
  /\ (nb 2 ws <= total_bit 2 vgs)%nat /\ (nb 4 ws <= total_bit 4 vgs)%nat /\ (nb 8 ws <= total_bit 8 vgs)%nat.
Proof.
  intros off vgs free ws ss Hv H.
  destruct (plan_groups_spec _ _ _ _ _ Hv H) as (_ & (B2 & B4 & B8) & _ & rest & P & _ & _).
  split; [exists rest; now rewrite <- app_assoc | auto].
Qed.

(* as many as the notes can hold, one time: min(need, notes) notes are written; when everything fits every clap,
   finish and whistle is written and nothing overflows *)
Theorem hs_bounded_partial : forall off vgs free ws ss,
  (forall vg, In vg vgs -> 0 <= fst vg) ->
  plan_groups off vgs free = (ws, ss) ->
  length ws = Nat.min (total_need vgs) free
  /\ ((total_need vgs <= free)%nat ->
      nb 2 ws = total_bit 2 vgs /\ nb 4 ws = total_bit 4 vgs /\ nb 8 ws = total_bit 8 vgs /\ ss = []).
Proof.
  intros off vgs free ws ss Hv H.
  destruct (plan_groups_spec _ _ _ _ _ Hv H) as (L & _ & Fit & rest & _ & _ & F).
  split; [exact L|]. intro G. destruct (Fit G) as (A & B & C). destruct (F G) as (_ & ->). auto.
Qed.

(* the defect, at the same level: with three named samples of one volume and one note, one (file, volume) is lost *)
Theorem hs_slot_rule_loses_refuted :
  exists off vgs free ws ss, plan_groups off vgs free = (ws, ss)
    /\ ~ Permutation (group_pairs vgs) (wfile_pairs ws ++ sample_pairs ss).
Proof.
  exists 0, [(30, [mkN 0 0 None 0 0 0 0 30 [1]; mkN 0 1 None 0 0 0 0 30 [2]; mkN 0 2 None 0 0 0 0 30 [3]])], 1%nat.
  eexists. eexists. split; [vm_compute; reflexivity|].
  intro P. apply Permutation_length in P. vm_compute in P. discriminate.
Qed.
