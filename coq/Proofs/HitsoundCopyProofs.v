(* C18 — proofs about the model of hitsound_copy (Algo/HitsoundCopy.v) and its specification
   (Algo/HitsoundCopySpec.v). *)
From Coq Require Import ZArith List Bool Arith Lia Permutation.
From RV Require Import Algo.HitsoundCopy Algo.HitsoundCopySpec.
Import ListNotations.
Open Scope Z_scope.

(* ================================================================== generic multiset facts *)
Section MS.
  Context {A : Type}.
  Variable eqb : A -> A -> bool.
  Hypothesis eqb_eq : forall a b, eqb a b = true <-> a = b.

  Lemma eqb_refl' : forall a, eqb a a = true.
  Proof. intro a. apply eqb_eq. reflexivity. Qed.

  Lemma count_app : forall a l1 l2, count eqb a (l1 ++ l2) = (count eqb a l1 + count eqb a l2)%nat.
  Proof. induction l1; simpl; intros; [reflexivity | rewrite IHl1; lia]. Qed.

  Lemma count_notin : forall a l, ~ In a l -> count eqb a l = O.
  Proof.
    induction l; simpl; intros; [reflexivity|].
    destruct (eqb a a0) eqn:E.
    - apply eqb_eq in E. subst. exfalso. apply H. now left.
    - rewrite IHl; [reflexivity | intro; apply H; now right].
  Qed.

  Lemma count_in_pos : forall a l, In a l -> (1 <= count eqb a l)%nat.
  Proof.
    induction l; simpl; intros; [contradiction|].
    destruct H as [->|H]; [rewrite eqb_refl'; lia | specialize (IHl H); lia].
  Qed.

  Lemma msubb_sound : forall l1 l2, msubb eqb l1 l2 = true -> msub eqb l1 l2.
  Proof.
    intros l1 l2 H a. unfold msubb in H. rewrite forallb_forall in H.
    destruct (in_dec (fun x y => match bool_dec (eqb x y) true with
                                 | left e => left (proj1 (eqb_eq x y) e)
                                 | right n => right (fun e => n (proj2 (eqb_eq x y) e)) end) a l1) as [I|N].
    - apply H in I. now apply Nat.leb_le in I.
    - rewrite (count_notin _ _ N). lia.
  Qed.

  Lemma msubb_complete : forall l1 l2, msub eqb l1 l2 -> msubb eqb l1 l2 = true.
  Proof. intros l1 l2 H. unfold msubb. apply forallb_forall. intros a _. apply Nat.leb_le. apply H. Qed.

  Lemma meqb_sound : forall l1 l2, meqb eqb l1 l2 = true -> meq eqb l1 l2.
  Proof.
    intros l1 l2 H a. unfold meqb in H. apply andb_prop in H as [H1 H2].
    pose proof (msubb_sound _ _ H1 a). pose proof (msubb_sound _ _ H2 a). lia.
  Qed.

  Lemma count_perm : forall a l1 l2, Permutation l1 l2 -> count eqb a l1 = count eqb a l2.
  Proof. induction 1; simpl; lia. Qed.

  Lemma count_filter_split : forall a (f : A -> bool) l,
    count eqb a (filter f l ++ filter (fun x => negb (f x)) l) = count eqb a l.
  Proof.
    intros a f l. rewrite count_app. induction l; simpl; [reflexivity|].
    destruct (f a0); simpl; lia.
  Qed.
End MS.

(* ================================================================== the equality tests decide equality *)
Lemma list_eqb_eq : forall a b, list_eqb a b = true <-> a = b.
Proof.
  induction a; destruct b; simpl; split; intro H; try reflexivity; try discriminate.
  - apply andb_prop in H as [H1 H2]. apply Z.eqb_eq in H1. apply IHa in H2. now subst.
  - inversion H; subst. rewrite Z.eqb_refl. simpl. now apply IHa.
Qed.

Lemma opt_eqb_eq : forall a b, opt_eqb a b = true <-> a = b.
Proof.
  destruct a, b; simpl; split; intro H; try reflexivity; try discriminate.
  - apply Z.eqb_eq in H. now subst.
  - inversion H. apply Z.eqb_refl.
Qed.

Lemma ident_eqb_eq : forall a b, ident_eqb a b = true <-> a = b.
Proof.
  intros [[[t1 c1] l1] k1] [[[t2 c2] l2] k2]. unfold ident_eqb. split; intro H.
  - repeat (apply andb_prop in H as [H ?]). apply Z.eqb_eq in H. apply Z.eqb_eq in H2.
    apply opt_eqb_eq in H1. apply Bool.eqb_prop in H0. now subst.
  - inversion H; subst. rewrite !Z.eqb_refl. rewrite (proj2 (opt_eqb_eq l2 l2) eq_refl). rewrite Bool.eqb_reflx. reflexivity.
Qed.

Lemma atom_eqb_eq : forall a b, atom_eqb a b = true <-> a = b.
Proof.
  intros [[[t1 k1] p1] v1] [[[t2 k2] p2] v2]. unfold atom_eqb. split; intro H.
  - repeat (apply andb_prop in H as [H ?]). apply Z.eqb_eq in H. apply Z.eqb_eq in H2.
    apply list_eqb_eq in H1. apply Z.eqb_eq in H0. now subst.
  - inversion H; subst. rewrite !Z.eqb_refl. rewrite (proj2 (list_eqb_eq p2 p2) eq_refl). reflexivity.
Qed.

(* ================================================================== specb is sound *)
Lemma at_time_nil : forall t l, ~ In t (map hn_off l) -> at_time t l = [].
Proof.
  intros t l. unfold at_time. induction l; simpl; intros; [reflexivity|].
  destruct (hn_off a =? t) eqn:E.
  - apply Z.eqb_eq in E. exfalso. apply H. now left.
  - apply IHl. intro. apply H. now right.
Qed.

Lemma atoms_at_flat_nil : forall t (h : hnote -> list atom) l,
  (forall r a, In a (h r) -> atom_time a = hn_off r) ->
  ~ In t (map hn_off l) -> atoms_at t (flat_map h l) = [].
Proof.
  intros t h l Hh. unfold atoms_at. induction l; simpl; intros; [reflexivity|].
  rewrite filter_app. rewrite IHl by (intro; apply H; now right). rewrite app_nil_r.
  assert (hn_off a <> t) by (intro; apply H; now left).
  clear - Hh H0. specialize (Hh a). induction (h a) as [|x xs IH]; simpl; [reflexivity|].
  rewrite IH by (intros; apply Hh; now right).
  pose proof (Hh x (or_introl eq_refl)) as E. rewrite E.
  destruct (hn_off a =? t) eqn:E2; [apply Z.eqb_eq in E2; contradiction | reflexivity].
Qed.

Lemma bit_atoms_time : forall bits r a, In a (bit_atoms bits r) -> atom_time a = hn_off r.
Proof. intros bits r a H. unfold bit_atoms in H. apply in_map_iff in H as [b [<- _]]. reflexivity. Qed.
Lemma file_atoms_time : forall r a, In a (file_atoms r) -> atom_time a = hn_off r.
Proof. intros r a H. unfold file_atoms in H. destruct (name_empty (hn_file r)); simpl in H; [contradiction|]. destruct H as [<-|[]]. reflexivity. Qed.

Lemma bounded_at_absent : forall src tgt out t,
  ~ In t (times src) -> ~ In t (times out) -> bounded_at src tgt out t.
Proof.
  intros src tgt out t Hs Ho. unfold bounded_at, nsounding, demand, times in *.
  rewrite (at_time_nil _ _ Ho). rewrite (at_time_nil _ _ Hs). simpl. split; [reflexivity|].
  intros _ a. unfold copy_atoms. rewrite atoms_at_flat_nil; [simpl; lia | | exact Hs].
  intros r a' H. apply in_app_or in H as [H|H]; [eapply bit_atoms_time | eapply file_atoms_time]; eauto.
Qed.

Theorem specb_sound : forall src tgt out, specb src tgt out = true -> Spec src tgt out.
Proof.
  intros src tgt out H. unfold specb in H.
  apply andb_prop in H as [H Hn]. apply andb_prop in H as [H Hb]. apply andb_prop in H as [Hp Hi].
  constructor.
  - apply (meqb_sound _ ident_eqb_eq). exact Hp.
  - unfold no_inventionb in Hi. apply andb_prop in Hi as [Hi1 Hi2]. split; [|exact Hi2].
    apply (msubb_sound _ atom_eqb_eq). exact Hi1.
  - intro t. unfold boundedb in Hb. rewrite forallb_forall in Hb.
    destruct (in_dec Z.eq_dec t (times src ++ times tgt ++ times out)) as [I|N].
    + apply Hb in I. unfold bounded_atb in I. apply andb_prop in I as [I1 I2]. split.
      * now apply Nat.eqb_eq in I1.
      * intro Hle. apply orb_prop in I2 as [I2|I2].
        -- apply negb_true_iff in I2. apply Nat.leb_gt in I2. lia.
        -- apply (msubb_sound _ atom_eqb_eq). exact I2.
    + apply bounded_at_absent; intro; apply N; rewrite !in_app_iff; auto.
  - apply (msubb_sound _ atom_eqb_eq). exact Hn.
Qed.

(* and complete: the oracle fails only on a genuine violation of the declarative specification *)
Theorem specb_complete : forall src tgt out, Spec src tgt out -> specb src tgt out = true.
Proof.
  intros src tgt out [Hp [Hi1 Hi2] Hb Hn]. unfold specb.
  apply andb_true_intro; split; [apply andb_true_intro; split; [apply andb_true_intro; split|]|].
  - unfold notes_preservedb, meqb. apply andb_true_intro; split; apply msubb_complete; intro a; rewrite (Hp a); lia.
  - unfold no_inventionb. apply andb_true_intro; split; [now apply msubb_complete | exact Hi2].
  - unfold boundedb. apply forallb_forall. intros t _. destruct (Hb t) as [B1 B2]. unfold bounded_atb.
    apply andb_true_intro; split; [now apply Nat.eqb_eq|].
    destruct (demand src t <=? nnotes tgt t)%nat eqn:E; simpl; [|reflexivity].
    apply Nat.leb_le in E. apply msubb_complete. now apply B2.
  - now apply msubb_complete.
Qed.

(* ================================================================== sort_values: any validated order is a permutation *)
Lemma count_nat_pos_in : forall i p, (1 <= count_nat i p)%nat -> In i p.
Proof.
  induction p; simpl; intros; [lia|].
  destruct (Nat.eqb i a) eqn:E; [apply Nat.eqb_eq in E; now left | right; apply IHp; lia].
Qed.

Lemma perm_ok_Permutation : forall p n, perm_ok p n = true -> Permutation (seq 0 n) p.
Proof.
  intros p n H. unfold perm_ok in H. apply andb_prop in H as [H1 H2]. apply Nat.eqb_eq in H1.
  rewrite forallb_forall in H2.
  apply NoDup_Permutation_bis.
  - apply seq_NoDup.
  - rewrite seq_length. lia.
  - intros i Hi. apply H2 in Hi. apply Nat.eqb_eq in Hi. apply count_nat_pos_in. lia.
Qed.

Lemma map_nth_seq : forall (l : list hnote) d, map (fun i => nth i l d) (seq 0 (length l)) = l.
Proof.
  induction l; simpl; intros; [reflexivity|]. f_equal.
  rewrite <- seq_shift, map_map. apply IHl.
Qed.

Lemma sort_with_Permutation : forall p l s, sort_with p l = Some s -> Permutation l s.
Proof.
  intros p l s H. unfold sort_with in H.
  destruct (perm_ok p (length l)) eqn:E; simpl in H; [|discriminate].
  destruct (sortedb (apply_perm p l)); [|discriminate]. inversion H; subst. clear H.
  apply perm_ok_Permutation in E. unfold apply_perm.
  rewrite <- (map_nth_seq l dummy) at 1. now apply Permutation_map.
Qed.

(* ================================================================== notes are never touched *)
Definition ident_of (r : hnote) : ident := (hn_off r, hn_col r, hn_len r, negb (is_hit r)).

Lemma do_write_ident : forall w r, ident_of (do_write w r) = ident_of r.
Proof. destruct w; reflexivity. Qed.

Lemma apply_at_ident : forall off df ws, map ident_of (apply_at off ws df) = map ident_of df.
Proof.
  induction df; simpl; intros; [reflexivity|].
  destruct (hn_off a =? off).
  - destruct ws; simpl; [reflexivity|]. now rewrite do_write_ident, IHdf.
  - simpl. now rewrite IHdf.
Qed.

Lemma run_groups_ident : forall ogs st, map ident_of (fst (run_groups ogs st)) = map ident_of (fst st).
Proof.
  induction ogs; simpl; intros; [reflexivity|].
  rewrite IHogs. destruct st as [df smp]. destruct a as [off g]. unfold step.
  destruct (plan_groups off (group_by hn_vol g) (slots_at off df)) as [ws ss]. simpl. apply apply_at_ident.
Qed.

Lemma idents_tgt : forall tgt, forallb (fun r => is_some (hn_len r)) (hm_holds tgt) = true ->
  idents tgt = map ident_of (notes_df tgt).
Proof.
  intros tgt H. unfold idents, notes_df. rewrite map_app, map_map. f_equal.
  rewrite forallb_forall in H. apply map_ext_in. intros r Hr. apply H in Hr.
  unfold ident_of, is_hit. destruct (hn_len r); [reflexivity | discriminate].
Qed.

Lemma idents_out : forall df smp,
  idents (mkM (filter is_hit df) (filter (fun r => negb (is_hit r)) df) smp)
  = map ident_of (filter is_hit df) ++ map ident_of (filter (fun r => negb (is_hit r)) df).
Proof.
  intros. unfold idents. simpl. f_equal; apply map_ext_in; intros r Hr; apply filter_In in Hr as [_ Hr];
    unfold ident_of, is_hit in *; destruct (hn_len r); simpl in *; try discriminate; reflexivity.
Qed.

Lemma reset_note_ident : forall l, map ident_of (map reset_note l) = map ident_of l.
Proof. intro l. rewrite map_map. apply map_ext. intro r. reflexivity. Qed.

(* THE RESULT HAS EXACTLY THE TARGET'S NOTES — for all pairs of charts and every tie order of the two sorts. *)
Theorem hs_notes_preserved : forall psrc ptgt src tgt out,
  forallb (fun r => is_some (hn_len r)) (hm_holds tgt) = true ->
  hitsound_copy psrc ptgt src tgt = Some out ->
  notes_preserved tgt out.
Proof.
  intros psrc ptgt src tgt out Hwf H. unfold hitsound_copy in H.
  destruct (sort_with psrc (filter loud (notes_df src))) as [s|]; [|discriminate].
  destruct (sort_with ptgt (map reset_note (notes_df tgt))) as [df|] eqn:Ed; [|discriminate].
  destruct (run_groups (group_by hn_off s) (df, [])) as [df' smp] eqn:Er. inversion H; subst; clear H.
  intro a. rewrite idents_out, (idents_tgt _ Hwf).
  rewrite <- map_app.
  assert (Hp : Permutation (filter is_hit df' ++ filter (fun r => negb (is_hit r)) df') df').
  { clear. induction df'; simpl; [constructor|]. destruct (is_hit a); simpl.
    - now constructor.
    - apply Permutation_sym, Permutation_cons_app, Permutation_sym, IHdf'. }
  rewrite (count_perm _ a _ _ (Permutation_map ident_of Hp)).
  pose proof (run_groups_ident (group_by hn_off s) (df, [])) as Hi. rewrite Er in Hi. simpl in Hi. rewrite Hi.
  apply sort_with_Permutation in Ed. rewrite <- (reset_note_ident (notes_df tgt)). symmetry.
  apply count_perm. now apply Permutation_map.
Qed.

(* ================================================================== what the repairs removed (OLD routine), and what is still false *)
Definition w_note (t c hs v : Z) (f : name) : hnote := mkN t c None hs 0 0 0 v f.

(* OLD (before 19e0cd1): three named samples of one volume at one time, one target note: one is placed, one
   becomes an event sample, the third was lost (the `break` in the file loop) *)
Definition w1_src := mkM [w_note 0 0 0 30 [1]; w_note 0 1 0 30 [2]; w_note 0 2 0 30 [3]] [] [].
Definition w1_tgt := mkM [w_note 0 0 0 0 [0]] [] [].

Theorem hs_named_conserved_OLD_refuted :
  exists psrc ptgt src tgt out,
    wf src tgt = true /\ tgt_silent tgt = true /\ no_semicolon src = true /\
    hitsound_copy_OLD psrc ptgt src tgt = Some out /\ ~ named_conserved src out.
Proof.
  exists [0;1;2]%nat, [0]%nat, w1_src, w1_tgt.
  eexists. do 4 (split; [vm_compute; reflexivity|]).
  intro H. apply (msubb_complete atom_eqb) in H. vm_compute in H. discriminate.
Qed.

(* OLD (before a52f30c): a target that carries sounds of its own kept them: the result sounded a whistle and
   "t.wav" (file id 9) that the source never had *)
Definition w2_src := mkM [w_note 8 0 2 30 [0]] [] [].
Definition w2_tgt := mkM [w_note 8 0 8 44 [9]; w_note 16 0 4 0 [0]] [] [].

Theorem hs_no_invention_OLD_refuted :
  exists psrc ptgt src tgt out,
    wf src tgt = true /\ no_semicolon src = true /\ no_multi_overflow src tgt = true /\
    hitsound_copy_OLD psrc ptgt src tgt = Some out /\ ~ no_invention src out.
Proof.
  exists [0]%nat, [0;1]%nat, w2_src, w2_tgt.
  eexists. do 4 (split; [vm_compute; reflexivity|]).
  intros [H _]. apply (msubb_complete atom_eqb) in H. vm_compute in H. discriminate.
Qed.

(* STILL FALSE of the routine: a file name with ';' ("a;b" = [1;2]) is cut in two: neither piece was in the source,
   the name itself is lost *)
Definition w3_src := mkM [w_note 8 0 0 5 [1; 2]] [] [].
Definition w3_tgt := mkM [w_note 8 0 0 0 [0]; w_note 8 1 0 0 [0]] [] [].

Theorem hs_semicolon_refuted :
  exists psrc ptgt src tgt out,
    wf src tgt = true /\ hitsound_copy psrc ptgt src tgt = Some out
    /\ ~ no_invention src out /\ ~ named_conserved src out.
Proof.
  exists [0]%nat, [0;1]%nat, w3_src, w3_tgt.
  eexists. do 2 (split; [vm_compute; reflexivity|]). split.
  - intros [H _]. apply (msubb_complete atom_eqb) in H. vm_compute in H. discriminate.
  - intro H. apply (msubb_complete atom_eqb) in H. vm_compute in H. discriminate.
Qed.

(* ################################################################## WHOLE-CHART THEOREMS
   The rest of the file lifts the slot rule of one time to whole charts: atoms are counted as rows, slot filling is
   local to one time (run_groups / apply_at), the target frame is silent after the reset, group_by partitions the
   sorted loud source rows, and the specification's demand is the model's need. *)

(* ================================================================== counting rows instead of atoms *)
Definition cnt {A : Type} (p : A -> bool) (l : list A) : nat := length (filter p l).

Lemma cnt_app : forall A (p : A -> bool) l1 l2, cnt p (l1 ++ l2) = (cnt p l1 + cnt p l2)%nat.
Proof. intros. unfold cnt. now rewrite filter_app, app_length. Qed.
Lemma cnt_cons : forall A (p : A -> bool) x l, cnt p (x :: l) = ((if p x then 1 else 0) + cnt p l)%nat.
Proof. intros. unfold cnt. simpl. destruct (p x); reflexivity. Qed.
Lemma cnt_ext_in : forall A (p q : A -> bool) l, (forall x, In x l -> p x = q x) -> cnt p l = cnt q l.
Proof. intros. unfold cnt. f_equal. now apply filter_ext_in. Qed.
Lemma cnt_false : forall A (p : A -> bool) l, (forall x, In x l -> p x = false) -> cnt p l = O.
Proof.
  intros A p l H. induction l; [reflexivity|]. rewrite cnt_cons, H by now left.
  rewrite IHl; [reflexivity | intros; apply H; now right].
Qed.
Lemma cnt_perm : forall A (p : A -> bool) l l', Permutation l l' -> cnt p l = cnt p l'.
Proof. intros A p l l' H. induction H; rewrite ?cnt_cons; solve [lia | reflexivity]. Qed.
Lemma cnt_filter : forall A (p q : A -> bool) l, cnt p (filter q l) = cnt (fun x => q x && p x) l.
Proof.
  intros. induction l; [reflexivity|]. simpl. destruct (q a) eqn:E; rewrite ?cnt_cons, ?E; simpl; rewrite IHl; reflexivity.
Qed.
Lemma cnt_le_length : forall A (p : A -> bool) l, (cnt p l <= length l)%nat.
Proof. intros. induction l; [unfold cnt; simpl; lia|]. rewrite cnt_cons. simpl. destruct (p a); lia. Qed.

Definition acount := count atom_eqb.

Lemma count_flat_ind : forall A (h : A -> list atom) (m : A -> bool) a rows,
  (forall r, acount a (h r) = if m r then 1%nat else 0%nat) -> acount a (flat_map h rows) = cnt m rows.
Proof.
  intros A h m a rows H. induction rows; [reflexivity|]. simpl. unfold acount in *.
  rewrite (count_app atom_eqb), IHrows, cnt_cons, H. reflexivity.
Qed.

Definition bitmatch (bits : list Z) (a : atom) (r : hnote) : bool :=
  let '(t, k, p, v) := a in
  (hn_off r =? t) && (k =? 0) && (hn_vol r =? v) &&
  match p with [b] => existsb (Z.eqb b) bits && (Z.land (hn_hs r) b =? b) | _ => false end.

Definition filematch (a : atom) (r : hnote) : bool :=
  let '(t, k, p, v) := a in
  negb (name_empty (hn_file r)) && (hn_off r =? t) && (k =? 1) && list_eqb p (hn_file r) && (hn_vol r =? v).

Definition smatch (a : atom) (s : hsample) : bool :=
  let '(t, k, p, v) := a in
  negb (name_empty (hs_file s)) && (hs_off s =? t) && (k =? 1) && list_eqb p (hs_file s) && (hs_vol s =? v).

Lemma existsb_notin : forall b bits, ~ In b bits -> existsb (Z.eqb b) bits = false.
Proof.
  intros b bits H. destruct (existsb (Z.eqb b) bits) eqn:E; [|reflexivity].
  apply existsb_exists in E as [x [Hin Hx]]. apply Z.eqb_eq in Hx. subst. contradiction.
Qed.

Lemma count_bit_atoms : forall bits a r, NoDup bits ->
  acount a (bit_atoms bits r) = if bitmatch bits a r then 1%nat else 0%nat.
Proof.
  intros bits [[[t k] p] v] r. unfold bit_atoms, bitmatch, acount.
  induction bits as [|b0 bits IH]; intro ND.
  - simpl. destruct p as [|b [|]]; simpl; rewrite ?andb_false_r; reflexivity.
  - inversion ND as [|? ? Hn ND']; subst. specialize (IH ND'). simpl filter.
    destruct (Z.land (hn_hs r) b0 =? b0) eqn:Pb.
    + simpl map. simpl count. rewrite IH. clear IH. unfold atom_eqb.
      rewrite (Z.eqb_sym t), (Z.eqb_sym v).
      destruct p as [|b [|]]; simpl; rewrite ?andb_false_r; try reflexivity.
      destruct (b =? b0) eqn:E.
      * apply Z.eqb_eq in E. subst b. rewrite Pb, (existsb_notin _ _ Hn). simpl.
        destruct (hn_off r =? t), (k =? 0), (hn_vol r =? v); reflexivity.
      * simpl. rewrite ?andb_false_r. simpl. reflexivity.
    + rewrite IH. clear IH.
      destruct p as [|b [|]]; simpl; try reflexivity.
      destruct (b =? b0) eqn:E; simpl; [|reflexivity].
      apply Z.eqb_eq in E. subst b. rewrite Pb, (existsb_notin _ _ Hn). simpl. rewrite ?andb_false_r. reflexivity.
Qed.

Lemma count_file_atoms : forall a r, acount a (file_atoms r) = if filematch a r then 1%nat else 0%nat.
Proof.
  intros [[[t k] p] v] r. unfold file_atoms, filematch, acount.
  destruct (name_empty (hn_file r)); simpl; [reflexivity|].
  rewrite (Z.eqb_sym t), (Z.eqb_sym v).
  destruct (hn_off r =? t), (k =? 1), (list_eqb p (hn_file r)), (hn_vol r =? v); reflexivity.
Qed.

Lemma count_sample_atom : forall a s,
  acount a (if name_empty (hs_file s) then [] else [(hs_off s, 1, hs_file s, hs_vol s)]) = if smatch a s then 1%nat else 0%nat.
Proof.
  intros [[[t k] p] v] s. unfold smatch, acount.
  destruct (name_empty (hs_file s)); simpl; [reflexivity|].
  rewrite (Z.eqb_sym t), (Z.eqb_sym v).
  destruct (hs_off s =? t), (k =? 1), (list_eqb p (hs_file s)), (hs_vol s =? v); reflexivity.
Qed.

Lemma NoDup_bitvals : NoDup bitvals.
Proof. unfold bitvals. repeat (constructor; [simpl; intuition discriminate|]). constructor. Qed.
Lemma NoDup_copied : NoDup copied_bits.
Proof. unfold copied_bits. repeat (constructor; [simpl; intuition discriminate|]). constructor. Qed.

(* the atom multisets of the specification, as row counts *)
Lemma count_note_atoms_rows : forall a rows,
  acount a (flat_map (fun r => bit_atoms bitvals r ++ file_atoms r) rows)
  = (cnt (bitmatch bitvals a) rows + cnt (filematch a) rows)%nat.
Proof.
  intros a rows. induction rows; [reflexivity|]. simpl. unfold acount in *.
  rewrite !(count_app atom_eqb), IHrows, !cnt_cons.
  pose proof (count_bit_atoms bitvals a a0 NoDup_bitvals) as B. pose proof (count_file_atoms a a0) as F.
  unfold acount in *. rewrite B, F. lia.
Qed.
Lemma count_copy_atoms_rows : forall a rows,
  acount a (flat_map (fun r => bit_atoms copied_bits r ++ file_atoms r) rows)
  = (cnt (bitmatch copied_bits a) rows + cnt (filematch a) rows)%nat.
Proof.
  intros a rows. induction rows; [reflexivity|]. simpl. unfold acount in *.
  rewrite !(count_app atom_eqb), IHrows, !cnt_cons.
  pose proof (count_bit_atoms copied_bits a a0 NoDup_copied) as B. pose proof (count_file_atoms a a0) as F.
  unfold acount in *. rewrite B, F. lia.
Qed.
Lemma count_named_atoms_rows : forall a rows, acount a (flat_map file_atoms rows) = cnt (filematch a) rows.
Proof. intros. apply count_flat_ind. intro r. apply count_file_atoms. Qed.
Lemma count_sample_atoms_rows : forall a m, acount a (sample_atoms m) = cnt (smatch a) (hm_samples m).
Proof. intros. unfold sample_atoms. apply count_flat_ind. intro s. apply count_sample_atom. Qed.

(* ================================================================== groupby: distinct keys, each group = the rows of its key *)
Fixpoint sorted_lt (l : list Z) : Prop :=
  match l with [] => True | x :: l' => (forall y, In y l' -> x < y) /\ sorted_lt l' end.

Lemma uinsert_in : forall x l y, In y (uinsert x l) <-> y = x \/ In y l.
Proof.
  induction l as [|a l IHl]; simpl; intros; [intuition|].
  destruct (x <? a) eqn:E1; simpl; [intuition|].
  destruct (x =? a) eqn:E2; simpl.
  - apply Z.eqb_eq in E2. subst. intuition.
  - rewrite IHl. intuition.
Qed.

Lemma uinsert_sorted : forall x l, sorted_lt l -> sorted_lt (uinsert x l).
Proof.
  induction l as [|a l IHl]; simpl; intros H; [split; [intros y []|exact I]|]. destruct H as [H1 H2].
  destruct (x <? a) eqn:E1.
  - apply Z.ltb_lt in E1. simpl. split; [|auto]. intros y [<-|Hy]; [lia | specialize (H1 y Hy); lia].
  - destruct (x =? a) eqn:E2; [simpl; auto|]. apply Z.ltb_ge in E1. apply Z.eqb_neq in E2.
    simpl. split; [|auto]. intros y Hy. apply uinsert_in in Hy as [->|Hy]; [lia | auto].
Qed.

Lemma usort_in : forall l y, In y (usort l) <-> In y l.
Proof. induction l as [|a l IHl]; simpl; intros; [tauto|]. rewrite uinsert_in, IHl. intuition. Qed.
Lemma usort_sorted : forall l, sorted_lt (usort l).
Proof. induction l as [|a l IHl]; simpl; [auto|]. now apply uinsert_sorted. Qed.
Lemma sorted_lt_NoDup : forall l, sorted_lt l -> NoDup l.
Proof.
  induction l as [|a l IHl]; simpl; intros; [constructor|]. destruct H. constructor; [|auto].
  intro Hin. specialize (H a Hin). lia.
Qed.

Lemma group_by_keys : forall key rows, map fst (group_by key rows) = usort (map key rows).
Proof. intros. unfold group_by. rewrite map_map. simpl. apply map_id. Qed.
Lemma group_by_NoDup : forall key rows, NoDup (map fst (group_by key rows)).
Proof. intros. rewrite group_by_keys. apply sorted_lt_NoDup, usort_sorted. Qed.
Lemma group_by_in : forall key rows k g, In (k, g) (group_by key rows) ->
  g = filter (fun r => key r =? k) rows /\ In k (map key rows).
Proof.
  intros key rows k g H. unfold group_by in H. apply in_map_iff in H as [k' [E Hin]]. inversion E; subst.
  split; [reflexivity|]. exact (proj1 (usort_in _ _) Hin).
Qed.
Lemma group_by_has : forall key rows k, In k (map key rows) ->
  In (k, filter (fun r => key r =? k) rows) (group_by key rows).
Proof. intros. unfold group_by. apply in_map_iff. exists k. split; [reflexivity|]. exact (proj2 (usort_in _ _) H). Qed.

(* ================================================================== slot filling is local to one time *)
Fixpoint wprefix (ws : list write) (rows : list hnote) {struct rows} : list hnote :=
  match rows with
  | [] => []
  | r :: rows' => match ws with [] => rows | w :: ws' => do_write w r :: wprefix ws' rows' end
  end.

Lemma do_write_off : forall w r, hn_off (do_write w r) = hn_off r.
Proof. destruct w; reflexivity. Qed.

Lemma apply_at_same : forall t df ws, at_time t (apply_at t ws df) = wprefix ws (at_time t df).
Proof.
  unfold at_time. induction df as [|a df IHdf]; simpl; intros; [reflexivity|].
  destruct (hn_off a =? t) eqn:E.
  - destruct ws; simpl.
    + rewrite E. reflexivity.
    + rewrite do_write_off, E. simpl. now rewrite IHdf.
  - simpl. rewrite E. apply IHdf.
Qed.

Lemma apply_at_other : forall t t' df ws, t' <> t -> at_time t' (apply_at t ws df) = at_time t' df.
Proof.
  unfold at_time. induction df as [|a df IHdf]; simpl; intros; [reflexivity|].
  destruct (hn_off a =? t) eqn:E.
  - apply Z.eqb_eq in E. destruct ws; simpl; [reflexivity|].
    rewrite do_write_off. assert (hn_off a =? t' = false) as -> by (apply Z.eqb_neq; lia). now apply IHdf.
  - simpl. destruct (hn_off a =? t'); [f_equal|]; now apply IHdf.
Qed.

Lemma wprefix_length : forall ws rows, length (wprefix ws rows) = length rows.
Proof. intros ws rows. revert ws. induction rows; intros; simpl; [reflexivity|]. destruct ws; simpl; [reflexivity|]. now rewrite IHrows. Qed.

Lemma slots_at_eq : forall t df, slots_at t df = length (at_time t df).
Proof. reflexivity. Qed.

Lemma slots_at_apply : forall t t' ws df, slots_at t' (apply_at t ws df) = slots_at t' df.
Proof.
  intros. rewrite !slots_at_eq. destruct (Z.eq_dec t' t) as [->|N].
  - now rewrite apply_at_same, wprefix_length.
  - now rewrite apply_at_other.
Qed.

Definition writes_for (df : list hnote) (og : Z * list hnote) : list write * list hsample :=
  plan_groups (fst og) (group_by hn_vol (snd og)) (slots_at (fst og) df).

Lemma writes_for_apply : forall t ws df og, writes_for (apply_at t ws df) og = writes_for df og.
Proof. intros. unfold writes_for. now rewrite slots_at_apply. Qed.

Lemma run_groups_local : forall ogs df smp df' smp',
  NoDup (map fst ogs) ->
  run_groups ogs (df, smp) = (df', smp') ->
  (forall t, ~ In t (map fst ogs) -> at_time t df' = at_time t df)
  /\ (forall og, In og ogs -> at_time (fst og) df' = wprefix (fst (writes_for df og)) (at_time (fst og) df))
  /\ smp' = smp ++ flat_map (fun og => snd (writes_for df og)) ogs.
Proof.
  induction ogs as [|[t g] ogs IH]; intros df smp df' smp' ND H.
  - simpl in H. inversion H; subst. split; [reflexivity|]. split; [intros og []|]. simpl. now rewrite app_nil_r.
  - simpl in H. inversion ND as [|? ? Hn ND']; subst.
    destruct (plan_groups t (group_by hn_vol g) (slots_at t df)) as [ws ss] eqn:E.
    destruct (IH _ _ _ _ ND' H) as (A & B & C). clear IH H.
    assert (Ew : writes_for df (t, g) = (ws, ss)) by exact E.
    split; [|split].
    + intros t' Hn'. simpl in Hn'. rewrite A by tauto. apply apply_at_other. intro; subst; apply Hn'; now left.
    + intros og [<-|Hin].
      * simpl fst. rewrite (A t Hn). rewrite apply_at_same. now rewrite Ew.
      * rewrite (B og Hin). rewrite writes_for_apply. f_equal. apply apply_at_other.
        intro Heq. apply Hn. rewrite <- Heq. now apply in_map.
    + rewrite C. simpl. rewrite Ew. simpl. rewrite <- app_assoc. f_equal. f_equal.
      apply flat_map_ext. intro og. now rewrite writes_for_apply.
Qed.

(* ================================================================== what the written rows sound = what was written *)
Definition wbit (a : atom) (w : write) : bool :=
  let '(t, k, p, v) := a in
  match w with
  | WBits val vol => (k =? 0) && (vol =? v) &&
                     match p with [b] => existsb (Z.eqb b) bitvals && (Z.land val b =? b) | _ => false end
  | WFile _ _ => false
  end.
Definition wfile (a : atom) (w : write) : bool :=
  let '(t, k, p, v) := a in
  match w with
  | WFile f vol => negb (f =? 0) && (k =? 1) && list_eqb p [f] && (vol =? v)
  | WBits _ _ => false
  end.
Definition wloud (w : write) : bool :=
  match w with WBits val _ => negb (val =? 0) | WFile f _ => negb (f =? 0) end.

Definition silent_at (t : Z) (r : hnote) : Prop := hn_off r = t /\ hn_hs r = 0 /\ hn_file r = [0].

Lemma bitvals_nonzero : forall b, existsb (Z.eqb b) bitvals = true -> (Z.land 0 b =? b) = false.
Proof.
  intros b H. apply existsb_exists in H as [x [Hin Hx]]. apply Z.eqb_eq in Hx. subst x.
  unfold bitvals in Hin. simpl in Hin. repeat (destruct Hin as [<-|Hin]; [reflexivity|]). contradiction.
Qed.

Lemma bitmatch_silent : forall a t r, silent_at t r -> bitmatch bitvals a r = false.
Proof.
  intros [[[t' k] p] v] t r (_ & Hs & _). unfold bitmatch. rewrite Hs.
  destruct p as [|b [|]]; rewrite ?andb_false_r; try reflexivity.
  destruct (existsb (Z.eqb b) bitvals) eqn:E; [rewrite (bitvals_nonzero _ E)|]; simpl; rewrite ?andb_false_r; reflexivity.
Qed.
Lemma filematch_silent : forall a t r, silent_at t r -> filematch a r = false.
Proof. intros [[[t' k] p] v] t r (_ & _ & Hf). unfold filematch. rewrite Hf. reflexivity. Qed.
Lemma sounding_silent : forall t r, silent_at t r -> sounding r = false.
Proof. intros t r (_ & Hs & Hf). unfold sounding. rewrite Hs, Hf. reflexivity. Qed.

Lemma name_empty_single : forall f, name_empty [f] = (f =? 0).
Proof. destruct f; reflexivity. Qed.

Lemma bitmatch_written : forall t k p v w r, silent_at t r ->
  bitmatch bitvals (t, k, p, v) (do_write w r) = wbit (t, k, p, v) w.
Proof.
  intros t k p v w r (Ho & Hs & Hf). destruct w as [val vol|f vol]; unfold bitmatch, wbit, do_write; cbn [hn_off hn_hs hn_vol hn_file].
  - rewrite Ho, Z.eqb_refl. reflexivity.
  - rewrite Hs. destruct p as [|b [|]]; rewrite ?andb_false_r; try reflexivity.
    destruct (existsb (Z.eqb b) bitvals) eqn:E; [rewrite (bitvals_nonzero _ E)|]; simpl; rewrite ?andb_false_r; reflexivity.
Qed.
Lemma filematch_written : forall t k p v w r, silent_at t r ->
  filematch (t, k, p, v) (do_write w r) = wfile (t, k, p, v) w.
Proof.
  intros t k p v w r (Ho & Hs & Hf). destruct w as [val vol|f vol]; unfold filematch, wfile, do_write; cbn [hn_off hn_hs hn_vol hn_file].
  - rewrite Hf. reflexivity.
  - rewrite name_empty_single, Ho, Z.eqb_refl. rewrite andb_true_r. reflexivity.
Qed.
Lemma sounding_written : forall t w r, silent_at t r -> sounding (do_write w r) = wloud w.
Proof.
  intros t w r (Ho & Hs & Hf). destruct w as [val vol|f vol]; unfold sounding, wloud, do_write; cbn [hn_off hn_hs hn_vol hn_file].
  - rewrite Hf. simpl. now rewrite orb_false_r.
  - rewrite Hs, name_empty_single. reflexivity.
Qed.

Section Written.
  Variable t : Z.
  Lemma wprefix_cnt : forall (m : hnote -> bool) (mw : write -> bool) rows ws,
    (forall r, In r rows -> silent_at t r) ->
    (forall r, silent_at t r -> m r = false) ->
    (forall w r, silent_at t r -> m (do_write w r) = mw w) ->
    (length ws <= length rows)%nat ->
    cnt m (wprefix ws rows) = cnt mw ws.
  Proof.
    intros m mw rows. induction rows as [|r rows IH]; intros ws Hs Hm Hw Hl.
    - destruct ws; [reflexivity | simpl in Hl; lia].
    - destruct ws as [|w ws].
      + simpl. unfold cnt at 2. simpl. apply cnt_false. intros x Hx. apply Hm, Hs, Hx.
      + simpl. rewrite !cnt_cons. rewrite (Hw w r) by (apply Hs; now left).
        rewrite IH; [reflexivity | intros; apply Hs; now right | assumption | assumption | simpl in Hl; lia].
  Qed.
End Written.

(* ================================================================== the slot rule of one time, in terms of what is sounded *)
Definition need (g : list hnote) : nat :=
  (Nat.max (count_bit 2 g) (Nat.max (count_bit 4 g) (count_bit 8 g)) + length (group_files g))%nat.
Definition total_need (vgs : list (Z * list hnote)) : nat := fold_right Nat.add O (map (fun vg => need (snd vg)) vgs).

Definition bval (c f w : bool) : Z := (if c then 2 else 0) + (if f then 4 else 0) + (if w then 8 else 0).

Lemma val_bit_general : forall c f w b,
  existsb (Z.eqb b) bitvals && (Z.land (bval c f w) b =? b) = ((b =? 2) && c) || ((b =? 4) && f) || ((b =? 8) && w).
Proof.
  intros c f w b.
  destruct (existsb (Z.eqb b) bitvals) eqn:E.
  - apply existsb_exists in E as [x [Hin Hx]]. apply Z.eqb_eq in Hx. subst x.
    unfold bitvals in Hin. simpl in Hin.
    repeat (destruct Hin as [<-|Hin]; [destruct c, f, w; reflexivity|]). contradiction.
  - simpl. assert (H : forall x, In x bitvals -> (b =? x) = false).
    { intros x Hx. destruct (b =? x) eqn:Ex; [|reflexivity]. exfalso.
      assert (existsb (Z.eqb b) bitvals = true) by (apply existsb_exists; exists x; auto). congruence. }
    rewrite (H 2), (H 4), (H 8) by (unfold bitvals; simpl; auto 10). reflexivity.
Qed.

Definition bitsel (b : Z) (c f w : nat) : nat := if b =? 2 then c else if b =? 4 then f else if b =? 8 then w else O.

Lemma default_loop_wbit : forall k c f w free vol ws fr t k' p v,
  default_loop k c f w free vol = (ws, fr) ->
  cnt (wbit (t, k', p, v)) ws =
    if (k' =? 0) && (Z.max vol 0 =? v)
    then match p with [b] => Nat.min (Nat.min k free) (bitsel b c f w) | _ => O end else O.
Proof.
  induction k as [|k IH]; intros c f w free vol ws fr t k' p v H; simpl in H.
  - inversion H; subst. unfold cnt. simpl. destruct ((k' =? 0) && (Z.max vol 0 =? v)); [destruct p as [|b [|]]|]; reflexivity.
  - destruct free as [|free].
    + inversion H; subst. unfold cnt. simpl. destruct ((k' =? 0) && (Z.max vol 0 =? v)); [destruct p as [|b [|]]|]; reflexivity.
    + destruct (default_loop k (Nat.pred c) (Nat.pred f) (Nat.pred w) free vol) as [ws' fr'] eqn:E.
      inversion H; subst; clear H. rewrite cnt_cons, (IH _ _ _ _ _ _ _ t k' p v E). clear IH E.
      unfold wbit. fold (bval (pos c) (pos f) (pos w)).
      destruct ((k' =? 0) && (Z.max vol 0 =? v)); cbn [andb]; [|reflexivity].
      destruct p as [|b [|]]; try reflexivity.
      rewrite val_bit_general. unfold bitsel.
      destruct (b =? 2) eqn:E2; [apply Z.eqb_eq in E2; subst b; simpl; destruct c; simpl; lia|].
      destruct (b =? 4) eqn:E4; [apply Z.eqb_eq in E4; subst b; simpl; destruct f; simpl; lia|].
      destruct (b =? 8) eqn:E8; [apply Z.eqb_eq in E8; subst b; simpl; destruct w; simpl; lia|].
      simpl. lia.
Qed.

Lemma default_loop_other : forall k c f w free vol ws fr,
  default_loop k c f w free vol = (ws, fr) -> (k <= Nat.max c (Nat.max f w))%nat ->
  (forall a, cnt (wfile a) ws = O) /\ forallb wloud ws = true
  /\ length ws = Nat.min k free /\ fr = (free - length ws)%nat.
Proof.
  induction k as [|k IH]; intros c f w free vol ws fr H Hk; simpl in H.
  - inversion H; subst. simpl. repeat split; try reflexivity; lia.
  - destruct free as [|free].
    + inversion H; subst. simpl. repeat split; try reflexivity; lia.
    + destruct (default_loop k (Nat.pred c) (Nat.pred f) (Nat.pred w) free vol) as [ws' fr'] eqn:E.
      inversion H; subst; clear H.
      destruct (IH _ _ _ _ _ _ _ E) as (A & B & C & D); [lia|].
      split; [|split; [|split]].
      * intros [[[t k'] p] v]. rewrite cnt_cons. simpl. apply A.
      * simpl. rewrite B, andb_true_r.
        destruct c, f, w; try reflexivity. simpl in Hk. lia.
      * simpl. rewrite C. reflexivity.
      * simpl. rewrite C in *. lia.
Qed.

Definition fm (a : atom) (vol : Z) (x : Z) : bool :=
  let '(t, k, p, v) := a in (k =? 1) && list_eqb p [x] && (vol =? v).

Lemma file_loop_match : forall files free off vol ws ss fr k p v,
  0 <= vol -> (forall x, In x files -> x <> 0) ->
  file_loop files free off vol = (ws, ss, fr) ->
  (cnt (wfile (off, k, p, v)) ws + cnt (smatch (off, k, p, v)) ss)%nat = cnt (fm (off, k, p, v) vol) files
  /\ cnt (wbit (off, k, p, v)) ws = O /\ forallb wloud ws = true
  /\ length ws = Nat.min (length files) free /\ fr = (free - length ws)%nat
  /\ ((length files <= free)%nat -> ss = []).
Proof.
  induction files as [|x files IH]; intros free off vol ws ss fr k p v Hv Hnz H; simpl in H.
  - inversion H; subst. unfold cnt. simpl. repeat split; try reflexivity; lia.
  - assert (Hx : x <> 0) by (apply Hnz; now left).
    assert (Hnz' : forall y, In y files -> y <> 0) by (intros; apply Hnz; now right).
    destruct free as [|free].
    + destruct (file_loop files 0 off vol) as [[ws' ss'] fr'] eqn:E. inversion H; subst; clear H.
      destruct (IH _ _ _ _ _ _ k p v Hv Hnz' E) as (A & B & C & D & F & G).
      rewrite !cnt_cons. split; [|split; [|split; [|split; [|split]]]]; try assumption.
      * rewrite <- A. unfold smatch at 1, fm. cbn [hs_file hs_off hs_vol].
        rewrite name_empty_single, Z.eqb_refl. apply Z.eqb_neq in Hx. rewrite Hx. simpl. lia.
      * simpl in *. lia.
      * simpl. intro; lia.
    + destruct (file_loop files free off vol) as [[ws' ss'] fr'] eqn:E. inversion H; subst; clear H.
      destruct (IH _ _ _ _ _ _ k p v Hv Hnz' E) as (A & B & C & D & F & G).
      rewrite !cnt_cons. split; [|split; [|split; [|split; [|split]]]].
      * rewrite <- A. unfold wfile at 1, fm. rewrite Z.max_l by lia. apply Z.eqb_neq in Hx. rewrite Hx. simpl. lia.
      * simpl. exact B.
      * simpl. apply Z.eqb_neq in Hx. rewrite Hx. simpl. exact C.
      * simpl. rewrite D. reflexivity.
      * simpl. rewrite D in *. lia.
      * simpl. intro. apply G. lia.
Qed.

(* the source side of one volume group *)
Lemma bitmatch_group : forall bits t vol gv k p v,
  (forall r, In r gv -> hn_off r = t /\ hn_vol r = vol) ->
  cnt (bitmatch bits (t, k, p, v)) gv =
    if (k =? 0) && (vol =? v)
    then match p with [b] => if existsb (Z.eqb b) bits then count_bit b gv else O | _ => O end else O.
Proof.
  intros bits t vol gv k p v H.
  destruct ((k =? 0) && (vol =? v)) eqn:C.
  - apply andb_prop in C as [C1 C2].
    destruct p as [|b [|]].
    + apply cnt_false. intros r Hr. unfold bitmatch. now rewrite andb_false_r.
    + destruct (existsb (Z.eqb b) bits) eqn:E.
      * unfold count_bit. apply cnt_ext_in. intros r Hr. destruct (H r Hr) as [Ho Hvv].
        unfold bitmatch, has_bit. rewrite Ho, Hvv, Z.eqb_refl, C1, C2, E. reflexivity.
      * apply cnt_false. intros r Hr. unfold bitmatch. rewrite E. simpl. now rewrite andb_false_r.
    + apply cnt_false. intros r Hr. unfold bitmatch. now rewrite andb_false_r.
  - apply cnt_false. intros r Hr. destruct (H r Hr) as [Ho Hvv]. unfold bitmatch. rewrite Ho, Hvv, Z.eqb_refl. simpl.
    rewrite C. reflexivity.
Qed.

Lemma group_files_cons : forall r gv, group_files (r :: gv) = filter (fun s => negb (s =? 0)) (hn_file r) ++ group_files gv.
Proof. intros. unfold group_files. simpl. now rewrite filter_app. Qed.

Lemma group_files_nonzero : forall gv x, In x (group_files gv) -> x <> 0.
Proof. intros gv x H. unfold group_files in H. apply filter_In in H as [_ H]. apply negb_true_iff, Z.eqb_neq in H. exact H. Qed.

Lemma filematch_group : forall t vol gv k p v,
  (forall r, In r gv -> hn_off r = t /\ hn_vol r = vol /\ single_seg (hn_file r) = true) ->
  cnt (filematch (t, k, p, v)) gv = cnt (fm (t, k, p, v) vol) (group_files gv).
Proof.
  intros t vol gv k p v. induction gv as [|r gv IH]; intro H; [reflexivity|].
  rewrite group_files_cons, cnt_app, cnt_cons, IH by (intros; apply H; now right). f_equal.
  destruct (H r (or_introl eq_refl)) as (Ho & Hvv & Hs).
  unfold filematch. destruct (hn_file r) as [|x [|]]; try discriminate. rewrite name_empty_single, Ho, Hvv, Z.eqb_refl.
  simpl. destruct (x =? 0); simpl; [reflexivity|]. unfold cnt. simpl.
  destruct ((k =? 1) && list_eqb p [x] && (vol =? v)); reflexivity.
Qed.

Definition group_ok (t : Z) (vg : Z * list hnote) : Prop :=
  0 <= fst vg /\ forall r, In r (snd vg) -> hn_off r = t /\ hn_vol r = fst vg /\ single_seg (hn_file r) = true.

Lemma copied_sub : forall b, existsb (Z.eqb b) copied_bits = (b =? 2) || (b =? 4) || (b =? 8).
Proof. intro b. unfold copied_bits. simpl. now rewrite orb_false_r, orb_assoc. Qed.
Lemma bitvals_248 : forall b, (b =? 2) || (b =? 4) || (b =? 8) = true -> existsb (Z.eqb b) bitvals = true.
Proof.
  intros b H. apply existsb_exists. exists b. split; [|apply Z.eqb_refl].
  apply orb_prop in H as [H|H]; [apply orb_prop in H as [H|H]|]; apply Z.eqb_eq in H; subst; unfold bitvals; simpl; auto 10.
Qed.

Theorem plan_groups_match : forall t vgs free ws ss k p v,
  (forall vg, In vg vgs -> group_ok t vg) ->
  plan_groups t vgs free = (ws, ss) ->
  (cnt (wbit (t, k, p, v)) ws <= cnt (bitmatch bitvals (t, k, p, v)) (concat (map snd vgs)))%nat
  /\ (cnt (wfile (t, k, p, v)) ws + cnt (smatch (t, k, p, v)) ss = cnt (filematch (t, k, p, v)) (concat (map snd vgs)))%nat
  /\ ((total_need vgs <= free)%nat ->
        (cnt (bitmatch copied_bits (t, k, p, v)) (concat (map snd vgs)) <= cnt (wbit (t, k, p, v)) ws)%nat /\ ss = [])
  /\ length ws = Nat.min (total_need vgs) free /\ forallb wloud ws = true.
Proof.
  intros t vgs. induction vgs as [|[vol g] vgs IH]; intros free ws ss k p v Hok H.
  - simpl in H. inversion H; subst. unfold cnt, total_need. simpl. repeat split; try reflexivity; lia.
  - simpl in H.
    destruct (default_loop _ (count_bit 2 g) (count_bit 4 g) (count_bit 8 g) free vol) as [w1 free1] eqn:E1.
    destruct (file_loop (group_files g) free1 t vol) as [[w2 s2] free2] eqn:E2.
    destruct (plan_groups t vgs free2) as [w3 s3] eqn:E3.
    inversion H; subst; clear H.
    destruct (Hok (vol, g) (or_introl eq_refl)) as [Hvol Hg]. simpl in Hvol, Hg.
    pose proof (default_loop_wbit _ _ _ _ _ _ _ _ t k p v E1) as W1.
    destruct (default_loop_other _ _ _ _ _ _ _ _ E1 (Nat.le_refl _)) as (F1 & L1 & N1 & R1).
    destruct (file_loop_match _ _ _ _ _ _ _ k p v Hvol (group_files_nonzero g) E2) as (A2 & B2 & L2 & N2 & R2 & G2).
    destruct (IH free2 w3 s3 k p v (fun vg I => Hok vg (or_intror I)) E3) as (I1 & I2 & I3 & I4 & I5).
    assert (Hg2 : forall r, In r g -> hn_off r = t /\ hn_vol r = vol) by (intros r Hr; destruct (Hg r Hr) as (?&?&?); auto).
    pose proof (bitmatch_group bitvals t vol g k p v Hg2) as S1.
    pose proof (bitmatch_group copied_bits t vol g k p v Hg2) as S2.
    pose proof (filematch_group t vol g k p v Hg) as S3.
    simpl map. simpl concat. rewrite !cnt_app, !app_length, !forallb_app, L1, L2, I5.
    rewrite (F1 (t, k, p, v)), B2, S1, S2, S3, W1. rewrite Z.max_l by lia.
    unfold total_need in *. simpl. fold (need g).
    set (K := Nat.max (count_bit 2 g) (Nat.max (count_bit 4 g) (count_bit 8 g))) in *.
    assert (Hneed : need g = (K + length (group_files g))%nat) by reflexivity.
    set (TN := fold_right Nat.add 0%nat (map (fun vg => need (snd vg)) vgs)) in *.
    split; [|split; [|split; [|split]]]; try reflexivity.
    + destruct ((k =? 0) && (vol =? v)); [|lia]. destruct p as [|b [|]]; try lia.
      unfold bitsel.
      destruct (b =? 2) eqn:E2'; [apply Z.eqb_eq in E2'; subst b; simpl; lia|].
      destruct (b =? 4) eqn:E4'; [apply Z.eqb_eq in E4'; subst b; simpl; lia|].
      destruct (b =? 8) eqn:E8'; [apply Z.eqb_eq in E8'; subst b; simpl; lia|]. lia.
    + lia.
    + intro Hfit. assert (Hfit3 : (TN <= free2)%nat) by lia.
      destruct (I3 Hfit3) as [J1 J2]. assert (Hf : (length (group_files g) <= free1)%nat) by lia.
      rewrite (G2 Hf), J2. split; [|reflexivity].
      destruct ((k =? 0) && (vol =? v)); [|lia]. destruct p as [|b [|]]; try lia.
      try rewrite copied_sub. unfold bitsel.
      destruct (b =? 2) eqn:E2'; [apply Z.eqb_eq in E2'; subst b; simpl; lia|].
      destruct (b =? 4) eqn:E4'; [apply Z.eqb_eq in E4'; subst b; simpl; lia|].
      destruct (b =? 8) eqn:E8'; [apply Z.eqb_eq in E8'; subst b; simpl; lia|]. simpl. lia.
    + lia.
Qed.

(* ================================================================== plumbing between charts, frames and groups *)
Lemma filter_split_perm : forall (f : hnote -> bool) l,
  Permutation (filter f l ++ filter (fun r => negb (f r)) l) l.
Proof.
  intros f l. induction l as [|a l IH]; simpl; [constructor|]. destruct (f a); simpl.
  - now constructor.
  - apply Permutation_sym, Permutation_cons_app, Permutation_sym, IH.
Qed.

Lemma cnt_map : forall A B (f : A -> B) (m : B -> bool) l, cnt m (map f l) = cnt (fun x => m (f x)) l.
Proof. intros. induction l as [|a l IH]; [reflexivity|]. simpl. rewrite !cnt_cons, IH. reflexivity. Qed.

Lemma cnt_at_time : forall (m : hnote -> bool) t l,
  (forall r, m r = true -> hn_off r = t) -> cnt m l = cnt m (at_time t l).
Proof.
  intros m t l H. unfold at_time. rewrite cnt_filter. apply cnt_ext_in. intros r _.
  destruct (m r) eqn:E; [rewrite (H r E), Z.eqb_refl; reflexivity | now rewrite andb_false_r].
Qed.

Lemma cnt_disjoint_or : forall A (p q : A -> bool) l,
  (forall x, In x l -> p x && q x = false) -> (cnt p l + cnt q l)%nat = cnt (fun x => p x || q x) l.
Proof.
  intros A p q l H. induction l as [|a l IH]; [reflexivity|]. rewrite !cnt_cons, <- IH by (intros; apply H; now right).
  specialize (H a (or_introl eq_refl)). destruct (p a), (q a); simpl in *; try discriminate; lia.
Qed.

Lemma concat_groups_cnt : forall (key : hnote -> Z) (m : hnote -> bool) rows keys, NoDup keys ->
  cnt m (concat (map (fun k => filter (fun r => key r =? k) rows) keys))
  = cnt (fun r => existsb (Z.eqb (key r)) keys && m r) rows.
Proof.
  intros key m rows keys. induction keys as [|k keys IH]; intro ND.
  - simpl. symmetry. apply cnt_false. reflexivity.
  - inversion ND as [|? ? Hn ND']; subst. simpl. rewrite cnt_app, IH, cnt_filter by assumption.
    rewrite cnt_disjoint_or.
    + apply cnt_ext_in. intros r _. destruct (key r =? k), (existsb (Z.eqb (key r)) keys), (m r); reflexivity.
    + intros r _. destruct (key r =? k) eqn:E; [|reflexivity]. apply Z.eqb_eq in E. rewrite E.
      rewrite (existsb_notin _ _ Hn). simpl. now rewrite andb_false_r.
Qed.

Lemma group_by_concat_cnt : forall key (m : hnote -> bool) rows,
  cnt m (concat (map snd (group_by key rows))) = cnt m rows.
Proof.
  intros key m rows. unfold group_by. rewrite map_map. simpl.
  rewrite concat_groups_cnt by (apply sorted_lt_NoDup, usort_sorted).
  apply cnt_ext_in. intros r Hr.
  assert (existsb (Z.eqb (key r)) (usort (map key rows)) = true) as ->; [|reflexivity].
  apply existsb_exists. exists (key r). split; [|apply Z.eqb_refl]. apply usort_in. now apply in_map.
Qed.

(* matchers look only at time, volume, hitsound set and file *)
Lemma bitmatch_set_len : forall bits a l r, bitmatch bits a (set_len l r) = bitmatch bits a r.
Proof. intros bits [[[t k] p] v] l r. reflexivity. Qed.
Lemma filematch_set_len : forall a l r, filematch a (set_len l r) = filematch a r.
Proof. intros [[[t k] p] v] l r. reflexivity. Qed.

Lemma bits_nonzero : forall bits, (forall b, In b bits -> In b bitvals) ->
  forall a r, bitmatch bits a r = true -> hn_hs r <> 0.
Proof.
  intros bits Hsub [[[t k] p] v] r H Hz. unfold bitmatch in H. rewrite Hz in H.
  destruct p as [|b [|]]; rewrite ?andb_false_r in H; try discriminate.
  apply andb_prop in H as [_ H]. apply andb_prop in H as [H1 H2].
  apply existsb_exists in H1 as [x [Hin Hx]]. apply Z.eqb_eq in Hx. subst x.
  assert (existsb (Z.eqb b) bitvals = true) by (apply existsb_exists; exists b; split; [auto | apply Z.eqb_refl]).
  rewrite (bitvals_nonzero _ H) in H2. discriminate.
Qed.
Lemma copied_in_bitvals : forall b, In b copied_bits -> In b bitvals.
Proof. unfold copied_bits, bitvals. simpl. intuition. Qed.

Lemma bitmatch_loud : forall bits, (forall b, In b bits -> In b bitvals) ->
  forall a r, bitmatch bits a r = true -> loud r = true.
Proof.
  intros bits Hs a r H. apply (bits_nonzero bits Hs) in H. unfold loud. apply Z.eqb_neq in H. rewrite H. simpl.
  rewrite !orb_true_r. reflexivity.
Qed.
Lemma filematch_loud : forall a r, filematch a r = true -> loud r = true.
Proof.
  intros [[[t k] p] v] r H. unfold filematch in H. repeat (apply andb_prop in H as [H _]).
  unfold loud. rewrite H. now rewrite !orb_true_r.
Qed.
Lemma bitmatch_time : forall bits t k p v r, bitmatch bits (t, k, p, v) r = true -> hn_off r = t.
Proof. intros. unfold bitmatch in H. repeat (apply andb_prop in H as [H _]). now apply Z.eqb_eq. Qed.
Lemma filematch_time : forall t k p v r, filematch (t, k, p, v) r = true -> hn_off r = t.
Proof. intros. unfold filematch in H. do 3 (apply andb_prop in H as [H _]). apply andb_prop in H as [_ H]. now apply Z.eqb_eq. Qed.

Lemma all_notes_df_cnt : forall (m : hnote -> bool) src,
  (forall l r, m (set_len l r) = m r) -> cnt m (notes_df src) = cnt m (all_notes src).
Proof.
  intros m src H. unfold notes_df, all_notes. rewrite !cnt_app, cnt_map. f_equal. apply cnt_ext_in. intros; apply H.
Qed.

(* from the chart to the rows of one time in the sorted loud source frame *)
Lemma src_to_group : forall (m : hnote -> bool) src s t,
  Permutation (filter loud (notes_df src)) s ->
  (forall l r, m (set_len l r) = m r) -> (forall r, m r = true -> loud r = true) -> (forall r, m r = true -> hn_off r = t) ->
  cnt m (all_notes src) = cnt m (at_time t s).
Proof.
  intros m src s t P H1 H2 H3.
  rewrite <- (all_notes_df_cnt m src H1), <- (cnt_at_time m t s H3), <- (cnt_perm _ m _ _ P), cnt_filter.
  apply cnt_ext_in. intros r _. destruct (m r) eqn:E; [now rewrite (H2 r E) | now rewrite andb_false_r].
Qed.

Lemma out_to_frame : forall (m : hnote -> bool) df smp,
  cnt m (all_notes (mkM (filter is_hit df) (filter (fun r => negb (is_hit r)) df) smp)) = cnt m df.
Proof. intros. unfold all_notes. simpl. apply cnt_perm, filter_split_perm. Qed.

(* the rows of the sorted source frame come from source notes *)
Lemma src_rows_ok : forall src tgt s r,
  wf src tgt = true -> no_semicolon src = true -> Permutation (filter loud (notes_df src)) s -> In r s ->
  0 <= hn_vol r /\ single_seg (hn_file r) = true.
Proof.
  intros src tgt s r Hwf Hns P Hin.
  apply (Permutation_in _ (Permutation_sym P)) in Hin. apply filter_In in Hin as [Hin _].
  unfold wf in Hwf. apply andb_prop in Hwf as [Hwf _]. apply andb_prop in Hwf as [Hwf _].
  unfold no_semicolon in Hns. rewrite forallb_forall in Hwf, Hns. unfold all_notes in *.
  unfold notes_df in Hin. apply in_app_or in Hin as [Hin|Hin].
  - apply in_map_iff in Hin as [r0 [<- Hin]]. simpl.
    assert (I : In r0 (hm_hits src ++ hm_holds src)) by (apply in_or_app; now left).
    specialize (Hwf _ I). specialize (Hns _ I). unfold src_note_ok in Hwf.
    apply andb_prop in Hwf as [Hwf _]. apply andb_prop in Hwf as [Hwf _]. apply Z.leb_le in Hwf. auto.
  - assert (I : In r (hm_hits src ++ hm_holds src)) by (apply in_or_app; now right).
    specialize (Hwf _ I). specialize (Hns _ I). unfold src_note_ok in Hwf.
    apply andb_prop in Hwf as [Hwf _]. apply andb_prop in Hwf as [Hwf _]. apply Z.leb_le in Hwf. auto.
Qed.

Lemma groups_ok : forall t g,
  (forall r, In r g -> hn_off r = t /\ 0 <= hn_vol r /\ single_seg (hn_file r) = true) ->
  forall vg, In vg (group_by hn_vol g) -> group_ok t vg.
Proof.
  intros t g H [v gv] Hin. apply group_by_in in Hin as [-> Hk]. unfold group_ok. simpl.
  apply in_map_iff in Hk as [r0 [<- Hr0]]. split; [apply (H r0 Hr0)|].
  intros r Hr. apply filter_In in Hr as [Hr E]. apply Z.eqb_eq in E. destruct (H r Hr) as (A & B & C). auto.
Qed.

(* the target frame is silent *)
Lemma tgt_frame_silent : forall tgt df t r,
  Permutation (map reset_note (notes_df tgt)) df -> In r (at_time t df) -> silent_at t r.
Proof.
  intros tgt df t r P Hin. unfold at_time in Hin. apply filter_In in Hin as [Hin E]. apply Z.eqb_eq in E.
  apply (Permutation_in _ (Permutation_sym P)) in Hin. apply in_map_iff in Hin as [r0 [<- _]].
  unfold silent_at. simpl in *. auto.
Qed.

(* event samples of a plan carry the time of the plan *)
Lemma file_loop_samples_off : forall files free off vol ws ss fr s,
  file_loop files free off vol = (ws, ss, fr) -> In s ss -> hs_off s = off.
Proof.
  induction files as [|x files IH]; intros free off vol ws ss fr s H Hin; simpl in H.
  - inversion H; subst. contradiction.
  - destruct free as [|free].
    + destruct (file_loop files 0 off vol) as [[ws' ss'] fr'] eqn:E. inversion H; subst.
      destruct Hin as [<-|Hin]; [reflexivity | eapply IH; eauto].
    + destruct (file_loop files free off vol) as [[ws' ss'] fr'] eqn:E. inversion H; subst. eapply IH; eauto.
Qed.
Lemma plan_groups_samples_off : forall off vgs free ws ss s,
  plan_groups off vgs free = (ws, ss) -> In s ss -> hs_off s = off.
Proof.
  induction vgs as [|[vol g] vgs IH]; intros free ws ss s H Hin; simpl in H.
  - inversion H; subst. contradiction.
  - destruct (default_loop _ _ _ _ free vol) as [w1 free1].
    destruct (file_loop (group_files g) free1 off vol) as [[w2 s2] free2] eqn:E2.
    destruct (plan_groups off vgs free2) as [w3 s3] eqn:E3. inversion H; subst.
    apply in_app_or in Hin as [Hin|Hin]; [eapply file_loop_samples_off; eauto | eapply IH; eauto].
Qed.

Lemma smatch_time : forall t k p v s, smatch (t, k, p, v) s = true -> hs_off s = t.
Proof. intros. unfold smatch in H. do 3 (apply andb_prop in H as [H _]). apply andb_prop in H as [_ H]. now apply Z.eqb_eq. Qed.

Lemma samples_other : forall df (ogs : list (Z * list hnote)) t k p v,
  ~ In t (map fst ogs) -> cnt (smatch (t, k, p, v)) (flat_map (fun og => snd (writes_for df og)) ogs) = O.
Proof.
  intros df ogs t k p v Hn. apply cnt_false. intros s Hs. apply in_flat_map in Hs as [og [Hog Hs]].
  destruct (smatch (t, k, p, v) s) eqn:E; [|reflexivity]. exfalso. apply smatch_time in E.
  unfold writes_for in Hs. destruct (plan_groups (fst og) (group_by hn_vol (snd og)) (slots_at (fst og) df)) as [ws ss] eqn:Ep.
  simpl in Hs. apply (plan_groups_samples_off _ _ _ _ _ _ Ep) in Hs. apply Hn. rewrite <- E, Hs. now apply in_map.
Qed.

Lemma samples_single : forall df (ogs : list (Z * list hnote)) t g k p v,
  NoDup (map fst ogs) -> In (t, g) ogs ->
  cnt (smatch (t, k, p, v)) (flat_map (fun og => snd (writes_for df og)) ogs)
  = cnt (smatch (t, k, p, v)) (snd (writes_for df (t, g))).
Proof.
  intros df ogs t g k p v. induction ogs as [|og ogs IH]; intros ND Hin; [contradiction|].
  inversion ND as [|? ? Hn ND']; subst. simpl. rewrite cnt_app. destruct Hin as [->|Hin].
  - rewrite (samples_other df ogs t k p v Hn). lia.
  - rewrite (IH ND' Hin).
    assert (Hne : fst og <> t) by (intro E; apply Hn; rewrite E; change t with (fst (t, g)); now apply in_map).
    assert (cnt (smatch (t, k, p, v)) (snd (writes_for df og)) = O) as ->; [|reflexivity].
    pose proof (samples_other df [og] t k p v) as X. simpl in X. rewrite app_nil_r in X. apply X. intuition.
Qed.

(* ================================================================== the routine, seen from one time *)
Lemma copy_decompose : forall psrc ptgt src tgt out,
  hitsound_copy psrc ptgt src tgt = Some out ->
  exists s df df' smp',
    Permutation (filter loud (notes_df src)) s /\ Permutation (map reset_note (notes_df tgt)) df
    /\ run_groups (group_by hn_off s) (df, []) = (df', smp')
    /\ out = mkM (filter is_hit df') (filter (fun r => negb (is_hit r)) df') smp'.
Proof.
  intros psrc ptgt src tgt out H. unfold hitsound_copy in H.
  destruct (sort_with psrc (filter loud (notes_df src))) as [s|] eqn:Es; [|discriminate].
  destruct (sort_with ptgt (map reset_note (notes_df tgt))) as [df|] eqn:Ed; [|discriminate].
  destruct (run_groups (group_by hn_off s) (df, [])) as [df' smp'] eqn:Er. inversion H; subst.
  exists s, df, df', smp'. split; [eapply sort_with_Permutation; eauto|]. split; [eapply sort_with_Permutation; eauto|]. split; [exact Er | reflexivity].
Qed.

Definition plan_at (s df : list hnote) (t : Z) : list write * list hsample :=
  plan_groups t (group_by hn_vol (at_time t s)) (slots_at t df).

Lemma time_view : forall s df df' smp' t,
  run_groups (group_by hn_off s) (df, []) = (df', smp') ->
  at_time t df' = wprefix (fst (plan_at s df t)) (at_time t df)
  /\ forall k p v, cnt (smatch (t, k, p, v)) smp' = cnt (smatch (t, k, p, v)) (snd (plan_at s df t)).
Proof.
  intros s df df' smp' t H.
  destruct (run_groups_local _ _ _ _ _ (group_by_NoDup hn_off s) H) as (A & B & C). simpl in C. subst smp'.
  destruct (in_dec Z.eq_dec t (map hn_off s)) as [I|N].
  - pose proof (group_by_has hn_off s t I) as Hin. fold (at_time t s) in Hin.
    split.
    + apply (B _ Hin).
    + intros k p v. apply (samples_single df _ t (at_time t s) k p v (group_by_NoDup hn_off s) Hin).
  - assert (Hk : ~ In t (map fst (group_by hn_off s))) by (rewrite group_by_keys, usort_in; exact N).
    unfold plan_at. rewrite (at_time_nil t s N). simpl. split.
    + rewrite (A t Hk). destruct (at_time t df); reflexivity.
    + intros k p v. apply samples_other. exact Hk.
Qed.

Section OneTime.
  Variables (src tgt : hmap) (s df df' : list hnote) (smp' : list hsample).
  Hypothesis Hwf : wf src tgt = true.
  Hypothesis Hns : no_semicolon src = true.
  Hypothesis Ps : Permutation (filter loud (notes_df src)) s.
  Hypothesis Pd : Permutation (map reset_note (notes_df tgt)) df.
  Hypothesis Hrun : run_groups (group_by hn_off s) (df, []) = (df', smp').

  Lemma groups_ok_at : forall t vg, In vg (group_by hn_vol (at_time t s)) -> group_ok t vg.
  Proof.
    intro t. apply groups_ok. intros r Hr. unfold at_time in Hr. apply filter_In in Hr as [Hr E]. apply Z.eqb_eq in E.
    destruct (src_rows_ok src tgt s r Hwf Hns Ps Hr). auto.
  Qed.

  Lemma one_time : forall t k p v,
    let a := (t, k, p, v) in
    let need_t := total_need (group_by hn_vol (at_time t s)) in
    (cnt (bitmatch bitvals a) df' <= cnt (bitmatch bitvals a) (all_notes src))%nat
    /\ (cnt (filematch a) df' + cnt (smatch a) smp' = cnt (filematch a) (all_notes src))%nat
    /\ ((need_t <= slots_at t df)%nat ->
          (cnt (bitmatch copied_bits a) (all_notes src) <= cnt (bitmatch bitvals a) df')%nat
          /\ cnt (smatch a) smp' = O)
    /\ cnt sounding (at_time t df') = Nat.min need_t (slots_at t df).
  Proof.
    intros t k p v a need_t.
    destruct (time_view _ _ _ _ t Hrun) as [V1 V2].
    unfold plan_at in *. destruct (plan_groups t (group_by hn_vol (at_time t s)) (slots_at t df)) as [ws ss] eqn:Ep.
    simpl in V1, V2.
    destruct (plan_groups_match t _ _ _ _ k p v (groups_ok_at t) Ep) as (M1 & M2 & M3 & M4 & M5).
    rewrite !group_by_concat_cnt in M1, M2, M3.
    assert (Hsil : forall r, In r (at_time t df) -> silent_at t r) by (intros r Hr; eapply tgt_frame_silent; eauto).
    assert (Hlen : (length ws <= length (at_time t df))%nat) by (rewrite M4, <- slots_at_eq; lia).
    (* the written rows *)
    assert (Wb : cnt (bitmatch bitvals a) df' = cnt (wbit a) ws).
    { rewrite (cnt_at_time _ t df') by (intros r; apply bitmatch_time). rewrite V1.
      apply (wprefix_cnt t); auto. - intros r Hr. eapply bitmatch_silent; eauto. - intros w r Hr. now apply bitmatch_written. }
    assert (Wf : cnt (filematch a) df' = cnt (wfile a) ws).
    { rewrite (cnt_at_time _ t df') by (intros r; apply filematch_time). rewrite V1.
      apply (wprefix_cnt t); auto. - intros r Hr. eapply filematch_silent; eauto. - intros w r Hr. now apply filematch_written. }
    assert (Ws : cnt sounding (at_time t df') = length ws).
    { rewrite V1. rewrite (wprefix_cnt t sounding wloud); auto.
      - unfold cnt. clear - M5. induction ws as [|w ws IH]; [reflexivity|]. simpl in *. apply andb_prop in M5 as [-> M5]. simpl. now rewrite IH.
      - apply sounding_silent. - intros w r Hr. eapply sounding_written; eauto. }
    (* the source rows *)
    assert (Sb : cnt (bitmatch bitvals a) (all_notes src) = cnt (bitmatch bitvals a) (at_time t s)).
    { apply src_to_group; [exact Ps | intros; apply bitmatch_set_len | intros r Hr; exact (bitmatch_loud bitvals (fun b H => H) a r Hr) | intros r; apply bitmatch_time]. }
    assert (Sc : cnt (bitmatch copied_bits a) (all_notes src) = cnt (bitmatch copied_bits a) (at_time t s)).
    { apply src_to_group; [exact Ps | intros; apply bitmatch_set_len | intros r Hr; exact (bitmatch_loud copied_bits copied_in_bitvals a r Hr) | intros r; apply bitmatch_time]. }
    assert (Sf : cnt (filematch a) (all_notes src) = cnt (filematch a) (at_time t s)).
    { apply src_to_group; [exact Ps | intros; apply filematch_set_len | intros r Hr; exact (filematch_loud a r Hr) | intros r; apply filematch_time]. }
    subst a need_t. rewrite Wb, Wf, Ws, Sb, Sc, Sf, (V2 k p v).
    split; [exact M1|]. split; [exact M2|]. split; [|exact M4].
    intro Hfit. destruct (M3 Hfit) as [M3a ->]. split; [exact M3a | reflexivity].
  Qed.
End OneTime.

(* ================================================================== hitsound sets written are small *)
Definition wval_ok (w : write) : Prop := match w with WBits val _ => 0 <= val < 65536 | WFile _ _ => True end.

Lemma default_loop_vals : forall k c f w free vol ws fr,
  default_loop k c f w free vol = (ws, fr) -> Forall wval_ok ws.
Proof.
  induction k as [|k IH]; intros c f w free vol ws fr H; simpl in H.
  - inversion H; subst. constructor.
  - destruct free as [|free]; [inversion H; subst; constructor|].
    destruct (default_loop k (Nat.pred c) (Nat.pred f) (Nat.pred w) free vol) as [ws' fr'] eqn:E. inversion H; subst.
    constructor; [|eapply IH; eauto]. simpl. destruct (pos c), (pos f), (pos w); simpl; lia.
Qed.
Lemma file_loop_vals : forall files free off vol ws ss fr,
  file_loop files free off vol = (ws, ss, fr) -> Forall wval_ok ws.
Proof.
  induction files as [|x files IH]; intros free off vol ws ss fr H; simpl in H.
  - inversion H; subst. constructor.
  - destruct free as [|free].
    + destruct (file_loop files 0 off vol) as [[ws' ss'] fr'] eqn:E. inversion H; subst. eapply IH; eauto.
    + destruct (file_loop files free off vol) as [[ws' ss'] fr'] eqn:E. inversion H; subst.
      constructor; [exact I | eapply IH; eauto].
Qed.
Lemma plan_groups_vals : forall off vgs free ws ss, plan_groups off vgs free = (ws, ss) -> Forall wval_ok ws.
Proof.
  induction vgs as [|[vol g] vgs IH]; intros free ws ss H; simpl in H.
  - inversion H; subst. constructor.
  - destruct (default_loop _ _ _ _ free vol) as [w1 free1] eqn:E1.
    destruct (file_loop (group_files g) free1 off vol) as [[w2 s2] free2] eqn:E2.
    destruct (plan_groups off vgs free2) as [w3 s3] eqn:E3. inversion H; subst.
    apply Forall_app; split; [eapply default_loop_vals; eauto|].
    apply Forall_app; split; [eapply file_loop_vals; eauto | eapply IH; eauto].
Qed.

Lemma wprefix_range : forall t ws rows,
  Forall wval_ok ws -> (forall r, In r rows -> silent_at t r) ->
  forall r, In r (wprefix ws rows) -> hs_in_range r = true.
Proof.
  intros t ws rows. revert ws. induction rows as [|r0 rows IH]; intros ws Hw Hs r Hin; [contradiction|].
  destruct ws as [|w ws].
  - simpl in Hin. destruct (Hs r Hin) as (_ & Hz & _). unfold hs_in_range. rewrite Hz. reflexivity.
  - simpl in Hin. inversion Hw; subst. destruct Hin as [<-|Hin].
    + destruct (Hs r0 (or_introl eq_refl)) as (_ & Hz & _).
      destruct w as [val vol|f vol]; unfold hs_in_range, do_write; cbn [hn_hs].
      * simpl in H1. apply andb_true_intro. split; [apply Z.leb_le | apply Z.ltb_lt]; lia.
      * rewrite Hz. reflexivity.
    + eapply IH; eauto. intros; apply Hs; now right.
Qed.

(* ================================================================== WHOLE CHARTS *)
Section Whole.
  Variables (psrc ptgt : list nat) (src tgt out : hmap).
  Hypothesis Hwf : wf src tgt = true.
  Hypothesis Hns : no_semicolon src = true.
  Hypothesis Hrun : hitsound_copy psrc ptgt src tgt = Some out.

  (* every sound of the result was in the source at that time, with multiplicity *)
  Theorem hs_no_invention : no_invention src out.
  Proof.
    destruct (copy_decompose _ _ _ _ _ Hrun) as (s & df & df' & smp' & Ps & Pd & Hr & ->).
    split.
    - intros [[[t k] p] v].
      destruct (one_time src tgt s df df' smp' Hwf Hns Ps Pd Hr t k p v) as (A & B & _ & _).
      rewrite (count_app atom_eqb). unfold note_atoms.
      pose proof (count_note_atoms_rows (t, k, p, v)) as N. pose proof (count_sample_atoms_rows (t, k, p, v)) as S.
      unfold acount in N, S. rewrite !N, S. rewrite !out_to_frame. simpl hm_samples. lia.
    - apply forallb_forall. intros r Hin. unfold all_notes in Hin. simpl in Hin.
      assert (Hin' : In r df').
      { apply in_app_or in Hin as [Hin|Hin]; apply filter_In in Hin; tauto. }
      assert (Hat : In r (at_time (hn_off r) df')) by (unfold at_time; apply filter_In; split; [exact Hin' | apply Z.eqb_refl]).
      destruct (time_view _ _ _ _ (hn_off r) Hr) as [V1 _]. rewrite V1 in Hat.
      unfold plan_at in Hat. destruct (plan_groups (hn_off r) (group_by hn_vol (at_time (hn_off r) s)) (slots_at (hn_off r) df)) as [ws ss] eqn:Ep.
      simpl in Hat. eapply wprefix_range; [eapply plan_groups_vals; eauto | | exact Hat].
      intros r1 Hr1. eapply tgt_frame_silent; eauto.
  Qed.

  (* every named sample of the source is on a result note or an event sample at that time — and nothing else is *)
  Theorem hs_named_conserved : named_conserved src out.
  Proof.
    destruct (copy_decompose _ _ _ _ _ Hrun) as (s & df & df' & smp' & Ps & Pd & Hr & ->).
    intros [[[t k] p] v].
    destruct (one_time src tgt s df df' smp' Hwf Hns Ps Pd Hr t k p v) as (_ & B & _ & _).
    rewrite (count_app atom_eqb). unfold named_atoms.
    pose proof (count_named_atoms_rows (t, k, p, v)) as N. pose proof (count_sample_atoms_rows (t, k, p, v)) as S.
    unfold acount in N, S. rewrite !N, S. rewrite out_to_frame. simpl hm_samples. lia.
  Qed.
End Whole.

(* ================================================================== demand of the specification = need of the model *)
Lemma dedup_in : forall l x, In x (dedup l) <-> In x l.
Proof.
  induction l as [|a l IH]; simpl; intros; [tauto|].
  destruct (existsb (Z.eqb a) l) eqn:E.
  - rewrite IH. split; [auto|]. intros [<-|H]; [|auto].
    apply existsb_exists in E as [y [Hy Ey]]. apply Z.eqb_eq in Ey. now subst.
  - simpl. rewrite IH. tauto.
Qed.
Lemma dedup_NoDup : forall l, NoDup (dedup l).
Proof.
  induction l as [|a l IH]; simpl; [constructor|].
  destruct (existsb (Z.eqb a) l) eqn:E; [exact IH|]. constructor; [|exact IH].
  rewrite dedup_in. intro Hin. assert (existsb (Z.eqb a) l = true) by (apply existsb_exists; exists a; split; [auto | apply Z.eqb_refl]). congruence.
Qed.

Definition sumf (f : Z -> nat) (l : list Z) : nat := fold_right Nat.add O (map f l).

Lemma sumf_zero : forall f l, (forall x, In x l -> f x = O) -> sumf f l = O.
Proof. intros f l H. induction l as [|a l IH]; [reflexivity|]. unfold sumf in *. simpl. rewrite H by now left. rewrite IH; [reflexivity | intros; apply H; now right]. Qed.
Lemma sumf_app : forall f l1 l2, sumf f (l1 ++ l2) = (sumf f l1 + sumf f l2)%nat.
Proof. intros. unfold sumf. rewrite map_app. induction (map f l1); simpl; lia. Qed.

Lemma sumf_incl : forall f l1 l2, NoDup l1 -> NoDup l2 -> incl l1 l2 ->
  (forall x, In x l2 -> ~ In x l1 -> f x = O) -> sumf f l1 = sumf f l2.
Proof.
  intros f l1. induction l1 as [|x l1 IH]; intros l2 N1 N2 Hi Hz.
  - symmetry. apply sumf_zero. intros y Hy. apply Hz; auto.
  - inversion N1 as [|? ? Hx N1']; subst.
    assert (Hin : In x l2) by (apply Hi; now left).
    apply in_split in Hin as [A [B ->]].
    pose proof (NoDup_remove_1 _ _ _ N2) as N2'. pose proof (NoDup_remove_2 _ _ _ N2) as Hx2.
    rewrite sumf_app. unfold sumf at 1 3. simpl. fold (sumf f l1). fold (sumf f B).
    rewrite (IH (A ++ B) N1' N2').
    + rewrite sumf_app. lia.
    + intros y Hy. assert (In y (A ++ x :: B)) by (apply Hi; now right).
      apply in_app_or in H as [H|[H|H]]; [apply in_or_app; now left | subst; contradiction | apply in_or_app; now right].
    + intros y Hy Hn. apply Hz.
      * apply in_app_or in Hy as [Hy|Hy]; apply in_or_app; [now left | right; now right].
      * intros [<-|H]; [contradiction | contradiction].
Qed.

(* transfer of a row count from the chart to the sorted loud frame *)
Lemma src_to_frame : forall (m : hnote -> bool) src s,
  Permutation (filter loud (notes_df src)) s ->
  (forall l r, m (set_len l r) = m r) -> (forall r, m r = true -> loud r = true) ->
  cnt m (all_notes src) = cnt m s.
Proof.
  intros m src s P H1 H2.
  rewrite <- (all_notes_df_cnt m src H1), <- (cnt_perm _ m _ _ P), cnt_filter.
  apply cnt_ext_in. intros r _. destruct (m r) eqn:E; [now rewrite (H2 r E) | now rewrite andb_false_r].
Qed.

Lemma hasbit_loud : forall b r, b <> 0 -> (Z.land (hn_hs r) b =? b) = true -> loud r = true.
Proof.
  intros b r Hb H. unfold loud. destruct (hn_hs r =? 0) eqn:E.
  - apply Z.eqb_eq in E. rewrite E, Z.land_0_l in H. apply Z.eqb_eq in H. congruence.
  - simpl. now rewrite !orb_true_r.
Qed.
Lemma named_loud : forall r, negb (name_empty (hn_file r)) = true -> loud r = true.
Proof. intros r H. unfold loud. rewrite H. now rewrite !orb_true_r. Qed.

Lemma group_files_length : forall gv, (forall r, In r gv -> single_seg (hn_file r) = true) ->
  length (group_files gv) = cnt (fun r => negb (name_empty (hn_file r))) gv.
Proof.
  induction gv as [|r gv IH]; intro H; [reflexivity|].
  rewrite group_files_cons, app_length, cnt_cons, IH by (intros; apply H; now right). f_equal.
  specialize (H r (or_introl eq_refl)). destruct (hn_file r) as [|x [|]]; try discriminate.
  rewrite name_empty_single. simpl. destruct (x =? 0); reflexivity.
Qed.

Section Demand.
  Variables (src tgt : hmap) (s : list hnote).
  Hypothesis Hwf : wf src tgt = true.
  Hypothesis Hns : no_semicolon src = true.
  Hypothesis Ps : Permutation (filter loud (notes_df src)) s.

  Lemma need_demand_tv : forall t v,
    need (filter (fun r => hn_vol r =? v) (at_time t s)) = demand_tv src t v.
  Proof.
    intros t v. unfold need, demand_tv.
    assert (B : forall b, b <> 0 -> count_bit b (filter (fun r => hn_vol r =? v) (at_time t s)) = nbit b (at_tv t v (all_notes src))).
    { intros b Hb. unfold count_bit, nbit, at_tv, at_time. fold (cnt (has_bit b) (filter (fun r => hn_vol r =? v) (filter (fun r => hn_off r =? t) s))).
      fold (cnt (fun r => Z.land (hn_hs r) b =? b) (filter (fun r => (hn_off r =? t) && (hn_vol r =? v)) (all_notes src))).
      rewrite !cnt_filter.
      rewrite (src_to_frame (fun r => (hn_off r =? t) && (hn_vol r =? v) && (Z.land (hn_hs r) b =? b)) src s Ps).
      - apply cnt_ext_in. intros r _. unfold has_bit. now rewrite andb_assoc.
      - reflexivity.
      - intros r H. apply andb_prop in H as [_ H]. now apply (hasbit_loud b). }
    rewrite !B by discriminate. f_equal.
    rewrite group_files_length.
    - unfold nnamed, at_tv, at_time.
      fold (cnt (fun r => negb (name_empty (hn_file r))) (filter (fun r => (hn_off r =? t) && (hn_vol r =? v)) (all_notes src))).
      rewrite !cnt_filter.
      rewrite (src_to_frame (fun r => (hn_off r =? t) && (hn_vol r =? v) && negb (name_empty (hn_file r))) src s Ps).
      + apply cnt_ext_in. intros r _. now rewrite andb_assoc.
      + reflexivity.
      + intros r H. apply andb_prop in H as [_ H]. now apply named_loud.
    - intros r Hr. apply filter_In in Hr as [Hr _]. unfold at_time in Hr. apply filter_In in Hr as [Hr _].
      apply (src_rows_ok src tgt s r Hwf Hns Ps Hr).
  Qed.

  Lemma total_need_demand : forall t, total_need (group_by hn_vol (at_time t s)) = demand src t.
  Proof.
    intro t. unfold total_need, demand, group_by. rewrite map_map. simpl.
    change (sumf (fun v => need (filter (fun r => hn_vol r =? v) (at_time t s))) (usort (map hn_vol (at_time t s)))
            = sumf (demand_tv src t) (dedup (map hn_vol (at_time t (all_notes src))))).
    rewrite (sumf_incl _ (usort (map hn_vol (at_time t s))) (dedup (map hn_vol (at_time t (all_notes src))))).
    - unfold sumf. f_equal. apply map_ext. intro v. apply need_demand_tv.
    - apply sorted_lt_NoDup, usort_sorted.
    - apply dedup_NoDup.
    - intros v Hv. apply (proj1 (usort_in _ _)) in Hv. apply (proj2 (dedup_in _ _)). apply in_map_iff in Hv as [r [<- Hr]].
      unfold at_time in *. apply filter_In in Hr as [Hr Et].
      apply (Permutation_in _ (Permutation_sym Ps)) in Hr. apply filter_In in Hr as [Hr _].
      unfold notes_df in Hr. apply in_app_or in Hr as [Hr|Hr].
      + apply in_map_iff in Hr as [r0 [<- Hr0]]. apply in_map_iff. exists r0. split; [reflexivity|].
        apply filter_In. split; [unfold all_notes; apply in_or_app; now left | exact Et].
      + apply in_map_iff. exists r. split; [reflexivity|].
        apply filter_In. split; [unfold all_notes; apply in_or_app; now right | exact Et].
    - intros v _ Hn0. assert (Hn : ~ In v (map hn_vol (at_time t s))) by (intro X; apply Hn0; apply (proj2 (usort_in _ _)); exact X).
      assert (filter (fun r => hn_vol r =? v) (at_time t s) = []) as ->; [|reflexivity].
      destruct (filter (fun r => hn_vol r =? v) (at_time t s)) as [|r l] eqn:E; [reflexivity|]. exfalso.
      assert (Hr : In r (filter (fun r => hn_vol r =? v) (at_time t s))) by (rewrite E; now left).
      apply filter_In in Hr as [Hr Ev]. apply Z.eqb_eq in Ev. apply Hn. rewrite <- Ev. now apply in_map.
  Qed.
End Demand.

Lemma count_atoms_at : forall a t l,
  count atom_eqb a (atoms_at t l) = if atom_time a =? t then count atom_eqb a l else O.
Proof.
  intros a t l. unfold atoms_at. induction l as [|x l IH]; simpl; [destruct (atom_time a =? t); reflexivity|].
  destruct (atom_time x =? t) eqn:Ex; simpl; rewrite IH; destruct (atom_time a =? t) eqn:Ea; try reflexivity;
    destruct (atom_eqb a x) eqn:E; try reflexivity; apply atom_eqb_eq in E; subst; congruence.
Qed.

Section Whole2.
  Variables (psrc ptgt : list nat) (src tgt out : hmap).
  Hypothesis Hwf : wf src tgt = true.
  Hypothesis Hns : no_semicolon src = true.
  Hypothesis Hrun : hitsound_copy psrc ptgt src tgt = Some out.

  (* per time: as many notes sound as the sounds need, or all of them; when everything fits, every clap, finish,
     whistle and named sample of the source is on the notes *)
  Theorem hs_bounded : bounded src tgt out.
  Proof.
    destruct (copy_decompose _ _ _ _ _ Hrun) as (s & df & df' & smp' & Ps & Pd & Hr & ->).
    intro t.
    assert (Hslots : slots_at t df = nnotes tgt t).
    { unfold nnotes. rewrite slots_at_eq. unfold at_time.
      fold (cnt (fun r => hn_off r =? t) df). fold (cnt (fun r => hn_off r =? t) (all_notes tgt)).
      rewrite <- (cnt_perm _ _ _ _ Pd), cnt_map. simpl.
      apply (all_notes_df_cnt (fun r => hn_off r =? t)). reflexivity. }
    pose proof (total_need_demand src tgt s Hwf Hns Ps t) as Hneed.
    split.
    - destruct (one_time src tgt s df df' smp' Hwf Hns Ps Pd Hr t 0 [] 0) as (_ & _ & _ & D).
      rewrite Hneed, Hslots in D. rewrite <- D.
      unfold nsounding, at_time. fold (cnt sounding (filter (fun r => hn_off r =? t) df')).
      fold (cnt sounding (filter (fun r => hn_off r =? t) (all_notes (mkM (filter is_hit df') (filter (fun r => negb (is_hit r)) df') smp')))).
      rewrite !cnt_filter. apply out_to_frame.
    - intros Hfit [[[t' k] p] v]. rewrite !count_atoms_at. unfold atom_time. simpl.
      destruct (t' =? t) eqn:Et; [|lia]. apply Z.eqb_eq in Et. subst t'.
      destruct (one_time src tgt s df df' smp' Hwf Hns Ps Pd Hr t k p v) as (_ & B & C & _).
      rewrite Hneed, Hslots in C. destruct (C Hfit) as [C1 C2].
      unfold copy_atoms, note_atoms.
      pose proof (count_copy_atoms_rows (t, k, p, v)) as N1. pose proof (count_note_atoms_rows (t, k, p, v)) as N2.
      unfold acount in N1, N2. rewrite N1, N2, !out_to_frame. lia.
  Qed.
End Whole2.

(* the whole specification, for every pair in the domain whose source file names contain no ';' *)
Theorem hs_spec : forall psrc ptgt src tgt out,
  wf src tgt = true -> no_semicolon src = true ->
  hitsound_copy psrc ptgt src tgt = Some out -> Spec src tgt out.
Proof.
  intros psrc ptgt src tgt out Hwf Hns H. constructor.
  - eapply hs_notes_preserved; eauto. unfold wf in Hwf. apply andb_prop in Hwf as [_ Hwf]. exact Hwf.
  - eapply hs_no_invention; eauto.
  - eapply hs_bounded; eauto.
  - eapply hs_named_conserved; eauto.
Qed.
