(* C18 — proofs about the model of hitsound_copy (Algo/HitsoundCopy.v) and its specification
   (Algo/HitsoundCopySpec.v). *)
From Coq Require Import ZArith List Bool Arith Lia Permutation.
From RV Require Import Algo.HitsoundCopy Algo.HitsoundCopySpec.
Import ListNotations.
Open Scope Z_scope.

(* ================================================================== generic multiset facts *)
Section MS.
  Context {A : Type}.
  Variable eqb : A -> A -> bool.
  Hypothesis eqb_eq : forall a b, eqb a b = true <-> a = b.

  Lemma eqb_refl' : forall a, eqb a a = true.
  Proof. intro a. apply eqb_eq. reflexivity. Qed.

  Lemma count_app : forall a l1 l2, count eqb a (l1 ++ l2) = (count eqb a l1 + count eqb a l2)%nat.
  Proof. induction l1; simpl; intros; [reflexivity | rewrite IHl1; lia]. Qed.

  Lemma count_notin : forall a l, ~ In a l -> count eqb a l = O.
  Proof.
    induction l; simpl; intros; [reflexivity|].
    destruct (eqb a a0) eqn:E.
    - apply eqb_eq in E. subst. exfalso. apply H. now left.
    - rewrite IHl; [reflexivity | intro; apply H; now right].
  Qed.

  Lemma count_in_pos : forall a l, In a l -> (1 <= count eqb a l)%nat.
  Proof.
    induction l; simpl; intros; [contradiction|].
    destruct H as [->|H]; [rewrite eqb_refl'; lia | specialize (IHl H); lia].
  Qed.

  Lemma msubb_sound : forall l1 l2, msubb eqb l1 l2 = true -> msub eqb l1 l2.
  Proof.
    intros l1 l2 H a. unfold msubb in H. rewrite forallb_forall in H.
    destruct (in_dec (fun x y => match bool_dec (eqb x y) true with
                                 | left e => left (proj1 (eqb_eq x y) e)
                                 | right n => right (fun e => n (proj2 (eqb_eq x y) e)) end) a l1) as [I|N].
    - apply H in I. now apply Nat.leb_le in I.
    - rewrite (count_notin _ _ N). lia.
  Qed.

  Lemma msubb_complete : forall l1 l2, msub eqb l1 l2 -> msubb eqb l1 l2 = true.
  Proof. intros l1 l2 H. unfold msubb. apply forallb_forall. intros a _. apply Nat.leb_le. apply H. Qed.

  Lemma meqb_sound : forall l1 l2, meqb eqb l1 l2 = true -> meq eqb l1 l2.
  Proof.
    intros l1 l2 H a. unfold meqb in H. apply andb_prop in H as [H1 H2].
    pose proof (msubb_sound _ _ H1 a). pose proof (msubb_sound _ _ H2 a). lia.
  Qed.

  Lemma count_perm : forall a l1 l2, Permutation l1 l2 -> count eqb a l1 = count eqb a l2.
  Proof. induction 1; simpl; lia. Qed.

  Lemma count_filter_split : forall a (f : A -> bool) l,
    count eqb a (filter f l ++ filter (fun x => negb (f x)) l) = count eqb a l.
  Proof.
    intros a f l. rewrite count_app. induction l; simpl; [reflexivity|].
    destruct (f a0); simpl; lia.
  Qed.
End MS.

(* ================================================================== the equality tests decide equality *)
Lemma list_eqb_eq : forall a b, list_eqb a b = true <-> a = b.
Proof.
  induction a; destruct b; simpl; split; intro H; try reflexivity; try discriminate.
  - apply andb_prop in H as [H1 H2]. apply Z.eqb_eq in H1. apply IHa in H2. now subst.
  - inversion H; subst. rewrite Z.eqb_refl. simpl. now apply IHa.
Qed.

Lemma opt_eqb_eq : forall a b, opt_eqb a b = true <-> a = b.
Proof.
  destruct a, b; simpl; split; intro H; try reflexivity; try discriminate.
  - apply Z.eqb_eq in H. now subst.
  - inversion H. apply Z.eqb_refl.
Qed.

Lemma ident_eqb_eq : forall a b, ident_eqb a b = true <-> a = b.
Proof.
  intros [[[t1 c1] l1] k1] [[[t2 c2] l2] k2]. unfold ident_eqb. split; intro H.
  - repeat (apply andb_prop in H as [H ?]). apply Z.eqb_eq in H. apply Z.eqb_eq in H2.
    apply opt_eqb_eq in H1. apply Bool.eqb_prop in H0. now subst.
  - inversion H; subst. rewrite !Z.eqb_refl. rewrite (proj2 (opt_eqb_eq l2 l2) eq_refl). rewrite Bool.eqb_reflx. reflexivity.
Qed.

Lemma atom_eqb_eq : forall a b, atom_eqb a b = true <-> a = b.
Proof.
  intros [[[t1 k1] p1] v1] [[[t2 k2] p2] v2]. unfold atom_eqb. split; intro H.
  - repeat (apply andb_prop in H as [H ?]). apply Z.eqb_eq in H. apply Z.eqb_eq in H2.
    apply list_eqb_eq in H1. apply Z.eqb_eq in H0. now subst.
  - inversion H; subst. rewrite !Z.eqb_refl. rewrite (proj2 (list_eqb_eq p2 p2) eq_refl). reflexivity.
Qed.

(* ================================================================== specb is sound *)
Lemma at_time_nil : forall t l, ~ In t (map hn_off l) -> at_time t l = [].
Proof.
  intros t l. unfold at_time. induction l; simpl; intros; [reflexivity|].
  destruct (hn_off a =? t) eqn:E.
  - apply Z.eqb_eq in E. exfalso. apply H. now left.
  - apply IHl. intro. apply H. now right.
Qed.

Lemma atoms_at_flat_nil : forall t (h : hnote -> list atom) l,
  (forall r a, In a (h r) -> atom_time a = hn_off r) ->
  ~ In t (map hn_off l) -> atoms_at t (flat_map h l) = [].
Proof.
  intros t h l Hh. unfold atoms_at. induction l; simpl; intros; [reflexivity|].
  rewrite filter_app. rewrite IHl by (intro; apply H; now right). rewrite app_nil_r.
  assert (hn_off a <> t) by (intro; apply H; now left).
  clear - Hh H0. specialize (Hh a). induction (h a) as [|x xs IH]; simpl; [reflexivity|].
  rewrite IH by (intros; apply Hh; now right).
  pose proof (Hh x (or_introl eq_refl)) as E. rewrite E.
  destruct (hn_off a =? t) eqn:E2; [apply Z.eqb_eq in E2; contradiction | reflexivity].
Qed.

Lemma bit_atoms_time : forall bits r a, In a (bit_atoms bits r) -> atom_time a = hn_off r.
Proof. intros bits r a H. unfold bit_atoms in H. apply in_map_iff in H as [b [<- _]]. reflexivity. Qed.
Lemma file_atoms_time : forall r a, In a (file_atoms r) -> atom_time a = hn_off r.
Proof. intros r a H. unfold file_atoms in H. destruct (name_empty (hn_file r)); simpl in H; [contradiction|]. destruct H as [<-|[]]. reflexivity. Qed.

Lemma bounded_at_absent : forall src tgt out t,
  ~ In t (times src) -> ~ In t (times out) -> bounded_at src tgt out t.
Proof.
  intros src tgt out t Hs Ho. unfold bounded_at, nsounding, demand, times in *.
  rewrite (at_time_nil _ _ Ho). rewrite (at_time_nil _ _ Hs). simpl. split; [reflexivity|].
  intros _ a. unfold copy_atoms. rewrite atoms_at_flat_nil; [simpl; lia | | exact Hs].
  intros r a' H. apply in_app_or in H as [H|H]; [eapply bit_atoms_time | eapply file_atoms_time]; eauto.
Qed.

Theorem specb_sound : forall src tgt out, specb src tgt out = true -> Spec src tgt out.
Proof.
  intros src tgt out H. unfold specb in H.
  apply andb_prop in H as [H Hn]. apply andb_prop in H as [H Hb]. apply andb_prop in H as [Hp Hi].
  constructor.
  - apply (meqb_sound _ ident_eqb_eq). exact Hp.
  - unfold no_inventionb in Hi. apply andb_prop in Hi as [Hi1 Hi2]. split; [|exact Hi2].
    apply (msubb_sound _ atom_eqb_eq). exact Hi1.
  - intro t. unfold boundedb in Hb. rewrite forallb_forall in Hb.
    destruct (in_dec Z.eq_dec t (times src ++ times tgt ++ times out)) as [I|N].
    + apply Hb in I. unfold bounded_atb in I. apply andb_prop in I as [I1 I2]. split.
      * now apply Nat.eqb_eq in I1.
      * intro Hle. apply orb_prop in I2 as [I2|I2].
        -- apply negb_true_iff in I2. apply Nat.leb_gt in I2. lia.
        -- apply (msubb_sound _ atom_eqb_eq). exact I2.
    + apply bounded_at_absent; intro; apply N; rewrite !in_app_iff; auto.
  - apply (msubb_sound _ atom_eqb_eq). exact Hn.
Qed.

(* and complete: the oracle fails only on a genuine violation of the declarative specification *)
Theorem specb_complete : forall src tgt out, Spec src tgt out -> specb src tgt out = true.
Proof.
  intros src tgt out [Hp [Hi1 Hi2] Hb Hn]. unfold specb.
  apply andb_true_intro; split; [apply andb_true_intro; split; [apply andb_true_intro; split|]|].
  - unfold notes_preservedb, meqb. apply andb_true_intro; split; apply msubb_complete; intro a; rewrite (Hp a); lia.
  - unfold no_inventionb. apply andb_true_intro; split; [now apply msubb_complete | exact Hi2].
  - unfold boundedb. apply forallb_forall. intros t _. destruct (Hb t) as [B1 B2]. unfold bounded_atb.
    apply andb_true_intro; split; [now apply Nat.eqb_eq|].
    destruct (demand src t <=? nnotes tgt t)%nat eqn:E; simpl; [|reflexivity].
    apply Nat.leb_le in E. apply msubb_complete. now apply B2.
  - now apply msubb_complete.
Qed.

(* ================================================================== sort_values: any validated order is a permutation *)
Lemma count_nat_pos_in : forall i p, (1 <= count_nat i p)%nat -> In i p.
Proof.
  induction p; simpl; intros; [lia|].
  destruct (Nat.eqb i a) eqn:E; [apply Nat.eqb_eq in E; now left | right; apply IHp; lia].
Qed.

Lemma perm_ok_Permutation : forall p n, perm_ok p n = true -> Permutation (seq 0 n) p.
Proof.
  intros p n H. unfold perm_ok in H. apply andb_prop in H as [H1 H2]. apply Nat.eqb_eq in H1.
  rewrite forallb_forall in H2.
  apply NoDup_Permutation_bis.
  - apply seq_NoDup.
  - rewrite seq_length. lia.
  - intros i Hi. apply H2 in Hi. apply Nat.eqb_eq in Hi. apply count_nat_pos_in. lia.
Qed.

Lemma map_nth_seq : forall (l : list hnote) d, map (fun i => nth i l d) (seq 0 (length l)) = l.
Proof.
  induction l; simpl; intros; [reflexivity|]. f_equal.
  rewrite <- seq_shift, map_map. apply IHl.
Qed.

Lemma sort_with_Permutation : forall p l s, sort_with p l = Some s -> Permutation l s.
Proof.
  intros p l s H. unfold sort_with in H.
  destruct (perm_ok p (length l)) eqn:E; simpl in H; [|discriminate].
  destruct (sortedb (apply_perm p l)); [|discriminate]. inversion H; subst. clear H.
  apply perm_ok_Permutation in E. unfold apply_perm.
  rewrite <- (map_nth_seq l dummy) at 1. now apply Permutation_map.
Qed.

(* ================================================================== notes are never touched *)
Definition ident_of (r : hnote) : ident := (hn_off r, hn_col r, hn_len r, negb (is_hit r)).

Lemma do_write_ident : forall w r, ident_of (do_write w r) = ident_of r.
Proof. destruct w; reflexivity. Qed.

Lemma apply_at_ident : forall off df ws, map ident_of (apply_at off ws df) = map ident_of df.
Proof.
  induction df; simpl; intros; [reflexivity|].
  destruct (hn_off a =? off).
  - destruct ws; simpl; [reflexivity|]. now rewrite do_write_ident, IHdf.
  - simpl. now rewrite IHdf.
Qed.

Lemma run_groups_ident : forall ogs st, map ident_of (fst (run_groups ogs st)) = map ident_of (fst st).
Proof.
  induction ogs; simpl; intros; [reflexivity|].
  rewrite IHogs. destruct st as [df smp]. destruct a as [off g]. unfold step.
  destruct (plan_groups off (group_by hn_vol g) (slots_at off df)) as [ws ss]. simpl. apply apply_at_ident.
Qed.

Lemma idents_tgt : forall tgt, forallb (fun r => is_some (hn_len r)) (hm_holds tgt) = true ->
  idents tgt = map ident_of (notes_df tgt).
Proof.
  intros tgt H. unfold idents, notes_df. rewrite map_app, map_map. f_equal.
  rewrite forallb_forall in H. apply map_ext_in. intros r Hr. apply H in Hr.
  unfold ident_of, is_hit. destruct (hn_len r); [reflexivity | discriminate].
Qed.

Lemma idents_out : forall df smp,
  idents (mkM (filter is_hit df) (filter (fun r => negb (is_hit r)) df) smp)
  = map ident_of (filter is_hit df) ++ map ident_of (filter (fun r => negb (is_hit r)) df).
Proof.
  intros. unfold idents. simpl. f_equal; apply map_ext_in; intros r Hr; apply filter_In in Hr as [_ Hr];
    unfold ident_of, is_hit in *; destruct (hn_len r); simpl in *; try discriminate; reflexivity.
Qed.

(* THE RESULT HAS EXACTLY THE TARGET'S NOTES — for all pairs of charts and every tie order of the two sorts. *)
Theorem hs_notes_preserved : forall psrc ptgt src tgt out,
  forallb (fun r => is_some (hn_len r)) (hm_holds tgt) = true ->
  hitsound_copy psrc ptgt src tgt = Some out ->
  notes_preserved tgt out.
Proof.
  intros psrc ptgt src tgt out Hwf H. unfold hitsound_copy in H.
  destruct (sort_with psrc (filter loud (notes_df src))) as [s|]; [|discriminate].
  destruct (sort_with ptgt (notes_df tgt)) as [df|] eqn:Ed; [|discriminate].
  destruct (run_groups (group_by hn_off s) (df, [])) as [df' smp] eqn:Er. inversion H; subst; clear H.
  intro a. rewrite idents_out, (idents_tgt _ Hwf).
  rewrite <- map_app.
  assert (Hp : Permutation (filter is_hit df' ++ filter (fun r => negb (is_hit r)) df') df').
  { clear. induction df'; simpl; [constructor|]. destruct (is_hit a); simpl.
    - now constructor.
    - apply Permutation_sym, Permutation_cons_app, Permutation_sym, IHdf'. }
  rewrite (count_perm _ a _ _ (Permutation_map ident_of Hp)).
  pose proof (run_groups_ident (group_by hn_off s) (df, [])) as Hi. rewrite Er in Hi. simpl in Hi. rewrite Hi.
  apply sort_with_Permutation in Ed. symmetry.
  apply count_perm. now apply Permutation_map.
Qed.

(* ================================================================== the unguarded statements are false of the faithful model *)
Definition w_note (t c hs v : Z) (f : name) : hnote := mkN t c None hs 0 0 0 v f.

(* three named samples of one volume at one time, one target note: one is placed, one becomes an event
   sample, the third is lost (the `break` in the file loop) *)
Definition w1_src := mkM [w_note 0 0 0 30 [1]; w_note 0 1 0 30 [2]; w_note 0 2 0 30 [3]] [] [].
Definition w1_tgt := mkM [w_note 0 0 0 0 [0]] [] [].

Theorem hs_named_conserved_refuted :
  exists psrc ptgt src tgt out,
    wf src tgt = true /\ tgt_silent tgt = true /\ no_semicolon src = true /\
    hitsound_copy psrc ptgt src tgt = Some out /\ ~ named_conserved src out.
Proof.
  exists [0;1;2]%nat, [0]%nat, w1_src, w1_tgt.
  eexists. repeat split; try (vm_compute; reflexivity).
  intro H. apply (msubb_complete atom_eqb) in H. vm_compute in H. discriminate.
Qed.

(* a target that carries sounds of its own keeps them: the result sounds a whistle and "t.wav" (file id 9)
   that the source never had *)
Definition w2_src := mkM [w_note 8 0 2 30 [0]] [] [].
Definition w2_tgt := mkM [w_note 8 0 8 44 [9]; w_note 16 0 4 0 [0]] [] [].

Theorem hs_no_invention_refuted :
  exists psrc ptgt src tgt out,
    wf src tgt = true /\ no_semicolon src = true /\ no_multi_overflow src tgt = true /\
    hitsound_copy psrc ptgt src tgt = Some out /\ ~ no_invention src out.
Proof.
  exists [0]%nat, [0;1]%nat, w2_src, w2_tgt.
  eexists. repeat split; try (vm_compute; reflexivity).
  intros [H _]. apply (msubb_complete atom_eqb) in H. vm_compute in H. discriminate.
Qed.

(* a file name with ';' ("a;b" = [1;2]) is cut in two: neither piece was in the source, the name itself is lost *)
Definition w3_src := mkM [w_note 8 0 0 5 [1; 2]] [] [].
Definition w3_tgt := mkM [w_note 8 0 0 0 [0]; w_note 8 1 0 0 [0]] [] [].

Theorem hs_semicolon_refuted :
  exists psrc ptgt src tgt out,
    wf src tgt = true /\ tgt_silent tgt = true /\ no_multi_overflow src tgt = true /\
    hitsound_copy psrc ptgt src tgt = Some out /\ ~ no_invention src out /\ ~ named_conserved src out.
Proof.
  exists [0]%nat, [0;1]%nat, w3_src, w3_tgt.
  eexists. repeat split; try (vm_compute; reflexivity).
  - intros [H _]. apply (msubb_complete atom_eqb) in H. vm_compute in H. discriminate.
  - intro H. apply (msubb_complete atom_eqb) in H. vm_compute in H. discriminate.
Qed.
