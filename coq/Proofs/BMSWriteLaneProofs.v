(* C05, lanes: the reference interpreter's lane reading (time order, an LNOBJ object closes the object just before it)
   applied to a lane that holds the objects of a set of hits and (head, tail) pairs -- positions pairwise distinct, every
   head before its tail, nothing of the lane strictly inside a pair -- gives back exactly those hits and pairs, whatever
   the order in which the objects are listed (lane_pairs). *)
From Coq Require Import ZArith QArith Qround Qabs List Bool Lia Lqa Sorting.Permutation Sorting.Sorted.
From RV Require Import Base.PyNum Timing.Snapper Timing.Snap Timing.TimingMap Timing.Integrate
  Formats.BMSText Formats.BMS Formats.BMSSpec Proofs.TimingProofs Proofs.TimingProofs2 Proofs.BMSProofs.
Import ListNotations.
Open Scope Z_scope.

Local Arguments text_eqb : simpl never.

(* ================================================================ A. a strictly sorted list is what the sort returns ================================================================ *)
Section SortUnique.
  Context {A : Type} (lt : A -> A -> bool).
  Hypothesis lt_asym : forall x y, lt x y = true -> lt y x = false.
  Hypothesis lt_negtrans : forall x y z, lt y x = false -> lt z y = false -> lt z x = false.
  Definition LT (x y : A) : Prop := lt x y = true.
  Definition LE (x y : A) : Prop := lt y x = false.

  Lemma sort_LE l : StronglySorted LE (sort_by lt l).
  Proof.
    apply (sort_sorted_gen lt LE); unfold LE.
    - intros x y H. apply lt_asym. exact H.
    - intros x y H. exact H.
    - intros x y z H1 H2. eapply lt_negtrans; eassumption.
  Qed.

  Lemma sorted_unique : forall s1 s2, StronglySorted LE s1 -> StronglySorted LT s2 -> Permutation s1 s2 -> s1 = s2.
  Proof.
    induction s1 as [|x t1 IH]; intros s2 H1 H2 Hp.
    - apply Permutation_nil in Hp. subst. reflexivity.
    - destruct s2 as [|y t2]; [apply Permutation_sym, Permutation_nil in Hp; discriminate|].
      apply StronglySorted_inv in H1. destruct H1 as [H1 Hx]. rewrite Forall_forall in Hx.
      apply StronglySorted_inv in H2. destruct H2 as [H2 Hy]. rewrite Forall_forall in Hy.
      assert (Exy : x = y).
      { assert (Ix : In x (y :: t2)) by (apply (Permutation_in _ Hp); left; reflexivity).
        assert (Iy : In y (x :: t1)) by (apply (Permutation_in _ (Permutation_sym Hp)); left; reflexivity).
        destruct Ix as [E|Ix]; [symmetry; exact E|]. destruct Iy as [E|Iy]; [exact E|].
        pose proof (Hy x Ix) as L1. pose proof (Hx y Iy) as L2. unfold LT, LE in *. congruence. }
      subst y. f_equal. apply Permutation_cons_inv in Hp. apply (IH t2 H1 H2 Hp).
  Qed.

  (* MAIN: any listing of a strictly sorted list is sorted back to it *)
  Theorem sort_of_perm l s : StronglySorted LT s -> Permutation l s -> sort_by lt l = s.
  Proof.
    intros Hs Hp. apply sorted_unique; [apply sort_LE|exact Hs|].
    eapply Permutation_trans; [apply Permutation_sym; apply sort_by_perm|exact Hp].
  Qed.
End SortUnique.

(* ================================================================ B. the order on objects ================================================================ *)
Lemma obj_lt_asym a b : obj_lt a b = true -> obj_lt b a = false.
Proof.
  unfold obj_lt. intro H. apply snap_lt_iff in H. destruct (snap_lt (snap_of b) (snap_of a)) eqn:E; [|reflexivity].
  apply snap_lt_iff in E. exfalso. apply (slt_not_sle _ _ H). apply slt_sle. exact E.
Qed.
Lemma obj_lt_false a b : obj_lt a b = false <-> sle (snap_of b) (snap_of a).
Proof.
  unfold obj_lt. split.
  - intro H. destruct (sle_total (snap_of b) (snap_of a)) as [S|S]; [exact S|]. apply snap_lt_iff in S. congruence.
  - intro H. destruct (snap_lt (snap_of a) (snap_of b)) eqn:E; [|reflexivity]. apply snap_lt_iff in E.
    exfalso. apply (slt_not_sle _ _ E H).
Qed.
Lemma obj_lt_negtrans x y z : obj_lt y x = false -> obj_lt z y = false -> obj_lt z x = false.
Proof. rewrite !obj_lt_false. intros A B. eapply sle_trans; eassumption. Qed.
Lemma obj_lt_trans a b c : obj_lt a b = true -> obj_lt b c = true -> obj_lt a c = true.
Proof. unfold obj_lt. rewrite !snap_lt_iff. apply slt_trans_le. Qed.
Lemma obj_lt_le_trans a b c : obj_lt a b = true -> obj_lt c b = false -> obj_lt a c = true.
Proof.
  unfold obj_lt. intros H1 H2. apply snap_lt_iff in H1. apply snap_lt_iff. apply obj_lt_false in H2.
  unfold slt, sle in *. destruct H1 as [A|[A1 A2]], H2 as [B|[B1 B2]]; try (left; lia). right. split; [lia|lra].
Qed.

Lemma same_pos_sym a b : same_pos a b = same_pos b a.
Proof.
  unfold same_pos. rewrite (Z.eqb_sym (o_measure a)). f_equal.
  destruct (Qeq_bool (o_pos a) (o_pos b)) eqn:E; symmetry.
  - apply Qeq_bool_iff. apply Qeq_bool_iff in E. symmetry. exact E.
  - destruct (Qeq_bool (o_pos b) (o_pos a)) eqn:E2; [|reflexivity]. apply Qeq_bool_iff in E2.
    assert (Qeq_bool (o_pos a) (o_pos b) = true) by (apply Qeq_bool_iff; symmetry; exact E2). congruence.
Qed.

(* two objects at different positions are ordered *)
Lemma obj_trichotomy a b : same_pos a b = false -> obj_lt a b = true \/ obj_lt b a = true.
Proof.
  intro H. destruct (obj_lt a b) eqn:E1; [left; reflexivity|]. right.
  destruct (obj_lt b a) eqn:E2; [reflexivity|]. exfalso. apply obj_lt_false in E1, E2.
  destruct (sle_antisym_ssim _ _ E1 E2) as [M B]. unfold snap_of, BEATS_PER_MEASURE in M, B. cbn [s_m s_b] in M, B.
  rewrite !Qred_correct in B. unfold same_pos in H. rewrite M, Z.eqb_refl in H. cbn [andb] in H.
  assert (Qeq_bool (o_pos a) (o_pos b) = true) by (apply Qeq_bool_iff; lra). congruence.
Qed.
Lemma obj_lt_not_same a b : obj_lt a b = true -> same_pos a b = false.
Proof.
  unfold obj_lt. intro H. apply snap_lt_iff in H. destruct (same_pos a b) eqn:E; [|reflexivity]. exfalso.
  unfold same_pos in E. apply andb_true_iff in E. destruct E as [E1 E2]. apply Z.eqb_eq in E1. apply Qeq_bool_iff in E2.
  unfold slt, snap_of, BEATS_PER_MEASURE in H. cbn [s_m s_b] in H. rewrite !Qred_correct in H. destruct H as [H|[_ H]]; [lia|lra].
Qed.


Lemma no_dup_by_perm_local (l l' : list sobj) : Permutation l l' -> no_dup_by same_pos l = true -> no_dup_by same_pos l' = true.
Proof.
  assert (X : forall x l l', Permutation l l' -> existsb (same_pos x) l = existsb (same_pos x) l').
  { intros x l0 l0' P. destruct (existsb (same_pos x) l0) eqn:E1; symmetry.
    - apply existsb_exists in E1. destruct E1 as [y [I Ey]]. apply existsb_exists. exists y. split; [|exact Ey].
      eapply Permutation_in; eassumption.
    - destruct (existsb (same_pos x) l0') eqn:E2; [|reflexivity]. apply existsb_exists in E2. destruct E2 as [y [I Ey]].
      assert (existsb (same_pos x) l0 = true) by (apply existsb_exists; exists y; split; [eapply Permutation_in; [apply Permutation_sym|]; eassumption|exact Ey]).
      congruence. }
  induction 1 as [|x l l' P IH|a b l|l l' l'' P1 IH1 P2 IH2]; cbn [no_dup_by]; intro H; auto.
  - apply andb_true_iff in H. destruct H as [H1 H2]. rewrite <- (X x l l' P), H1. apply IH. exact H2.
  - apply andb_true_iff in H. destruct H as [H1 H2]. apply andb_true_iff in H2. destruct H2 as [H2 H3].
    cbn [existsb] in *. apply negb_true_iff in H1, H2. apply orb_false_iff in H1. destruct H1 as [H1 H4].
    rewrite (same_pos_sym a b), H1, H2, H4, H3. reflexivity.
Qed.

(* ================================================================ C. one lane ================================================================ *)
Inductive item := IHit (o : sobj) | IHold (hd tl : sobj).
Definition item_objs (i : item) : list sobj := match i with IHit o => [o] | IHold hd tl => [hd; tl] end.
Definition item_head (i : item) : sobj := match i with IHit o => o | IHold hd _ => hd end.
Definition item_lt (a b : item) : bool := obj_lt (item_head a) (item_head b).
Definition hits_of (l : list item) : list sobj := flat_map (fun i => match i with IHit o => [o] | IHold _ _ => [] end) l.
Definition holds_of (l : list item) : list (sobj * sobj) := flat_map (fun i => match i with IHit _ => [] | IHold hd tl => [(hd, tl)] end) l.

Section Lane.
  Variable lnobj : text.
  Definition item_ok (i : item) : Prop :=
    match i with
    | IHit o => text_eqb (o_id o) lnobj = false
    | IHold hd tl => text_eqb (o_id hd) lnobj = false /\ text_eqb (o_id tl) lnobj = true /\ obj_lt hd tl = true
    end.

  (* the reference pairing on a list of items laid out one after the other *)
  Lemma pair_ln_items : forall (its : list item) (prev : option sobj), Forall item_ok its ->
    pair_ln lnobj prev (flat_map item_objs its)
    = Some ((match prev with Some h => [h] | None => [] end) ++ hits_of its, holds_of its).
  Proof.
    induction its as [|i its IH]; intros prev F.
    - cbn. destruct prev; reflexivity.
    - inversion F as [|? ? Hi F']; subst. destruct i as [o|hd tl]; cbn [flat_map item_objs app pair_ln].
      + cbn in Hi. rewrite Hi. rewrite (IH (Some o) F'). cbn [hits_of holds_of flat_map app].
        destruct prev; reflexivity.
      + destruct Hi as [H1 [H2 _]]. rewrite H1. cbn [pair_ln]. rewrite H2. rewrite (IH None F').
        cbn [hits_of holds_of flat_map app]. destruct prev; reflexivity.
  Qed.

  Variable items : list item.
  Let objs := flat_map item_objs items.
  Hypothesis Hok : Forall item_ok items.
  Hypothesis Hnd : no_dup_by same_pos objs = true.
  Hypothesis Hin : forall hd tl o, In (IHold hd tl) items -> In o objs -> ~ (obj_lt hd o = true /\ obj_lt o tl = true).

  Lemma objs_distinct (l1 l2 : list sobj) a b : no_dup_by same_pos (l1 ++ a :: l2) = true -> In b l2 -> same_pos a b = false.
  Proof.
    induction l1 as [|x l1 IH]; cbn [app no_dup_by]; intros H I; apply andb_true_iff in H; destruct H as [H1 H2].
    - apply negb_true_iff in H1. destruct (same_pos a b) eqn:E; [|reflexivity].
      assert (existsb (same_pos a) l2 = true) by (apply existsb_exists; exists b; auto). congruence.
    - apply IH; assumption.
  Qed.

  (* distinct objects of the lane are at distinct positions (stated on a listing with the two objects named) *)
  Lemma flat_items_strict : forall (sits : list item),
    StronglySorted (fun a b => item_lt b a = false) sits ->
    no_dup_by same_pos (flat_map item_objs sits) = true ->
    Forall item_ok sits ->
    (forall hd tl o, In (IHold hd tl) sits -> In o (flat_map item_objs sits) -> ~ (obj_lt hd o = true /\ obj_lt o tl = true)) ->
    StronglySorted (LT obj_lt) (flat_map item_objs sits).
  Proof.
    induction sits as [|i rest IH]; intros Ss Nd Fo Hn; [constructor|].
    apply StronglySorted_inv in Ss. destruct Ss as [Ss Fi]. rewrite Forall_forall in Fi.
    inversion Fo as [|? ? Oi Fo']; subst. cbn [flat_map] in *.
    assert (Nd' : no_dup_by same_pos (flat_map item_objs rest) = true).
    { clear - Nd. induction (item_objs i) as [|x l IHl]; [exact Nd|]. cbn [app no_dup_by] in Nd. apply andb_true_iff in Nd. apply IHl. tauto. }
    assert (IHr : StronglySorted (LT obj_lt) (flat_map item_objs rest)).
    { apply IH; auto. intros hd tl o I1 I2. apply Hn; [right; exact I1|apply in_or_app; right; exact I2]. }
    (* every later object is after the head of i *)
    assert (Hhead : forall j b, In j rest -> In b (item_objs j) -> obj_lt (item_head i) b = true).
    { intros j b Ij Ib.
      assert (Ihj : In (item_head j) (flat_map item_objs rest)).
      { apply in_flat_map. exists j. split; [exact Ij|]. destruct j; left; reflexivity. }
      assert (D : same_pos (item_head i) (item_head j) = false).
      { destruct i as [o|hd tl]; cbn [item_objs app item_head] in *.
        - apply (objs_distinct [] _ o _ Nd Ihj).
        - apply (objs_distinct [] _ hd _ Nd). right. exact Ihj. }
      assert (L : obj_lt (item_head i) (item_head j) = true).
      { destruct (obj_trichotomy _ _ D) as [L|L]; [exact L|]. pose proof (Fi j Ij) as Le. unfold item_lt in Le. congruence. }
      rewrite Forall_forall in Fo'. pose proof (Fo' j Ij) as Oj.
      destruct j as [o|hd tl]; cbn [item_objs item_head] in *.
      - destruct Ib as [<-|[]]. exact L.
      - destruct Ib as [<-|[<-|[]]]; [exact L|]. destruct Oj as [_ [_ Lt]]. eapply obj_lt_trans; eassumption. }
    destruct i as [o|hd tl]; cbn [item_objs app item_head] in *.
    - constructor; [exact IHr|]. apply Forall_forall. intros b Ib. apply in_flat_map in Ib. destruct Ib as [j [Ij Ib]].
      apply (Hhead j b Ij Ib).
    - destruct Oi as [_ [_ Lht]].
      assert (Htail : forall j b, In j rest -> In b (item_objs j) -> obj_lt tl b = true).
      { intros j b Ij Ib.
        assert (Ihj : In (item_head j) (flat_map item_objs rest)).
        { apply in_flat_map. exists j. split; [exact Ij|]. destruct j; left; reflexivity. }
        assert (L1 : obj_lt hd (item_head j) = true) by (apply (Hhead j (item_head j) Ij); destruct j; left; reflexivity).
        assert (D : same_pos tl (item_head j) = false) by (apply (objs_distinct [hd] _ tl _ Nd Ihj)).
        assert (L2 : obj_lt tl (item_head j) = true).
        { destruct (obj_trichotomy _ _ D) as [L|L]; [exact L|]. exfalso.
          apply (Hn hd tl (item_head j)); [left; reflexivity|right; right; exact Ihj|split; assumption]. }
        rewrite Forall_forall in Fo'. pose proof (Fo' j Ij) as Oj.
        destruct j as [o'|hd' tl']; cbn [item_objs item_head] in *.
        - destruct Ib as [<-|[]]. exact L2.
        - destruct Ib as [<-|[<-|[]]]; [exact L2|]. destruct Oj as [_ [_ Lt]]. eapply obj_lt_trans; eassumption. }
      constructor; [constructor; [exact IHr|]|].
      + apply Forall_forall. intros b Ib. apply in_flat_map in Ib. destruct Ib as [j [Ij Ib]]. apply (Htail j b Ij Ib).
      + constructor; [exact Lht|]. apply Forall_forall. intros b Ib. apply in_flat_map in Ib. destruct Ib as [j [Ij Ib]].
        apply (Hhead j b Ij Ib).
  Qed.

  Lemma hits_of_perm a b : Permutation a b -> Permutation (hits_of a) (hits_of b).
  Proof. intro P. unfold hits_of. apply Permutation_flat_map. exact P. Qed.
  Lemma holds_of_perm a b : Permutation a b -> Permutation (holds_of a) (holds_of b).
  Proof. intro P. unfold holds_of. apply Permutation_flat_map. exact P. Qed.

  (* MAIN *)
  Theorem lane_pairs (mine : list sobj) : Permutation mine objs ->
    exists hs ls, pair_ln lnobj None (sort_by obj_lt mine) = Some (hs, ls)
                  /\ Permutation hs (hits_of items) /\ Permutation ls (holds_of items).
  Proof.
    intro Pm. set (sits := sort_by item_lt items).
    assert (Ps : Permutation items sits) by apply sort_by_perm.
    assert (Po : Permutation objs (flat_map item_objs sits)) by (apply Permutation_flat_map; exact Ps).
    assert (Ss : StronglySorted (fun a b => item_lt b a = false) sits).
    { apply (sort_LE item_lt).
      - intros x y. apply obj_lt_asym.
      - intros x y z. apply obj_lt_negtrans. }
    assert (St : StronglySorted (LT obj_lt) (flat_map item_objs sits)).
    { apply flat_items_strict.
      - exact Ss.
      - apply (no_dup_by_perm_local objs _ Po Hnd).
      - apply Forall_forall. intros i I. rewrite Forall_forall in Hok. apply Hok. apply (Permutation_in _ (Permutation_sym Ps) I).
      - intros hd tl o I1 I2. apply Hin; [apply (Permutation_in _ (Permutation_sym Ps) I1)|apply (Permutation_in _ (Permutation_sym Po) I2)]. }
    rewrite (sort_of_perm obj_lt obj_lt_asym obj_lt_negtrans mine _ St (Permutation_trans Pm Po)).
    rewrite pair_ln_items.
    - eexists _, _. split; [reflexivity|]. cbn [app]. split; [apply hits_of_perm|apply holds_of_perm]; apply Permutation_sym; exact Ps.
    - apply Forall_forall. intros i I. rewrite Forall_forall in Hok. apply Hok. apply (Permutation_in _ (Permutation_sym Ps) I).
  Qed.
End Lane.
