(* C01, write direction at FILE level.  The float printers (repr, ':g', str) are ORACLES: they are Section
   variables whose assumed behaviour is stated as Section hypotheses (what they print is read back as the
   value printed, on the numbers declared printable); Proofs/OsuWhole.v instantiates them with concrete
   printers.  For every chart of the write domain the written_raw text (as a file: joined with line feeds and
   split again) is explicit, well formed, denotes an explicit chart [den_of] = the chart with note / sample
   times truncated toward zero, and is in the domain of the read theorem. *)
From Coq Require Import String Ascii.
From Coq Require Import ZArith QArith Qround Qabs List Bool Lia Lqa.
From RV Require Import Base.PyNum Base.Text Formats.Osu Formats.OsuSpec Proofs.OsuProofs Proofs.OsuText Proofs.OsuRead.
Import ListNotations.
Open Scope Z_scope.

(* ------------------------------------------------------------------ the fixed part of a written_raw file *)
Inductive mline := ML_lit (s : text) | ML_kv (key : text) (i : nat) | ML_bg.
Definition ITEMS : list mline :=
  [ ML_lit (t "osu file format v14"); ML_lit []; ML_lit (t "[General]");
    ML_kv (t "AudioFilename") 0; ML_kv (t "AudioLeadIn") 1; ML_kv (t "PreviewTime") 2; ML_kv (t "Countdown") 3;
    ML_kv (t "SampleSet") 4; ML_kv (t "StackLeniency") 5; ML_kv (t "Mode") 6; ML_kv (t "LetterboxInBreaks") 7;
    ML_kv (t "SpecialStyle") 8; ML_kv (t "WidescreenStoryboard") 9;
    ML_lit []; ML_lit (t "[Editor]");
    ML_kv (t "DistanceSpacing") 10; ML_kv (t "BeatDivisor") 11; ML_kv (t "GridSize") 12; ML_kv (t "TimelineZoom") 13;
    ML_lit []; ML_lit (t "[Metadata]");
    ML_kv (t "Title") 14; ML_kv (t "TitleUnicode") 15; ML_kv (t "Artist") 16; ML_kv (t "ArtistUnicode") 17;
    ML_kv (t "Creator") 18; ML_kv (t "Version") 19; ML_kv (t "Source") 20; ML_kv (t "Tags") 21;
    ML_kv (t "BeatmapID") 22; ML_kv (t "BeatmapSetID") 23;
    ML_lit []; ML_lit (t "[Difficulty]");
    ML_kv (t "HPDrainRate") 24; ML_kv (t "CircleSize") 25; ML_kv (t "OverallDifficulty") 26; ML_kv (t "ApproachRate") 27;
    ML_kv (t "SliderMultiplier") 28; ML_kv (t "SliderTickRate") 29;
    ML_lit []; ML_lit (t "[Events]");
    ML_lit BG_MARK; ML_bg;
    ML_lit (t "//Break Periods"); ML_lit (t "//Storyboard Layer 0 (Background)"); ML_lit (t "//Storyboard Layer 1 (Fail)");
    ML_lit (t "//Storyboard Layer 2 (Pass)"); ML_lit (t "//Storyboard Layer 3 (Foreground)");
    ML_lit (t "//Storyboard Layer 4 (Overlay)"); ML_lit SAMPLE_MARK ].
Definition BG_PRE : text := t "0,0,""".
Definition BG_POST : text := t """,0,0".
Definition mline_text (w : nat -> text) (bg : text) (it : mline) : text :=
  match it with ML_lit s => s | ML_kv k i => k ++ 58 :: w i | ML_bg => BG_PRE ++ bg ++ BG_POST end.
(* the same line after strip *)
Definition mline_strip (w : nat -> text) (bg : text) (it : mline) : text :=
  match it with ML_lit s => s | ML_kv k i => k ++ 58 :: rstrip (w i) | ML_bg => BG_PRE ++ bg ++ BG_POST end.

Definition item_ok (it : mline) : bool :=
  match it with
  | ML_lit s => text_eqb (strip s) s
  | ML_kv k _ => match k with c :: _ => negb (is_space c) | [] => false end
  | ML_bg => true
  end.
Lemma items_ok : forallb item_ok ITEMS = true.
Proof. vm_compute. reflexivity. Qed.

Lemma rstrip_keep_end x q : q <> [] -> head_ok is_space (rev q) -> rstrip (x ++ q) = x ++ q.
Proof.
  intros NE T. unfold rstrip, rstrip_with. rewrite rev_app_distr.
  destruct (rev q) as [|c r] eqn:R.
  - apply (f_equal (@length Z)) in R. rewrite rev_length in R. destruct q; [congruence|discriminate].
  - simpl in T. cbn [app]. rewrite dropwhile_keep by exact T.
    change (c :: r ++ rev x) with ((c :: r) ++ rev x). rewrite <- R, <- rev_app_distr. apply rev_involutive.
Qed.

Lemma item_strip w bg it : item_ok it = true -> strip (mline_text w bg it) = mline_strip w bg it.
Proof.
  destruct it as [s|k i|]; cbn [item_ok mline_text mline_strip]; intro H.
  - apply text_eqb_eq. exact H.
  - destruct k as [|c k']; [discriminate|]. apply negb_true_iff in H.
    replace ((c :: k') ++ 58 :: w i) with (((c :: k') ++ [58]) ++ w i) by (rewrite <- app_assoc; reflexivity).
    rewrite strip_app_keep.
    + rewrite <- app_assoc. reflexivity.
    + discriminate.
    + split; [exact H|]. rewrite rev_app_distr. reflexivity.
  - rewrite strip_app_keep by (try discriminate; split; reflexivity).
    rewrite rstrip_keep_end by (try discriminate; reflexivity). reflexivity.
Qed.

Lemma items_strip w bg : map strip (map (mline_text w bg) ITEMS) = map (mline_strip w bg) ITEMS.
Proof.
  rewrite map_map. apply map_ext_in. intros it I. apply item_strip.
  pose proof items_ok as H. rewrite forallb_forall in H. exact (H it I).
Qed.

(* ------------------------------------------------------------------ the 30 attributes of a written_raw file, computed *)
Definition SLINES (w : nat -> text) (bg : text) : list text := map (mline_strip w bg) ITEMS.

Lemma denote_keys_written w bg T :
  omap (denote_key (SLINES w bg ++ T)) key_table =
  omap (fun p : nat * (text * text * vtype) => option_map Some (typed_value (snd (snd p)) (rstrip (w (fst p)))))
       (combine (seq 0 30) key_table).
Proof.
  lazy -[typed_value rstrip]. reflexivity.
Qed.

(* ------------------------------------------------------------------ the sections of a written_raw file *)
Definition plain (l : text) : Prop := is_header l = false.
Definition all_plain (ls : list text) : Prop := forall l, In l ls -> plain l.

Lemma plain_not_header l h : plain l -> is_header h = true -> text_eqb l h = false.
Proof.
  intros P H. destruct (text_eqb l h) eqn:E; auto. apply text_eqb_eq in E. subst. unfold plain in P. congruence.
Qed.
Lemma plain_not_in ls h : all_plain ls -> is_header h = true -> ~ In h ls.
Proof. intros P H I. specialize (P h I). unfold plain in P. congruence. Qed.
Lemma all_plain_app a b : all_plain a -> all_plain b -> all_plain (a ++ b).
Proof. intros A B l I. apply in_app_or in I. destruct I; auto. Qed.
Lemma plain_nil : plain []. Proof. reflexivity. Qed.
Lemma plain_head c r : c <> 91 -> plain (c :: r).
Proof.
  intro H. unfold plain. destruct c as [|p|p]; try reflexivity.
  repeat (destruct p as [p|p|]; try reflexivity). congruence.
Qed.

(* the tail of the file after the fixed lines *)
Definition TAIL (S B V N : list text) : list text := S ++ [[]; TP_HEADER] ++ B ++ V ++ [[]; []; HO_HEADER] ++ N.

Definition EV_REST : list text :=
  [ t "//Break Periods"; t "//Storyboard Layer 0 (Background)"; t "//Storyboard Layer 1 (Fail)";
    t "//Storyboard Layer 2 (Pass)"; t "//Storyboard Layer 3 (Foreground)"; t "//Storyboard Layer 4 (Overlay)" ].
Definition bg_line (bg : text) : text := BG_PRE ++ bg ++ BG_POST.

Lemma section_events_written w bg T :
  section EVENTS (SLINES w bg ++ T) = Some (BG_MARK :: bg_line bg :: EV_REST ++ SAMPLE_MARK :: take_body T).
Proof. lazy -[rstrip]. reflexivity. Qed.
Lemma section_tp_written w bg T : section TP_HEADER (SLINES w bg ++ T) = section TP_HEADER T.
Proof. lazy -[rstrip]. reflexivity. Qed.
Lemma section_ho_written w bg T : section HO_HEADER (SLINES w bg ++ T) = section HO_HEADER T.
Proof. lazy -[rstrip]. reflexivity. Qed.
Lemma headers_written w bg T :
  headers (SLINES w bg ++ T) = [t "[General]"; t "[Editor]"; t "[Metadata]"; t "[Difficulty]"; t "[Events]"] ++ headers T.
Proof. lazy -[rstrip]. reflexivity. Qed.

Lemma take_body_tail S B V N : all_plain S -> take_body (TAIL S B V N) = S ++ [[]].
Proof.
  intro P. unfold TAIL. replace (S ++ [[]; TP_HEADER] ++ B ++ V ++ [[]; []; HO_HEADER] ++ N)
    with ((S ++ [[]]) ++ TP_HEADER :: B ++ V ++ [[]; []; HO_HEADER] ++ N) by (rewrite <- app_assoc; reflexivity).
  apply take_body_until; [|reflexivity]. intros l I. apply in_app_or in I. destruct I as [I|[I|[]]]; [apply P; exact I|subst; reflexivity].
Qed.
Lemma section_tp_tail S B V N : all_plain S -> all_plain B -> all_plain V ->
  section TP_HEADER (TAIL S B V N) = Some (B ++ V ++ [[]; []]).
Proof.
  intros PS PB PV. unfold TAIL. replace (S ++ [[]; TP_HEADER] ++ B ++ V ++ [[]; []; HO_HEADER] ++ N)
    with ((S ++ [[]]) ++ TP_HEADER :: (B ++ V ++ [[]; []]) ++ HO_HEADER :: N).
  2:{ rewrite <- !app_assoc. reflexivity. }
  rewrite section_app.
  - f_equal. apply take_body_until; [|reflexivity]. intros l I.
    apply in_app_or in I. destruct I as [I|I]; [apply PB; exact I|].
    apply in_app_or in I. destruct I as [I|[I|[I|[]]]]; [apply PV; exact I|subst; reflexivity|subst; reflexivity].
  - intro I. apply in_app_or in I. destruct I as [I|[I|[]]]; [exact (plain_not_in S TP_HEADER PS eq_refl I)|discriminate I].
Qed.
Lemma section_ho_tail S B V N : all_plain S -> all_plain B -> all_plain V -> all_plain N ->
  section HO_HEADER (TAIL S B V N) = Some N.
Proof.
  intros PS PB PV PN. unfold TAIL. replace (S ++ [[]; TP_HEADER] ++ B ++ V ++ [[]; []; HO_HEADER] ++ N)
    with ((S ++ [[]; TP_HEADER] ++ B ++ V ++ [[]; []]) ++ HO_HEADER :: N).
  2:{ rewrite <- !app_assoc. reflexivity. }
  rewrite section_app.
  - f_equal. apply take_body_all. exact PN.
  - intro I. apply in_app_or in I. destruct I as [I|I]; [exact (plain_not_in S HO_HEADER PS eq_refl I)|].
    apply in_app_or in I. destruct I as [[I|[I|[]]]|I]; try discriminate I.
    apply in_app_or in I. destruct I as [I|I]; [exact (plain_not_in B HO_HEADER PB eq_refl I)|].
    apply in_app_or in I. destruct I as [I|[I|[I|[]]]]; [exact (plain_not_in V HO_HEADER PV eq_refl I)|discriminate I|discriminate I].
Qed.
Lemma headers_plain ls : all_plain ls -> headers ls = [].
Proof.
  intro P. unfold headers. apply filter_none. intros x I. exact (P x I).
Qed.
Lemma headers_tail S B V N : all_plain S -> all_plain B -> all_plain V -> all_plain N ->
  headers (TAIL S B V N) = [TP_HEADER; HO_HEADER].
Proof.
  intros PS PB PV PN. unfold TAIL. rewrite !headers_app.
  rewrite (headers_plain S PS), (headers_plain B PB), (headers_plain V PV), (headers_plain N PN). reflexivity.
Qed.

(* ================================================================== the printers (oracles) *)
Section Printer.
  (* repr / ':g' of a float; str / ':g' of an int-typed attribute *)
  Variable show_num : Q -> text.
  Variable show_inum : Q -> text.
  (* the numbers on which the printers are assumed lossless *)
  Variable printable : Q -> bool.
  Variable iprintable : Q -> bool.
  (* ORACLE HYPOTHESES: what is printed is a decimal numeral that reads back as the value printed
     (float(repr(x)) = x; int(str(n)) = n; ':g' on numbers of at most 6 significant digits) *)
  Hypothesis show_num_reads : forall q, printable q = true -> parse_dec (show_num q) = Some (Qred q).
  Hypothesis show_inum_reads : forall q, iprintable q = true -> parse_int (show_inum q) = Some (Qfloor q).
  (* printability is a property of the value, not of its representation as a fraction *)
  Hypothesis printable_ext : forall q q', (q == q')%Q -> printable q = printable q'.
  Hypothesis iprintable_ext : forall q q', (q == q')%Q -> iprintable q = iprintable q'.

  Definition rtok (tk : wtok) : text := match tk with WT s => s | WN q => show_num q | WI q => show_inum q end.
  Fixpoint rline (l : wline) : text :=
    match l with [] => [] | [tk] => rtok tk | tk :: r => rtok tk ++ rline r end.
  Definition rlines (ls : list wline) : list text := map rline ls.
  Lemma rline_concat l : rline l = concat (map rtok l).
  Proof.
    induction l as [|tk l IH]; [reflexivity|]. destruct l as [|tk2 l'].
    - simpl. rewrite app_nil_r. reflexivity.
    - change (rline (tk :: tk2 :: l')) with (rtok tk ++ rline (tk2 :: l')). rewrite IH. reflexivity.
  Qed.
  (* the text of the file a chart is written_raw to (write_file joins with line feeds; read_file splits) *)
  Definition written_raw (c : chart) (ut ua : text) : option (list text) :=
    option_map (fun wl => file_lines (rlines wl)) (osu_write_OLD c ut ua).

  (* ---------------------------------------------------------------- printed numbers *)
  Lemma num_text_facts s q : parse_dec s = Some q ->
    forallb is_num_char s = true /\ stripped s /\ s <> [] /\ ~ In 44 s /\ ~ In 58 s /\ ~ In 10 s.
  Proof.
    intro P. pose proof (parse_dec_chars _ _ P) as C. split; [exact C|]. split; [apply num_chars_stripped; exact C|].
    split; [intro E; subst; discriminate|].
    repeat split; apply (num_chars_no _ _ C); reflexivity.
  Qed.
  Lemma int_text_facts s z : parse_int s = Some z ->
    forallb is_num_char s = true /\ stripped s /\ s <> [] /\ ~ In 44 s /\ ~ In 58 s /\ ~ In 10 s.
  Proof.
    intro P. pose proof (parse_int_chars _ _ P) as C0. pose proof (forallb_impl _ _ _ sint_num C0) as C.
    split; [exact C|]. split; [apply num_chars_stripped; exact C|].
    split; [intro E; subst; discriminate|].
    repeat split; apply (num_chars_no _ _ C); reflexivity.
  Qed.
  Lemma num_chars_plain s : forallb is_num_char s = true -> plain s.
  Proof.
    destruct s as [|c r]; [intros; apply plain_nil|]. simpl. intro H. apply andb_true_iff in H. destruct H as [H _].
    apply plain_head. intro E. subst. discriminate.
  Qed.
  Lemma show_int_facts z : forallb is_num_char (show_int z) = true /\ stripped (show_int z) /\ show_int z <> [] /\
    ~ In 44 (show_int z) /\ ~ In 58 (show_int z) /\ ~ In 10 (show_int z).
  Proof. apply (int_text_facts _ z). apply parse_show_int. Qed.

  (* a line that starts and ends with numeral characters is stripped *)
  Lemma stripped_ends a m b : a <> [] -> b <> [] -> forallb is_num_char a = true -> forallb is_num_char b = true ->
    stripped (a ++ m ++ b).
  Proof.
    intros NA NB FA FB. apply tight_stripped. split.
    - destruct a as [|c a']; [congruence|]. simpl. simpl in FA. apply andb_true_iff in FA. apply num_char_not. tauto.
    - rewrite !rev_app_distr. assert (F: forallb is_num_char (rev b) = true) by (rewrite forallb_rev; exact FB).
      destruct (rev b) as [|c r] eqn:R.
      + apply (f_equal (@length Z)) in R. rewrite rev_length in R. destruct b; [congruence|discriminate].
      + simpl. simpl in F. apply andb_true_iff in F. apply num_char_not. tauto.
  Qed.

  (* ---------------------------------------------------------------- clean texts *)
  (* what the proofs need of an attribute text: no line feed, no surrounding blanks ([clean] of the runner's
     wf_chart also excludes carriage returns, which are harmless at the level of lists of lines) *)
  Definition cleanw (s : text) : bool := negb (has 10 s) && text_eqb (strip s) s.
  Definition mstr_okw (v : mval) : bool :=
    match v with
    | MStr s => cleanw s
    | MTags l => forallb (fun w => cleanw w && nonempty w && negb (has 32 w)) l
    | _ => true
    end.
  Lemma clean_cleanw s : clean s = true -> cleanw s = true.
  Proof.
    unfold clean, cleanw. intro H. apply andb_true_iff in H. destruct H as [H S]. apply andb_true_iff in H. destruct H as [H _].
    rewrite H, S. reflexivity.
  Qed.
  Lemma mstr_ok_w v : mstr_ok v = true -> mstr_okw v = true.
  Proof.
    destruct v; simpl; auto using clean_cleanw. intro H. apply forallb_forall. intros w I. rewrite forallb_forall in H. specialize (H w I).
    apply andb_true_iff in H. destruct H as [H A]. apply andb_true_iff in H. destruct H as [H B]. rewrite (clean_cleanw _ H), A, B. reflexivity.
  Qed.
  Lemma cleanw_facts s : cleanw s = true -> ~ In 10 s /\ stripped s.
  Proof.
    unfold cleanw. intro H. apply andb_true_iff in H. destruct H as [H S].
    apply negb_true_iff in H. split; [apply has_false_iff; exact H|apply text_eqb_eq; exact S].
  Qed.
  Lemma clean_facts s : clean s = true -> ~ In 10 s /\ stripped s.
  Proof.
    unfold clean. intro H. apply andb_true_iff in H. destruct H as [H S]. apply andb_true_iff in H. destruct H as [H _].
    apply negb_true_iff in H. split; [apply has_false_iff; exact H|apply text_eqb_eq; exact S].
  Qed.
  Lemma field_ok_facts s : field_ok s = true -> ~ In 10 s /\ stripped s /\ ~ In 44 s /\ ~ In 58 s.
  Proof.
    unfold field_ok. intro H. apply andb_true_iff in H. destruct H as [H C]. apply andb_true_iff in H. destruct H as [H B].
    destruct (clean_facts s H) as [N S]. apply negb_true_iff in B, C. repeat split; auto; apply has_false_iff; auto.
  Qed.
  Lemma in_join_no d c l : d <> c -> Forall (fun p => ~ In d p) l -> ~ In d (join c l).
  Proof.
    intros NE F I. apply in_join in I. destruct I as [E|[p [P1 P2]]]; [congruence|].
    rewrite Forall_forall in F. exact (F p P1 P2).
  Qed.
  Lemma lit_no (c : Z) s : has c s = false -> ~ In c s.
  Proof. apply has_false_iff. Qed.

  (* ---------------------------------------------------------------- sample events *)
  Definition sample_fields (s : sample) : list text :=
    [t "Sample"; show_int (qtrunc (sm_off s)); t "0"; sm_file s; show_int (sm_vol s)].
  Lemma write_sample_join s : write_sample s = join 44 (sample_fields s).
  Proof. reflexivity. Qed.

  Lemma sample_line s : clean (sm_file s) = true -> has 44 (sm_file s) = false ->
    stripped (write_sample s) /\ ~ In 10 (write_sample s) /\ plain (write_sample s) /\
    startswith (t "Sample,") (write_sample s) = true /\ denote_sample (write_sample s) = Some (trunc_sample s).
  Proof.
    intros C H. destruct (clean_facts _ C) as [N10 ST]. apply has_false_iff in H.
    destruct (show_int_facts (qtrunc (sm_off s))) as [A1 [A2 [A3 [A4 [A5 A6]]]]].
    destruct (show_int_facts (sm_vol s)) as [B1 [B2 [B3 [B4 [B5 B6]]]]].
    split; [|split; [|split; [|split]]].
    - unfold write_sample.
      replace (t "Sample," ++ show_int (qtrunc (sm_off s)) ++ t ",0," ++ sm_file s ++ COMMA :: show_int (sm_vol s))
        with (t "Sample" ++ ((COMMA :: show_int (qtrunc (sm_off s)) ++ t ",0," ++ sm_file s ++ [COMMA]) ++ show_int (sm_vol s))).
      2:{ cbn [app t]. rewrite <- !app_assoc. reflexivity. }
      apply tight_stripped. split; [reflexivity|]. rewrite !rev_app_distr.
      assert (F: forallb is_num_char (rev (show_int (sm_vol s))) = true) by (rewrite forallb_rev; exact B1).
      destruct (rev (show_int (sm_vol s))) as [|c r] eqn:R.
      + apply (f_equal (@length Z)) in R. rewrite rev_length in R. destruct (show_int (sm_vol s)); [congruence|discriminate].
      + simpl. simpl in F. apply andb_true_iff in F. apply num_char_not. tauto.
    - rewrite write_sample_join. apply in_join_no; [discriminate|].
      repeat constructor; auto; apply lit_no; reflexivity.
    - apply plain_head. discriminate.
    - reflexivity.
    - unfold denote_sample. rewrite write_sample_join. rewrite split_join.
      + unfold sample_fields. rewrite A2, B2. rewrite parse_dec_show_int_exact, parse_show_int. reflexivity.
      + discriminate.
      + repeat constructor; auto; apply lit_no; reflexivity.
  Qed.

  (* ---------------------------------------------------------------- timing lines *)
  Definition tp_fields (off code : Q) (met ss ssi vol kind : Z) (kiai : bool) : list text :=
    [show_num off; show_num code; show_int met; show_int ss; show_int ssi; show_int vol; show_int kind; show_int (bool_z kiai)].
  Definition bpm_text (b : bpmpt) : text :=
    join 44 (tp_fields (b_off b) (Qred (60000 / b_bpm b)) (b_met b) (b_ss b) (b_ssi b) (b_vol b) 1 (b_kiai b)).
  Definition sv_text (s : svpt) : text :=
    join 44 (tp_fields (s_off s) (Qred ((-100) / s_mul s)) 4 (s_ss s) (s_ssi s) (s_vol s) 0 (s_kiai s)).
  Lemma write_bpm_text b : Qeq_bool (b_bpm b) 0 = false -> option_map rline (write_bpm b) = Some (bpm_text b).
  Proof. intro H. unfold write_bpm. rewrite H. reflexivity. Qed.
  Lemma write_sv_text s : Qeq_bool (s_mul s) 0 = false -> option_map rline (write_sv s) = Some (sv_text s).
  Proof. intro H. unfold write_sv. rewrite H. reflexivity. Qed.

  Lemma odd_bool_z b : Z.odd (bool_z b) = b.
  Proof. destruct b; reflexivity. Qed.

  Lemma tp_fields_facts off code met ss ssi vol kind kiai :
    printable off = true -> printable code = true ->
    let f := tp_fields off code met ss ssi vol kind kiai in
    Forall (fun p => ~ In 44 p) f /\ Forall (fun p => ~ In 10 p) f /\ map strip f = f /\
    stripped (join 44 f) /\ plain (join 44 f) /\ join 44 f <> [].
  Proof.
    intros P1 P2 f.
    destruct (num_text_facts _ _ (show_num_reads _ P1)) as [A1 [A2 [A3 [A4 [A5 A6]]]]].
    destruct (num_text_facts _ _ (show_num_reads _ P2)) as [B1 [B2 [B3 [B4 [B5 B6]]]]].
    pose proof show_int_facts as SI.
    assert (F44: Forall (fun p => ~ In 44 p) f) by (repeat constructor; auto; apply SI).
    assert (F10: Forall (fun p => ~ In 10 p) f) by (repeat constructor; auto; apply SI).
    split; [exact F44|]. split; [exact F10|]. split.
    { unfold f, tp_fields. cbn [map]. rewrite A2, B2. rewrite !strip_show_int. reflexivity. }
    assert (E: join 44 f = show_num off ++ (44 :: show_num code ++ 44 :: show_int met ++ 44 :: show_int ss ++ 44 :: show_int ssi ++ 44 ::
                            show_int vol ++ 44 :: show_int kind ++ [44]) ++ show_int (bool_z kiai)).
    { unfold f, tp_fields. cbn [join]. repeat (rewrite <- ?app_assoc; cbn [app]). reflexivity. }
    split; [|split].
    - rewrite E. apply stripped_ends; auto; apply SI.
    - rewrite E. destruct (show_num off) as [|c r]; [congruence|]. simpl in A1. apply andb_true_iff in A1. destruct A1 as [A1 _].
      apply plain_head. intro X. subst. discriminate.
    - rewrite E. destruct (show_num off); [congruence|discriminate].
  Qed.

  Definition bpm_den (b : bpmpt) : bpmpt :=
    mkBpm (Qred (b_off b)) (Qred (60000 / Qred (60000 / b_bpm b))) (b_met b) (b_ss b) (b_ssi b) (b_vol b) (b_kiai b).
  Definition sv_den (s : svpt) : svpt :=
    mkSv (Qred (s_off s)) (Qred ((-100) / Qred ((-100) / s_mul s))) (s_ss s) (s_ssi s) (s_vol s) (s_kiai s).

  Lemma code_nonzero_bool c v : Qeq_bool v 0 = false -> ~ (c == 0)%Q -> Qeq_bool (Qred (c / v)) 0 = false.
  Proof.
    intros H Hc. destruct (Qeq_bool (Qred (c / v)) 0) eqn:E; auto. apply Qeq_bool_iff in E.
    rewrite Qred_correct in E. exfalso. apply (code_nonzero c v); auto.
    intro X. apply Qeq_bool_iff in X. congruence.
  Qed.

  Lemma bpm_line b : printable (b_off b) = true -> printable (Qred (60000 / b_bpm b)) = true -> Qeq_bool (b_bpm b) 0 = false ->
    stripped (bpm_text b) /\ ~ In 10 (bpm_text b) /\ plain (bpm_text b) /\ bpm_text b <> [] /\
    denote_tp (bpm_text b) = Some (TPBpm (bpm_den b)) /\ tp_shaped (bpm_text b) = true /\
    eff_of_line (bpm_text b) = Some (bool_z (b_kiai b)).
  Proof.
    intros P1 P2 NZ. unfold bpm_text.
    destruct (tp_fields_facts _ _ (b_met b) (b_ss b) (b_ssi b) (b_vol b) 1 (b_kiai b) P1 P2) as [F44 [F10 [MS [ST [PL NE]]]]].
    set (f := tp_fields (b_off b) (Qred (60000 / b_bpm b)) (b_met b) (b_ss b) (b_ssi b) (b_vol b) 1 (b_kiai b)) in *.
    assert (SJ: split_on 44 (join 44 f) = f) by (apply split_join; [discriminate|exact F44]).
    split; [exact ST|]. split; [apply in_join_no; [discriminate|exact F10]|]. split; [exact PL|]. split; [exact NE|].
    split; [|split].
    - unfold denote_tp. rewrite SJ, MS. unfold f, tp_fields.
      rewrite (show_num_reads _ P1), (show_num_reads _ P2), !parse_show_int. rewrite Qred_idem.
      rewrite (code_nonzero_bool 60000 (b_bpm b) NZ) by (intro X; discriminate X).
      cbn [Z.eqb Pos.eqb]. rewrite odd_bool_z. reflexivity.
    - unfold tp_shaped. rewrite SJ. reflexivity.
    - unfold eff_of_line. rewrite SJ, MS. unfold f, tp_fields. apply parse_show_int.
  Qed.

  Lemma sv_line s : printable (s_off s) = true -> printable (Qred ((-100) / s_mul s)) = true -> Qeq_bool (s_mul s) 0 = false ->
    stripped (sv_text s) /\ ~ In 10 (sv_text s) /\ plain (sv_text s) /\ sv_text s <> [] /\
    denote_tp (sv_text s) = Some (TPSv (sv_den s)) /\ tp_shaped (sv_text s) = true /\
    eff_of_line (sv_text s) = Some (bool_z (s_kiai s)).
  Proof.
    intros P1 P2 NZ. unfold sv_text.
    destruct (tp_fields_facts _ _ 4 (s_ss s) (s_ssi s) (s_vol s) 0 (s_kiai s) P1 P2) as [F44 [F10 [MS [ST [PL NE]]]]].
    set (f := tp_fields (s_off s) (Qred ((-100) / s_mul s)) 4 (s_ss s) (s_ssi s) (s_vol s) 0 (s_kiai s)) in *.
    assert (SJ: split_on 44 (join 44 f) = f) by (apply split_join; [discriminate|exact F44]).
    split; [exact ST|]. split; [apply in_join_no; [discriminate|exact F10]|]. split; [exact PL|]. split; [exact NE|].
    split; [|split].
    - unfold denote_tp. rewrite SJ, MS. unfold f, tp_fields.
      rewrite (show_num_reads _ P1), (show_num_reads _ P2), !parse_show_int. rewrite Qred_idem.
      rewrite (code_nonzero_bool (-100) (s_mul s) NZ) by (intro X; discriminate X).
      cbn [Z.eqb Pos.eqb]. rewrite odd_bool_z. reflexivity.
    - unfold tp_shaped. rewrite SJ. reflexivity.
    - unfold eff_of_line. rewrite SJ, MS. unfold f, tp_fields. apply parse_show_int.
  Qed.

  (* ---------------------------------------------------------------- note lines *)
  Lemma params_stripped (l : list text) (file : text) z :
    stripped file -> stripped (join COLON (show_int z :: l ++ [file])).
  Proof.
    intro SF. destruct (show_int_facts z) as [A1 [A2 [A3 _]]].
    assert (E: exists m, join COLON (show_int z :: l ++ [file]) = show_int z ++ COLON :: m /\ (m = file \/ exists m', m = m' ++ COLON :: file)).
    { revert z A1 A2 A3. induction l as [|x l IH]; intros.
      - exists file. split; [reflexivity|left; reflexivity].
      - destruct (IH 0 ltac:(apply show_int_facts) ltac:(apply show_int_facts) ltac:(apply show_int_facts)) as [m [E1 E2]].
        cbn [app]. exists (join COLON (x :: l ++ [file])). split; [reflexivity|]. right.
        clear E1 E2 IH. revert x. induction l as [|y l IH2]; intro x.
        + exists x. reflexivity.
        + destruct (IH2 y) as [m' E]. exists (x ++ COLON :: m'). cbn [app] in *.
          change (join COLON (x :: y :: l ++ [file])) with (x ++ COLON :: join COLON (y :: l ++ [file])).
          rewrite E. rewrite <- app_assoc. reflexivity. }
    destruct E as [m [E1 E2]]. rewrite E1. apply tight_stripped. split.
    - destruct (show_int z) as [|c r]; [congruence|]. simpl. simpl in A1. apply andb_true_iff in A1. apply num_char_not. tauto.
    - apply stripped_tight in SF. destruct SF as [_ SF].
      destruct E2 as [E2|[m' E2]]; subst m.
      + rewrite rev_app_distr. cbn [rev]. rewrite <- app_assoc.
        destruct (rev file) as [|c r]; [reflexivity|exact SF].
      + rewrite rev_app_distr. cbn [rev]. rewrite !rev_app_distr. cbn [rev]. rewrite <- !app_assoc.
        destruct (rev file) as [|c r]; [reflexivity|exact SF].
  Qed.

  Lemma testbit_1 : Z.testbit 1 7 = false /\ Z.testbit 1 0 = true. Proof. split; reflexivity. Qed.
  Lemma testbit_128 : Z.testbit 128 7 = true. Proof. reflexivity. Qed.

  Lemma col_x_range k c : 1 <= k <= 18 -> 0 <= c < k -> 0 <= col_to_x c k < 512 /\ column_of (col_to_x c k) k = c.
  Proof.
    intros Hk Hc. pose proof (col_to_x_in_range k c Hk Hc) as R. unfold in_column_range in R.
    split.
    - split.
      + destruct (Z.ltb_spec (col_to_x c k) 0) as [L|L]; [|exact L].
        assert (col_to_x c k * k / 512 < 0) by (apply Z.div_lt_upper_bound; nia). lia.
      + destruct (Z.ltb_spec (col_to_x c k) 512) as [L|L]; [exact L|].
        assert (k <= col_to_x c k * k / 512) by (apply Z.div_le_lower_bound; nia). lia.
    - rewrite <- x_to_col_exact. apply x_col_inverse; auto.
  Qed.

  Lemma hit_line n k : 1 <= k <= 18 -> note_ok k n = true ->
    let l := write_hit n k in
    stripped l /\ ~ In 10 l /\ plain l /\ l <> [] /\
    denote_ho k l = Some (HHit (trunc_note false n)) /\ note_line_ok l = Some (qtrunc (n_off n)) /\
    (exists x, x_of_line l = Some x /\ 0 <= x < 512).
  Proof.
    intros Hk OK l. unfold note_ok in OK. apply andb_true_iff in OK. destruct OK as [OK FO].
    apply andb_true_iff in OK. destruct OK as [C0 C1]. apply Z.leb_le in C0. apply Z.ltb_lt in C1.
    destruct (field_ok_facts _ FO) as [N10 [SF [N44 N58]]].
    assert (SEP: sep_free (n_file n)) by (split; assumption).
    destruct (hit_params_ok n SEP) as [P1 P2].
    pose proof (hit_fields_ok n k (t "1") eq_refl eq_refl) as HF.
    pose proof (split_note_line _ _ _ _ _ (hit_params n) HF P1) as SPL.
    destruct (col_x_range k (n_col n) Hk (conj C0 C1)) as [XR XC].
    pose proof show_int_facts as SI.
    assert (SP: stripped (join COLON (hit_params n))).
    { unfold hit_params. apply (params_stripped [show_int (n_as n); show_int (n_cs n); show_int (n_vol n)] (n_file n) (n_ss n) SF). }
    assert (NEP: join COLON (hit_params n) <> []).
    { unfold hit_params. cbn [join]. destruct (show_int (n_ss n)) eqn:E; [exfalso; exact (proj1 (proj2 (proj2 (SI (n_ss n)))) E)|discriminate]. }
    unfold l, write_hit. fold (hit_params n). unfold COMMA in *.
    split; [|split; [|split; [|split; [|split; [|split]]]]].
    - assert (EJ: join 44 [show_int (col_to_x (n_col n) k); t "192"; show_int (qtrunc (n_off n)); t "1"; show_int (n_hs n); join COLON (hit_params n)]
        = show_int (col_to_x (n_col n) k) ++ (44 :: t "192" ++ 44 :: show_int (qtrunc (n_off n)) ++ 44 :: t "1" ++ 44 :: show_int (n_hs n) ++ [44]) ++ join COLON (hit_params n)).
      { cbn [join]. repeat (rewrite <- ?app_assoc; cbn [app]). reflexivity. }
      rewrite EJ. apply tight_stripped. split.
      + destruct (SI (col_to_x (n_col n) k)) as [A1 [_ [A3 _]]].
        destruct (show_int (col_to_x (n_col n) k)) as [|c r]; [congruence|]. simpl. simpl in A1. apply andb_true_iff in A1. apply num_char_not. tauto.
      + rewrite !rev_app_distr. apply stripped_tight in SP. destruct SP as [_ SP].
        destruct (rev (join COLON (hit_params n))) as [|c r] eqn:R.
        * apply (f_equal (@length Z)) in R. rewrite rev_length in R. destruct (join COLON (hit_params n)); [congruence|discriminate].
        * exact SP.
    - apply in_join_no; [discriminate|]. repeat constructor; try apply SI; try (apply lit_no; reflexivity).
      unfold hit_params. apply in_join_no; [discriminate|]. repeat constructor; auto; apply SI.
    - cbn [join]. destruct (SI (col_to_x (n_col n) k)) as [A1 [_ [A3 _]]].
      destruct (show_int (col_to_x (n_col n) k)) as [|c r]; [congruence|]. simpl in A1. apply andb_true_iff in A1. destruct A1 as [A1 _].
      apply plain_head. intro X. subst. discriminate.
    - cbn [join]. destruct (SI (col_to_x (n_col n) k)) as [_ [_ [A3 _]]].
      destruct (show_int (col_to_x (n_col n) k)); [congruence|discriminate].
    - unfold denote_ho. rewrite SPL. cbn [map]. rewrite !strip_show_int. rewrite SP.
      rewrite !parse_show_int, parse_dec_show_int_exact.
      change (strip (t "192")) with (t "192"). change (strip (t "1")) with (t "1").
      change (parse_int (t "192")) with (Some 192). change (parse_int (t "1")) with (Some 1).
      destruct testbit_1 as [T7 T0]. rewrite T7, T0.
      unfold COLON. rewrite (split_join 58 (hit_params n)) by (try discriminate; exact P2).
      unfold hit_params. rewrite !strip_show_int, !parse_show_int. rewrite XC. reflexivity.
    - unfold note_line_ok. rewrite SPL. rewrite !parse_show_int.
      change (parse_int (t "1")) with (Some 1). cbn [Z.eqb Pos.eqb andb].
      pose proof (count_params_colon (hit_params n) P2) as CP. unfold COLON in *. rewrite CP. reflexivity.
    - exists (col_to_x (n_col n) k). split; [|exact XR]. unfold x_of_line. rewrite SPL.
      rewrite strip_show_int. apply parse_show_int.
  Qed.

  Lemma hold_line n k : 1 <= k <= 18 -> note_ok k n = true ->
    let l := write_hold n k in
    stripped l /\ ~ In 10 l /\ plain l /\ l <> [] /\
    denote_ho k l = Some (HHold (trunc_note true n)) /\ note_line_ok l = Some (qtrunc (n_off n)) /\
    (exists x, x_of_line l = Some x /\ 0 <= x < 512).
  Proof.
    intros Hk OK l. unfold note_ok in OK. apply andb_true_iff in OK. destruct OK as [OK FO].
    apply andb_true_iff in OK. destruct OK as [C0 C1]. apply Z.leb_le in C0. apply Z.ltb_lt in C1.
    destruct (field_ok_facts _ FO) as [N10 [SF [N44 N58]]].
    assert (SEP: sep_free (n_file n)) by (split; assumption).
    destruct (hold_params_ok n SEP) as [P1 P2].
    pose proof (hit_fields_ok n k (t "128") eq_refl eq_refl) as HF.
    pose proof (split_note_line _ _ _ _ _ (hold_params n) HF P1) as SPL.
    destruct (col_x_range k (n_col n) Hk (conj C0 C1)) as [XR XC].
    pose proof show_int_facts as SI.
    assert (SP: stripped (join COLON (hold_params n))).
    { unfold hold_params, hit_params.
      apply (params_stripped [show_int (n_ss n); show_int (n_as n); show_int (n_cs n); show_int (n_vol n)] (n_file n) (qtrunc (n_off n + n_len n)) SF). }
    assert (NEP: join COLON (hold_params n) <> []).
    { unfold hold_params, hit_params. cbn [join].
      destruct (show_int (qtrunc (n_off n + n_len n))) eqn:E; [exfalso; exact (proj1 (proj2 (proj2 (SI _))) E)|discriminate]. }
    unfold l, write_hold. fold (hit_params n). fold (hold_params n). unfold COMMA in *.
    split; [|split; [|split; [|split; [|split; [|split]]]]].
    - assert (EJ: join 44 [show_int (col_to_x (n_col n) k); t "192"; show_int (qtrunc (n_off n)); t "128"; show_int (n_hs n); join COLON (hold_params n)]
        = show_int (col_to_x (n_col n) k) ++ (44 :: t "192" ++ 44 :: show_int (qtrunc (n_off n)) ++ 44 :: t "128" ++ 44 :: show_int (n_hs n) ++ [44]) ++ join COLON (hold_params n)).
      { cbn [join]. repeat (rewrite <- ?app_assoc; cbn [app]). reflexivity. }
      rewrite EJ. apply tight_stripped. split.
      + destruct (SI (col_to_x (n_col n) k)) as [A1 [_ [A3 _]]].
        destruct (show_int (col_to_x (n_col n) k)) as [|c r]; [congruence|]. simpl. simpl in A1. apply andb_true_iff in A1. apply num_char_not. tauto.
      + rewrite !rev_app_distr. apply stripped_tight in SP. destruct SP as [_ SP].
        destruct (rev (join COLON (hold_params n))) as [|c r] eqn:R.
        * apply (f_equal (@length Z)) in R. rewrite rev_length in R. destruct (join COLON (hold_params n)); [congruence|discriminate].
        * exact SP.
    - apply in_join_no; [discriminate|]. repeat constructor; try apply SI; try (apply lit_no; reflexivity).
      unfold hold_params, hit_params. apply in_join_no; [discriminate|]. repeat constructor; auto; apply SI.
    - cbn [join]. destruct (SI (col_to_x (n_col n) k)) as [A1 [_ [A3 _]]].
      destruct (show_int (col_to_x (n_col n) k)) as [|c r]; [congruence|]. simpl in A1. apply andb_true_iff in A1. destruct A1 as [A1 _].
      apply plain_head. intro X. subst. discriminate.
    - cbn [join]. destruct (SI (col_to_x (n_col n) k)) as [_ [_ [A3 _]]].
      destruct (show_int (col_to_x (n_col n) k)); [congruence|discriminate].
    - unfold denote_ho. rewrite SPL. cbn [map]. rewrite !strip_show_int. rewrite SP.
      rewrite !parse_show_int, parse_dec_show_int_exact.
      change (strip (t "192")) with (t "192"). change (strip (t "128")) with (t "128").
      change (parse_int (t "192")) with (Some 192). change (parse_int (t "128")) with (Some 128).
      cbv beta iota. rewrite testbit_128.
      unfold COLON. rewrite (split_join 58 (hold_params n)) by (try discriminate; exact P2).
      unfold hold_params, hit_params. rewrite !strip_show_int, !parse_show_int, parse_dec_show_int_exact. rewrite XC. reflexivity.
    - unfold note_line_ok. rewrite SPL. rewrite !parse_show_int.
      change (parse_int (t "128")) with (Some 128). cbn [Z.eqb Pos.eqb andb].
      pose proof (count_params_colon (hold_params n) P2) as CP. unfold COLON in *. rewrite CP.
      rewrite (split_join 58 (hold_params n)) by (try discriminate; exact P2).
      unfold hold_params, hit_params. cbn [length pred Nat.eqb]. rewrite parse_show_int. reflexivity.
    - exists (col_to_x (n_col n) k). split; [|exact XR]. unfold x_of_line. rewrite SPL.
      rewrite strip_show_int. apply parse_show_int.
  Qed.

  (* ---------------------------------------------------------------- the 30 attribute lines *)
  Definition kvw (c : chart) (ut ua : text) (i : nat) : text :=
    let m := c_meta c in
    let s i := meta_str m i in let n i := meta_num m i in let b i := show_int (bool_z (meta_bool m i)) in
    match i with
    | 0%nat => 32 :: s 0%nat | 1%nat => 32 :: show_inum (n 1%nat) | 2%nat => 32 :: show_int (qtrunc (n 2%nat)) | 3%nat => 32 :: b 3%nat
    | 4%nat => 32 :: sampleset_to_string (n 4%nat) | 5%nat => 32 :: show_num (n 5%nat) | 6%nat => 32 :: show_inum (n 6%nat)
    | 7%nat => 32 :: b 7%nat | 8%nat => 32 :: b 8%nat | 9%nat => 32 :: b 9%nat
    | 10%nat => 32 :: show_num (n 10%nat) | 11%nat => 32 :: show_inum (n 11%nat) | 12%nat => 32 :: show_inum (n 12%nat) | 13%nat => 32 :: show_num (n 13%nat)
    | 14%nat => ut | 15%nat => s 15%nat | 16%nat => ua | 17%nat => s 17%nat | 18%nat => s 18%nat | 19%nat => s 19%nat | 20%nat => s 20%nat
    | 21%nat => join SPACE (meta_tags m 21%nat) | 22%nat => show_inum (n 22%nat) | 23%nat => show_inum (n 23%nat)
    | _ => show_num (n i)
    end.

  Lemma write_meta_text c ut ua :
    rlines (write_meta_OLD c ut ua) = map (mline_text (kvw c ut ua) (c_bg c)) ITEMS ++ map write_sample (c_samples c).
  Proof.
    unfold write_meta_OLD, rlines. rewrite map_app. f_equal.
    rewrite map_map. apply map_ext. reflexivity.
  Qed.

  Lemma tv_pad ty pad x : forallb is_space pad = true -> typed_value ty (rstrip (pad ++ x)) = typed_value ty x.
  Proof. intro H. unfold typed_value. rewrite strip_rstrip, strip_lead by exact H. reflexivity. Qed.
  Lemma tv_nopad ty x : typed_value ty (rstrip x) = typed_value ty x.
  Proof. apply (tv_pad ty [] x). reflexivity. Qed.

  Lemma tv_str s : typed_value TStr s = Some (MStr (strip s)).
  Proof. reflexivity. Qed.
  Lemma tv_inum q : iprintable q = true -> is_integral q = true ->
    typed_value TInt (show_inum q) = Some (MNum (inject_Z (qtrunc q))).
  Proof.
    intros P IQ. rewrite (integral_trunc q IQ). unfold typed_value. destruct (int_text_facts _ _ (show_inum_reads _ P)) as [_ [S _]]. rewrite S.
    rewrite (show_inum_reads _ P). reflexivity.
  Qed.
  Lemma tv_int z : typed_value TInt (show_int z) = Some (MNum (inject_Z z)).
  Proof. unfold typed_value. rewrite strip_show_int, parse_show_int. reflexivity. Qed.
  Lemma tv_bool b : typed_value TBool (show_int (bool_z b)) = Some (MBool b).
  Proof. unfold typed_value. rewrite strip_show_int, parse_show_int. destruct b; reflexivity. Qed.
  Lemma tv_ss q : typed_value TSampleSet (sampleset_to_string q) = Some (MNum (inject_Z (sample_set_of (sampleset_to_string q)))).
  Proof.
    unfold typed_value. assert (S: strip (sampleset_to_string q) = sampleset_to_string q).
    { unfold sampleset_to_string. repeat match goal with |- context [if ?b then _ else _] => destruct b end; reflexivity. }
    rewrite S. reflexivity.
  Qed.
  Lemma tv_num q : printable q = true -> typed_value TDec (show_num q) = Some (MNum (Qred q)).
  Proof.
    intro P. unfold typed_value. destruct (num_text_facts _ _ (show_num_reads _ P)) as [_ [S _]]. rewrite S.
    rewrite (show_num_reads _ P). reflexivity.
  Qed.

  Definition tag_ok (w : text) : bool := cleanw w && nonempty w && negb (has 32 w).
  Lemma join_last (c : Z) (l : list text) : l <> [] -> exists pre, join c l = pre ++ last l [].
  Proof.
    induction l as [|a l IH]; [congruence|]. intros _. destruct l as [|b l'].
    - exists []. reflexivity.
    - destruct (IH ltac:(discriminate)) as [pre E]. exists (a ++ c :: pre).
      change (join c (a :: b :: l')) with (a ++ c :: join c (b :: l')). rewrite E. rewrite <- app_assoc. reflexivity.
  Qed.
  Lemma last_in {A} (l : list A) d : l <> [] -> In (last l d) l.
  Proof.
    induction l as [|a l IH]; [congruence|]. intros _. destruct l as [|b l']; [left; reflexivity|].
    right. apply IH. discriminate.
  Qed.
  Lemma tv_tags tags : forallb tag_ok tags = true -> typed_value TTags (join SPACE tags) = Some (MTags tags).
  Proof.
    intro F. unfold typed_value. f_equal. f_equal.
    assert (EACH: forall w, In w tags -> stripped w /\ w <> [] /\ ~ In 32 w).
    { intros w I. rewrite forallb_forall in F. specialize (F w I). unfold tag_ok in F.
      apply andb_true_iff in F. destruct F as [F H]. apply andb_true_iff in F. destruct F as [C NE].
      destruct (cleanw_facts w C) as [_ S]. split; [exact S|]. split; [destruct w; [discriminate|discriminate]|].
      apply negb_true_iff in H. apply has_false_iff. exact H. }
    destruct tags as [|a tags']; [reflexivity|]. set (tags := a :: tags') in *.
    change (words (strip (join SPACE tags))) with (words' (strip (join SPACE tags))).
    assert (ET: ends_tight (join SPACE tags)).
    { destruct (join_last SPACE tags ltac:(discriminate)) as [pre E]. rewrite E. unfold ends_tight. rewrite rev_app_distr.
      assert (IL: In (last tags []) tags) by (apply last_in; discriminate).
      destruct (EACH _ IL) as [S [NE _]]. apply stripped_tight in S. destruct S as [_ S].
      destruct (rev (last tags [])) as [|c r] eqn:R.
      - apply (f_equal (@length Z)) in R. rewrite rev_length in R. destruct (last tags []); [congruence|discriminate].
      - exact S. }
    destruct (strip_left_only _ ET) as [ws [E FW]].
    rewrite <- (words_lead ws (strip (join SPACE tags)) FW). rewrite <- E.
    unfold words'. unfold SPACE. rewrite split_join.
    - assert (MS: map strip tags = tags).
      { rewrite <- (map_id tags) at 2. apply map_ext_in. intros w I. apply (EACH w I). }
      rewrite MS. clear - EACH. induction tags as [|w l IH]; [reflexivity|].
      cbn [filter]. destruct (EACH w (or_introl eq_refl)) as [_ [NE _]]. destruct w; [congruence|]. cbn [nonempty].
      f_equal. apply IH. intros x I. apply EACH. right. exact I.
    - discriminate.
    - apply Forall_forall. intros w I. apply (EACH w I).
  Qed.

  (* what the format reads back for each attribute *)
  Definition back (ty : vtype) (v : mval) : mval :=
    match ty, v with
    | TInt, MNum q => MNum (inject_Z (qtrunc q))
    | TDec, MNum q => MNum (Qred q)
    | TSampleSet, MNum q => MNum (inject_Z (sample_set_of (sampleset_to_string q)))
    | _, _ => v
    end.
  Fixpoint backs (tbl : list (text * text * vtype)) (m : list mval) : list mval :=
    match tbl, m with
    | (_, _, ty) :: tbl', v :: m' => back ty v :: backs tbl' m'
    | _, _ => []
    end.
  Definition den_meta (c : chart) (ut ua : text) : list mval :=
    set_nth (set_nth (backs key_table (c_meta c)) IX_TITLE (MStr (strip ut))) IX_ARTIST (MStr (strip ua)).

  Definition WN_IX : list nat := [5; 10; 13; 24; 25; 26; 27; 28; 29]%nat.
  Definition WI_IX : list nat := [1; 6; 11; 12; 22; 23]%nat.

  Lemma tv_pad1 ty x : typed_value ty (rstrip (32 :: x)) = typed_value ty x.
  Proof. apply (tv_pad ty [32] x). reflexivity. Qed.

  Lemma kind_ok_inv ty v : kind_ok ty v = true ->
    match ty with
    | TStr => exists s, v = MStr s
    | TInt => exists q, v = MNum q
    | TBool => exists b, v = MBool b
    | TDec | TSampleSet => exists q, v = MNum q
    | TTags => exists l, v = MTags l
    end.
  Proof. destruct ty, v; simpl; intro H; try discriminate; eauto. Qed.
  Lemma kinds_ok_cons e tbl m : kinds_ok (e :: tbl) m = true ->
    exists v m', m = v :: m' /\ kind_ok (snd e) v = true /\ kinds_ok tbl m' = true.
  Proof.
    destruct e as [[sec name] ty]. destruct m as [|v m']; [discriminate|]. cbn [kinds_ok snd]. intro H.
    apply andb_true_iff in H. destruct H. eauto.
  Qed.

  Lemma meta_values c ut ua :
    kinds_ok key_table (c_meta c) = true -> forallb mstr_okw (c_meta c) = true ->
    forallb printable (map (meta_num (c_meta c)) WN_IX) = true ->
    forallb iprintable (map (meta_num (c_meta c)) WI_IX) = true ->
    forallb is_integral (map (meta_num (c_meta c)) WI_IX) = true ->
    omap (fun p : nat * (text * text * vtype) => option_map Some (typed_value (snd (snd p)) (rstrip (kvw c ut ua (fst p)))))
         (combine (seq 0 30) key_table) = Some (map Some (den_meta c ut ua)).
  Proof.
    destruct c as [m bg ss bpms svs hits holds]. cbn [c_meta]. intros K MS PN PI II.
    unfold key_table in K. cbv zeta in K.
    repeat match type of K with
           | kinds_ok (_ :: _) _ = true =>
               apply kinds_ok_cons in K; let v := fresh "v" in let m' := fresh "m" in let Kv := fresh "Kv" in
               destruct K as [v [m' [-> [Kv K]]]]; cbn [snd] in Kv; apply kind_ok_inv in Kv
           end.

    destruct m; [|discriminate K]. clear K.
    repeat match goal with H : exists _, _ |- _ => destruct H as [? H] end.
    repeat match goal with H : _ /\ _ |- _ => destruct H end. subst.
    cbn [forallb mstr_okw] in MS.
    repeat (apply andb_true_iff in MS; destruct MS as [? MS]).
    cbn [WN_IX WI_IX map meta_num nth forallb] in PN, PI, II.
    repeat (apply andb_true_iff in PN; destruct PN as [? PN]).
    repeat (apply andb_true_iff in PI; destruct PI as [? PI]).
    repeat (apply andb_true_iff in II; destruct II as [? II]).
    unfold den_meta. unfold key_table. cbv zeta. cbn [c_meta backs back set_nth IX_TITLE IX_ARTIST map].
    cbn [omap combine seq fst snd kvw c_meta meta_str meta_num meta_bool meta_tags nth].
    rewrite ?tv_pad1, ?tv_nopad.
    rewrite ?tv_str, ?tv_int, ?tv_bool, ?tv_ss.
    repeat rewrite tv_inum by assumption. repeat rewrite tv_num by assumption.
    rewrite tv_tags by assumption.
    cbn [option_map obind]. rewrite ?strip_rstrip.
    repeat match goal with H : cleanw ?s = true |- _ => rewrite (proj2 (cleanw_facts s H)); clear H end.
    reflexivity.
  Qed.

  (* ---------------------------------------------------------------- the attribute cells of a chart in the domain *)
  Lemma meta_str_clean m i : forallb mstr_okw m = true -> cleanw (meta_str m i) = true.
  Proof.
    intro F. unfold meta_str. destruct (nth_in_or_default i m (MStr [])) as [I|E].
    - rewrite forallb_forall in F. specialize (F _ I). destruct (nth i m (MStr [])); try reflexivity. exact F.
    - rewrite E. reflexivity.
  Qed.
  Lemma meta_tags_ok m i : forallb mstr_okw m = true -> forallb tag_ok (meta_tags m i) = true.
  Proof.
    intro F. unfold meta_tags. destruct (nth_in_or_default i m (MTags [])) as [I|E].
    - rewrite forallb_forall in F. specialize (F _ I). destruct (nth i m (MTags [])); try reflexivity. exact F.
    - rewrite E. reflexivity.
  Qed.
  Lemma forallb_map_in {A B} (p : B -> bool) (f : A -> B) l x : forallb p (map f l) = true -> In x l -> p (f x) = true.
  Proof. intros F I. rewrite forallb_forall in F. apply F. apply in_map. exact I. Qed.

  (* the write domain, with the printers *)
  Definition wdom_raw (c : chart) (ut ua : text) : bool :=
    write_domain c ut ua && negb (has 10 ut) && negb (has 10 ua)
    && forallb printable (wn_numbers c) && forallb iprintable (wi_numbers c).

  Record wfacts (c : chart) (ut ua : text) : Prop := {
    wf_len : length (c_meta c) = 30%nat;
    wf_kinds : kinds_ok key_table (c_meta c) = true;
    wf_mstr : forallb mstr_okw (c_meta c) = true;
    wf_pn : forallb printable (map (meta_num (c_meta c)) WN_IX) = true;
    wf_pi : forallb iprintable (map (meta_num (c_meta c)) WI_IX) = true;
    wf_ii : forallb is_integral (map (meta_num (c_meta c)) WI_IX) = true;
    wf_keys_int : is_integral (meta_num (c_meta c) IX_CS) = true;
    wf_keys : 1 <= Qfloor (meta_num (c_meta c) IX_CS) <= 18;
    wf_ss : is_integral (meta_num (c_meta c) 4) = true /\ (-1 <= meta_num (c_meta c) 4 <= 3)%Q;
    wf_bg : clean (c_bg c) = true;
    wf_samples : forall s, In s (c_samples c) -> clean (sm_file s) = true /\ has 44 (sm_file s) = false;
    wf_bpms : forall b, In b (c_bpms c) -> Qeq_bool (b_bpm b) 0 = false /\ printable (b_off b) = true /\ printable (Qred (60000 / b_bpm b)) = true;
    wf_svs : forall s, In s (c_svs c) -> Qeq_bool (s_mul s) 0 = false /\ printable (s_off s) = true /\ printable (Qred ((-100) / s_mul s)) = true;
    wf_hits : forall n, In n (c_hits c) -> note_ok (Qfloor (meta_num (c_meta c) IX_CS)) n = true;
    wf_holds : forall n, In n (c_holds c) -> note_ok (Qfloor (meta_num (c_meta c) IX_CS)) n = true;
    wf_ut : ~ In 10 ut;
    wf_ua : ~ In 10 ua }.

  Lemma forallb_flat_map {A B} (p : B -> bool) (f : A -> list B) l x : forallb p (flat_map f l) = true -> In x l -> forallb p (f x) = true.
  Proof.
    intros F I. apply forallb_forall. intros y Iy. rewrite forallb_forall in F. apply F. apply in_flat_map. exists x. auto.
  Qed.

  Lemma wdom_raw_facts c ut ua : wdom_raw c ut ua = true -> wfacts c ut ua.
  Proof.
    unfold wdom_raw, write_domain, wf_chart. cbv zeta. intro H.
    repeat (apply andb_true_iff in H; destruct H as [H ?]).
    match goal with X : forallb printable (wn_numbers c) = true |- _ =>
      unfold wn_numbers in X; rewrite !forallb_app in X;
      apply andb_true_iff in X; destruct X as [PN X]; apply andb_true_iff in X; destruct X as [PB PS] end.
    constructor; auto.
    - apply Nat.eqb_eq. exact H.
    - eapply forallb_impl; [apply mstr_ok_w|assumption].
    - split; apply Z.leb_le; assumption.
    - match goal with X : _ && _ && _ = true |- _ =>
        apply andb_true_iff in X; destruct X as [X X3]; apply andb_true_iff in X; destruct X as [X1 X2] end.
      split; [assumption|]. split; apply Qle_bool_iff; assumption.
    - intros s I. match goal with X : forallb _ (c_samples c) = true |- _ => rewrite forallb_forall in X; specialize (X s I);
        apply andb_true_iff in X; destruct X as [A B] end.
      split; [exact A|]. apply negb_true_iff in B. exact B.
    - intros b I. match goal with X : forallb _ (c_bpms c) = true |- _ => rewrite forallb_forall in X; specialize (X b I); apply negb_true_iff in X end.
      pose proof (forallb_flat_map _ _ _ _ PB I) as F. cbn [forallb] in F.
      apply andb_true_iff in F. destruct F as [F1 F2]. apply andb_true_iff in F2. destruct F2 as [F2 _]. auto.
    - intros s I. match goal with X : forallb _ (c_svs c) = true |- _ => rewrite forallb_forall in X; specialize (X s I); apply negb_true_iff in X end.
      pose proof (forallb_flat_map _ _ _ _ PS I) as F. cbn [forallb] in F.
      apply andb_true_iff in F. destruct F as [F1 F2]. apply andb_true_iff in F2. destruct F2 as [F2 _]. auto.
    - intros n I. match goal with X : forallb _ (c_hits c) = true |- _ => rewrite forallb_forall in X; exact (X n I) end.
    - intros n I. match goal with X : forallb _ (c_holds c) = true |- _ => rewrite forallb_forall in X; exact (X n I) end.
    - apply has_false_iff. apply negb_true_iff. assumption.
    - apply has_false_iff. apply negb_true_iff. assumption.
  Qed.

  (* ---------------------------------------------------------------- the written_raw file, explicitly *)
  Definition sorted_notes (c : chart) : list (bool * note) :=
    sort_by_off (map (fun x => (true, x)) (c_holds c) ++ map (fun x => (false, x)) (c_hits c)).
  Definition note_text (k : Z) (p : bool * note) : text := if fst p then write_hold (snd p) k else write_hit (snd p) k.
  Definition keys_of (c : chart) : Z := Qfloor (meta_num (c_meta c) IX_CS).
  Definition FILE (c : chart) (ut ua : text) : list text :=
    map (mline_text (kvw c ut ua) (c_bg c)) ITEMS
    ++ TAIL (map write_sample (c_samples c)) (map bpm_text (c_bpms c)) (map sv_text (c_svs c))
            (map (note_text (keys_of c)) (sorted_notes c)).

  Lemma in_insert x p l : In p (insert_by_off x l) <-> p = x \/ In p l.
  Proof.
    induction l as [|y l IH]; simpl; [intuition|].
    destruct (Qlt_bool (n_off (snd y)) (n_off (snd x))); simpl; [rewrite IH|]; intuition.
  Qed.
  Lemma in_sort p l : In p (sort_by_off l) <-> In p l.
  Proof.
    induction l as [|x l IH]; simpl; [tauto|]. unfold sort_by_off in *. simpl. rewrite in_insert, IH. intuition.
  Qed.
  Lemma sorted_note_ok c ut ua p : wfacts c ut ua -> In p (sorted_notes c) -> note_ok (keys_of c) (snd p) = true.
  Proof.
    intros W I. unfold sorted_notes in I. apply (proj1 (in_sort _ _)) in I. apply in_app_or in I. destruct I as [I|I]; apply in_map_iff in I; destruct I as [n [E I]]; subst.
    - exact (wf_holds _ _ _ W n I).
    - exact (wf_hits _ _ _ W n I).
  Qed.

  Lemma omap_render {A} (f : A -> option wline) (h : A -> text) l :
    (forall x, In x l -> option_map rline (f x) = Some (h x)) ->
    exists r, omap f l = Some r /\ rlines r = map h l.
  Proof.
    induction l as [|x l IH]; intro H; [exists []; auto|].
    destruct (IH (fun y I => H y (or_intror I))) as [r [O R]].
    pose proof (H x (or_introl eq_refl)) as Hx. destruct (f x) as [wl|] eqn:F; [|discriminate].
    exists (wl :: r). simpl. rewrite F, O. cbn [obind]. split; auto. unfold rlines in *. simpl in *. inversion Hx. rewrite R. reflexivity.
  Qed.

  (* no line feed inside the written_raw lines *)
  Definition item_nl (it : mline) : bool :=
    match it with ML_lit s => negb (has 10 s) | ML_kv k i => negb (has 10 k) && (i <? 30)%nat | ML_bg => true end.
  Lemma items_nl : forallb item_nl ITEMS = true.
  Proof. vm_compute. reflexivity. Qed.
  Lemma items_nl_free w bg : (forall i, (i < 30)%nat -> ~ In 10 (w i)) -> ~ In 10 bg ->
    forall l, In l (map (mline_text w bg) ITEMS) -> ~ In 10 l.
  Proof.
    intros HW HB l I. apply in_map_iff in I. destruct I as [it [E I]]. subst.
    pose proof items_nl as F. rewrite forallb_forall in F. specialize (F it I).
    destruct it as [s|k i|]; cbn [item_nl mline_text] in *.
    - apply has_false_iff. apply negb_true_iff. exact F.
    - apply andb_true_iff in F. destruct F as [F1 F2]. apply negb_true_iff in F1. apply has_false_iff in F1.
      apply Nat.ltb_lt in F2. intro X. apply in_app_or in X. destruct X as [X|[X|X]]; [contradiction|discriminate X|exact (HW i F2 X)].
    - intro X. apply in_app_or in X. destruct X as [X|X]; [revert X; apply lit_no; reflexivity|].
      apply in_app_or in X. destruct X as [X|X]; [contradiction|revert X; apply lit_no; reflexivity].
  Qed.

  Lemma in_ix (i : nat) (l : list nat) : existsb (Nat.eqb i) l = true -> In i l.
  Proof. intro H. apply existsb_exists in H. destruct H as [x [I E]]. apply Nat.eqb_eq in E. subst. exact I. Qed.

  Lemma kvw_nl_free c ut ua : wfacts c ut ua -> forall i, (i < 30)%nat -> ~ In 10 (kvw c ut ua i).
  Proof.
    intros W i Hi. pose proof (wf_mstr _ _ _ W) as MS.
    assert (STR: forall j, ~ In 10 (meta_str (c_meta c) j)) by (intro j; apply (cleanw_facts _ (meta_str_clean _ j MS))).
    assert (PN: forall j, In j WN_IX -> ~ In 10 (show_num (meta_num (c_meta c) j))).
    { intros j I. pose proof (forallb_map_in _ _ _ _ (wf_pn _ _ _ W) I) as P.
      apply (num_text_facts _ _ (show_num_reads _ P)). }
    assert (PI: forall j, In j WI_IX -> ~ In 10 (show_inum (meta_num (c_meta c) j))).
    { intros j I. pose proof (forallb_map_in _ _ _ _ (wf_pi _ _ _ W) I) as P.
      apply (int_text_facts _ _ (show_inum_reads _ P)). }
    assert (SI: forall z, ~ In 10 (show_int z)) by (intro z; apply show_int_facts).
    assert (C32: forall x, ~ In 10 x -> ~ In 10 (32 :: x)) by (intros x H [E|I]; [discriminate E|auto]).
    assert (SS: forall q, ~ In 10 (sampleset_to_string q)).
    { intro q. unfold sampleset_to_string.
      repeat match goal with |- context [if ?b then _ else _] => destruct b end; apply lit_no; reflexivity. }
    assert (TG: ~ In 10 (join SPACE (meta_tags (c_meta c) 21))).
    { unfold SPACE. apply in_join_no; [discriminate|]. apply Forall_forall. intros w I.
      pose proof (meta_tags_ok _ 21 MS) as T. rewrite forallb_forall in T. specialize (T w I). unfold tag_ok in T.
      apply andb_true_iff in T. destruct T as [T _]. apply andb_true_iff in T. destruct T as [T _]. apply (cleanw_facts _ T). }
    do 30 (destruct i as [|i];
           [cbn [kvw]; try apply C32;
            first [ apply STR | apply SI | apply SS | exact TG | exact (wf_ut _ _ _ W) | exact (wf_ua _ _ _ W)
                  | (apply PN; apply in_ix; reflexivity) | (apply PI; apply in_ix; reflexivity) ]|]).
    lia.
  Qed.

  Lemma keys_trunc c ut ua : wfacts c ut ua -> qtrunc (meta_num (c_meta c) IX_CS) = keys_of c.
  Proof. intro W. apply integral_trunc. exact (wf_keys_int _ _ _ W). Qed.

  Lemma note_line_facts c ut ua p : wfacts c ut ua -> In p (sorted_notes c) ->
    let l := note_text (keys_of c) p in
    stripped l /\ ~ In 10 l /\ plain l /\ l <> [] /\
    denote_ho (keys_of c) l = Some (if fst p then HHold (trunc_note true (snd p)) else HHit (trunc_note false (snd p))) /\
    note_line_ok l = Some (qtrunc (n_off (snd p))) /\ (exists x, x_of_line l = Some x /\ 0 <= x < 512).
  Proof.
    intros W I. pose proof (sorted_note_ok _ _ _ _ W I) as OK. pose proof (wf_keys _ _ _ W) as K.
    unfold note_text. destruct (fst p).
    - exact (hold_line (snd p) (keys_of c) K OK).
    - exact (hit_line (snd p) (keys_of c) K OK).
  Qed.

  Lemma flat_map_id_lines (ls : list text) : (forall l, In l ls -> ~ In 10 l) -> flat_map (split_on NL) ls = ls.
  Proof.
    intro H. rewrite (flat_map_single (split_on NL) (fun x => x)).
    - apply map_id.
    - intros x I. apply split_on_no_sep. exact (H x I).
  Qed.

  Lemma written_file c ut ua : wfacts c ut ua -> written_raw c ut ua = Some (FILE c ut ua).
  Proof.
    intro W. unfold written_raw, osu_write_OLD. cbv zeta.
    destruct (omap_render write_bpm bpm_text (c_bpms c)) as [bl [OB RB]].
    { intros b I. apply write_bpm_text. apply (wf_bpms _ _ _ W b I). }
    destruct (omap_render write_sv sv_text (c_svs c)) as [sl [OS RS]].
    { intros s I. apply write_sv_text. apply (wf_svs _ _ _ W s I). }
    rewrite OB, OS. cbn [obind]. rewrite (keys_trunc _ _ _ W).
    assert (KP: (keys_of c <=? 0) = false) by (apply Z.leb_gt; pose proof (wf_keys _ _ _ W); unfold keys_of; lia).
    rewrite KP. cbn [andb option_map]. f_equal.
    unfold file_lines. rewrite split_on_join_flat.
    2:{ unfold write_meta_OLD. discriminate. }
    assert (RA: forall a b, rlines (a ++ b) = rlines a ++ rlines b) by (intros; apply map_app).
    assert (RW: forall L, rlines (map (fun s => [WT s]) L) = L).
    { intro L. unfold rlines. rewrite map_map. cbn [rline rtok]. apply map_id. }
    rewrite !RA, RW, write_meta_text, RB, RS. rewrite !flat_map_app.
    change (rlines [[WT (NL :: TP_HEADER)]]) with [NL :: TP_HEADER].
    change (rlines [[WT (NL :: NL :: HO_HEADER)]]) with [NL :: NL :: HO_HEADER].
    cbn [flat_map].
    change (split_on NL (NL :: TP_HEADER)) with [[]; TP_HEADER].
    change (split_on NL (NL :: NL :: HO_HEADER)) with [[]; []; HO_HEADER].
    unfold FILE, TAIL, write_notes. fold (sorted_notes c).
    assert (N1: forall l, In l (map (mline_text (kvw c ut ua) (c_bg c)) ITEMS) -> ~ In 10 l).
    { apply items_nl_free; [apply kvw_nl_free; exact W|apply (clean_facts _ (wf_bg _ _ _ W))]. }
    assert (N2: forall l, In l (map write_sample (c_samples c)) -> ~ In 10 l).
    { intros l I. apply in_map_iff in I. destruct I as [s [E I]]. subst.
      destruct (wf_samples _ _ _ W s I) as [A B]. apply (sample_line s A B). }
    assert (N3: forall l, In l (map bpm_text (c_bpms c)) -> ~ In 10 l).
    { intros l I. apply in_map_iff in I. destruct I as [b [E I]]. subst.
      destruct (wf_bpms _ _ _ W b I) as [A [B C]]. apply (bpm_line b B C A). }
    assert (N4: forall l, In l (map sv_text (c_svs c)) -> ~ In 10 l).
    { intros l I. apply in_map_iff in I. destruct I as [s [E I]]. subst.
      destruct (wf_svs _ _ _ W s I) as [A [B C]]. apply (sv_line s B C A). }
    assert (N5: forall l, In l (map (note_text (keys_of c)) (sorted_notes c)) -> ~ In 10 l).
    { intros l I. apply in_map_iff in I. destruct I as [p [E I]]. subst. apply (note_line_facts _ _ _ p W I). }
    change (map (fun p : bool * note => if fst p then write_hold (snd p) (keys_of c) else write_hit (snd p) (keys_of c)) (sorted_notes c))
      with (map (note_text (keys_of c)) (sorted_notes c)).
    rewrite !flat_map_id_lines by assumption.
    rewrite !app_nil_r. rewrite <- !app_assoc. reflexivity.
  Qed.

  (* ---------------------------------------------------------------- the stripped file *)
  Lemma map_strip_id ls : (forall l, In l ls -> stripped l) -> map strip ls = ls.
  Proof. intro H. rewrite <- (map_id ls) at 2. apply map_ext_in. exact H. Qed.

  Definition S_of (c : chart) := map write_sample (c_samples c).
  Definition B_of (c : chart) := map bpm_text (c_bpms c).
  Definition V_of (c : chart) := map sv_text (c_svs c).
  Definition N_of (c : chart) := map (note_text (keys_of c)) (sorted_notes c).

  Record tail_facts (c : chart) : Prop := {
    tf_s : forall l, In l (S_of c) -> stripped l /\ plain l /\ startswith (t "Sample,") l = true;
    tf_b : forall l, In l (B_of c) -> stripped l /\ plain l /\ l <> [];
    tf_v : forall l, In l (V_of c) -> stripped l /\ plain l /\ l <> [];
    tf_n : forall l, In l (N_of c) -> stripped l /\ plain l /\ l <> [] }.

  Lemma tail_facts_of c ut ua : wfacts c ut ua -> tail_facts c.
  Proof.
    intro W. constructor; intros l I; apply in_map_iff in I; destruct I as [x [E I]]; subst.
    - destruct (wf_samples _ _ _ W x I) as [A B]. destruct (sample_line x A B) as [H1 [H2 [H3 [H4 H5]]]]. auto.
    - destruct (wf_bpms _ _ _ W x I) as [A [B C]]. destruct (bpm_line x B C A) as [H1 [H2 [H3 [H4 _]]]]. auto.
    - destruct (wf_svs _ _ _ W x I) as [A [B C]]. destruct (sv_line x B C A) as [H1 [H2 [H3 [H4 _]]]]. auto.
    - destruct (note_line_facts _ _ _ x W I) as [H1 [H2 [H3 [H4 _]]]]. auto.
  Qed.

  Lemma stripped_file c ut ua : wfacts c ut ua ->
    map strip (FILE c ut ua) = SLINES (kvw c ut ua) (c_bg c) ++ TAIL (S_of c) (B_of c) (V_of c) (N_of c).
  Proof.
    intro W. pose proof (tail_facts_of _ _ _ W) as T. unfold FILE. rewrite map_app, items_strip. f_equal.
    fold (S_of c) (B_of c) (V_of c) (N_of c). unfold TAIL. rewrite !map_app.
    rewrite (map_strip_id (S_of c)) by (intros l I; apply (tf_s _ T l I)).
    rewrite (map_strip_id (B_of c)) by (intros l I; apply (tf_b _ T l I)).
    rewrite (map_strip_id (V_of c)) by (intros l I; apply (tf_v _ T l I)).
    assert (E: @map (list Z) text strip (N_of c) = N_of c) by (apply map_strip_id; intros l I; apply (tf_n _ T l I)).
    rewrite E. reflexivity.
  Qed.

  (* ---------------------------------------------------------------- what the written_raw file denotes *)
  Definition hits_of (l : list (bool * note)) : list note := map snd (filter (fun p => negb (fst p)) l).
  Definition holds_of (l : list (bool * note)) : list note := map snd (filter (fun p => fst p) l).
  Definition den_of (c : chart) (ut ua : text) : dchart :=
    mkD (map Some (den_meta c ut ua)) (Some (c_bg c)) (map trunc_sample (c_samples c))
        (map bpm_den (c_bpms c)) (map sv_den (c_svs c))
        (map (trunc_note false) (hits_of (sorted_notes c))) (map (trunc_note true) (holds_of (sorted_notes c)))
        (keys_of c).

  Lemma omap_map_some {A B C} (f : B -> option C) (g : A -> B) (h : A -> C) l :
    (forall x, In x l -> f (g x) = Some (h x)) -> omap f (map g l) = Some (map h l).
  Proof.
    induction l as [|x l IH]; intro H; [reflexivity|]. simpl. rewrite (H x (or_introl eq_refl)). cbn [obind].
    rewrite IH by (intros y I; apply H; right; exact I). reflexivity.
  Qed.
  Lemma omap_app {A B} (f : A -> option B) a b ra rb : omap f a = Some ra -> omap f b = Some rb -> omap f (a ++ b) = Some (ra ++ rb).
  Proof.
    revert ra. induction a as [|x a IH]; intros ra HA HB; simpl in *.
    - inversion HA. exact HB.
    - destruct (f x); [|discriminate]. cbn [obind] in *. destruct (omap f a) as [r|]; [|discriminate].
      inversion HA. rewrite (IH r eq_refl HB). reflexivity.
  Qed.
  Lemma filter_all {A} (p : A -> bool) l : (forall x, In x l -> p x = true) -> filter p l = l.
  Proof.
    induction l as [|x l IH]; intro H; [reflexivity|]. simpl. rewrite (H x (or_introl eq_refl)). f_equal.
    apply IH. intros y I. apply H. right. exact I.
  Qed.

  Lemma between_quotes_bg bg : between_quotes (bg_line bg) = Some bg.
  Proof.
    unfold between_quotes, bg_line. change (BG_PRE ++ bg ++ BG_POST) with (t "0,0," ++ 34 :: (bg ++ BG_POST)).
    rewrite cut_first_app by (apply lit_no; reflexivity).
    assert (H: has 34 (bg ++ BG_POST) = true).
    { unfold has. rewrite existsb_app. rewrite orb_true_iff. right. reflexivity. }
    rewrite H. unfold between_quotes_go. rewrite rev_app_distr.
    change (rev BG_POST) with (t "0,0," ++ [34]). rewrite <- app_assoc. cbn [app].
    change (t "0,0," ++ 34 :: rev bg) with (t "0,0," ++ 34 :: rev bg).
    rewrite cut_first_app by (apply lit_no; reflexivity). rewrite rev_involutive. reflexivity.
  Qed.

  Lemma nonempty_true l : l <> [] -> nonempty l = true.
  Proof. destruct l; [congruence|reflexivity]. Qed.

  Lemma pick_tps bs vs : pick_bpms (map TPBpm bs ++ map TPSv vs) = bs /\ pick_svs (map TPBpm bs ++ map TPSv vs) = vs.
  Proof.
    induction bs as [|b bs [IH1 IH2]]; simpl.
    - induction vs as [|v vs [I1 I2]]; simpl; [auto|]. split; [exact I1|f_equal; exact I2].
    - split; [f_equal; exact IH1|exact IH2].
  Qed.
  Definition ho_of (p : bool * note) : hobj := if fst p then HHold (trunc_note true (snd p)) else HHit (trunc_note false (snd p)).
  Lemma pick_hos l : pick_hits (map ho_of l) = map (trunc_note false) (hits_of l) /\
                     pick_holds (map ho_of l) = map (trunc_note true) (holds_of l).
  Proof.
    unfold hits_of, holds_of. induction l as [|[f n] l [IH1 IH2]]; [auto|]. cbn [map fst snd filter].
    change (ho_of (f, n)) with (if f then HHold (trunc_note true n) else HHit (trunc_note false n)).
    destruct f; cbn [negb pick_hits pick_holds map snd]; split; auto; f_equal; auto.
  Qed.

  Lemma set_nth_nth_other {A} (l : list A) : forall i j x d, i <> j -> nth j (set_nth l i x) d = nth j l d.
  Proof. induction l as [|y l IH]; intros [|i] [|j] x d H; simpl; auto; congruence. Qed.

  Ltac meta_cells K :=
    unfold key_table in K; cbv zeta in K;
    repeat match type of K with
           | kinds_ok (_ :: _) _ = true =>
               apply kinds_ok_cons in K; let v := fresh "v" in let m' := fresh "m" in let Kv := fresh "Kv" in
               destruct K as [v [m' [-> [Kv K]]]]; cbn [snd] in Kv; apply kind_ok_inv in Kv
           end;
    match type of K with kinds_ok [] ?m = true => destruct m; [|discriminate K]; clear K end;
    repeat match goal with H : exists _, _ |- _ => destruct H as [? H] end;
    repeat match goal with H : _ /\ _ |- _ => destruct H end; subst.

  Lemma den_meta_keys c ut ua : kinds_ok key_table (c_meta c) = true ->
    nth IX_KEYS (map Some (den_meta c ut ua)) None = Some (MNum (Qred (meta_num (c_meta c) IX_CS))).
  Proof.
    destruct c as [m bg ss bpms svs hits holds]. cbn [c_meta]. intro K. meta_cells K. reflexivity.
  Qed.

  Lemma integral_Qred q : is_integral q = true -> is_integral (Qred q) = true /\ Qfloor (Qred q) = Qfloor q.
  Proof.
    unfold is_integral. intro H. apply Qeq_bool_iff in H.
    assert (F: Qfloor (Qred q) = Qfloor q) by (apply Qfloor_comp; apply Qred_correct).
    split; [|exact F]. apply Qeq_bool_iff. rewrite F. rewrite Qred_correct. exact H.
  Qed.

  Lemma after_bg_marker bg X : after_line BG_MARKER (BG_MARK :: bg_line bg :: X) = Some (bg_line bg :: X).
  Proof. reflexivity. Qed.
  Lemma after_sample_marker bg X : after_line SAMPLE_MARKER (BG_MARK :: bg_line bg :: EV_REST ++ SAMPLE_MARK :: X) = Some X.
  Proof. lazy. reflexivity. Qed.

  Theorem denote_written c ut ua : wfacts c ut ua -> osu_denote (FILE c ut ua) = Some (den_of c ut ua).
  Proof.
    intro W. pose proof (tail_facts_of _ _ _ W) as T.
    assert (PS: all_plain (S_of c)) by (intros l I; apply (tf_s _ T l I)).
    assert (PB: all_plain (B_of c)) by (intros l I; apply (tf_b _ T l I)).
    assert (PV: all_plain (V_of c)) by (intros l I; apply (tf_v _ T l I)).
    assert (PN: all_plain (N_of c)) by (intros l I; apply (tf_n _ T l I)).
    unfold osu_denote. cbv zeta. rewrite (stripped_file _ _ _ W).
    set (TL := TAIL (S_of c) (B_of c) (V_of c) (N_of c)).
    (* attributes *)
    rewrite denote_keys_written.
    rewrite (meta_values c ut ua (wf_kinds _ _ _ W) (wf_mstr _ _ _ W) (wf_pn _ _ _ W) (wf_pi _ _ _ W) (wf_ii _ _ _ W)). cbn [obind].
    (* background *)
    unfold denote_bg. change (t "[Events]") with EVENTS. rewrite section_events_written.
    change (t "//Background and Video events") with BG_MARKER. rewrite after_bg_marker, between_quotes_bg. cbn [option_map obind].
    (* samples *)
    unfold denote_samples. change (t "[Events]") with EVENTS. rewrite section_events_written.
    change (t "//Storyboard Sound Samples") with SAMPLE_MARKER. rewrite after_sample_marker.
    unfold TL at 1. rewrite take_body_tail by exact PS. rewrite filter_app.
    rewrite (filter_all _ (S_of c)) by (intros l I; apply (tf_s _ T l I)). cbn [filter startswith]. rewrite app_nil_r.
    unfold S_of at 1. rewrite (omap_map_some denote_sample write_sample trunc_sample).
    2:{ intros s I. destruct (wf_samples _ _ _ W s I) as [A B]. apply (sample_line s A B). }
    cbn [obind].
    (* timing points *)
    change (t "[TimingPoints]") with TP_HEADER. rewrite section_tp_written. unfold TL at 1.
    rewrite section_tp_tail by assumption. cbn [obind].
    change (t "[HitObjects]") with HO_HEADER. rewrite section_ho_written. unfold TL.
    rewrite section_ho_tail by assumption. cbn [obind].
    rewrite !filter_app. cbn [filter nonempty]. rewrite app_nil_r.
    rewrite (filter_all nonempty (B_of c)) by (intros l I; apply nonempty_true; apply (tf_b _ T l I)).
    rewrite (filter_all nonempty (V_of c)) by (intros l I; apply nonempty_true; apply (tf_v _ T l I)).
    rewrite (omap_app denote_tp (B_of c) (V_of c) (map TPBpm (map bpm_den (c_bpms c))) (map TPSv (map sv_den (c_svs c)))).
    2:{ unfold B_of. rewrite map_map. apply omap_map_some. intros b I.
        destruct (wf_bpms _ _ _ W b I) as [A [B C]]. apply (bpm_line b B C A). }
    2:{ unfold V_of. rewrite map_map. apply omap_map_some. intros s I.
        destruct (wf_svs _ _ _ W s I) as [A [B C]]. apply (sv_line s B C A). }
    cbn [obind].
    (* keys and hit objects *)
    rewrite (den_meta_keys c ut ua (wf_kinds _ _ _ W)).
    destruct (integral_Qred _ (wf_keys_int _ _ _ W)) as [IQ FQ]. rewrite IQ, FQ. cbn [obind]. fold (keys_of c).
    rewrite (filter_all nonempty (N_of c)) by (intros l I; apply nonempty_true; apply (tf_n _ T l I)).
    unfold N_of at 1. rewrite (omap_map_some (denote_ho (keys_of c)) (note_text (keys_of c)) ho_of).
    2:{ intros p I. apply (note_line_facts _ _ _ p W I). }
    cbn [obind]. destruct (pick_tps (map bpm_den (c_bpms c)) (map sv_den (c_svs c))) as [E1 E2].
    destruct (pick_hos (sorted_notes c)) as [E3 E4]. rewrite E1, E2, E3, E4. reflexivity.
  Qed.

  (* ---------------------------------------------------------------- sorted(..., key=offset) *)
  Definition off_of (p : bool * note) : Q := n_off (snd p).
  Definition hd_le (x : bool * note) (l : list (bool * note)) : Prop :=
    match l with [] => True | y :: _ => (off_of x <= off_of y)%Q end.
  Fixpoint sorted_off (l : list (bool * note)) : Prop :=
    match l with [] => True | x :: r => hd_le x r /\ sorted_off r end.

  Lemma insert_sorted x l : sorted_off l -> sorted_off (insert_by_off x l) /\ (forall z, hd_le z l -> (off_of z <= off_of x)%Q -> hd_le z (insert_by_off x l)).
  Proof.
    induction l as [|y l IH]; intro S.
    - simpl. repeat split; auto.
    - destruct S as [S1 S2]. destruct (IH S2) as [A B]. cbn [insert_by_off].
      destruct (Qlt_bool (n_off (snd y)) (n_off (snd x))) eqn:E.
      + apply Qlt_bool_iff in E. split.
        * split; [|exact A]. apply B; [exact S1|]. unfold off_of. apply Qlt_le_weak. exact E.
        * intros z Hz _. exact Hz.
      + apply Qlt_bool_false in E. split.
        * split; [exact E|]. split; assumption.
        * intros z _ Hz. exact Hz.
  Qed.
  Lemma sort_sorted l : sorted_off (sort_by_off l).
  Proof. induction l as [|x l IH]; [exact I|]. unfold sort_by_off in *. simpl. apply insert_sorted. exact IH. Qed.

  Lemma qtrunc_mono a b : (a <= b)%Q -> qtrunc a <= qtrunc b.
  Proof.
    intro H. unfold qtrunc. destruct (Qle_bool 0 a) eqn:A; destruct (Qle_bool 0 b) eqn:B.
    - apply Qfloor_resp_le. exact H.
    - apply Qle_bool_iff in A. apply Qle_bool_false in B. lra.
    - apply Qle_bool_false in A. apply Qle_bool_iff in B.
      assert (0 <= Qfloor b) by (change 0 with (Qfloor 0); apply Qfloor_resp_le; exact B).
      assert (0 <= Qfloor (- a)) by (change 0 with (Qfloor 0); apply Qfloor_resp_le; lra). lia.
    - assert (Qfloor (- b) <= Qfloor (- a)) by (apply Qfloor_resp_le; lra). lia.
  Qed.

  Lemma nondecreasing_sorted l : sorted_off l -> nondecreasing (map (fun p => qtrunc (off_of p)) l) = true.
  Proof.
    induction l as [|x l IH]; intro S; [reflexivity|]. destruct S as [S1 S2]. destruct l as [|y l']; [reflexivity|].
    cbn [map nondecreasing]. apply andb_true_iff. split.
    - apply Z.leb_le. apply qtrunc_mono. exact S1.
    - apply IH. exact S2.
  Qed.

  (* ---------------------------------------------------------------- write_wf *)
  Lemma section_ho_file c ut ua : wfacts c ut ua -> section HO_HEADER (map strip (FILE c ut ua)) = Some (N_of c).
  Proof.
    intro W. pose proof (tail_facts_of _ _ _ W) as T. rewrite (stripped_file _ _ _ W). rewrite section_ho_written.
    apply section_ho_tail; intros l I; [apply (tf_s _ T l I)|apply (tf_b _ T l I)|apply (tf_v _ T l I)|apply (tf_n _ T l I)].
  Qed.

  Theorem write_wf c ut ua : wfacts c ut ua -> wf_osu_text (FILE c ut ua) = true.
  Proof.
    intro W. pose proof (tail_facts_of _ _ _ W) as T. unfold wf_osu_text. cbv zeta.
    rewrite (denote_written _ _ _ W). change (t "[HitObjects]") with HO_HEADER. rewrite (section_ho_file _ _ _ W).
    rewrite (filter_all nonempty (N_of c)) by (intros l I; apply nonempty_true; apply (tf_n _ T l I)).
    unfold N_of. rewrite (omap_map_some note_line_ok (note_text (keys_of c)) (fun p => qtrunc (off_of p))).
    - apply nondecreasing_sorted. apply sort_sorted.
    - intros p I. apply (note_line_facts _ _ _ p W I).
  Qed.

  (* ---------------------------------------------------------------- rows up to permutation *)
  Section Counts.
    Context {A : Type} (r : A -> A -> bool).
    Hypothesis r_refl : forall x, r x x = true.
    Hypothesis r_eqv : forall x y z, r x y = true -> r z x = r z y.
    Definition cnt (x : A) (l : list A) : nat := length (filter (r x) l).
    Lemma cnt_app x a b : cnt x (a ++ b) = (cnt x a + cnt x b)%nat.
    Proof. unfold cnt. rewrite filter_app, app_length. reflexivity. Qed.
    Lemma remove_first_found x b : (cnt x b > 0)%nat ->
      exists c1 y c2, b = c1 ++ y :: c2 /\ r x y = true /\ remove_first (r x) b = Some (c1 ++ c2) /\ cnt x c1 = O.
    Proof.
      induction b as [|y b IH]; intro H; [unfold cnt in H; simpl in H; lia|]. unfold cnt in H. simpl in *.
      destruct (r x y) eqn:E.
      - exists [], y, b. repeat split; auto.
      - destruct (IH H) as [c1 [y' [c2 [E1 [E2 [E3 E4]]]]]]. exists (y :: c1), y', c2. subst. repeat split; auto.
        + rewrite E3. reflexivity.
        + unfold cnt. simpl. rewrite E. exact E4.
    Qed.
    Lemma perm_match_counts a : forall b, (forall z, cnt z a = cnt z b) -> perm_match r a b = true.
    Proof.
      induction a as [|x a IH]; intros b H.
      - destruct b as [|y b]; [reflexivity|]. specialize (H y). unfold cnt in H. simpl in H. rewrite r_refl in H. discriminate.
      - assert (P: (cnt x b > 0)%nat).
        { rewrite <- (H x). unfold cnt. simpl. rewrite r_refl. simpl. lia. }
        destruct (remove_first_found x b P) as [c1 [y [c2 [E1 [E2 [E3 _]]]]]].
        cbn [perm_match]. rewrite E3. apply IH. intro z. specialize (H z). subst b.
        rewrite cnt_app in *. unfold cnt in *. simpl in H. rewrite (r_eqv x y z E2) in H.
        destruct (r z y); simpl in H; lia.
    Qed.
  End Counts.

  Lemma len_filter_insert (P : bool * note -> bool) x l : length (filter P (insert_by_off x l)) = length (filter P (x :: l)).
  Proof.
    induction l as [|y l IH]; [reflexivity|]. cbn [insert_by_off].
    destruct (Qlt_bool (n_off (snd y)) (n_off (snd x))); [|reflexivity].
    cbn [filter] in *. destruct (P y); destruct (P x); simpl in *; rewrite IH; reflexivity.
  Qed.
  Lemma len_filter_sort (P : bool * note -> bool) l : length (filter P (sort_by_off l)) = length (filter P l).
  Proof.
    induction l as [|x l IH]; [reflexivity|]. unfold sort_by_off in *. cbn [fold_right]. rewrite len_filter_insert.
    cbn [filter]. destruct (P x); simpl; rewrite IH; reflexivity.
  Qed.

  Lemma cnt_hits (r : note -> note -> bool) z (f : note -> note) l :
    cnt r z (map f (hits_of l)) = length (filter (fun p => negb (fst p) && r z (f (snd p))) l).
  Proof.
    unfold cnt, hits_of. induction l as [|[b n] l IH]; [reflexivity|]. destruct b; simpl.
    - exact IH.
    - destruct (r z (f n)); simpl; rewrite IH; reflexivity.
  Qed.
  Lemma cnt_holds (r : note -> note -> bool) z (f : note -> note) l :
    cnt r z (map f (holds_of l)) = length (filter (fun p => fst p && r z (f (snd p))) l).
  Proof.
    unfold cnt, holds_of. induction l as [|[b n] l IH]; [reflexivity|]. destruct b; simpl.
    - destruct (r z (f n)); simpl; rewrite IH; reflexivity.
    - exact IH.
  Qed.
  Lemma hits_of_tagged H T : hits_of (map (fun x => (true, x)) H ++ map (fun x => (false, x)) T) = T.
  Proof.
    unfold hits_of. rewrite filter_app, map_app.
    assert (A: filter (fun p : bool * note => negb (fst p)) (map (fun x => (true, x)) H) = []) by (induction H; simpl; auto).
    assert (B: map snd (filter (fun p : bool * note => negb (fst p)) (map (fun x => (false, x)) T)) = T) by (induction T; simpl; congruence).
    rewrite A, B. reflexivity.
  Qed.
  Lemma holds_of_tagged H T : holds_of (map (fun x => (true, x)) H ++ map (fun x => (false, x)) T) = H.
  Proof.
    unfold holds_of. rewrite filter_app, map_app.
    assert (A: filter (fun p : bool * note => fst p) (map (fun x => (false, x)) T) = []) by (induction T; simpl; auto).
    assert (B: map snd (filter (fun p : bool * note => fst p) (map (fun x => (true, x)) H)) = H) by (induction H; simpl; congruence).
    rewrite A, B. apply app_nil_r.
  Qed.

  (* the hits (holds) of the sorted list are the chart's hits (holds), as multisets *)
  Lemma sorted_hits_counts (r : note -> note -> bool) z f c :
    cnt r z (map f (hits_of (sorted_notes c))) = cnt r z (map f (c_hits c)).
  Proof.
    unfold sorted_notes. rewrite cnt_hits. rewrite (len_filter_sort (fun p => negb (fst p) && r z (f (snd p)))).
    rewrite <- (cnt_hits r z f (map (fun x => (true, x)) (c_holds c) ++ map (fun x => (false, x)) (c_hits c))).
    rewrite hits_of_tagged. reflexivity.
  Qed.
  Lemma sorted_holds_counts (r : note -> note -> bool) z f c :
    cnt r z (map f (holds_of (sorted_notes c))) = cnt r z (map f (c_holds c)).
  Proof.
    unfold sorted_notes. rewrite cnt_holds. rewrite (len_filter_sort (fun p => fst p && r z (f (snd p)))).
    rewrite <- (cnt_holds r z f (map (fun x => (true, x)) (c_holds c) ++ map (fun x => (false, x)) (c_hits c))).
    rewrite holds_of_tagged. reflexivity.
  Qed.

  (* ---------------------------------------------------------------- exact comparison *)
  Lemma q_close0 a b : q_close 0 a b = true <-> (a == b)%Q.
  Proof.
    unfold q_close. rewrite Qle_bool_iff. split; intro H.
    - assert (Z: (Qabs (a - b) <= 0)%Q) by lra. apply Qabs_Qle_condition in Z. lra.
    - assert (E: (a - b == 0)%Q) by lra. rewrite E. change (Qabs 0) with 0%Q. lra.
  Qed.
  Lemma q_close_eq tol a b : (0 <= tol)%Q -> (a == b)%Q -> q_close tol a b = true.
  Proof.
    intros T E. unfold q_close. apply Qle_bool_iff. assert (X: (a - b == 0)%Q) by lra. rewrite X. change (Qabs 0) with 0%Q.
    apply Qmult_le_0_compat; auto. pose proof (Qabs_nonneg a). lra.
  Qed.

  Definition note_eqv (a b : note) : Prop :=
    (n_off a == n_off b)%Q /\ n_col a = n_col b /\ (n_len a == n_len b)%Q /\ n_hs a = n_hs b /\ n_ss a = n_ss b /\
    n_as a = n_as b /\ n_cs a = n_cs b /\ n_vol a = n_vol b /\ n_file a = n_file b.
  Lemma note_close0 a b : note_close 0 a b = true <-> note_eqv a b.
  Proof.
    unfold note_close, note_eqv. rewrite !andb_true_iff, !q_close0, !Z.eqb_eq, text_eqb_eq. tauto.
  Qed.
  Lemma note_close_eqv x y z : note_close 0 x y = true -> note_close 0 z x = note_close 0 z y.
  Proof.
    intro H. apply note_close0 in H. destruct H as [H1 [H2 [H3 [H4 [H5 [H6 [H7 [H8 H9]]]]]]]].
    destruct (note_close 0 z x) eqn:A; destruct (note_close 0 z y) eqn:B; auto.
    - apply note_close0 in A. exfalso. assert (X: note_close 0 z y = true); [|congruence].
      apply note_close0. unfold note_eqv in *. intuition (try congruence). rewrite <- H1; assumption. rewrite <- H3; assumption.
    - apply note_close0 in B. exfalso. assert (X: note_close 0 z x = true); [|congruence].
      apply note_close0. unfold note_eqv in *. intuition (try congruence). rewrite H1; assumption. rewrite H3; assumption.
  Qed.

  Lemma perm_match_pointwise {A} (r : A -> A -> bool) (f : A -> A) l : (forall x, In x l -> r (f x) x = true) -> perm_match r (map f l) l = true.
  Proof.
    induction l as [|x l IH]; intro H; [reflexivity|]. cbn [map perm_match remove_first].
    rewrite (H x (or_introl eq_refl)). apply IH. intros y I. apply H. right. exact I.
  Qed.

  (* ---------------------------------------------------------------- write_denotes *)
  Lemma mnum_close a b : (a == b)%Q -> mval_close 0 (MNum a) (MNum b) = true.
  Proof. intro E. simpl. apply q_close_eq; [apply qmax_nonneg|exact E]. Qed.
  Lemma integral_eq q : is_integral q = true -> (inject_Z (Qfloor q) == q)%Q.
  Proof. unfold is_integral. intro H. apply Qeq_bool_iff in H. symmetry. exact H. Qed.
  Lemma trunc_integral_eq q : is_integral q = true -> (inject_Z (qtrunc q) == q)%Q.
  Proof. intro H. rewrite (integral_trunc q H). apply integral_eq. exact H. Qed.
  Lemma ss_back q : is_integral q = true -> (-1 <= q)%Q -> (q <= 3)%Q ->
    (inject_Z (sample_set_of (sampleset_to_string q)) == q)%Q.
  Proof.
    intros I L U. pose proof (integral_eq q I) as E. set (z := Qfloor q) in *.
    assert (B: -1 <= z <= 3).
    { split; rewrite Zle_Qle; rewrite E; [exact L|exact U]. }
    unfold sampleset_to_string.
    destruct (Qeq_bool q 0) eqn:E0; [apply Qeq_bool_iff in E0; rewrite E0; reflexivity|].
    destruct (Qeq_bool q 1) eqn:E1; [apply Qeq_bool_iff in E1; rewrite E1; reflexivity|].
    destruct (Qeq_bool q 2) eqn:E2; [apply Qeq_bool_iff in E2; rewrite E2; reflexivity|].
    destruct (Qeq_bool q 3) eqn:E3; [apply Qeq_bool_iff in E3; rewrite E3; reflexivity|].
    change (sample_set_of (t "Invalid")) with (-1).
    assert (NZ: forall k, Qeq_bool q (inject_Z k) = false -> z <> k).
    { intros k F X. subst k. rewrite <- E in F. rewrite Qeq_bool_refl in F. discriminate. }
    pose proof (NZ 0 E0). pose proof (NZ 1 E1). pose proof (NZ 2 E2). pose proof (NZ 3 E3).
    assert (z = -1) by lia. rewrite <- E. rewrite H3. reflexivity.
  Qed.

  Lemma all_some {A} (l : list A) : forallb (fun o : option A => match o with Some _ => true | None => false end) (map Some l) = true.
  Proof. induction l; simpl; auto. Qed.

  Lemma bpm_den_close b : Qeq_bool (b_bpm b) 0 = false -> bpm_close 0 (bpm_den b) b = true.
  Proof.
    intro NZ. unfold bpm_close, bpm_den. cbn [b_off b_bpm b_met b_ss b_ssi b_vol b_kiai].
    rewrite (proj2 (q_close0 _ _)) by apply Qred_correct.
    rewrite q_close_eq; [|apply qmax_nonneg|].
    - rewrite !Z.eqb_refl. destruct (b_kiai b); reflexivity.
    - rewrite !Qred_correct. apply bpm_code_value_inverse. intro X. apply Qeq_bool_iff in X. congruence.
  Qed.
  Lemma sv_den_close s : Qeq_bool (s_mul s) 0 = false -> sv_close 0 (sv_den s) s = true.
  Proof.
    intro NZ. unfold sv_close, sv_den. cbn [s_off s_mul s_ss s_ssi s_vol s_kiai].
    rewrite (proj2 (q_close0 _ _)) by apply Qred_correct.
    rewrite q_close_eq; [|apply qmax_nonneg|].
    - rewrite !Z.eqb_refl. destruct (s_kiai s); reflexivity.
    - rewrite !Qred_correct. apply sv_code_value_inverse. intro X. apply Qeq_bool_iff in X. congruence.
  Qed.

  Lemma meta_written_agrees c ut ua : wfacts c ut ua ->
    meta_agrees 0 (map Some (den_meta c ut ua)) (c_meta (written_chart_raw c ut ua)) = true.
  Proof.
    intro W. pose proof (wf_kinds _ _ _ W) as K. pose proof (wf_ss _ _ _ W) as SS. pose proof (wf_ii _ _ _ W) as II.
    destruct c as [m bg ss bpms svs hits holds]. cbn [c_meta] in *. clear W. revert SS II. meta_cells K. intros SS II.
    cbn [meta_num nth] in SS. destruct SS as [S1 [S2 S3]].
    cbn [WI_IX map meta_num nth forallb] in II. repeat (apply andb_true_iff in II; destruct II as [? II]).
    unfold den_meta, written_chart_raw. unfold key_table. cbv zeta.
    cbn [c_meta backs back set_nth IX_TITLE IX_ARTIST IX_PREVIEW map meta_agrees meta_num nth].
    rewrite !mnum_close by (first [reflexivity | apply Qred_correct | apply trunc_integral_eq; assumption | apply ss_back; assumption]).
    cbn [mval_close]. rewrite !text_eqb_refl. rewrite (list_eqb_refl text_eqb) by apply text_eqb_refl.
    repeat match goal with |- context [Bool.eqb ?b ?b] => rewrite (Bool.eqb_reflx b) end. reflexivity.
  Qed.

  Theorem write_denotes c ut ua : wfacts c ut ua ->
    all_present (den_of c ut ua) = true /\ denotes 0 (den_of c ut ua) (written_chart_raw c ut ua) = true.
  Proof.
    intro W. split.
    - unfold all_present, den_of. cbn [d_meta d_bg]. rewrite all_some. reflexivity.
    - unfold denotes, den_of, written_chart_raw. cbn [d_meta d_bg d_samples d_bpms d_svs d_hits d_holds c_meta c_bg c_samples c_bpms c_svs c_hits c_holds].
      change (set_nth (set_nth (set_nth (c_meta c) IX_PREVIEW (MNum (inject_Z (qtrunc (meta_num (c_meta c) IX_PREVIEW))))) IX_TITLE (MStr (strip ut))) IX_ARTIST (MStr (strip ua)))
        with (c_meta (written_chart_raw c ut ua)).
      rewrite (meta_written_agrees _ _ _ W). rewrite text_eqb_refl.
      rewrite perm_match_refl by (intro x; apply sample_close_refl; lra).
      rewrite perm_match_pointwise by (intros b I; apply bpm_den_close; apply (wf_bpms _ _ _ W b I)).
      rewrite perm_match_pointwise by (intros s I; apply sv_den_close; apply (wf_svs _ _ _ W s I)).
      rewrite (perm_match_counts (note_close 0)); [|intro x; apply note_close_refl; lra|intros x y z; apply note_close_eqv|intro z; apply sorted_hits_counts].
      rewrite (perm_match_counts (note_close 0)); [|intro x; apply note_close_refl; lra|intros x y z; apply note_close_eqv|intro z; apply sorted_holds_counts].
      reflexivity.
  Qed.


  (* ---------------------------------------------------------------- the written_raw file is in the read domain *)
  Definition ITEMS_A : list mline := firstn 42 ITEMS.
  Definition EV_TAIL : list text := EV_REST ++ [SAMPLE_MARK].
  Lemma slines_split w bg : SLINES w bg = map (mline_strip w bg) ITEMS_A ++ bg_line bg :: EV_TAIL.
  Proof. reflexivity. Qed.
  Lemma lip_front w bg :
    lines_in_place [] (map (mline_strip w bg) ITEMS_A) =
    forallb (fun p : nat * (text * text * vtype) => value_typed (snd (snd p)) (rstrip (w (fst p)))) (combine (seq 0 30) key_table).
  Proof. lazy -[value_typed rstrip]. reflexivity. Qed.
  Lemma last_header_front w bg : last_header [] (map (mline_strip w bg) ITEMS_A) = EVENTS.
  Proof. lazy -[rstrip]. reflexivity. Qed.
  Lemma upto_tp_written w bg T : upto TP_HEADER (SLINES w bg ++ T) = SLINES w bg ++ upto TP_HEADER T.
  Proof. lazy -[rstrip]. reflexivity. Qed.
  Lemma after_tp_written w bg T : after_line TP_HEADER (SLINES w bg ++ T) = after_line TP_HEADER T.
  Proof. lazy -[rstrip]. reflexivity. Qed.
  Lemma after_sample_written w bg T : after_line SAMPLE_MARKER (SLINES w bg ++ T) = Some T.
  Proof. lazy -[rstrip]. reflexivity. Qed.
  Lemma occ_bg_written w bg : occurrences BG_MARKER (SLINES w bg) = 1%nat.
  Proof. lazy -[rstrip]. reflexivity. Qed.
  Lemma occ_sample_written w bg : occurrences SAMPLE_MARKER (SLINES w bg) = 1%nat.
  Proof. lazy -[rstrip]. reflexivity. Qed.

  Lemma key_of_prefix p r : ~ In 58 p -> exists r', key_of (p ++ r) = p ++ r'.
  Proof.
    intro N. unfold key_of. destruct (cut_first 58 (p ++ r)) as [[k v]|] eqn:C; [|eauto].
    revert k C. induction p as [|x p IH]; intros k C.
    - exists k. reflexivity.
    - cbn [app cut_first] in C. destruct (Z.eqb_spec x 58) as [E|E]; [exfalso; apply N; left; exact E|].
      destruct (cut_first 58 (p ++ r)) as [[a b]|]; [|discriminate]. inversion C. subst.
      destruct (IH (fun I => N (or_intror I)) a eq_refl) as [r' E']. exists r'. cbn [app]. rewrite E'. reflexivity.
  Qed.
  Lemma attr_ok_sample cur r : attr_line_ok cur (t "Sample," ++ r) = true.
  Proof.
    destruct (key_of_prefix (t "Sample,") r ltac:(apply lit_no; reflexivity)) as [r' E].
    unfold attr_line_ok. cbv zeta. rewrite E. lazy. reflexivity.
  Qed.
  Lemma attr_ok_bg cur bg : attr_line_ok cur (bg_line bg) = true.
  Proof.
    unfold bg_line. destruct (key_of_prefix BG_PRE (bg ++ BG_POST) ltac:(apply lit_no; reflexivity)) as [r' E].
    unfold attr_line_ok. cbv zeta. rewrite E. lazy. reflexivity.
  Qed.
  Lemma startswith_split p l : startswith p l = true -> exists r, l = p ++ r.
  Proof.
    revert l. induction p as [|x p IH]; intros l H; [exists l; reflexivity|].
    destruct l as [|y l]; [discriminate|]. simpl in H. apply andb_true_iff in H. destruct H as [H1 H2].
    apply Z.eqb_eq in H1. subst. destruct (IH l H2) as [r E]. exists r. simpl. congruence.
  Qed.

  Lemma lip_samples cur S : (forall l, In l S -> plain l /\ startswith (t "Sample,") l = true) ->
    lines_in_place cur (S ++ [[]]) = true.
  Proof.
    intro H. induction S as [|l S IH]; [reflexivity|]. cbn [app lines_in_place].
    destruct (H l (or_introl eq_refl)) as [P SW]. unfold plain in P. rewrite P.
    destruct (startswith_split _ _ SW) as [r E]. rewrite E at 1. rewrite attr_ok_sample. apply IH.
    intros x I. apply H. right. exact I.
  Qed.

  Lemma tags_plain_join tags : forallb tag_ok tags = true -> tags_plain (rstrip (join SPACE tags)) = true.
  Proof.
    intro F.
    assert (EACH: forall w, In w tags -> stripped w /\ w <> [] /\ ~ In 32 w).
    { intros w I. rewrite forallb_forall in F. specialize (F w I). unfold tag_ok in F.
      apply andb_true_iff in F. destruct F as [F H]. apply andb_true_iff in F. destruct F as [C NE].
      destruct (cleanw_facts w C) as [_ S]. split; [exact S|]. split; [destruct w; [discriminate|discriminate]|].
      apply negb_true_iff in H. apply has_false_iff. exact H. }
    destruct tags as [|a tags']; [reflexivity|]. set (tags := a :: tags') in *.
    assert (R: rstrip (join SPACE tags) = join SPACE tags).
    { destruct (join_last SPACE tags ltac:(discriminate)) as [pre E]. rewrite E. apply rstrip_keep_end.
      - assert (IL: In (last tags []) tags) by (apply last_in; discriminate). apply (EACH _ IL).
      - assert (IL: In (last tags []) tags) by (apply last_in; discriminate).
        destruct (EACH _ IL) as [S _]. apply stripped_tight in S. apply S. }
    rewrite R. unfold tags_plain, SPACE. rewrite split_join.
    - apply forallb_forall. intros w I. destruct (EACH w I) as [S [NE _]]. rewrite S.
      destruct w; [congruence|reflexivity].
    - discriminate.
    - apply Forall_forall. intros w I. apply (EACH w I).
  Qed.

  Lemma omap_all_some {A B} (f : A -> option B) l r : omap f l = Some r -> forall x, In x l -> exists y, f x = Some y.
  Proof.
    revert r. induction l as [|a l IH]; intros r H x I; [destruct I|]. simpl in H.
    destruct (f a) as [b|] eqn:F; [|discriminate]. cbn [obind] in H. destruct (omap f l) as [r'|]; [|discriminate].
    destruct I as [I|I]; [subst; eauto|eapply IH; eauto].
  Qed.
  Lemma tags_only_21 : forallb (fun p : nat * (text * text * vtype) =>
                                  match snd (snd p) with TTags => (fst p =? 21)%nat | _ => true end)
                               (combine (seq 0 30) key_table) = true.
  Proof. vm_compute. reflexivity. Qed.

  Lemma meta_typed c ut ua : wfacts c ut ua ->
    forallb (fun p : nat * (text * text * vtype) => value_typed (snd (snd p)) (rstrip (kvw c ut ua (fst p))))
            (combine (seq 0 30) key_table) = true.
  Proof.
    intro W. apply forallb_forall. intros p I.
    pose proof (meta_values c ut ua (wf_kinds _ _ _ W) (wf_mstr _ _ _ W) (wf_pn _ _ _ W) (wf_pi _ _ _ W) (wf_ii _ _ _ W)) as MV.
    destruct (omap_all_some _ _ _ MV p I) as [y Y]. unfold value_typed.
    destruct (typed_value (snd (snd p)) (rstrip (kvw c ut ua (fst p)))); [|discriminate Y]. cbn [andb].
    pose proof tags_only_21 as T. rewrite forallb_forall in T. specialize (T p I).
    destruct (snd (snd p)); auto. apply Nat.eqb_eq in T. rewrite T. cbn [kvw].
    apply tags_plain_join. apply meta_tags_ok. exact (wf_mstr _ _ _ W).
  Qed.

  Lemma upto_tail S B V N : all_plain S -> upto TP_HEADER (TAIL S B V N) = S ++ [[]].
  Proof.
    intro PS. unfold TAIL. replace (S ++ [[]; TP_HEADER] ++ B ++ V ++ [[]; []; HO_HEADER] ++ N)
      with ((S ++ [[]]) ++ TP_HEADER :: B ++ V ++ [[]; []; HO_HEADER] ++ N) by (rewrite <- app_assoc; reflexivity).
    apply upto_app. intro I. apply in_app_or in I. destruct I as [I|[I|[]]]; [exact (plain_not_in S TP_HEADER PS eq_refl I)|discriminate I].
  Qed.
  Lemma after_tp_tail S B V N : all_plain S -> after_line TP_HEADER (TAIL S B V N) = Some (B ++ V ++ [[]; []; HO_HEADER] ++ N).
  Proof.
    intro PS. unfold TAIL. replace (S ++ [[]; TP_HEADER] ++ B ++ V ++ [[]; []; HO_HEADER] ++ N)
      with ((S ++ [[]]) ++ TP_HEADER :: B ++ V ++ [[]; []; HO_HEADER] ++ N) by (rewrite <- app_assoc; reflexivity).
    apply after_line_app. intro I. apply in_app_or in I. destruct I as [I|[I|[]]]; [exact (plain_not_in S TP_HEADER PS eq_refl I)|discriminate I].
  Qed.
  Lemma upto_ho_between B V N : all_plain B -> all_plain V -> upto HO_HEADER (B ++ V ++ [[]; []; HO_HEADER] ++ N) = B ++ V ++ [[]; []].
  Proof.
    intros PB PV. replace (B ++ V ++ [[]; []; HO_HEADER] ++ N) with ((B ++ V ++ [[]; []]) ++ HO_HEADER :: N) by (rewrite <- !app_assoc; reflexivity).
    apply upto_app. intro I. apply in_app_or in I. destruct I as [I|I]; [exact (plain_not_in B HO_HEADER PB eq_refl I)|].
    apply in_app_or in I. destruct I as [I|[I|[I|[]]]]; [exact (plain_not_in V HO_HEADER PV eq_refl I)|discriminate I|discriminate I].
  Qed.
  Lemma occ_none m ls : (forall l, In l ls -> text_eqb m l = false) -> occurrences m ls = O.
  Proof. intro H. unfold occurrences. rewrite filter_none; auto. Qed.
  Lemma sample_not_marker m l : is_mark m -> startswith (t "Sample,") l = true -> text_eqb m l = false.
  Proof.
    intros M S. destruct (startswith_split _ _ S) as [r E]. subst. destruct M; subst; reflexivity.
  Qed.

  Theorem written_in_read_domain c ut ua : wfacts c ut ua -> read_domain (FILE c ut ua) = true.
  Proof.
    intro W. pose proof (tail_facts_of _ _ _ W) as T.
    assert (PS: all_plain (S_of c)) by (intros l I; apply (tf_s _ T l I)).
    assert (PB: all_plain (B_of c)) by (intros l I; apply (tf_b _ T l I)).
    assert (PV: all_plain (V_of c)) by (intros l I; apply (tf_v _ T l I)).
    assert (PN: all_plain (N_of c)) by (intros l I; apply (tf_n _ T l I)).
    unfold read_domain. apply andb_true_iff. split.
    - (* the read dialect *)
      unfold wf_read_text. cbv zeta. rewrite (denote_written _ _ _ W). rewrite (stripped_file _ _ _ W).
      rewrite headers_written, headers_tail by assumption.
      apply andb_true_iff. split; [reflexivity|]. cbn [d_keys den_of].
      pose proof (wf_keys _ _ _ W) as K. fold (keys_of c) in K.
      assert (K1: (1 <=? keys_of c) = true) by (apply Z.leb_le; lia).
      assert (K2: (keys_of c <=? 18) = true) by (apply Z.leb_le; lia). rewrite K1, K2. cbn [andb].
      change (t "[HitObjects]") with HO_HEADER. change (t "[TimingPoints]") with TP_HEADER.
      rewrite section_ho_written, section_tp_written, section_ho_tail, section_tp_tail by assumption.
      apply andb_true_iff. split.
      + apply forallb_forall. intros l I. apply filter_In in I. destruct I as [I _].
        unfold N_of in I. apply in_map_iff in I. destruct I as [p [E I]]. subst.
        destruct (note_line_facts _ _ _ p W I) as [_ [_ [_ [_ [_ [_ [x [X R]]]]]]]]. rewrite X.
        apply andb_true_iff. split; [apply Z.leb_le|apply Z.ltb_lt]; lia.
      + apply forallb_forall. intros l I. apply filter_In in I. destruct I as [I NE].
        apply in_app_or in I. destruct I as [I|I].
        * unfold B_of in I. apply in_map_iff in I. destruct I as [b [E I]]. subst.
          destruct (wf_bpms _ _ _ W b I) as [A [B C]]. destruct (bpm_line b B C A) as [_ [_ [_ [_ [_ [_ EF]]]]]]. rewrite EF.
          destruct (b_kiai b); reflexivity.
        * apply in_app_or in I. destruct I as [I|I].
          -- unfold V_of in I. apply in_map_iff in I. destruct I as [s [E I]]. subst.
             destruct (wf_svs _ _ _ W s I) as [A [B C]]. destruct (sv_line s B C A) as [_ [_ [_ [_ [_ [_ EF]]]]]]. rewrite EF.
             destruct (s_kiai s); reflexivity.
          -- destruct I as [I|[I|[]]]; subst; discriminate NE.
    - (* the strict layout *)
      unfold strict_read_text. cbv zeta. rewrite (stripped_file _ _ _ W).
      change (t "[TimingPoints]") with TP_HEADER. change (t "[HitObjects]") with HO_HEADER.
      rewrite upto_tp_written, after_tp_written, upto_tail, after_tp_tail, upto_ho_between by assumption.
      assert (TB: take_body (B_of c ++ V_of c ++ [[]; []]) = B_of c ++ V_of c ++ [[]; []]).
      { apply take_body_all. intros l I. apply in_app_or in I. destruct I as [I|I]; [apply PB; exact I|].
        apply in_app_or in I. destruct I as [I|[I|[I|[]]]]; [apply PV; exact I|subst; reflexivity|subst; reflexivity]. }
      rewrite TB. rewrite skipn_all. cbn [forallb andb]. rewrite andb_true_r.
      apply andb_true_iff; split; [apply andb_true_iff; split; [apply andb_true_iff; split; [apply andb_true_iff; split|]|]|].
      + rewrite slines_split. rewrite <- app_assoc. rewrite lines_in_place_app. rewrite lip_front, last_header_front.
        rewrite (meta_typed _ _ _ W). cbn [andb app lines_in_place].
        change (is_header (bg_line (c_bg c))) with false. cbn iota. rewrite attr_ok_bg. cbn [andb].
        change (lines_in_place EVENTS (EV_TAIL ++ S_of c ++ [[]])) with (lines_in_place EVENTS (S_of c ++ [[]])).
        apply lip_samples. intros l I. split; apply (tf_s _ T l I).
      + apply Nat.leb_le. rewrite occurrences_app, occ_bg_written.
        rewrite occ_none; [lia|]. intros l I. apply in_app_or in I. destruct I as [I|[I|[]]].
        * apply sample_not_marker; [left; reflexivity|apply (tf_s _ T l I)].
        * subst. reflexivity.
      + apply Nat.leb_le. rewrite occurrences_app, occ_sample_written.
        rewrite occ_none; [lia|]. intros l I. apply in_app_or in I. destruct I as [I|[I|[]]].
        * apply sample_not_marker; [right; reflexivity|apply (tf_s _ T l I)].
        * subst. reflexivity.
      + rewrite after_sample_written. apply forallb_forall. intros l I. apply in_app_or in I. destruct I as [I|[I|[]]].
        * destruct (tf_s _ T l I) as [_ [_ SW]]. rewrite SW. apply orb_true_r.
        * subst. reflexivity.
      + apply forallb_forall. intros l I. apply filter_In in I. destruct I as [I NE].
        apply in_app_or in I. destruct I as [I|I].
        * unfold B_of in I. apply in_map_iff in I. destruct I as [b [E I]]. subst.
          destruct (wf_bpms _ _ _ W b I) as [A [B C]]. apply (bpm_line b B C A).
        * apply in_app_or in I. destruct I as [I|I].
          -- unfold V_of in I. apply in_map_iff in I. destruct I as [s [E I]]. subst.
             destruct (wf_svs _ _ _ W s I) as [A [B C]]. apply (sv_line s B C A).
          -- destruct I as [I|[I|[]]]; subst; discriminate NE.
  Qed.

  (* ================================================================== generations *)
  (* the chart read back from a written_raw file *)
  Definition canon (c : chart) (ut ua : text) : chart :=
    mkChart (den_meta c ut ua) (c_bg c) (map trunc_sample (c_samples c)) (map bpm_den (c_bpms c)) (map sv_den (c_svs c))
            (map (trunc_note false) (hits_of (sorted_notes c))) (map (trunc_note true) (holds_of (sorted_notes c))).

  Lemma backs_length tbl : forall m, length m = length tbl -> length (backs tbl m) = length tbl.
  Proof. induction tbl as [|[[a b] ty] tbl IH]; intros [|v m] L; simpl in *; try discriminate; auto. Qed.
  Lemma den_meta_length c ut ua : length (c_meta c) = 30%nat -> length (den_meta c ut ua) = 30%nat.
  Proof. intro L. unfold den_meta. rewrite !set_nth_length. apply (backs_length key_table). exact L. Qed.
  Lemma realize_meta_some l : length l = 30%nat -> realize_meta (map Some l) = l.
  Proof.
    intro L. unfold realize_meta. assert (G: forall (l : list mval) defs, length l = length defs ->
      map (fun p : option mval * mval => match fst p with Some v => v | None => snd p end) (combine (map Some l) defs) = l).
    { induction l0 as [|x l0 IH]; intros [|d defs] H; simpl in *; try discriminate; auto. f_equal. apply IH. lia. }
    apply G. rewrite L. reflexivity.
  Qed.
  Lemma realize_den c ut ua : length (c_meta c) = 30%nat -> realize (den_of c ut ua) = canon c ut ua.
  Proof.
    intro L. unfold realize, den_of, canon. cbn [d_meta d_bg d_samples d_bpms d_svs d_hits d_holds].
    rewrite realize_meta_some by (apply den_meta_length; exact L). reflexivity.
  Qed.

  (* read after write: the reader returns the chart written_raw, with times truncated toward zero, the rows in
     written_raw order, numbers in lowest terms *)
  Lemma read_domain_split l : read_domain l = true -> wf_read_text l = true /\ strict_read_text l = true.
  Proof. unfold read_domain. intro H. apply andb_true_iff in H. exact H. Qed.
  Theorem read_after_write c ut ua : wfacts c ut ua -> osu_read (FILE c ut ua) = Some (canon c ut ua).
  Proof.
    intro W. destruct (read_domain_split _ (written_in_read_domain _ _ _ W)) as [WF SG].
    destruct (osu_read_denotes _ WF SG) as [d [D R]]. rewrite (denote_written _ _ _ W) in D.
    apply some_inj in D. subst d. rewrite R. f_equal. apply realize_den. exact (wf_len _ _ _ W).
  Qed.

  (* ---------------------------------------------------------------- sorting facts *)
  Lemma sorted_all x l : sorted_off (x :: l) -> forall z, In z l -> (off_of x <= off_of z)%Q.
  Proof.
    revert x. induction l as [|y l IH]; intros x S z I; [destruct I|]. destruct S as [S1 S2].
    destruct I as [I|I]; [subst; exact S1|]. apply Qle_trans with (off_of y); [exact S1|]. apply IH; auto.
  Qed.
  Lemma sorted_tail x l : sorted_off (x :: l) -> sorted_off l.
  Proof. intros [_ S]. exact S. Qed.
  Lemma sorted_filter (P : bool * note -> bool) l : sorted_off l -> sorted_off (filter P l).
  Proof.
    induction l as [|x l IH]; intro S; [exact I|]. cbn [filter]. destruct (P x).
    - split; [|apply IH; exact (sorted_tail _ _ S)].
      destruct (filter P l) as [|z r] eqn:F; [exact I|]. apply (sorted_all x l S).
      assert (X: In z (filter P l)) by (rewrite F; left; reflexivity). apply filter_In in X. tauto.
    - apply IH. exact (sorted_tail _ _ S).
  Qed.
  Lemma insert_front x l : hd_le x l -> insert_by_off x l = x :: l.
  Proof.
    destruct l as [|y l]; [reflexivity|]. cbn [hd_le insert_by_off]. intro H.
    assert (E: Qlt_bool (n_off (snd y)) (n_off (snd x)) = false) by (apply Qlt_bool_false; exact H). rewrite E. reflexivity.
  Qed.
  Lemma sort_id l : sorted_off l -> sort_by_off l = l.
  Proof.
    induction l as [|x l IH]; intro S; [reflexivity|]. unfold sort_by_off in *. cbn [fold_right].
    destruct S as [S1 S2]. rewrite (IH S2). apply insert_front. exact S1.
  Qed.
  Lemma filter_insert (P : bool * note -> bool) x l : sorted_off l ->
    filter P (insert_by_off x l) = if P x then insert_by_off x (filter P l) else filter P l.
  Proof.
    induction l as [|y l IH]; intro S.
    - cbn [insert_by_off filter]. destruct (P x); reflexivity.
    - cbn [insert_by_off]. destruct (Qlt_bool (n_off (snd y)) (n_off (snd x))) eqn:E.
      + cbn [filter]. rewrite (IH (sorted_tail _ _ S)). destruct (P y); destruct (P x); try reflexivity.
        cbn [insert_by_off]. rewrite E. reflexivity.
      + cbn [filter]. destruct (P x); [|reflexivity]. symmetry. apply insert_front.
        destruct (if P y then y :: filter P l else filter P l) as [|z r] eqn:F; [exact I|].
        assert (X: In z (y :: l)).
        { assert (X0: In z (filter P (y :: l))) by (cbn [filter]; rewrite F; left; reflexivity). apply filter_In in X0. tauto. }
        apply Qlt_bool_false in E. cbn [hd_le]. destruct X as [X|X]; [subst; exact E|].
        apply Qle_trans with (off_of y); [exact E|]. apply (sorted_all y l S z X).
  Qed.
  Lemma filter_sort (P : bool * note -> bool) l : filter P (sort_by_off l) = sort_by_off (filter P l).
  Proof.
    induction l as [|x l IH]; [reflexivity|]. unfold sort_by_off in *. cbn [fold_right filter].
    rewrite filter_insert by (apply sort_sorted). rewrite IH. destruct (P x); reflexivity.
  Qed.

  Lemma hits_of_sorted H T : sorted_off (map (fun x => (false, x)) T) ->
    hits_of (sort_by_off (map (fun x => (true, x)) H ++ map (fun x => (false, x)) T)) = T.
  Proof.
    intro S. unfold hits_of. rewrite filter_sort. rewrite filter_app.
    assert (A: filter (fun p : bool * note => negb (fst p)) (map (fun x => (true, x)) H) = []) by (induction H; simpl; auto).
    assert (B: filter (fun p : bool * note => negb (fst p)) (map (fun x => (false, x)) T) = map (fun x => (false, x)) T) by (clear; induction T; simpl; congruence).
    rewrite A, B. cbn [app]. rewrite sort_id by exact S. rewrite map_map. apply map_id.
  Qed.
  Lemma holds_of_sorted H T : sorted_off (map (fun x => (true, x)) H) ->
    holds_of (sort_by_off (map (fun x => (true, x)) H ++ map (fun x => (false, x)) T)) = H.
  Proof.
    intro S. unfold holds_of. rewrite filter_sort. rewrite filter_app.
    assert (A: filter (fun p : bool * note => fst p) (map (fun x => (false, x)) T) = []) by (induction T; simpl; auto).
    assert (B: filter (fun p : bool * note => fst p) (map (fun x => (true, x)) H) = map (fun x => (true, x)) H) by (clear; induction H; simpl; congruence).
    rewrite A, B. rewrite app_nil_r. rewrite sort_id by exact S. rewrite map_map. apply map_id.
  Qed.

  (* truncation keeps the order *)
  Lemma sorted_trunc (hold tag : bool) (l : list (bool * note)) : sorted_off l ->
    sorted_off (map (fun x => (tag, x)) (map (trunc_note hold) (map snd l))).
  Proof.
    induction l as [|x l IH]; intro S; [exact I|]. destruct S as [S1 S2]. cbn [map]. split; [|apply IH; exact S2].
    destruct l as [|y l']; [exact I|]. cbn [map hd_le]. unfold off_of. cbn [snd trunc_note n_off].
    rewrite <- Zle_Qle. apply qtrunc_mono. exact S1.
  Qed.

  (* ---------------------------------------------------------------- the chart read back is again in the write domain *)
  Lemma clean_strip s : ~ In 10 s -> cleanw (strip s) = true.
  Proof.
    intros A. unfold cleanw.
    assert (H10: has 10 (strip s) = false) by (apply has_false_iff; intro I; apply A; apply in_strip; exact I).
    rewrite H10, strip_idem, text_eqb_refl. reflexivity.
  Qed.
  Lemma is_integral_Z z : is_integral (inject_Z z) = true.
  Proof. unfold is_integral. rewrite Qfloor_Z. apply Qeq_bool_refl. Qed.
  Lemma ss_values q : In (sample_set_of (sampleset_to_string q)) [0; 1; 2; 3; -1].
  Proof.
    unfold sampleset_to_string. repeat match goal with |- context [if ?b then _ else _] => destruct b end; simpl; tauto.
  Qed.
  Lemma ss_idem q : sample_set_of (sampleset_to_string (inject_Z (sample_set_of (sampleset_to_string q)))) = sample_set_of (sampleset_to_string q).
  Proof.
    pose proof (ss_values q) as V. simpl in V.
    destruct V as [V|[V|[V|[V|[V|[]]]]]]; rewrite <- V; reflexivity.
  Qed.

  Lemma canon_meta_facts c ut ua : wfacts c ut ua ->
    let m' := den_meta c ut ua in
    kinds_ok key_table m' = true /\ forallb mstr_okw m' = true /\
    forallb printable (map (meta_num m') WN_IX) = true /\ forallb iprintable (map (meta_num m') WI_IX) = true /\
    forallb is_integral (map (meta_num m') WI_IX) = true /\
    meta_num m' IX_CS = Qred (meta_num (c_meta c) IX_CS) /\
    meta_num m' 4 = inject_Z (sample_set_of (sampleset_to_string (meta_num (c_meta c) 4))) /\
    (forall bg ss bp sv hi ho, den_meta (mkChart m' bg ss bp sv hi ho) (strip ut) (strip ua) = m').
  Proof.
    intro W. pose proof (wf_kinds _ _ _ W) as K. pose proof (wf_mstr _ _ _ W) as MS. pose proof (wf_pn _ _ _ W) as PN.
    pose proof (wf_pi _ _ _ W) as PI. pose proof (wf_ii _ _ _ W) as II.
    pose proof (clean_strip ut (wf_ut _ _ _ W)) as CU.
    pose proof (clean_strip ua (wf_ua _ _ _ W)) as CA.
    destruct c as [m bg ss bpms svs hits holds]. cbn [c_meta] in *. clear W. revert MS PN PI II. meta_cells K. intros MS PN PI II.
    cbn [forallb mstr_okw] in MS. repeat (apply andb_true_iff in MS; destruct MS as [? MS]).
    cbn [WN_IX WI_IX map meta_num nth forallb] in PN, PI, II.
    repeat (apply andb_true_iff in PN; destruct PN as [? PN]).
    repeat (apply andb_true_iff in PI; destruct PI as [? PI]).
    repeat (apply andb_true_iff in II; destruct II as [? II]).
    unfold den_meta. unfold key_table. cbv zeta. cbn [c_meta backs back set_nth IX_TITLE IX_ARTIST].
    split; [reflexivity|]. split.
    { cbn [forallb mstr_okw]. repeat match goal with H : cleanw _ = true |- _ => rewrite H; clear H end.
      match goal with H : forallb _ _ = true |- _ => rewrite H end. reflexivity. }
    split.
    { cbn [WN_IX map meta_num nth forallb]. rewrite !(fun q => printable_ext (Qred q) q (Qred_correct q)).
      repeat match goal with H : printable _ = true |- _ => rewrite H; clear H end. reflexivity. }
    split.
    { cbn [WI_IX map meta_num nth forallb].
      repeat match goal with H : is_integral ?q = true |- _ => rewrite (iprintable_ext _ q (trunc_integral_eq q H)); clear H end.
      repeat match goal with H : iprintable _ = true |- _ => rewrite H; clear H end. reflexivity. }
    split.
    { cbn [WI_IX map meta_num nth forallb]. rewrite !is_integral_Z. reflexivity. }
    split; [reflexivity|]. split; [reflexivity|].
    intros. cbn [c_meta backs back set_nth]. rewrite !qtrunc_Z, !Qred_idem, ss_idem, !strip_idem. reflexivity.
  Qed.

  Lemma in_hits_of p l : In p (hits_of l) -> In (false, p) l.
  Proof.
    unfold hits_of. intro I. apply in_map_iff in I. destruct I as [[b n] [E I]]. apply filter_In in I. destruct I as [I F].
    simpl in *. subst. destruct b; [discriminate|exact I].
  Qed.
  Lemma in_holds_of p l : In p (holds_of l) -> In (true, p) l.
  Proof.
    unfold holds_of. intro I. apply in_map_iff in I. destruct I as [[b n] [E I]]. apply filter_In in I. destruct I as [I F].
    simpl in *. subst. exact I.
  Qed.

  Lemma bpm_back_eq v : Qeq_bool v 0 = false -> (Qred (60000 / Qred (60000 / v)) == v)%Q.
  Proof. intro NZ. rewrite !Qred_correct. apply bpm_code_value_inverse. intro X. apply Qeq_bool_iff in X. congruence. Qed.
  Lemma sv_back_eq v : Qeq_bool v 0 = false -> (Qred ((-100) / Qred ((-100) / v)) == v)%Q.
  Proof. intro NZ. rewrite !Qred_correct. apply sv_code_value_inverse. intro X. apply Qeq_bool_iff in X. congruence. Qed.
  Lemma Qeq_bool_comp_l a b : (a == b)%Q -> Qeq_bool a 0 = Qeq_bool b 0.
  Proof.
    intro E. destruct (Qeq_bool a 0) eqn:A; destruct (Qeq_bool b 0) eqn:B; auto.
    - apply Qeq_bool_iff in A. assert (X: Qeq_bool b 0 = true) by (apply Qeq_bool_iff; rewrite <- E; exact A). congruence.
    - apply Qeq_bool_iff in B. assert (X: Qeq_bool a 0 = true) by (apply Qeq_bool_iff; rewrite E; exact B). congruence.
  Qed.

  Theorem canon_wfacts c ut ua : wfacts c ut ua -> wfacts (canon c ut ua) (strip ut) (strip ua).
  Proof.
    intro W. destruct (canon_meta_facts _ _ _ W) as [K [MS [PN [PI [II [CS [S4 _]]]]]]].
    assert (KEQ: Qfloor (meta_num (c_meta (canon c ut ua)) IX_CS) = keys_of c).
    { cbn [canon c_meta]. rewrite CS. apply (integral_Qred _ (wf_keys_int _ _ _ W)). }
    constructor; cbn [canon c_meta c_bg c_samples c_bpms c_svs c_hits c_holds]; auto.
    - apply den_meta_length. exact (wf_len _ _ _ W).
    - rewrite CS. apply (integral_Qred _ (wf_keys_int _ _ _ W)).
    - cbn [canon c_meta] in KEQ. rewrite KEQ. exact (wf_keys _ _ _ W).
    - rewrite S4. destruct (wf_ss _ _ _ W) as [I4 [L4 U4]]. split; [apply is_integral_Z|].
      rewrite (ss_back _ I4 L4 U4). split; assumption.
    - exact (wf_bg _ _ _ W).
    - intros s I. apply in_map_iff in I. destruct I as [s0 [E I]]. subst. exact (wf_samples _ _ _ W s0 I).
    - intros b I. apply in_map_iff in I. destruct I as [b0 [E I]]. subst.
      destruct (wf_bpms _ _ _ W b0 I) as [NZ [P1 P2]]. cbn [bpm_den b_bpm b_off].
      pose proof (bpm_back_eq _ NZ) as BE. split; [rewrite (Qeq_bool_comp_l _ _ BE); exact NZ|]. split.
      + rewrite (printable_ext _ _ (Qred_correct (b_off b0))). exact P1.
      + rewrite (printable_ext _ (Qred (60000 / b_bpm b0))); [exact P2|]. rewrite !Qred_correct.
        rewrite !Qred_correct in BE. rewrite BE. reflexivity.
    - intros s I. apply in_map_iff in I. destruct I as [s0 [E I]]. subst.
      destruct (wf_svs _ _ _ W s0 I) as [NZ [P1 P2]]. cbn [sv_den s_mul s_off].
      pose proof (sv_back_eq _ NZ) as BE. split; [rewrite (Qeq_bool_comp_l _ _ BE); exact NZ|]. split.
      + rewrite (printable_ext _ _ (Qred_correct (s_off s0))). exact P1.
      + rewrite (printable_ext _ (Qred ((-100) / s_mul s0))); [exact P2|]. rewrite !Qred_correct.
        rewrite !Qred_correct in BE. rewrite BE. reflexivity.
    - intros n I. apply in_map_iff in I. destruct I as [n0 [E I]]. subst. cbn [canon c_meta] in KEQ. rewrite KEQ.
      apply in_hits_of in I. pose proof (sorted_note_ok _ _ _ _ W I) as OK. exact OK.
    - intros n I. apply in_map_iff in I. destruct I as [n0 [E I]]. subst. cbn [canon c_meta] in KEQ. rewrite KEQ.
      apply in_holds_of in I. pose proof (sorted_note_ok _ _ _ _ W I) as OK. exact OK.
    - intro I. apply (wf_ut _ _ _ W). apply in_strip. exact I.
    - intro I. apply (wf_ua _ _ _ W). apply in_strip. exact I.
  Qed.

  (* ---------------------------------------------------------------- writing the chart read back changes nothing any more *)
  Lemma trunc_sample_idem s : trunc_sample (trunc_sample s) = trunc_sample s.
  Proof. unfold trunc_sample. cbn [sm_off sm_file sm_vol]. rewrite qtrunc_Z. reflexivity. Qed.
  Lemma trunc_note_idem h n : trunc_note h (trunc_note h n) = trunc_note h n.
  Proof.
    unfold trunc_note. cbn [n_off n_col n_len n_hs n_ss n_as n_cs n_vol n_file]. rewrite qtrunc_Z. destruct h; [|reflexivity].
    f_equal. set (a := qtrunc (n_off n)). set (b := qtrunc (n_off n + n_len n)).
    assert (E: (inject_Z a + Qred (inject_Z b - inject_Z a) == inject_Z b)%Q) by (rewrite Qred_correct; ring).
    rewrite (qtrunc_comp _ _ E), qtrunc_Z. reflexivity.
  Qed.
  Lemma bpm_den_idem b : Qeq_bool (b_bpm b) 0 = false -> bpm_den (bpm_den b) = bpm_den b.
  Proof.
    intro NZ. unfold bpm_den. cbn [b_off b_bpm b_met b_ss b_ssi b_vol b_kiai]. rewrite Qred_idem. f_equal.
    apply Qred_complete. pose proof (bpm_back_eq _ NZ) as BE. rewrite !Qred_correct in *. rewrite BE. exact BE.
  Qed.
  Lemma sv_den_idem s : Qeq_bool (s_mul s) 0 = false -> sv_den (sv_den s) = sv_den s.
  Proof.
    intro NZ. unfold sv_den. cbn [s_off s_mul s_ss s_ssi s_vol s_kiai]. rewrite Qred_idem. f_equal.
    apply Qred_complete. pose proof (sv_back_eq _ NZ) as BE. rewrite !Qred_correct in *. rewrite BE. exact BE.
  Qed.
  Lemma map_idem_in {A} (f : A -> A) l : (forall x, In x l -> f (f x) = f x) -> map f (map f l) = map f l.
  Proof. intro H. rewrite map_map. apply map_ext_in. exact H. Qed.

  Lemma sorted_canon c ut ua :
    hits_of (sorted_notes (canon c ut ua)) = map (trunc_note false) (hits_of (sorted_notes c)) /\
    holds_of (sorted_notes (canon c ut ua)) = map (trunc_note true) (holds_of (sorted_notes c)).
  Proof.
    unfold sorted_notes at 1 3. cbn [canon c_hits c_holds]. split.
    - apply hits_of_sorted. unfold hits_of. apply sorted_trunc. apply sorted_filter. apply sort_sorted.
    - apply holds_of_sorted. unfold holds_of. apply sorted_trunc. apply sorted_filter. apply sort_sorted.
  Qed.

  Theorem den_of_canon c ut ua : wfacts c ut ua -> den_of (canon c ut ua) (strip ut) (strip ua) = den_of c ut ua.
  Proof.
    intro W. destruct (canon_meta_facts _ _ _ W) as [_ [_ [_ [_ [_ [CS [_ ID]]]]]]].
    destruct (sorted_canon c ut ua) as [SH SL].
    unfold den_of. rewrite SH, SL. unfold keys_of. unfold canon. cbn [c_meta c_bg c_samples c_bpms c_svs].
    rewrite ID. rewrite CS. rewrite (proj2 (integral_Qred _ (wf_keys_int _ _ _ W))).
    rewrite (map_idem_in trunc_sample) by (intros; apply trunc_sample_idem).
    rewrite (map_idem_in bpm_den) by (intros b I; apply bpm_den_idem; apply (wf_bpms _ _ _ W b I)).
    rewrite (map_idem_in sv_den) by (intros s I; apply sv_den_idem; apply (wf_svs _ _ _ W s I)).
    rewrite (map_idem_in (trunc_note false)) by (intros; apply trunc_note_idem).
    rewrite (map_idem_in (trunc_note true)) by (intros; apply trunc_note_idem).
    reflexivity.
  Qed.

  Corollary canon_canon c ut ua : wfacts c ut ua ->
    canon (canon c ut ua) (strip ut) (strip ua) = canon c ut ua.
  Proof.
    intro W. pose proof (canon_wfacts _ _ _ W) as W2.
    rewrite <- (realize_den (canon c ut ua)) by (exact (wf_len _ _ _ W2)).
    rewrite (den_of_canon _ _ _ W). apply realize_den. exact (wf_len _ _ _ W).
  Qed.

  Lemma canon_title c ut ua : kinds_ok key_table (c_meta c) = true ->
    meta_str (c_meta (canon c ut ua)) IX_TITLE = strip ut /\ meta_str (c_meta (canon c ut ua)) IX_ARTIST = strip ua.
  Proof.
    destruct c as [m bg ss bpms svs hits holds]. cbn [c_meta canon]. intro K. meta_cells K. split; reflexivity.
  Qed.

  (* same denotation, reflexively *)
  Lemma same_denotation_refl a b d : osu_denote a = Some d -> osu_denote b = Some d -> same_denotation 0 a b = true.
  Proof.
    intros A B. unfold same_denotation. rewrite A, B.
    rewrite (list_eqb_refl _ (d_meta d)) by (intros [v|]; [apply mval_close_refl|reflexivity]).
    rewrite (list_eqb_refl _ (d_samples d)) by (intro; apply sample_close_refl; lra).
    rewrite (list_eqb_refl _ (d_bpms d)) by (intro; apply bpm_close_refl; lra).
    rewrite (list_eqb_refl _ (d_svs d)) by (intro; apply sv_close_refl; lra).
    rewrite (list_eqb_refl _ (d_hits d)) by (intro; apply note_close_refl; lra).
    rewrite (list_eqb_refl _ (d_holds d)) by (intro; apply note_close_refl; lra).
    destruct (d_bg d); [rewrite text_eqb_refl|]; reflexivity.
  Qed.

  (* generation 2 denotes what generation 1 denotes; generation 3 IS generation 2 *)
  Theorem generation_stable c ut ua : wfacts c ut ua ->
    let g1 := FILE c ut ua in
    let c2 := canon c ut ua in
    let g2 := FILE c2 (strip ut) (strip ua) in
    let c3 := canon c2 (strip ut) (strip ua) in
    let g3 := FILE c3 (strip (strip ut)) (strip (strip ua)) in
    osu_read g1 = Some c2 /\ written_raw c2 (strip ut) (strip ua) = Some g2 /\
    wf_osu_text g2 = true /\ same_denotation 0 g1 g2 = true /\
    osu_read g2 = Some c3 /\ c3 = c2 /\ g3 = g2.
  Proof.
    intros W g1 c2 g2 c3 g3. pose proof (canon_wfacts _ _ _ W) as W2.
    assert (C3: c3 = c2) by (apply canon_canon; exact W).
    split; [apply read_after_write; exact W|]. split; [apply written_file; exact W2|].
    split; [apply write_wf; exact W2|]. split.
    - apply (same_denotation_refl g1 g2 (den_of c ut ua)); [apply denote_written; exact W|].
      unfold g2, c2. rewrite (denote_written _ _ _ W2). f_equal. apply den_of_canon. exact W.
    - split; [apply read_after_write; exact W2|]. split; [exact C3|].
      unfold g3. rewrite C3. rewrite !strip_idem. reflexivity.
  Qed.

  (* ================================================================== the current writer (repo commit fde22cd)
     unidecode(...).replace("\n", " "): the current writer IS the old writer applied to the transliterations with
     their line feeds replaced by blanks; nothing is demanded of ut / ua any more *)
  Lemma one_line_no_lf s : ~ In 10 (one_line s).
  Proof.
    unfold one_line. intro I. apply in_map_iff in I. destruct I as [c [E _]].
    unfold NL, SPACE in E. destruct (Z.eqb_spec c 10); [discriminate E|congruence].
  Qed.
  Lemma one_line_id s : ~ In 10 s -> one_line s = s.
  Proof.
    intro H. unfold one_line. rewrite <- (map_id s) at 2. apply map_ext_in. intros c I.
    unfold NL. destruct (Z.eqb_spec c 10); [subst; contradiction|reflexivity].
  Qed.
  Lemma osu_write_one_line c ut ua : osu_write c ut ua = osu_write_OLD c (one_line ut) (one_line ua).
  Proof. reflexivity. Qed.

  Definition wdom (c : chart) (ut ua : text) : bool :=
    write_domain c ut ua && forallb printable (wn_numbers c) && forallb iprintable (wi_numbers c).
  Definition written (c : chart) (ut ua : text) : option (list text) :=
    option_map (fun wl => file_lines (rlines wl)) (osu_write c ut ua).
  Lemma written_one_line c ut ua : written c ut ua = written_raw c (one_line ut) (one_line ua).
  Proof. reflexivity. Qed.
  Lemma wdom_facts c ut ua : wdom c ut ua = true -> wfacts c (one_line ut) (one_line ua).
  Proof.
    intro H. apply wdom_raw_facts. unfold wdom in H. unfold wdom_raw.
    apply andb_true_iff in H. destruct H as [H PI]. apply andb_true_iff in H. destruct H as [WD PN].
    change (write_domain c (one_line ut) (one_line ua)) with (write_domain c ut ua). rewrite WD, PN, PI.
    rewrite (proj2 (has_false_iff 10 (one_line ut)) (one_line_no_lf ut)).
    rewrite (proj2 (has_false_iff 10 (one_line ua)) (one_line_no_lf ua)). reflexivity.
  Qed.
  (* the form evaluated by the correspondence runner on the implementation's output *)
  Corollary write_spec c ut ua : wdom c ut ua = true ->
    written c ut ua = Some (FILE c (one_line ut) (one_line ua)) /\
    write_specb 0 c ut ua (FILE c (one_line ut) (one_line ua)) = true.
  Proof.
    intro D. pose proof (wdom_facts _ _ _ D) as W. split; [rewrite written_one_line; apply written_file; exact W|].
    unfold write_specb. rewrite (write_wf _ _ _ W), (denote_written _ _ _ W).
    destruct (write_denotes _ _ _ W) as [A B]. unfold written_chart. rewrite A, B. reflexivity.
  Qed.
End Printer.
