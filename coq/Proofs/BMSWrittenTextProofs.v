(* C05: the text BMSMap.write produces lies in the reader's text-level domain (text_dom of Proofs/BMSParseProofs.v), for
   every chart of write_dom_any that also satisfies the header guards (Formats/BMSGuards.v: header_guards) -- so that
   reading back what was written needs chart-level hypotheses only (bms_write_read_chart, Proofs/BMSWriteReadChartProofs.v).
   Part 1: the lines. *)
From Coq Require Import ZArith QArith Qround Qabs List Bool Lia Lqa Sorting.Permutation Sorting.Sorted.
From RV Require Import Base.PyNum Timing.Snapper Timing.Snap Timing.TimingMap Timing.Integrate
  Formats.BMSText Formats.BMS Formats.BMSSpec Formats.BMSGuards Proofs.TimingProofs Proofs.BMSProofs Proofs.BMSParseProofs
  Proofs.BMSWriteProofs Proofs.BMSWriteGuardsProofs.
Import ListNotations.
Open Scope Z_scope.

Local Arguments text_eqb : simpl never.

(* ================================================================ A. strip ================================================================ *)
Lemma lstrip_id c t : is_space c = false -> lstrip (c :: t) = c :: t.
Proof. intro H. cbn [lstrip]. rewrite H. reflexivity. Qed.

Lemma rev_last (t : text) d : t <> [] -> rev t = last t d :: rev (removelast t).
Proof.
  intro N. rewrite (app_removelast_last d N) at 1. rewrite rev_app_distr. reflexivity.
Qed.

(* a line that neither starts nor ends with a blank is what line.strip() returns *)
Lemma strip_id c t : is_space c = false -> is_space (last (c :: t) c) = false -> strip (c :: t) = c :: t.
Proof.
  intros H1 H2. unfold strip. rewrite (lstrip_id c t H1).
  rewrite (rev_last (c :: t) c) by discriminate. rewrite (lstrip_id _ _ H2).
  rewrite <- (rev_last (c :: t) c) by discriminate. apply rev_involutive.
Qed.

Lemma last_app_nonempty (p v : text) d d' : v <> [] -> last (p ++ v) d = last v d'.
Proof.
  intro N. induction p as [|x p IH]; cbn [app].
  - destruct v as [|y v]; [contradiction|]. clear N. revert y. induction v as [|z v IHv]; intro y; [reflexivity|]. cbn [last] in *. apply IHv.
  - destruct (p ++ v) as [|y r] eqn:E; [destruct p; [cbn in E; subst; contradiction|discriminate]|]. exact IH.
Qed.

Lemma text_end_ok_facts v : text_end_ok v = true -> v <> [] /\ forall d, is_space (last v d) = false.
Proof.
  unfold text_end_ok. intro H. apply negb_true_iff in H. split.
  - intro E. subst v. cbn in H. discriminate.
  - intro d. destruct v as [|x v]; [cbn in H; discriminate|]. pose proof (last_app_nonempty [] (x :: v) d 32 ltac:(discriminate)) as E.
    cbn [app] in E. rewrite E. exact H.
Qed.

(* '#' + anything + a value that does not end in a blank *)
Lemma header_line_stripped (p v : text) : text_end_ok v = true -> strip (35 :: p ++ v) = 35 :: p ++ v.
Proof.
  intro H. destruct (text_end_ok_facts v H) as [N L]. apply strip_id; [reflexivity|].
  change (35 :: p ++ v) with ((35 :: p) ++ v). rewrite (last_app_nonempty (35 :: p) v 35 35 N). apply L.
Qed.

Lemma b36_not_space c v : b36_val c = Some v -> is_space c = false.
Proof.
  unfold b36_val, is_digit, is_upper, is_lower, is_space. intro H.
  destruct ((48 <=? c) && (c <=? 57)) eqn:D.
  { apply andb_true_iff in D. destruct D as [D1 D2]. apply Z.leb_le in D1, D2.
    repeat (apply orb_false_iff; split); try (apply andb_false_iff; first [left; apply Z.leb_gt; lia|right; apply Z.leb_gt; lia]); apply Z.eqb_neq; lia. }
  destruct ((65 <=? c) && (c <=? 90)) eqn:U.
  { apply andb_true_iff in U. destruct U as [D1 D2]. apply Z.leb_le in D1, D2.
    repeat (apply orb_false_iff; split); try (apply andb_false_iff; first [left; apply Z.leb_gt; lia|right; apply Z.leb_gt; lia]); apply Z.eqb_neq; lia. }
  destruct ((97 <=? c) && (c <=? 122)) eqn:W; [|discriminate].
  apply andb_true_iff in W. destruct W as [D1 D2]. apply Z.leb_le in D1, D2.
  repeat (apply orb_false_iff; split); try (apply andb_false_iff; first [left; apply Z.leb_gt; lia|right; apply Z.leb_gt; lia]); apply Z.eqb_neq; lia.
Qed.
Lemma b36_pair_end_ok t : is_b36_pair t = true -> text_end_ok t = true.
Proof.
  unfold is_b36_pair, b36_parse2. destruct t as [|x [|y [|z r]]]; try discriminate.
  destruct (b36_val x); [|discriminate]. destruct (b36_val y) eqn:Y; [|discriminate]. intros _.
  unfold text_end_ok. cbn [last]. rewrite (b36_not_space y _ Y). reflexivity.
Qed.

Lemma b36_id_no_blank_len t : is_b36_pair t = true -> length t = 2%nat.
Proof. intro H. destruct (is_b36_pair_chars _ H) as [x [y [E _]]]. rewrite E. reflexivity. Qed.

(* ---- str(n) and f"{x:.Nf}" end in a digit ---- *)
Lemma show_nat_go_suffix : forall f n acc, exists pre, show_nat_go (S f) n acc = pre ++ (48 + n mod 10) :: acc.
Proof.
  induction f as [|f IH]; intros n acc; cbn [show_nat_go].
  - exists []. destruct (n / 10 =? 0); reflexivity.
  - destruct (n / 10 =? 0); [exists []; reflexivity|].
    destruct (IH (n / 10) ((48 + n mod 10) :: acc)) as [pre E]. cbn [show_nat_go] in E. rewrite E.
    exists (pre ++ [48 + (n / 10) mod 10]). rewrite <- app_assoc. reflexivity.
Qed.
Lemma digit_end_ok (p : text) n : text_end_ok (p ++ [48 + n mod 10]) = true.
Proof.
  unfold text_end_ok. rewrite (last_app_nonempty p [48 + n mod 10] 32 32) by discriminate. cbn [last].
  pose proof (Z.mod_pos_bound n 10 ltac:(lia)) as B. unfold is_space.
  apply negb_true_iff.
  repeat (apply orb_false_iff; split); try (apply andb_false_iff; first [left; apply Z.leb_gt; lia|right; apply Z.leb_gt; lia]); apply Z.eqb_neq; lia.
Qed.
Lemma show_nat_end n : exists pre, show_nat n = pre ++ [48 + n mod 10].
Proof. unfold show_nat. apply show_nat_go_suffix. Qed.
Lemma fmt_fixed_end_ok digits x : text_end_ok (fmt_fixed digits x) = true.
Proof.
  unfold fmt_fixed. set (n := round_half_even _). set (sc := pow10 _).
  destruct (show_nat_end (n mod sc)) as [pre E]. unfold zfill. rewrite E. rewrite !app_assoc. apply digit_end_ok.
Qed.

(* ================================================================ B. the note lines ================================================================ *)
(* a note line as the reader's domain wants it: stripped, a valid data line, not a time-signature line *)
Definition line_good (ln : text) : Prop :=
  strip ln = ln /\ data_line_ok ln = true /\ forall m ch data, data_line ln = Some (m, ch, data) -> ch <> CH_TIME_SIG.
Definition slot_txt_ok (s : wslot) : Prop :=
  is_b36_pair (ws_channel s) = true /\ ws_channel s <> CH_TIME_SIG /\ is_b36_pair (ws_value s) = true.

Lemma last_concat_pairs (seq : list text) d : seq <> [] -> Forall (fun t => is_b36_pair t = true) seq ->
  is_space (last (concat seq) d) = false.
Proof.
  intros N F. rewrite (app_removelast_last [] N). rewrite concat_app. cbn [concat]. rewrite app_nil_r.
  assert (B : is_b36_pair (last seq []) = true).
  { rewrite Forall_forall in F. apply F. destruct seq as [|x r]; [contradiction|]. clear. revert x. induction r as [|y r IH]; intro x; [left; reflexivity|].
    right. apply IH. }
  destruct (text_end_ok_facts _ (b36_pair_end_ok _ B)) as [Ne L].
  rewrite (last_app_nonempty _ _ d d Ne). apply L.
Qed.

Lemma line_of_group_good (g : list wslot) (r : wslot) (rest : list wslot) (line : text) :
  g = r :: rest -> 0 <= ws_measure r < 1000 -> 0 < ws_L r ->
  Forall (fun s => ws_channel s = ws_channel r /\ slot_txt_ok s) g ->
  line_of_group g = Some line -> line_good line.
Proof.
  intros Eg Hm HL Fk H. unfold line_of_group in H. rewrite Eg in H. rewrite <- Eg in H.
  destruct (fill_slots (repeat PAIR00 (Z.to_nat (ws_L r))) g) as [seq|] eqn:E; [|discriminate]. inversion H; subst line. clear H.
  assert (Ir : In r g) by (rewrite Eg; left; reflexivity). rewrite Forall_forall in Fk. destruct (Fk r Ir) as [_ [Bc [Nts _]]].
  destruct (is_b36_pair_chars _ Bc) as [a [b [Ech _]]].
  pose proof (fill_slots_length _ _ _ E) as Len. rewrite repeat_length in Len.
  assert (Fb : Forall (fun t => is_b36_pair t = true) seq).
  { eapply (fill_slots_Forall (fun t => is_b36_pair t = true)); [| |exact E].
    - apply Forall_forall. intros s Is. apply (Fk s Is).
    - apply Forall_forall. intros x Hx. apply repeat_spec in Hx. subst. reflexivity. }
  assert (F2 : Forall (fun t => length t = 2%nat) seq).
  { eapply Forall_impl; [|exact Fb]. intros t Bt. apply (b36_id_no_blank_len t Bt). }
  assert (Nseq : seq <> []) by (intro E0; subst seq; cbn in Len; lia).
  rewrite Ech in *.
  match goal with |- line_good ?X => set (ln := X) end.
  assert (Ed : data_line ln = Some (ws_measure r, [a; b], concat seq)) by (exact (data_line_written _ a b (concat seq) Hm)).
  split; [|split].
  - assert (Nc : concat seq <> []).
    { destruct seq as [|x s]; [contradiction|]. inversion F2; subst. destruct x; discriminate. }
    assert (Eline : ln = 35 :: (show3 (ws_measure r) ++ [a; b] ++ [58]) ++ concat seq)
      by (unfold ln; cbn [app]; rewrite <- !app_assoc; reflexivity).
    rewrite Eline. apply strip_id; [reflexivity|].
    change (35 :: (show3 (ws_measure r) ++ [a; b] ++ [58]) ++ concat seq)
      with ((35 :: show3 (ws_measure r) ++ [a; b] ++ [58]) ++ concat seq).
    rewrite (last_app_nonempty _ _ 35 35 Nc). apply last_concat_pairs; assumption.
  - unfold data_line_ok. rewrite Ed. rewrite (chunks2_concat seq F2), (concat_pairs_length seq F2), Len.
    rewrite Nat.even_mul. cbn [Nat.even orb andb].
    assert ((2 * Z.to_nat (ws_L r) =? 0)%nat = false) as -> by (apply Nat.eqb_neq; lia). cbn [negb andb].
    rewrite Bc, andb_true_r. apply forallb_forall. rewrite Forall_forall in Fb. exact Fb.
  - intros m ch data E'. rewrite Ed in E'. inversion E'; subst. exact Nts.
Qed.

Theorem lines_of_slots_good (slots : list wslot) (ls : list text) :
  Forall slot_wf slots -> Forall slot_txt_ok slots -> lines_of_slots slots = Some ls -> Forall line_good ls.
Proof.
  intros Fw Ft H. unfold lines_of_slots in H. apply all_some'_forall2 in H.
  set (sorted := sort_by slot_key_lt slots) in *. set (groups := group_runs sorted []) in *.
  assert (Ps : Permutation slots sorted) by apply sort_by_perm.
  assert (Ec : concat groups = sorted) by (unfold groups; rewrite group_runs_concat; reflexivity).
  assert (Fr : Forall run_ok groups) by (unfold groups; apply (group_runs_ok sorted [] (mkSlot 0 [] 0 0 [])); constructor).
  assert (Hin : forall g s, In g groups -> In s g -> In s slots).
  { intros g s Ig Is. apply (Permutation_in _ (Permutation_sym Ps)). rewrite <- Ec. apply in_concat. exists g. auto. }
  rewrite Forall_forall in Fw, Ft, Fr.
  assert (G : forall gs out, Forall2 (fun g l => line_of_group g = Some l) gs out -> (forall g, In g gs -> In g groups) -> Forall line_good out).
  { induction 1 as [|g l gs out E _ IH]; intro Sub; [constructor|]. constructor; [|apply IH; intros g' I; apply Sub; right; exact I].
    assert (Ig : In g groups) by (apply Sub; left; reflexivity).
    destruct (Fr g Ig) as [r [rest [Eg Fk]]]. assert (Ir : In r g) by (rewrite Eg; left; reflexivity).
    destruct (Fw r (Hin g r Ig Ir)) as [Hm [_ [Hs _]]].
    apply (line_of_group_good g r rest l Eg Hm ltac:(lia)); [|exact E].
    apply Forall_forall. intros s Is. rewrite Forall_forall in Fk. destruct (Fk s Is) as [_ [C _]]. split; [symmetry; exact C|].
    apply Ft. apply (Hin g s Ig Is). }
  apply (G groups ls H). auto.
Qed.

Definition row_txt_ok (r : wrow) : Prop :=
  is_b36_pair (wr_channel r) = true /\ wr_channel r <> CH_TIME_SIG /\ is_b36_pair (wr_value r) = true.

Theorem write_note_lines_good (rows : list wrow) (ls : list text) :
  Forall row_wf rows -> Forall row_txt_ok rows -> write_note_lines rows = Some ls -> Forall line_good ls.
Proof.
  intros Fw Ft H. rewrite write_note_lines_unfold in H.
  set (slots := map (fun p => slot_of (fst p) (snd p)) (combine rows (new_dens LCM_THRESHOLD rows))) in *.
  assert (Rel : Forall2 slot_rel rows slots).
  { apply write_slots_positions. eapply Forall_impl; [|exact Fw]. intros r [_ [_ [A [B _]]]]. auto. }
  assert (Rel2 : Forall2 (fun r s => row_wf r /\ row_txt_ok r /\ slot_rel r s) rows slots).
  { clear - Rel Fw Ft. induction Rel; [constructor|]. inversion Fw; subst. inversion Ft; subst. constructor; auto. }
  apply (lines_of_slots_good slots ls); [| |exact H].
  - clear - Rel2. induction Rel2 as [|r s rows slots [W [_ [M [C [V [R _]]]]]] _ IH]; [constructor|]. constructor; [|exact IH].
    destruct W as [Wm [Wc [_ [_ [Wv Wl]]]]]. unfold slot_wf. rewrite M, C, V. auto.
  - clear - Rel2. induction Rel2 as [|r s rows slots [_ [[T1 [T2 T3]] [M [C [V _]]]]] _ IH]; [constructor|]. constructor; [|exact IH].
    unfold slot_txt_ok. rewrite C, V. auto.
Qed.

(* ================================================================ C. the header lines ================================================================ *)
From RV Require Import Proofs.BMSDenoteProofs Proofs.BMSWriteDenoteProofs.

Definition hdr_line_good (ln : text) : Prop := line_ok ln /\ data_line ln = None.
Lemma line_ok_hdr c p v : is_digit c = false -> text_end_ok v = true -> hdr_line_good (35 :: (c :: p) ++ v).
Proof.
  intros D E. split; [|cbn [app]; apply (data_line_none_nondigit c _ D)].
  split; [apply (header_line_stripped (c :: p) v E)|]. cbn [app line_kind_ok]. rewrite D. reflexivity.
Qed.

Theorem header_lines_ok (r : Q -> text) (c : wchart) (b0 : bco) :
  (forall q, text_end_ok (r q) = true) -> header_guards c = true ->
  is_b36_pair (w_lnobj c) = true -> Forall (fun kv => misc_key_ok (fst kv) = true) (w_misc c) ->
  Forall hdr_line_good (map (render_with r) (header_lines c b0)).
Proof.
  intros Hr Hg Hl Hm. unfold header_guards in Hg.
  apply andb_true_iff in Hg. destruct Hg as [Hg _]. apply andb_true_iff in Hg. destruct Hg as [Hg G6].
  apply andb_true_iff in Hg. destruct Hg as [Hg _]. apply andb_true_iff in Hg. destruct Hg as [Hg G4].
  apply andb_true_iff in Hg. destruct Hg as [Hg G3]. apply andb_true_iff in Hg. destruct Hg as [G1 G2].
  rewrite forallb_forall in G4, G6. rewrite Forall_forall in Hm.
  unfold header_lines. rewrite !map_app. cbn [map render_with].
  repeat (apply Forall_app; split).
  - constructor; [apply (line_ok_hdr 84 [73;84;76;69;32] (w_title c) eq_refl G1)|].
    constructor; [apply (line_ok_hdr 65 [82;84;73;83;84;32] (w_artist c) eq_refl G2)|].
    constructor; [apply (line_ok_hdr 66 [80;77;32] (r (bo_bpm b0)) eq_refl (Hr _))|].
    constructor; [apply (line_ok_hdr 80 [76;65;89;76;69;86;69;76;32] (w_version c) eq_refl G3)|constructor].
  - apply Forall_forall. intros ln I. rewrite map_map in I. apply in_map_iff in I. destruct I as [[k v] [<- I]]. cbn [render_with fst snd].
    destruct (misc_key_ok_facts _ (Hm _ I)) as [[Kd _] _]. pose proof (G4 _ I) as Gk. cbn [fst snd] in Gk.
    apply andb_true_iff in Gk. destruct Gk as [Gk _]. apply andb_true_iff in Gk. destruct Gk as [Gk _].
    apply andb_true_iff in Gk. destruct Gk as [Gk _]. apply andb_true_iff in Gk. destruct Gk as [Gv _].
    destruct k as [|kc k]; [contradiction|].
    replace ([35] ++ (kc :: k) ++ [32] ++ v) with (35 :: (kc :: k ++ [32]) ++ v) by (cbn [app]; rewrite <- app_assoc; reflexivity).
    apply (line_ok_hdr kc (k ++ [32]) v Kd Gv).
  - constructor; [apply (line_ok_hdr 76 [78;79;66;74;32] (w_lnobj c) eq_refl (b36_pair_end_ok _ Hl))|constructor].
  - apply Forall_forall. intros ln I. rewrite map_map in I. apply in_map_iff in I. destruct I as [[e b] [<- I]]. cbn [render_with fst snd].
    replace (T_BPM ++ b36_pair (Z.of_nat e) ++ [32] ++ fmt_fixed 3 (bo_bpm b)) with (35 :: (66 :: [80;77] ++ b36_pair (Z.of_nat e) ++ [32]) ++ fmt_fixed 3 (bo_bpm b))
      by (cbn [app T_BPM]; rewrite <- !app_assoc; reflexivity).
    apply (line_ok_hdr 66 _ _ eq_refl (fmt_fixed_end_ok 3 _)).
  - apply Forall_forall. intros ln I. rewrite map_map in I. apply in_map_iff in I. destruct I as [[k v] [<- I]]. cbn [render_with fst snd].
    pose proof (G6 _ I) as Gk. cbn [fst snd] in Gk. apply andb_true_iff in Gk. destruct Gk as [Gv _].
    replace (T_WAV ++ k ++ [32] ++ v) with (35 :: (87 :: [65;86] ++ k ++ [32]) ++ v) by (cbn [app T_WAV]; rewrite <- !app_assoc; reflexivity).
    apply (line_ok_hdr 87 _ _ eq_refl Gv).
Qed.

(* ---- the keys of the written header: pairwise distinct, in the shape the reader's tables expect ---- *)
Lemma NoDup_map_prefix (p : text) (l : list text) : NoDup l -> NoDup (map (fun t => p ++ t) l).
Proof. intro N. apply FinFun.Injective_map_NoDup; [|exact N]. intros a b E. apply app_inv_head in E. exact E. Qed.

Lemma b36_char_upper v : 0 <= v < 36 -> is_lower (b36_char v) = false.
Proof.
  intro H. unfold b36_char, is_lower. destruct (v <? 10) eqn:E.
  - apply Z.ltb_lt in E. apply andb_false_iff. left. apply Z.leb_gt. lia.
  - apply andb_false_iff. left. apply Z.leb_gt. lia.
Qed.
Lemma b36_pair_upper n : 0 <= n < 1296 -> forallb (fun c => negb (is_lower c)) (b36_pair n) = true.
Proof.
  intro H. unfold b36_pair. cbn [forallb].
  rewrite (b36_char_upper (n / 36)) by (split; [apply Z.div_pos; lia|apply Z.div_lt_upper_bound; lia]).
  rewrite (b36_char_upper (n mod 36)) by (apply Z.mod_pos_bound; lia). reflexivity.
Qed.

Section HeaderKeys.
  Variables (r : Q -> text) (c : wchart) (b0 : bco).
  Hypothesis Hlen : (length (w_bpms c) < MAX_BPMS)%nat.
  Hypothesis Hg : header_guards c = true.
  Hypothesis Hm : Forall (fun kv => misc_key_ok (fst kv) = true) (w_misc c).
  Hypothesis Hs : Forall (fun kv => is_b36_pair (fst kv) = true) (w_samples c).

  Let KA : list text := [S_TITLE; S_ARTIST; S_BPM; S_PLAYLEVEL].
  Let KB : list text := map fst (w_misc c).
  Let KD : list text := map (fun eb : nat * bco => S_BPM ++ b36_pair (Z.of_nat (fst eb))) (combine (seq 1 (length (w_bpms c))) (w_bpms c)).
  Let KE : list text := map (fun kv : text * text => S_WAV ++ fst kv) (w_samples c).

  Lemma hdr_keys_eq : map fst (hdr_table r c b0) = KA ++ KB ++ [S_LNOBJ] ++ KD ++ KE.
  Proof. unfold hdr_table. rewrite !map_app, !map_map. reflexivity. Qed.

  Lemma guards_misc k : In k KB ->
    forallb (fun ch => negb (is_lower ch)) k = true /\ ~ In k KA /\ starts_with S_WAV k = false /\ starts_with S_BPM k = false /\ k <> S_LNOBJ.
  Proof.
    intro I. unfold KB in I. apply in_map_iff in I. destruct I as [[k' v] [E I]]. cbn [fst] in E. subst k'.
    pose proof Hg as Hg'. unfold header_guards in Hg'.
    apply andb_true_iff in Hg'. destruct Hg' as [G _]. apply andb_true_iff in G. destruct G as [G _].
    apply andb_true_iff in G. destruct G as [G _]. apply andb_true_iff in G. destruct G as [_ G4].
    rewrite forallb_forall in G4. pose proof (G4 _ I) as Gk. cbn [fst snd] in Gk.
    apply andb_true_iff in Gk. destruct Gk as [Gk X5]. apply andb_true_iff in Gk. destruct Gk as [Gk X4].
    apply andb_true_iff in Gk. destruct Gk as [Gk X3]. apply andb_true_iff in Gk. destruct Gk as [_ X2].
    apply negb_true_iff in X3, X4, X5. rewrite Forall_forall in Hm. destruct (misc_key_ok_facts _ (Hm _ I)) as [_ [Nl _]].
    repeat split; auto. intro Ia. assert (existsb (text_eqb k) S_RESERVED = true); [|congruence].
    apply existsb_exists. exists k. split; [exact Ia|apply text_eqb_refl].
  Qed.

  Lemma in_KD x : In x KD -> exists n, 1 <= n < 1296 /\ x = S_BPM ++ b36_pair n.
  Proof.
    intro I. unfold KD in I. apply in_map_iff in I. destruct I as [[e b] [<- I]]. cbn [fst]. apply in_combine_l in I. apply in_seq in I.
    unfold MAX_BPMS in Hlen. exists (Z.of_nat e). split; [lia|reflexivity].
  Qed.
  Lemma in_KE x : In x KE -> exists k, is_b36_pair k = true /\ In k (map fst (w_samples c)) /\ x = S_WAV ++ k.
  Proof.
    intro I. unfold KE in I. apply in_map_iff in I. destruct I as [[k v] [<- I]]. cbn [fst]. rewrite Forall_forall in Hs.
    exists k. split; [apply (Hs _ I)|]. split; [apply in_map_iff; exists (k, v); auto|reflexivity].
  Qed.

  Theorem hdr_keys_NoDup : NoDup (map fst (hdr_table r c b0)).
  Proof.
    rewrite hdr_keys_eq.
    pose proof Hg as Hg'. unfold header_guards in Hg'.
    apply andb_true_iff in Hg'. destruct Hg' as [G G7]. apply andb_true_iff in G. destruct G as [G _].
    apply andb_true_iff in G. destruct G as [_ G5]. apply no_dup_text_NoDup in G5, G7.
    apply NoDup_app_intro; [unfold KA; repeat constructor; cbn; intuition discriminate| |].
    - apply NoDup_app_intro; [exact G5| |].
      + apply NoDup_app_intro; [repeat constructor; intros []| |].
        * apply NoDup_app_intro.
          -- unfold KD. pose proof (ex_table_keys c Hlen) as N. unfold ex_table in N. rewrite map_map in N. cbn [fst] in N.
             apply (NoDup_map_prefix S_BPM) in N. rewrite map_map in N. exact N.
          -- unfold KE. apply (NoDup_map_prefix S_WAV) in G7. rewrite map_map in G7. exact G7.
          -- intros x Ix Iy. destruct (in_KD x Ix) as [n [_ E1]]. destruct (in_KE x Iy) as [k [_ [_ E2]]]. rewrite E1 in E2. discriminate.
        * intros x [<-|[]] I. cbn [app] in I. apply in_app_or in I. destruct I as [I|I].
          -- destruct (in_KD _ I) as [n [_ E]]. discriminate.
          -- destruct (in_KE _ I) as [k [_ [_ E]]]. discriminate.
      + intros k Ik I. destruct (guards_misc k Ik) as [_ [_ [Nw [Nb Nl]]]]. cbn [app] in I. destruct I as [E|I]; [apply Nl; symmetry; exact E|].
        apply in_app_or in I. destruct I as [I|I].
        * destruct (in_KD _ I) as [n [_ E]]. subst k. discriminate.
        * destruct (in_KE _ I) as [k' [_ [_ E]]]. subst k. discriminate.
    - intros a Ia I. apply in_app_or in I. destruct I as [I|I]; [destruct (guards_misc a I) as [_ [Na _]]; contradiction|].
      cbn [app] in I. destruct I as [E|I]; [subst a; cbn in Ia; intuition discriminate|]. apply in_app_or in I. destruct I as [I|I].
      + destruct (in_KD _ I) as [n [_ E]]. subst a. unfold b36_pair in Ia. cbn in Ia. intuition discriminate.
      + destruct (in_KE _ I) as [k [_ [_ E]]]. subst a. cbn in Ia. intuition discriminate.
  Qed.

  Theorem hdr_key_ok : Forall key_ok (hdr_table r c b0).
  Proof.
    apply Forall_forall. intros [k v] I.
    assert (Ik : In k (map fst (hdr_table r c b0))) by (apply in_map_iff; exists (k, v); auto).
    rewrite hdr_keys_eq in Ik. unfold key_ok. cbn [fst].
    apply in_app_or in Ik. destruct Ik as [Ik|Ik].
    { cbn in Ik. destruct Ik as [<-|[<-|[<-|[<-|[]]]]]; (split; [reflexivity|]); split; intros; try discriminate; try contradiction; congruence. }
    apply in_app_or in Ik. destruct Ik as [Ik|Ik].
    { destruct (guards_misc k Ik) as [L [_ [Nw [Nb _]]]]. split; [exact L|]. split; intros; congruence. }
    cbn [app] in Ik. destruct Ik as [<-|Ik]; [split; [reflexivity|split; intros; discriminate]|].
    apply in_app_or in Ik. destruct Ik as [Ik|Ik].
    - destruct (in_KD _ Ik) as [n [Hn ->]]. split; [|split; intros; reflexivity].
      rewrite forallb_app, (b36_pair_upper n ltac:(lia)). reflexivity.
    - destruct (in_KE _ Ik) as [k' [Bk [Ik' ->]]]. destruct (is_b36_pair_chars _ Bk) as [x [y [E _]]]. subst k'.
      split; [|split; intros; reflexivity].
      pose proof Hg as Hg'. unfold header_guards in Hg'. apply andb_true_iff in Hg'. destruct Hg' as [G _]. apply andb_true_iff in G. destruct G as [_ G6].
      rewrite forallb_forall in G6. apply in_map_iff in Ik'. destruct Ik' as [[k2 v2] [E2 I2]]. cbn [fst] in E2. subst k2.
      pose proof (G6 _ I2) as Gk. cbn [fst snd] in Gk. apply andb_true_iff in Gk. destruct Gk as [_ Gl].
      rewrite forallb_app, Gl. reflexivity.
  Qed.
End HeaderKeys.
