(* C03 whole-file writer theorem, part 3: what the writer's beats are and what time the reference semantics gives them.
   From C10 (Proofs/TimingProofs2.v): in the tempo domain of SMWriteDom, TimingMap.beats of the chart's tempo rows at
   on-grid times succeeds, the beat of a time o is spec_beat o (the integral of bpm/60000, in lowest terms), it is the
   cumulative beat 4*measure + beat of a normalised position whose integrated time is o, and beats are monotone in time.
   The tempo script the reference semantics re-derives from the written #BPMS pairs (six-decimal beats, exact bpms,
   sorted by beat) agrees with the script of the rows, hence beat_time of a written beat is the object's time. *)
From Coq Require Import String ZArith QArith Qround Qabs List Bool Lia Lqa Sorting.Permutation.
From RV Require Import Base.PyNum Timing.Snapper Timing.Snap Timing.TimingMap Timing.Reseat Timing.Integrate
  Timing.Domain Timing.Domain2 Formats.SMText Formats.SM Formats.SMSpec Formats.SMWriteDom
  Proofs.SnapperProofs Proofs.TimingProofs Proofs.RederiveProofs Proofs.TimingProofs2.
Import ListNotations.
Open Scope Q_scope.

(* ---------------------------------------------------------------- small facts *)
Lemma q_same_eq a b : q_same a b = true -> a = b.
Proof.
  unfold q_same. intro H. apply andb_true_iff in H. destruct H as [H1 H2].
  apply Z.eqb_eq in H1. apply Pos.eqb_eq in H2. destruct a, b. cbn in *. subst. reflexivity.
Qed.
Lemma bco_same_eq a b : bco_same a b = true -> a = b.
Proof.
  unfold bco_same. intro H. apply andb_true_iff in H. destruct H as [H H3]. apply andb_true_iff in H. destruct H as [H1 H2].
  apply q_same_eq in H1, H2, H3. destruct a, b. cbn in *. subst. reflexivity.
Qed.
Lemma row_same_eq (a b : Q * Q * Q) : row_same a b = true -> a = b.
Proof.
  unfold row_same. intro H. apply andb_true_iff in H. destruct H as [H H3]. apply andb_true_iff in H. destruct H as [H1 H2].
  apply q_same_eq in H1, H2, H3. destruct a as [[a1 a2] a3], b as [[b1 b2] b3]. cbn in *. subst. reflexivity.
Qed.
Lemma forallb2_eq {A} (e : A -> A -> bool) (He : forall a b, e a b = true -> a = b) l1 l2 :
  forallb2 e l1 l2 = true -> l1 = l2.
Proof.
  revert l2. induction l1 as [|x l1 IH]; intros [|y l2] H; cbn [forallb2] in H; try discriminate; [reflexivity|].
  apply andb_true_iff in H. destruct H as [H1 H2]. f_equal; [apply He; exact H1|apply IH; exact H2].
Qed.

Lemma Qred_idem x : Qred (Qred x) = Qred x.
Proof. apply Qred_complete. apply Qred_correct. Qed.
(* a value in lowest terms is determined by its value *)
Lemma qred_canon b x : (exists y, b = Qred y) -> b == x -> b = Qred x.
Proof. intros [y ->] E. rewrite <- (Qred_idem y). apply Qred_complete. exact E. Qed.

(* ---------------------------------------------------------------- TimingMap.beats returns values in lowest terms *)
Lemma all_some_in {A} (l : list (option A)) r x : all_some l = Some r -> In x r -> In (Some x) l.
Proof.
  revert r. induction l as [|[a|] l IH]; intros r H Hin; cbn [all_some] in H; try discriminate.
  - injection H as <-. destruct Hin.
  - destruct (all_some l) as [r'|] eqn:E; [|discriminate]. injection H as <-. destruct Hin as [<-|Hin]; [left; reflexivity|right; apply (IH r'); auto].
Qed.
Lemma assoc_nat_in {A} i (l : list (nat * A)) v : assoc_nat i l = Some v -> In v (map snd l).
Proof.
  induction l as [|[j w] l IH]; cbn [assoc_nat map snd]; [discriminate|].
  destruct (Nat.eqb i j); [intro H; injection H as <-; left; reflexivity|intro H; right; apply IH; exact H].
Qed.
Lemma unpermute_in {A} n (res : list (nat * A)) r x : unpermute n res = Some r -> In x r -> In x (map snd res).
Proof.
  unfold unpermute. intros H Hin. apply (all_some_in _ _ _ H) in Hin. apply in_map_iff in Hin. destruct Hin as [i [Hi _]].
  apply (assoc_nat_in i). exact Hi.
Qed.
Lemma beats_go_canon l : forall cur prev r, beats_go cur prev l = Some r -> forall x, In x (map snd r) -> exists y, x = Qred y.
Proof.
  induction l as [|[i c] l IH]; intros cur prev r H x Hin; cbn [beats_go] in H.
  - injection H as <-. destruct Hin.
  - destruct (snap_sub c prev) as [d|]; [|discriminate].
    destruct (beats_go _ c l) as [r'|] eqn:E; [|discriminate]. injection H as <-. cbn [map snd] in Hin.
    destruct Hin as [Hx|Hin]; [exists (cur + inject_Z (s_m d) * s_met prev + s_b d); symmetry; exact Hx|apply (IH _ _ _ E x Hin)].
Qed.
Lemma tm_beats_canon tbl bcos os bs : tm_beats tbl bcos os = Some bs -> forall b, In b bs -> exists y, b = Qred y.
Proof.
  rewrite tm_beats_unfold. destruct os as [|o os]; [intro H; injection H as <-; intros b []|].
  destruct (tm_snaps tbl bcos (o :: os)) as [ss|]; [|discriminate]. unfold beats_inner.
  destruct (sort_by idx_snap_lt _) as [|[i0 s0] rest]; [intro H; injection H as <-; intros b []|].
  destruct (beats_go _ s0 rest) as [r|] eqn:E; [|discriminate]. intros H b Hin.
  apply (unpermute_in _ _ _ _ H) in Hin. cbn [map snd] in Hin. destruct Hin as [Hx|Hin]; [eexists; symmetry; exact Hx|].
  apply (beats_go_canon _ _ _ _ E b Hin).
Qed.

(* ---------------------------------------------------------------- the active change is one of the script *)
Lemma active_by_time_in cur rest o : In (active_by_time cur rest o) (cur :: rest).
Proof.
  revert cur. induction rest as [|n rest IH]; intro cur; cbn [active_by_time]; [left; reflexivity|].
  destruct (Qle_bool (fst n) o); [right; apply IH|left; reflexivity].
Qed.
Lemma active_at_time_in init c0 rest o : In (snd (active_at_time init (c0 :: rest) o)) (c0 :: rest).
Proof.
  unfold active_at_time. cbn [change_times combine].
  pose proof (active_by_time_in (init, c0) (combine (change_times_go init c0 rest) rest) o) as H.
  destruct H as [<-|H]; [left; reflexivity|]. right. destruct (active_by_time _ _ o) as [t c]. apply in_combine_r in H. exact H.
Qed.

(* ---------------------------------------------------------------- Forall2 helpers *)
Lemma forall2_in_pair {A B} (R : A -> B -> Prop) l r a b : Forall2 R l r -> In (a, b) (combine l r) -> R a b.
Proof. apply forall2_combine_in. Qed.
Lemma forall2_in_combine {A B} (f : A -> B) l r : Forall2 (fun a b => b = f a) l r -> forall a, In a l -> In (a, f a) (combine l r).
Proof.
  induction 1 as [|a b l r E _ IH]; intros x Hin; [destruct Hin|]. cbn [combine].
  destruct Hin as [<-|Hin]; [left; rewrite E; reflexivity|right; apply IH; exact Hin].
Qed.
Lemma forall2_and {A B} (P Q : A -> B -> Prop) l r : Forall2 P l r -> Forall2 Q l r -> Forall2 (fun a b => P a b /\ Q a b) l r.
Proof. intro H. induction H; intro G; inversion G; subst; constructor; auto. Qed.
Lemma forall2_length {A B} (R : A -> B -> Prop) l r : Forall2 R l r -> length l = length r.
Proof. induction 1; cbn; congruence. Qed.
Lemma forall2_map_l {A B C} (f : A -> C) (R : C -> B -> Prop) l r : Forall2 R (map f l) r <-> Forall2 (fun a b => R (f a) b) l r.
Proof.
  split.
  - revert r. induction l as [|a l IH]; intros r H; inversion H; subst; constructor; auto.
  - induction 1; cbn; constructor; auto.
Qed.
Lemma forall2_map_r {A B C} (f : B -> C) (R : A -> C -> Prop) l r : Forall2 R l (map f r) <-> Forall2 (fun a b => R a (f b)) l r.
Proof.
  split.
  - revert l. induction r as [|b r IH]; intros l H; inversion H; subst; constructor; auto.
  - induction 1; cbn; constructor; auto.
Qed.
Lemma forall2_impl {A B} (P Q : A -> B -> Prop) l r : (forall a b, P a b -> Q a b) -> Forall2 P l r -> Forall2 Q l r.
Proof. intros H F. induction F; constructor; auto. Qed.
Lemma forall2_flip {A B} (R : A -> B -> Prop) l r : Forall2 R l r -> Forall2 (fun b a => R a b) r l.
Proof. induction 1; constructor; auto. Qed.

(* ---------------------------------------------------------------- sorting two related lists *)
Section SortRel.
  Context {A B : Type} (lta : A -> A -> bool) (ltb : B -> B -> bool) (R : A -> B -> Prop).
  Lemma insert_by_rel a b la lb :
    R a b -> Forall2 R la lb ->
    (forall a' b', In b' lb -> R a' b' -> lta a' a = ltb b' b) ->
    Forall2 R (insert_by lta a la) (insert_by ltb b lb).
  Proof.
    intros Hab F. induction F as [|a' b' la lb Hr Ft IH]; intro Hc; cbn [insert_by]; [constructor; [exact Hab|constructor]|].
    rewrite (Hc a' b' (or_introl eq_refl) Hr). destruct (ltb b' b); cbn [negb].
    - constructor; [exact Hr|]. apply IH. intros x y Hy. apply Hc. right. exact Hy.
    - constructor; [exact Hab|]. constructor; assumption.
  Qed.
  Lemma sort_by_rel la lb :
    Forall2 R la lb ->
    (forall a b a' b', In b lb -> In b' lb -> R a b -> R a' b' -> lta a a' = ltb b b') ->
    Forall2 R (sort_by lta la) (sort_by ltb lb).
  Proof.
    intro F. induction F as [|a b la lb Hr _ IH]; intro Hc; cbn [sort_by fold_right]; [constructor|].
    apply insert_by_rel; [exact Hr| |].
    - apply IH. intros x y x' y' Hy Hy'. apply Hc; right; assumption.
    - intros a' b' Hin Hr'. apply Hc; [right| left; reflexivity|exact Hr'|exact Hr].
      apply (Permutation_in _ (Permutation_sym (sort_by_perm ltb lb))). exact Hin.
  Qed.
End SortRel.

(* ---------------------------------------------------------------- the writer's beats in the tempo domain *)
Section Tempo.
  Variable cf : smconf.
  Let tbl := k_tbl cf.
  Hypothesis Hok : table_ok (1 # 96) tbl = true.
  Variables (rows : list (Q * Q * Q)) (init : Q) (l : list bcs).
  Hypothesis Hscript : tempo_script_of cf rows = Some (init, l).
  Hypothesis Hdom : tempo_domb cf rows init l = true.
  Let B := bcos_of rows.
  Let SB := sort_by bco_lt B.

  Lemma tdom_parts :
    domainb tbl l [] = true /\ same_met l = true /\ forallb (fun x => Qeq_bool (bs_met x) 4) l = true
    /\ distinct_offsb B = true /\ forallb (fun r : Q * Q * Q => Qlt_bool 0 (snd (fst r))) rows = true
    /\ from_bcs init l = Some SB
    /\ dom_beats_posb tbl 0 init l (map bs_snap l) (map bo_off SB) = true
    /\ distinct_q (map (fun x => abs_beat (bs_snap x)) l) = true
    /\ forallb (fun x => is_millionth (abs_beat (bs_snap x))) l = true
    /\ forallb (fun r : Q * Q * Q => time_okb cf init l (fst (fst r))) rows = true.
  Proof.
    pose proof Hdom as H. unfold tempo_domb in H. fold tbl B SB in H.
    repeat (apply andb_true_iff in H; let H' := fresh "H" in destruct H as [H H']).
    repeat split; try assumption.
    destruct (from_bcs init l) as [bc|]; [|discriminate]. f_equal. apply (forallb2_eq _ bco_same_eq). assumption.
  Qed.

  Lemma tscript_parts : bco_to_bcs tbl B = Some l /\ exists b0 r, SB = b0 :: r /\ init = bo_off b0.
  Proof.
    pose proof Hscript as H. unfold tempo_script_of in H. fold tbl B SB in H.
    destruct SB as [|b0 r] eqn:E; [discriminate|]. destruct (bco_to_bcs tbl B) as [l'|]; [|discriminate].
    injection H as <- <-. split; [reflexivity|]. exists b0, r. split; reflexivity.
  Qed.

  Lemma tm_beats_sorted os : tm_beats tbl SB os = tm_beats tbl B os.
  Proof.
    destruct tdom_parts as (_ & _ & _ & D4 & _).
    apply (any_order_b tbl B SB); [apply Permutation_sym; apply sort_by_perm|exact D4].
  Qed.

  Lemma met4 c : In c l -> bs_met c == 4.
  Proof.
    destruct tdom_parts as (_ & _ & D3 & _). rewrite forallb_forall in D3. intro H. apply Qeq_bool_iff. apply D3. exact H.
  Qed.

  Definition beat_fact (o b : Q) : Prop :=
    exists s, b == 4 * inject_Z (s_m s) + s_b s /\ (0 <= s_m s)%Z /\ 0 <= s_b s /\ s_b s < 4 /\ time_of init l s == o.

  Lemma time_okb_parts o : time_okb cf init l o = true -> Qle_bool init o = true /\ time_on_gridb tbl init l o = true.
  Proof. unfold time_okb. intro H. apply andb_true_iff in H. exact H. Qed.

  Theorem beats_of_times os : forallb (time_okb cf init l) os = true ->
    exists bs, tm_beats tbl B os = Some bs
      /\ Forall2 (fun o b => b = spec_beat init l o /\ beat_fact o b) os bs
      /\ (forall o1 o2, In o1 os -> In o2 os -> o1 <= o2 -> spec_beat init l o1 <= spec_beat init l o2).
  Proof.
    intro Hos. destruct tdom_parts as (D1 & D2 & D3 & D4 & D5 & D6 & _).
    assert (Hle: forallb (Qle_bool init) os = true).
    { apply forallb_forall. intros o Hin. rewrite forallb_forall in Hos. apply (time_okb_parts o (Hos o Hin)). }
    assert (Hgr: forall o, In o os -> time_on_gridb tbl init l o = true).
    { intros o Hin. rewrite forallb_forall in Hos. apply (time_okb_parts o (Hos o Hin)). }
    assert (Hb: dom_beatsb tbl init l os = true).
    { unfold dom_beatsb, dom_snapsb. rewrite D1, Hle, D2. reflexivity. }
    assert (Hs: dom_snapsb tbl init l os = true) by (unfold dom_snapsb; rewrite D1, Hle; reflexivity).
    destruct (beats_b tbl Hok init l os Hb) as [bcos [ss [bs [G1 [G2 [G3 [G4 [G5 [_ G7]]]]]]]]].
    destruct (snaps_roundtrip_b tbl Hok init l os Hs) as [bcos' [ss' [ts [F1 [F2 [_ [F4 _]]]]]]].
    assert (E: bcos = SB) by congruence. subst bcos. assert (E: bcos' = SB) by congruence. subst bcos'.
    assert (E: ss' = ss) by congruence. subst ss'.
    rewrite tm_beats_sorted in G3. exists bs. split; [exact G3|].
    destruct l as [|c0 rest] eqn:El; [discriminate|]. rewrite <- El in *.
    assert (Hspec: Forall2 (fun o b => b = spec_beat init l o) os bs).
    { assert (Hc: Forall2 (fun o b => In o os /\ In b bs /\ (time_on_gridb tbl init l o = true -> b == beats_at init l o)) os bs).
      { clear - G5. induction G5 as [|o b os bs [_ A] _ IH]; constructor; [split; [left; reflexivity|split; [left; reflexivity|exact A]]|].
        apply (forall2_impl _ _ _ _ (fun a b H => conj (or_intror (proj1 H)) (conj (or_intror (proj1 (proj2 H))) (proj2 (proj2 H)))) IH). }
      apply (forall2_impl _ _ _ _ (fun o b H => qred_canon b _ (tm_beats_canon _ _ _ _ G3 b (proj1 (proj2 H))) (proj2 (proj2 H) (Hgr o (proj1 H)))) Hc). }
    split; [|].
    - apply forall2_and; [exact Hspec|].
      assert (Hsb: Forall2 (fun o b => exists s, In o os /\ b == abs_beat s /\
                 (time_on_gridb tbl init l o = true -> time_of init l s == o) /\ (0 <= s_m s)%Z /\ 0 <= s_b s
                 /\ s_b s < bs_met (snd (active_at_time init l o)) /\ s_met s = bs_met (snd (active_at_time init l o))) os bs).
      { clear - F4 G4. revert bs G4. induction F4 as [|o s os ss [_ [A2 [A3 [A4 [A5 A6]]]]] _ IH]; intros bs G4; inversion G4 as [|s' b ss' bs' Hb G4']; subst; constructor.
        - exists s. split; [left; reflexivity|]. repeat split; assumption.
        - apply (forall2_impl _ _ _ _ (fun o b H => match H with ex_intro _ s (conj I1 I2) => ex_intro _ s (conj (or_intror I1) I2) end) (IH bs' G4')). }
      apply (forall2_impl _ _ _ _ (fun o b H => H) ) in Hsb.
      refine (forall2_impl _ _ _ _ _ Hsb). intros o b [s [Hin [Eb [Et [Hm [Hb0 [Hb1 Hmet]]]]]]].
      assert (M4: bs_met (snd (active_at_time init l o)) == 4).
      { apply met4. rewrite El. apply active_at_time_in. }
      exists s. split; [|split; [exact Hm|split; [exact Hb0|split; [rewrite <- M4; exact Hb1|apply Et; apply Hgr; exact Hin]]]].
      rewrite Eb. unfold abs_beat. rewrite Hmet, M4. ring.
    - intros o1 o2 I1 I2 Hle12.
      apply (G7 o1 (spec_beat init l o1) o2 (spec_beat init l o2)); [| |exact Hle12]; apply (forall2_in_combine _ _ _ Hspec); assumption.
  Qed.

  (* ---- the script the reference semantics re-derives from the written #BPMS pairs ---- *)
  Definition K (o : Q) : Q := beats_at init l o.
  Lemma spec_beat_K o : spec_beat init l o == K o.
  Proof. unfold spec_beat, K. apply Qred_correct. Qed.

  Lemma row_in_SB r : In r rows -> In (mkBco (snd (fst r)) (snd r) (fst (fst r))) SB.
  Proof.
    intro H. apply (Permutation_in _ (sort_by_perm bco_lt B)). unfold B, bcos_of. apply in_map_iff. exists r. split; [reflexivity|exact H].
  Qed.
  Lemma SB_in_row b : In b SB -> exists r, In r rows /\ b = mkBco (snd (fst r)) (snd r) (fst (fst r)).
  Proof.
    intro H. apply (Permutation_in _ (Permutation_sym (sort_by_perm bco_lt B))) in H. unfold B, bcos_of in H.
    apply in_map_iff in H. destruct H as [r [E Hr]]. exists r. split; [exact Hr|symmetry; exact E].
  Qed.
  Lemma SB_time_ok : forallb (time_okb cf init l) (map bo_off SB) = true.
  Proof.
    destruct tdom_parts as (_ & _ & _ & _ & _ & _ & _ & _ & _ & D10). apply forallb_forall. intros o Ho.
    apply in_map_iff in Ho. destruct Ho as [b [<- Hb]]. destruct (SB_in_row b Hb) as [r [Hr ->]]. cbn [bo_off].
    rewrite forallb_forall in D10. apply D10. exact Hr.
  Qed.

  Lemma bco_to_bcs_go_bpms rest : forall parent ls r, bco_to_bcs_go tbl parent ls rest = Some r -> map bs_bpm r = map bo_bpm rest.
  Proof.
    induction rest as [|c rest IH]; intros parent ls r H; cbn [bco_to_bcs_go] in H; [injection H as <-; reflexivity|].
    destruct (snap_from_offset tbl (bo_off c) parent ls) as [s|]; [|discriminate].
    destruct (bco_to_bcs_go tbl c _ rest) as [r'|] eqn:E; [|discriminate]. injection H as <-. cbn [map bs_bpm]. f_equal. apply (IH _ _ _ E).
  Qed.
  Lemma sort_sort_B : sort_by bco_lt SB = SB.
  Proof.
    destruct tdom_parts as (_ & _ & _ & D4 & _).
    apply (sort_any_order B SB); [apply Permutation_sym; apply sort_by_perm|apply distinct_offsb_sound; exact D4].
  Qed.
  Lemma script_bpms : map bs_bpm l = map bo_bpm SB.
  Proof.
    destruct tscript_parts as [H _]. unfold bco_to_bcs in H. fold SB in H.
    destruct SB as [|p rest]; [discriminate|]. destruct (snap_norm 0 0 (bo_met p)) as [s0|]; [|discriminate].
    destruct (bco_to_bcs_go tbl p s0 rest) as [r|] eqn:E; [|discriminate]. injection H as <-. cbn [map bs_bpm bo_bpm]. f_equal.
    apply (bco_to_bcs_go_bpms _ _ _ _ E).
  Qed.

  Lemma forall2_join_r {A B' C} (P : A -> C -> Prop) (Q' : B' -> C -> Prop) l1 l2 bs :
    Forall2 P l1 bs -> Forall2 Q' l2 bs -> Forall2 (fun a c => exists b, P a b /\ Q' c b) l1 l2.
  Proof.
    intro H. revert l2. induction H as [|a b l1 bs Hp _ IH]; intros l2 G; inversion G; subst; constructor; [eexists; split; eassumption|apply IH; assumption].
  Qed.
  Lemma map_eq_forall2 {A B' C} (f : A -> C) (g : B' -> C) l1 l2 : map f l1 = map g l2 -> Forall2 (fun a b => f a = g b) l1 l2.
  Proof.
    revert l2. induction l1 as [|a l1 IH]; intros [|b l2] H; cbn [map] in H; try discriminate; constructor.
    - injection H as H _. exact H.
    - apply IH. injection H as _ H. exact H.
  Qed.

  (* the cumulative beat at the time of the j-th change (sorted by time) is the cumulative beat of its position *)
  Lemma sorted_beats : Forall2 (fun sb c => K (bo_off sb) == abs_beat (bs_snap c) /\ bo_bpm sb = bs_bpm c) SB l.
  Proof.
    destruct tdom_parts as (_ & _ & _ & _ & _ & D6 & D7 & _).
    destruct (beats_of_times (map bo_off SB) SB_time_ok) as [bs [T1 [T2 _]]].
    destruct (beats_positions_b tbl Hok init l (map bs_snap l) (map bo_off SB) D7) as [bcos [bs2 [P1 [P2 P3]]]].
    assert (E: bcos = SB) by congruence. subst bcos. rewrite tm_beats_sorted in P2. assert (E: bs2 = bs) by congruence. subst bs2.
    apply forall2_and.
    - apply forall2_map_l in T2. apply forall2_map_l in P3.
      refine (forall2_impl _ _ _ _ _ (forall2_join_r _ _ _ _ _ T2 P3)). intros sb c [b [[E1 _] E2]].
      rewrite <- spec_beat_K, <- E1. exact E2.
    - apply (forall2_flip (fun c sb => bo_bpm sb = bs_bpm c)).
      apply (forall2_impl _ _ _ _ (fun a b H => eq_sym H) (map_eq_forall2 bs_bpm bo_bpm _ _ script_bpms)).
  Qed.

  Lemma distinct_q_notin x r : distinct_q (x :: r) = true -> forall y, In y r -> ~ x == y.
  Proof.
    cbn [distinct_q]. intro H. apply andb_true_iff in H. destruct H as [H _]. apply negb_true_iff in H.
    intros y Hy E. assert (existsb (Qeq_bool x) r = true); [|congruence]. apply existsb_exists. exists y. split; [exact Hy|apply Qeq_bool_iff; exact E].
  Qed.
  Lemma forall2_distinct_inj {A C} (key : A -> Q) (val : C -> Q) la lc :
    Forall2 (fun a c => key a == val c) la lc -> distinct_q (map val lc) = true ->
    forall a a', In a la -> In a' la -> key a == key a' -> a = a'.
  Proof.
    induction 1 as [|a0 c0 la lc Hac F IH]; intros Hd a a' Ha Ha' E; [destruct Ha|].
    cbn [map] in Hd. pose proof (distinct_q_notin _ _ Hd) as Hn.
    assert (Hd': distinct_q (map val lc) = true) by (cbn [distinct_q] in Hd; apply andb_true_iff in Hd; apply Hd).
    destruct Ha as [<-|Ha], Ha' as [<-|Ha'].
    - reflexivity.
    - exfalso. destruct (forall2_in_l _ _ _ _ F Ha') as [c [Hc Hk]]. apply (Hn (val c)); [apply in_map; exact Hc|]. rewrite <- Hac, <- Hk. exact E.
    - exfalso. destruct (forall2_in_l _ _ _ _ F Ha) as [c [Hc Hk]]. apply (Hn (val c)); [apply in_map; exact Hc|]. rewrite <- Hac, <- Hk. symmetry. exact E.
    - apply IH; assumption.
  Qed.

  Lemma K_inj b b' : In b SB -> In b' SB -> K (bo_off b) == K (bo_off b') -> b = b'.
  Proof.
    destruct tdom_parts as (_ & _ & _ & _ & _ & _ & _ & D8 & _).
    apply (forall2_distinct_inj (fun b => K (bo_off b)) (fun c => abs_beat (bs_snap c)) SB l); [|exact D8].
    apply (forall2_impl _ _ _ _ (fun a c H => proj1 H) sorted_beats).
  Qed.

  Lemma B_time_ok : forallb (time_okb cf init l) (map bo_off B) = true.
  Proof.
    destruct tdom_parts as (_ & _ & _ & _ & _ & _ & _ & _ & _ & D10). unfold B, bcos_of. rewrite map_map. cbn [bo_off].
    apply forallb_forall. intros o Ho. apply in_map_iff in Ho. destruct Ho as [r [<- Hr]]. rewrite forallb_forall in D10. apply D10. exact Hr.
  Qed.

  Lemma K_lt b b' : In b B -> In b' B -> Qlt_bool (K (bo_off b)) (K (bo_off b')) = Qlt_bool (bo_off b) (bo_off b').
  Proof.
    intros Hb Hb'. destruct (beats_of_times (map bo_off B) B_time_ok) as [bs [_ [_ Hmono]]].
    assert (I: In (bo_off b) (map bo_off B)) by (apply in_map; exact Hb).
    assert (I': In (bo_off b') (map bo_off B)) by (apply in_map; exact Hb').
    assert (S: In b SB) by (apply (Permutation_in _ (sort_by_perm bco_lt B)); exact Hb).
    assert (S': In b' SB) by (apply (Permutation_in _ (sort_by_perm bco_lt B)); exact Hb').
    destruct (Qlt_bool (bo_off b) (bo_off b')) eqn:E.
    - apply Qlt_bool_iff in E. apply Qlt_bool_iff.
      pose proof (Hmono _ _ I I' (Qlt_le_weak _ _ E)) as L. rewrite !spec_beat_K in L.
      destruct (Qlt_le_dec (K (bo_off b)) (K (bo_off b'))) as [G|G]; [exact G|exfalso].
      assert (Eq: K (bo_off b) == K (bo_off b')) by (apply Qle_antisym; assumption).
      rewrite (K_inj b b' S S' Eq) in E. lra.
    - destruct (Qlt_bool (K (bo_off b)) (K (bo_off b'))) eqn:E2; [|reflexivity]. exfalso.
      apply Qlt_bool_iff in E2. assert (G: bo_off b' <= bo_off b).
      { destruct (Qlt_le_dec (bo_off b) (bo_off b')) as [L|L]; [apply Qlt_bool_iff in L; congruence|exact L]. }
      pose proof (Hmono _ _ I' I G) as L. rewrite !spec_beat_K in L. lra.
  Qed.

  Lemma is_millionth_comp a b : a == b -> is_millionth a = is_millionth b.
  Proof.
    intro E. unfold is_millionth. assert (E1: a * 1000000 == b * 1000000) by (rewrite E; reflexivity).
    rewrite (Qfloor_comp _ _ E1). destruct (Qeq_bool (b * 1000000) _) eqn:H.
    - apply Qeq_bool_iff. apply Qeq_bool_iff in H. rewrite E1. exact H.
    - destruct (Qeq_bool (a * 1000000) _) eqn:H2; [|reflexivity]. apply Qeq_bool_iff in H2. rewrite E1 in H2. apply Qeq_bool_iff in H2. congruence.
  Qed.
  Lemma millionth_eq' x q : is_millionth x = true -> is_millionth q = true -> Qabs (x - q) <= 1 # 2000000 -> x == q.
  Proof.
    unfold is_millionth. intros Hx Hq Hd. apply Qeq_bool_iff in Hx, Hq.
    set (a := Qfloor (x * 1000000)) in *. set (b := Qfloor (q * 1000000)) in *.
    assert (Hab: a = b).
    { assert (L: Qabs (inject_Z a - inject_Z b) <= 1 # 2).
      { rewrite <- Hx, <- Hq. setoid_replace (x * 1000000 - q * 1000000) with ((x - q) * 1000000) by ring.
        rewrite Qabs_Qmult. change (Qabs 1000000) with 1000000. lra. }
      rewrite <- inject_Z_minus in L. apply Qabs_Qle_condition in L. destruct L as [L1 L2].
      assert (L1': (-1 < a - b)%Z). { rewrite Zlt_Qlt. change (inject_Z (-1)) with (-1). lra. }
      assert (L2': (a - b < 1)%Z). { rewrite Zlt_Qlt. change (inject_Z 1) with 1. lra. }
      lia. }
    rewrite Hab in Hx. lra.
  Qed.

  Lemma row_beat_millionth r : In r rows -> is_millionth (spec_beat init l (fst (fst r))) = true.
  Proof.
    intro Hr. destruct tdom_parts as (_ & _ & _ & _ & _ & _ & _ & _ & D9 & _).
    destruct (forall2_in_l _ _ _ _ sorted_beats (row_in_SB r Hr)) as [c [Hc [Hk _]]]. cbn [bo_off] in Hk.
    rewrite (is_millionth_comp _ (abs_beat (bs_snap c))); [|rewrite spec_beat_K; exact Hk].
    rewrite forallb_forall in D9. apply D9. exact Hc.
  Qed.

  (* equality of tempo changes as numbers *)
  Definition bcs_eqv (x y : bcs) : Prop := bs_bpm x == bs_bpm y /\ bs_met x == bs_met y /\ ssim (bs_snap x) (bs_snap y).

  Lemma floor_unique (z : Z) (q : Q) : inject_Z z <= q -> q < inject_Z (z + 1) -> Qfloor q = z.
  Proof.
    intros L U. pose proof (Qfloor_le q) as F1. pose proof (Qlt_floor q) as F2.
    assert (A: (z < Qfloor q + 1)%Z) by (rewrite Zlt_Qlt; lra).
    assert (C: (Qfloor q < z + 1)%Z) by (rewrite Zlt_Qlt; lra). lia.
  Qed.
  Lemma snap_of_beat_ssim x s : (0 <= s_m s)%Z -> 0 <= s_b s -> s_b s < 4 -> x == 4 * inject_Z (s_m s) + s_b s ->
    ssim (snap_of_beat x) s.
  Proof.
    intros Hm H0 H4 E. unfold snap_of_beat.
    assert (F: Qfloor (x / 4) = s_m s).
    { apply floor_unique.
      - apply Qle_shift_div_l; [lra|]. rewrite E. lra.
      - apply Qlt_shift_div_r; [lra|]. rewrite E, inject_Z_plus. change (inject_Z 1) with 1. lra. }
    rewrite F. split; cbn [s_m s_b]; [reflexivity|]. rewrite Qred_correct, E. ring.
  Qed.

  Lemma script_nodes p rest : script_ok tbl p rest -> Forall node_ok rest.
  Proof.
    revert p. induction rest as [|c rest IH]; intros p H; [constructor|]. destruct H as [[_ [Hc _]] Hs]. constructor; [exact Hc|apply (IH c Hs)].
  Qed.
  Lemma all_nodes : Forall node_ok l.
  Proof.
    destruct tdom_parts as (D1 & _). destruct (domainb_nil_sound tbl l D1) as [c0 [rest [-> [H0 [_ [_ Hs]]]]]].
    constructor; [exact H0|apply (script_nodes c0 rest Hs)].
  Qed.

  Theorem written_script (pairs : list (Q * Q)) :
    Forall2 (fun (p : Q * Q) (r : Q * Q * Q) =>
               is_millionth (fst p) = true /\ Qabs (fst p - spec_beat init l (fst (fst r))) <= 1 # 2000000 /\ snd p == snd (fst r)) pairs rows ->
    Forall2 bcs_eqv (tempo_script pairs) l /\ forallb (fun p : Q * Q => Qlt_bool 0 (snd p)) pairs = true.
  Proof.
    intro Hp. destruct tdom_parts as (_ & _ & _ & _ & D5 & _).
    assert (Hin: Forall2 (fun p r => In r rows /\ is_millionth (fst p) = true /\ Qabs (fst p - spec_beat init l (fst (fst r))) <= 1 # 2000000 /\ snd p == snd (fst r)) pairs rows).
    { clear - Hp. induction Hp as [|p r pairs rows H _ IH]; constructor; [split; [left; reflexivity|exact H]|].
      apply (forall2_impl _ _ _ _ (fun a b G => conj (or_intror (proj1 G)) (proj2 G)) IH). }
    split.
    - set (Rel := fun (p : Q * Q) (b : bco) => fst p == K (bo_off b) /\ snd p == bo_bpm b).
      assert (R1: Forall2 Rel pairs B).
      { unfold B, bcos_of. apply forall2_map_r. refine (forall2_impl _ _ _ _ _ Hin). intros p r [Hr [H1 [H2 H3]]].
        unfold Rel. cbn [bo_off bo_bpm]. split; [|exact H3]. rewrite <- spec_beat_K.
        apply millionth_eq'; [exact H1|apply row_beat_millionth; exact Hr|exact H2]. }
      assert (R2: Forall2 Rel (sort_by pair_lt pairs) SB).
      { apply sort_by_rel; [exact R1|]. intros p b p' b' Hb Hb' [E1 _] [E1' _]. unfold pair_lt, bco_lt.
        rewrite <- (K_lt b b' Hb Hb').
        destruct (Qlt_bool (K (bo_off b)) (K (bo_off b'))) eqn:G.
        - apply Qlt_bool_iff. apply Qlt_bool_iff in G. rewrite E1, E1'. exact G.
        - destruct (Qlt_bool (fst p) (fst p')) eqn:G2; [|reflexivity]. apply Qlt_bool_iff in G2. rewrite E1, E1' in G2. apply Qlt_bool_iff in G2. congruence. }
      unfold tempo_script. apply forall2_map_l.
      assert (R3: Forall2 (fun p c => In c l /\ fst p == abs_beat (bs_snap c) /\ snd p == bs_bpm c) (sort_by pair_lt pairs) l).
      { assert (R3: Forall2 (fun p c => fst p == abs_beat (bs_snap c) /\ snd p == bs_bpm c) (sort_by pair_lt pairs) l).
        { refine (forall2_impl _ _ _ _ _ (forall2_compose _ _ _ _ _ R2 sorted_beats)).
          intros p c [b [[E1 E2] [E3 E4]]]. split; [rewrite E1; exact E3|rewrite E2, E4; reflexivity]. }
        clear - R3. induction R3 as [|p c ps cs H _ IH]; constructor; [split; [left; reflexivity|exact H]|].
        apply (forall2_impl _ _ _ _ (fun a b G => conj (or_intror (proj1 G)) (proj2 G)) IH). }
      refine (forall2_impl _ _ _ _ _ R3). intros p c [Hc [E1 E2]].
      pose proof all_nodes as N. rewrite Forall_forall in N. destruct (N c Hc) as [[_ [_ Wm]] [Hm [Hb0 [Hb1 _]]]].
      pose proof (met4 c Hc) as M4.
      unfold bcs_eqv. cbn [bs_bpm bs_met bs_snap]. split; [exact E2|]. split; [symmetry; exact M4|].
      apply snap_of_beat_ssim; [exact Hm|exact Hb0|rewrite <- M4; exact Hb1|].
      rewrite E1. unfold abs_beat. rewrite Wm, M4. ring.
    - apply forallb_forall. intros p Hpi. destruct (forall2_in_l _ _ _ _ Hin Hpi) as [r [_ [Hr [_ [_ E]]]]].
      rewrite forallb_forall in D5. specialize (D5 r Hr). apply Qlt_bool_iff. apply Qlt_bool_iff in D5. rewrite E. exact D5.
  Qed.

  (* ---- integration over an equivalent script ---- *)
  Lemma snap_le_ssim2 a a' q q' : ssim a a' -> ssim q q' -> snap_le a q = snap_le a' q'.
  Proof.
    intros Ha Hq. destruct (snap_le a q) eqn:E.
    - symmetry. apply snap_le_iff. apply snap_le_iff in E. apply (sle_ssim a a' q q' Ha Hq E).
    - destruct (snap_le a' q') eqn:E'; [|reflexivity]. apply snap_le_iff in E'.
      assert (sle a q).
      { apply (sle_ssim a' a q' q); [destruct Ha; split; [auto|symmetry; auto]|destruct Hq; split; [auto|symmetry; auto]|exact E']. }
      apply snap_le_iff in H. congruence.
  Qed.
  Lemma beat_len_comp a b : a == b -> beat_len a == beat_len b.
  Proof. intro E. unfold beat_len. rewrite E. reflexivity. Qed.
  Lemma seg_eqv c c' q q' : bcs_eqv c' c -> ssim q' q ->
    beat_len (bs_bpm c') * seg_beats (bs_met c') (bs_snap c') q' == beat_len (bs_bpm c) * seg_beats (bs_met c) (bs_snap c) q.
  Proof.
    intros [E1 [E2 E3]] Hq. rewrite (beat_len_comp _ _ E1), (seg_beats_ssim (bs_met c') _ _ _ _ E3 Hq).
    unfold seg_beats. rewrite E2. reflexivity.
  Qed.
  Lemma time_of_go_eqv rest rest' : Forall2 bcs_eqv rest' rest -> forall t t' c c' q q', t' == t -> bcs_eqv c' c -> ssim q' q ->
    time_of_go t' c' rest' q' == time_of_go t c rest q.
  Proof.
    induction 1 as [|n' n rest' rest Hn _ IH]; intros t t' c c' q q' Et Hc Hq; cbn [time_of_go].
    - rewrite Et, (seg_eqv c c' q q' Hc Hq). reflexivity.
    - pose proof Hn as [N1 [N2 N3]].
      rewrite (snap_le_ssim2 _ _ _ _ N3 Hq). destruct (snap_le (bs_snap n) q).
      + apply IH; [|exact Hn|exact Hq]. rewrite Et, (seg_eqv c c' _ _ Hc N3). reflexivity.
      + rewrite Et, (seg_eqv c c' q q' Hc Hq). reflexivity.
  Qed.
  Lemma time_of_eqv script beat0 q q' : Forall2 bcs_eqv script l -> beat0 == init -> ssim q' q ->
    time_of beat0 script q' == time_of init l q.
  Proof.
    intros F E Hq. destruct F as [|c' c rest' rest Hc F]; [reflexivity|]. cbn [time_of]. apply time_of_go_eqv; assumption.
  Qed.

  (* the reference time of a written beat x that equals the writer's beat b of an object at time o is o *)
  Theorem beat_time_exact script beat0 o b x : Forall2 bcs_eqv script l -> beat0 == init -> beat_fact o b -> x == b ->
    beat_time beat0 script x == o.
  Proof.
    intros F E [s [Eb [Hm [H0 [H4 Et]]]]] Ex. unfold beat_time. rewrite Qred_correct, <- Et.
    apply time_of_eqv; [exact F|exact E|]. apply snap_of_beat_ssim; [exact Hm|exact H0|exact H4|]. rewrite Ex. exact Eb.
  Qed.

  (* the first change of the re-derived script is at measure 0 beat 0 *)
  Lemma script_first_ok script : Forall2 bcs_eqv script l ->
    match script with c :: _ => Qeq_bool (s_b (bs_snap c)) 0 && (s_m (bs_snap c) =? 0)%Z | [] => false end = true.
  Proof.
    destruct tdom_parts as (D1 & _). destruct (domainb_nil_sound tbl l D1) as [c0 [rest [El [_ [Hm0 [Hb0 _]]]]]].
    intro F. rewrite El in F. inversion F as [|c' c1 r' r1 [_ [_ [S1 S2]]] _]; subst.
    apply andb_true_iff. split; [apply Qeq_bool_iff; rewrite S2; exact Hb0|apply Z.eqb_eq; rewrite S1; exact Hm0].
  Qed.
End Tempo.

(* ---------------------------------------------------------------- the spec beat respects equality of times *)
Lemma Qle_bool_comp_r a x y : x == y -> Qle_bool a x = Qle_bool a y.
Proof.
  intro E. destruct (Qle_bool a x) eqn:H.
  - symmetry. apply Qle_bool_iff. apply Qle_bool_iff in H. rewrite <- E. exact H.
  - destruct (Qle_bool a y) eqn:H2; [|reflexivity]. apply Qle_bool_iff in H2. rewrite <- E in H2. apply Qle_bool_iff in H2. congruence.
Qed.
Lemma beats_at_go_comp rest : forall acc cur o o', o == o' -> beats_at_go acc cur rest o == beats_at_go acc cur rest o'.
Proof.
  induction rest as [|n rest IH]; intros acc cur o o' E; cbn [beats_at_go].
  - rewrite E. reflexivity.
  - rewrite (Qle_bool_comp_r (fst n) o o' E). destruct (Qle_bool (fst n) o'); [apply IH; exact E|rewrite E; reflexivity].
Qed.
Lemma spec_beat_comp init l o o' : o == o' -> spec_beat init l o = spec_beat init l o'.
Proof.
  intro E. unfold spec_beat. apply Qred_complete. unfold beats_at. destruct (combine (change_times init l) l) as [|c rest]; [reflexivity|].
  apply beats_at_go_comp. exact E.
Qed.
