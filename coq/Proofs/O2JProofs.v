(* Proofs for C07 (O2Jam .ojn reading). *)
From Coq Require Import ZArith QArith Qround Qabs List Bool Lia Lqa Permutation Setoid Morphisms.
From RV Require Import Base.PyNum Base.Bytes Formats.O2J Formats.O2JSpec Generated.Tables.
Import ListNotations.
Open Scope Q_scope.

(* ================================================================== 1. the repaired sweep = integration *)

Lemma Qeq_bool_false_neq a b : Qeq_bool a b = false -> ~ a == b.
Proof. intros H E. apply Qeq_bool_iff in E. congruence. Qed.

Lemma qdiv_opt_some a b : ~ b == 0 -> qdiv_opt a b = Some (a / b).
Proof.
  intro H. unfold qdiv_opt. destruct (Qeq_bool b 0) eqn:E; auto.
  apply Qeq_bool_iff in E. contradiction.
Qed.

(* one segment, as the code computes it and as the specification states it *)
Lemma segment_eq (p1 p0 b : Q) : ~ b == 0 ->
  min_to_msec ((p1 - p0) * 4 / b) == (p1 - p0) * 4 * beat_ms b.
Proof. intro H. unfold min_to_msec, beat_ms. field. exact H. Qed.
Lemma segment_eq' (p p0 b : Q) : ~ b == 0 ->
  min_to_msec (4 * (p - p0) / b) == (p - p0) * 4 * beat_ms b.
Proof. intro H. unfold min_to_msec, beat_ms. field. exact H. Qed.

(* ojn_time_go respects == in every rational argument *)
Lemma Qle_bool_compat a a' b b' : a == a' -> b == b' -> Qle_bool a b = Qle_bool a' b'.
Proof.
  intros Ha Hb. destruct (Qle_bool a b) eqn:E1, (Qle_bool a' b') eqn:E2; auto.
  - apply Qle_bool_iff in E1. rewrite Ha, Hb in E1. apply Qle_bool_iff in E1. congruence.
  - apply Qle_bool_iff in E2. rewrite <- Ha, <- Hb in E2. apply Qle_bool_iff in E2. congruence.
Qed.

Lemma beat_ms_compat b b' : b == b' -> beat_ms b == beat_ms b'.
Proof. intro H. unfold beat_ms. rewrite H. reflexivity. Qed.

Lemma ojn_time_go_compat tempos : forall t t' p0 p0' b b' p p',
  t == t' -> p0 == p0' -> b == b' -> p == p' ->
  ojn_time_go t p0 b tempos p == ojn_time_go t' p0' b' tempos p'.
Proof.
  induction tempos as [|[p1 b1] rest IH]; intros t t' p0 p0' b b' p p' Ht Hp0 Hb Hp; cbn [ojn_time_go].
  - rewrite Ht, Hp0, Hp, (beat_ms_compat _ _ Hb). reflexivity.
  - rewrite (Qle_bool_compat p1 p1 p p' (Qeq_refl _) Hp).
    destruct (Qle_bool p1 p').
    + apply IH; try reflexivity; auto. rewrite Ht, Hp0, (beat_ms_compat _ _ Hb). reflexivity.
    + rewrite Ht, Hp0, Hp, (beat_ms_compat _ _ Hb). reflexivity.
Qed.

Definition bpms_nonzero (l : list (Q * Q)) : Prop := Forall (fun t => ~ snd t == 0) l.

(* ---- specification side: the integration state after a prefix of tempo events ---- *)
Definition step3 (st : Q * Q * Q) (x : Q * Q) : Q * Q * Q :=
  let '(t, p, b) := st in (t + (fst x - p) * 4 * beat_ms b, fst x, snd x).
Definition run (st : Q * Q * Q) (pre : list (Q * Q)) : Q * Q * Q := fold_left step3 pre st.
Definition go3 (st : Q * Q * Q) (rest : list (Q * Q)) (p : Q) : Q :=
  let '(t, p0, b) := st in ojn_time_go t p0 b rest p.

Lemma split_time pre : forall st rest p, Forall (fun x => fst x <= p) pre ->
  go3 st (pre ++ rest) p = go3 (run st pre) rest p.
Proof.
  induction pre as [|[p1 b1] pre IH]; intros [[t p0] b] rest p H; [reflexivity|].
  inversion H as [|? ? H1 H2]; subst. cbn [fst] in H1. apply Qle_bool_iff in H1.
  cbn [app go3 ojn_time_go]. rewrite H1. unfold run. cbn [fold_left step3 fst snd].
  apply (IH (t + (p1 - p0) * 4 * beat_ms b, p1, b1) rest p H2).
Qed.

(* running times of the tempo events themselves *)
Fixpoint times_go (st : Q * Q * Q) (l : list (Q * Q)) : list Q :=
  match l with
  | [] => []
  | x :: r => let st' := step3 st x in fst (fst st') :: times_go st' r
  end.

Lemma times_go_app st pre x : times_go st (pre ++ [x]) = times_go st pre ++ [fst (fst (run st (pre ++ [x])))].
Proof.
  revert st; induction pre as [|y pre IH]; intro st; cbn [app times_go].
  - reflexivity.
  - rewrite IH. reflexivity.
Qed.

Lemma run_app st pre x : run st (pre ++ [x]) = step3 (run st pre) x.
Proof. unfold run. rewrite fold_left_app. reflexivity. Qed.

(* ---- model side ---- *)
Definition here (s : sweep) (nm : Q) : Q := sw_offset s + min_to_msec (4 * (nm - sw_measure s) / sw_bpm s).

Section Sweep.
Variable init : Q.
Variable bpms : list (Q * Q).
Hypothesis init_nz : ~ init == 0.
Hypothesis bpms_nz : bpms_nonzero bpms.

Definition st0 : Q * Q * Q := (0, 0, init).
Definition time_at (p : Q) : Q := ojn_time init bpms p.

(* the model state s has consumed exactly the prefix pre *)
Definition Reach (s : sweep) (pre : list (Q * Q)) : Prop :=
  bpms = pre ++ sw_rest s
  /\ (let '(t, p, b) := run st0 pre in sw_offset s == t /\ sw_measure s = p /\ sw_bpm s = b)
  /\ Forall2 Qeq (sw_done s) (times_go st0 pre).

Lemma run_bpm_nz pre rest : bpms = pre ++ rest -> ~ snd (run st0 pre) == 0.
Proof.
  intro E. assert (Hp : bpms_nonzero pre).
  { unfold bpms_nonzero in *. rewrite E in bpms_nz. apply Forall_app in bpms_nz. tauto. }
  clear E. revert Hp. pattern pre. apply rev_ind.
  - intros _. exact init_nz.
  - intros x l IH H. apply Forall_app in H as [Hl Hx]. rewrite run_app.
    destruct (run st0 l) as [[t p] b]. cbn [step3 snd]. inversion Hx; auto.
Qed.

Lemma Reach_bpm_nz s pre : Reach s pre -> ~ sw_bpm s == 0.
Proof.
  intros (E & H & _). pose proof (run_bpm_nz pre _ E) as N.
  destruct (run st0 pre) as [[t p] b]. destruct H as (_ & _ & ->). exact N.
Qed.

Lemma Reach_advance s pre bm bv rest' : Reach s pre -> sw_rest s = (bm, bv) :: rest' ->
  exists s', advance s bm bv rest' = Some s' /\ Reach s' (pre ++ [(bm, bv)]) /\ sw_rest s' = rest'.
Proof.
  intros R Hr. pose proof (Reach_bpm_nz _ _ R) as Nz. destruct R as (E & H & D).
  unfold advance. rewrite (qdiv_opt_some _ _ Nz). eexists; split; [reflexivity|]. split; [|reflexivity].
  unfold Reach. cbn [sw_rest sw_offset sw_measure sw_bpm sw_done]. split; [|split].
  - rewrite E, Hr, <- app_assoc. reflexivity.
  - rewrite run_app. destruct (run st0 pre) as [[t p] b]. destruct H as (Ho & Hm & Hb).
    cbn [step3 fst snd]. repeat split; auto.
    rewrite Qred_correct, (segment_eq _ _ _ Nz), Ho, Hm, Hb. reflexivity.
  - rewrite times_go_app. apply Forall2_app; [exact D|]. constructor; [|constructor].
    rewrite run_app. destruct (run st0 pre) as [[t p] b]. destruct H as (Ho & Hm & Hb).
    cbn [step3 fst snd]. rewrite Qred_correct, (segment_eq _ _ _ Nz), Ho, Hm, Hb. reflexivity.
Qed.

Definition le_all (pre : list (Q * Q)) (p : Q) : Prop := Forall (fun x => fst x <= p) pre.

(* when the next tempo event (if any) is after nm, the model's time for nm is the integral *)
Lemma here_is_time s pre nm : Reach s pre -> le_all pre nm ->
  (match sw_rest s with [] => True | (bm, _) :: _ => Qle_bool bm nm = false end) ->
  here s nm == time_at nm.
Proof.
  intros R Hle Hn. pose proof (Reach_bpm_nz _ _ R) as Nz. destruct R as (E & H & _).
  unfold time_at, ojn_time. change (ojn_time_go 0 0 init bpms nm) with (go3 st0 bpms nm).
  rewrite E, (split_time pre st0 (sw_rest s) nm Hle).
  destruct (run st0 pre) as [[t p] b]. destruct H as (Ho & Hm & Hb). unfold here, go3.
  rewrite (segment_eq' _ _ _ Nz), Ho, Hm, Hb.
  destruct (sw_rest s) as [|[bm bv] r]; cbn [ojn_time_go]; [reflexivity|]. rewrite Hn. reflexivity.
Qed.

Lemma while_fixed_spec rest : forall nm s pre, sw_rest s = rest -> Reach s pre -> le_all pre nm ->
  exists s1 pre1, while_fixed rest nm s = Some s1 /\ Reach s1 pre1 /\ le_all pre1 nm
    /\ here s1 nm == time_at nm.
Proof.
  induction rest as [|[bm bv] rest' IH]; intros nm s pre Hr R Hle.
  - exists s, pre. cbn [while_fixed]. split; [reflexivity|]. split; [exact R|]. split; [exact Hle|].
    apply (here_is_time s pre nm R Hle). rewrite Hr. exact I.
  - cbn [while_fixed]. destruct (Qle_bool bm nm) eqn:E.
    + destruct (Reach_advance s pre bm bv rest' R Hr) as (s' & Ha & R' & Hr').
      rewrite Ha. apply (IH nm s' (pre ++ [(bm, bv)]) Hr' R').
      apply Forall_app; split; auto. constructor; [|constructor]. apply Qle_bool_iff. exact E.
    + exists s, pre. split; [reflexivity|]. split; [exact R|]. split; [exact Hle|].
      apply (here_is_time s pre nm R Hle). rewrite Hr. exact E.
Qed.

Fixpoint sorted_q (l : list Q) : Prop :=
  match l with
  | [] => True
  | x :: r => Forall (fun y => x <= y) r /\ sorted_q r
  end.

Definition dict_ok (dict : list (Q * Q)) : Prop := Forall (fun kv => snd kv == time_at (fst kv)) dict.

Lemma sweep_fixed_spec nms : forall s pre dict,
  sorted_q nms -> Reach s pre -> (forall nm, In nm nms -> le_all pre nm) -> dict_ok dict ->
  exists s1 pre1 dict', sweep_fixed nms s dict = Some (s1, dict') /\ Reach s1 pre1
    /\ dict_ok dict' /\ map fst dict' = map fst dict ++ nms.
Proof.
  induction nms as [|nm r IH]; intros s pre dict Hs R Hle Hd.
  - exists s, pre, dict. cbn [sweep_fixed]. rewrite app_nil_r. auto.
  - cbn [sweep_fixed].
    destruct (while_fixed_spec (sw_rest s) nm s pre eq_refl R (Hle nm (or_introl eq_refl)))
      as (s1 & pre1 & Hw & R1 & Hle1 & Hh).
    rewrite Hw. rewrite (qdiv_opt_some _ _ (Reach_bpm_nz _ _ R1)).
    destruct Hs as [Hhd Hs'].
    destruct (IH s1 pre1 (dict ++ [(nm, Qred (sw_offset s1 + min_to_msec (4 * (nm - sw_measure s1) / sw_bpm s1)))]) Hs' R1)
      as (s2 & pre2 & dict2 & Hsw & R2 & Hd2 & Hk).
    + intros nm' Hin. rewrite Forall_forall in Hhd. specialize (Hhd nm' Hin).
      unfold le_all in *. eapply Forall_impl; [|exact Hle1]. intros a Ha. cbn beta in Ha. apply Qle_trans with nm; auto.
    + apply Forall_app; split; auto. constructor; [|constructor]. cbn [fst snd]. rewrite Qred_correct. exact Hh.
    + exists s2, pre2, dict2. split; [exact Hsw|]. split; [exact R2|]. split; [exact Hd2|].
      rewrite Hk, map_app, <- app_assoc. reflexivity.
Qed.

Lemma tail_fixed_spec rest : forall s pre, sw_rest s = rest -> Reach s pre ->
  exists s2, tail_fixed rest s = Some s2 /\ Reach s2 bpms /\ sw_rest s2 = [].
Proof.
  induction rest as [|[bm bv] rest' IH]; intros s pre Hr R.
  - exists s. cbn [tail_fixed]. split; auto. split; auto.
    destruct R as (E & H). rewrite Hr, app_nil_r in E. subst pre. split; auto. rewrite Hr, app_nil_r; reflexivity.
  - cbn [tail_fixed]. destruct (Reach_advance s pre bm bv rest' R Hr) as (s' & Ha & R' & Hr').
    rewrite Ha. apply (IH s' _ Hr' R').
Qed.

(* the whole repaired sweep: every note measure gets the integral, every tempo event its running time *)
Theorem fixed_sweep_correct nms :
  sorted_q nms ->
  exists s dict s2,
    sweep_fixed nms (mkSweep 0 0 init bpms [] None) [] = Some (s, dict)
    /\ tail_fixed (sw_rest s) s = Some s2
    /\ dict_ok dict /\ map fst dict = nms
    /\ Forall2 Qeq (sw_done s2) (times_go st0 bpms).
Proof.
  intro Hs.
  assert (R0 : Reach (mkSweep 0 0 init bpms [] None) []).
  { unfold Reach. cbn [sw_rest sw_offset sw_measure sw_bpm sw_done app run st0 fold_left times_go].
    split; [reflexivity|]. split; [|constructor]. split; [reflexivity|]. split; reflexivity. }
  destruct (sweep_fixed_spec nms _ [] [] Hs R0) as (s & pre & dict & Hsw & R & Hd & Hk).
  - intros; constructor.
  - constructor.
  - destruct (tail_fixed_spec (sw_rest s) s pre eq_refl R) as (s2 & Ht & R2 & _).
    exists s, dict, s2. repeat split; auto. destruct R2 as (_ & _ & D). exact D.
Qed.

End Sweep.

(* ---- specification side: the running time of a tempo event is the integral at its own position,
        when the tempo events are sorted by position ---- *)
Fixpoint sorted_pos (lo : Q) (l : list (Q * Q)) : Prop :=
  match l with [] => True | x :: r => lo <= fst x /\ sorted_pos (fst x) r end.

Lemma stay_put rest : forall t p0 b p, p0 == p -> sorted_pos p rest -> ojn_time_go t p0 b rest p == t.
Proof.
  induction rest as [|[p1 b1] rest IH]; intros t p0 b p E S; cbn [ojn_time_go].
  - rewrite E. unfold Qminus. rewrite Qplus_opp_r. ring.
  - destruct S as [S1 S2]. cbn [fst] in *. destruct (Qle_bool p1 p) eqn:L.
    + apply Qle_bool_iff in L. assert (E1 : p1 == p) by (apply Qle_antisym; auto).
      rewrite IH; auto.
      * rewrite E1, E. unfold Qminus. rewrite Qplus_opp_r. ring.
      * clear - S2 E1. revert S2. destruct rest as [|y r]; cbn; auto. intros [A B]. split; auto. rewrite <- E1. exact A.
    + rewrite E. unfold Qminus. rewrite Qplus_opp_r. ring.
Qed.

Lemma sorted_pos_weaken lo lo' l : lo' <= lo -> sorted_pos lo l -> sorted_pos lo' l.
Proof. destruct l; cbn; auto. intros H [A B]. split; auto. apply Qle_trans with lo; auto. Qed.

Lemma sorted_pos_all_ge lo l : sorted_pos lo l -> Forall (fun x => lo <= fst x) l.
Proof.
  revert lo; induction l as [|x r IH]; intros lo S; constructor.
  - destruct S; auto.
  - destruct S as [A B]. specialize (IH _ B). eapply Forall_impl; [|exact IH].
    intros a Ha. cbn beta in Ha. apply Qle_trans with (fst x); auto.
Qed.

Lemma Forall2_impl_in {A B} (R1 R2 : A -> B -> Prop) (Pb : B -> Prop) l1 l2 :
  (forall a b, Pb b -> R1 a b -> R2 a b) -> Forall2 R1 l1 l2 -> Forall Pb l2 -> Forall2 R2 l1 l2.
Proof. intros H F; induction F; intro G; inversion G; subst; constructor; auto. Qed.

Theorem tempo_time_is_integral l : forall t p0 b, sorted_pos p0 l ->
  Forall2 (fun tm x => tm == ojn_time_go t p0 b l (fst x)) (times_go (t, p0, b) l) l.
Proof.
  induction l as [|[p1 b1] r IH]; intros t p0 b S; cbn [times_go]; constructor.
  - cbn [step3 fst snd ojn_time_go]. rewrite (proj2 (Qle_bool_iff p1 p1) (Qle_refl _)).
    destruct S as [_ S2]. cbn [fst] in S2. rewrite stay_put; auto; reflexivity.
  - destruct S as [S1 S2]. cbn [fst] in *. specialize (IH (t + (p1 - p0) * 4 * beat_ms b) p1 b1 S2).
    cbn [step3 fst snd].
    pose proof (sorted_pos_all_ge _ _ S2) as G.
    eapply Forall2_impl_in; [|exact IH|exact G].
    intros tm x Hx H1. cbn beta in *. cbn [ojn_time_go]. rewrite (proj2 (Qle_bool_iff _ _) Hx). exact H1.
Qed.

(* ================================================================== 2. the oracle is sound *)
Lemma remove_first_perm {A} (p : A -> bool) l l' : remove_first p l = Some l' ->
  exists x, p x = true /\ Permutation l (x :: l').
Proof.
  revert l'; induction l as [|y r IH]; intros l' H; [discriminate|].
  cbn [remove_first] in H. destruct (p y) eqn:E.
  - injection H as <-. exists y. split; auto.
  - destruct (remove_first p r) as [r'|] eqn:E'; [|discriminate]. injection H as <-.
    destruct (IH r' eq_refl) as (x & Hx & Hp). exists x. split; auto.
    apply perm_trans with (y :: x :: r'); [apply perm_skip; exact Hp|apply perm_swap].
Qed.

Lemma ms_match_sound {A} (close : A -> A -> bool) a : forall b,
  ms_match close a b = true -> rows_match (fun x y => close x y = true) a b.
Proof.
  induction a as [|x a' IH]; intros b H; cbn [ms_match] in H.
  - destruct b; [|discriminate]. exists []. split; constructor.
  - destruct (remove_first (close x) b) as [b'|] eqn:E; [|discriminate].
    destruct (remove_first_perm _ _ _ E) as (y & Hy & Hp).
    destruct (IH b' H) as (b'' & Hp' & F).
    exists (y :: b''). split; [|constructor; auto].
    apply perm_trans with (y :: b'); auto.
Qed.

Lemma maps_close_sound tol a : forall b, maps_close tol a b = true -> Forall2 (map_matches tol) a b.
Proof.
  induction a as [|x a' IH]; intros [|y b'] H; cbn in H; try discriminate; constructor.
  - unfold map_close, map_close_gen in H. repeat (apply andb_true_iff in H as [H ?]).
    repeat split; apply ms_match_sound; auto.
  - apply IH. apply andb_true_iff in H as [_ H]. exact H.
Qed.

Theorem specb_sound tol f out : specb tol f out = true -> OjnSpec tol f out.
Proof.
  unfold specb, OjnSpec. destruct (ojn_denote f) as [d|]; [|discriminate].
  destruct out as [o|]; [|discriminate]. intro H. exists d, o. split; auto. split; auto.
  unfold oset_close in H. apply andb_true_iff in H as [H1 H2]. split; auto.
  apply maps_close_sound. exact H2.
Qed.

(* ================================================================== 3. witnesses: the pinned tree *)
(* a header (bpm 120) followed by the given packages of the first difficulty *)
Definition w_hdr : fhdr :=
  mkFHdr 7 [111; 106; 110]%Z 1077516698 2 1123024896 [1; 2; 3; 0]%Z [0; 0; 0]%Z [0; 0; 0]%Z [0; 0; 0]%Z
         29 7 [] 0 0 [116]%Z [97]%Z [110]%Z [120]%Z 0 [0; 0; 0]%Z [300; 300; 300]%Z 300.
Definition tap : list Z := [1; 0; 0; 0]%Z.
Definition head_ : list Z := [1; 0; 0; 2]%Z.
Definition tail_ : list Z := [1; 0; 0; 3]%Z.
Definition f32_240 : list Z := [0; 0; 112; 67]%Z.
Definition f32_60 : list Z := [0; 0; 112; 66]%Z.

(* tempo 240 at measure 1; taps at measures 0 and 2 *)
Definition w_sweep : ofile :=
  mkFile w_hdr [[mkPkg 1 1 1 [(0, f32_240)]; mkPkg 0 2 1 [(0, tap)]; mkPkg 2 2 1 [(0, tap)]]; []; []]%Z.
(* no tempo event, one tap *)
Definition w_notempo : ofile := mkFile w_hdr [[mkPkg 1 2 1 [(0, tap)]]; []; []]%Z.
(* tempo at measure 0 slot 0; taps at measures 1 and 2 *)
Definition w_tempo0 : ofile :=
  mkFile w_hdr [[mkPkg 0 1 1 [(0, f32_240)]; mkPkg 1 2 1 [(0, tap)]; mkPkg 2 2 1 [(0, tap)]]; []; []]%Z.
(* tempo 60 at measure 0: long note from measure 0 to 1/3 of measure 1: 4000 + 1333.33 ms, head offset 0 *)
Definition w_trunc : ofile :=
  mkFile w_hdr [[mkPkg 0 1 1 [(0, f32_60)]; mkPkg 0 2 1 [(0, head_)]; mkPkg 1 2 3 [(1, tail_)]]; []; []]%Z.

Theorem ojn_tempo_times_refuted :
  wf_file w_sweep = true /\ exists o, read_old (encode_file w_sweep) = Some o /\ specb 0 w_sweep (Some o) = false
  /\ map om_bpms (os_maps o) = [[mkBpm 0 120; mkBpm 0 240]; [mkBpm 0 120]; [mkBpm 0 120]]
  /\ map om_hits (os_maps o) = [[mkHit 0 0 0 0; mkHit 0 4000 0 0]; []; []].
Proof. split; [vm_compute; reflexivity|]. eexists. split; [vm_compute; reflexivity|]. vm_compute. auto. Qed.

Theorem ojn_no_tempo_event_refuted :
  wf_file w_notempo = true /\ read_old (encode_file w_notempo) = None /\ ojn_denote w_notempo <> None.
Proof. split; [vm_compute; reflexivity|]. split; [vm_compute; reflexivity|]. vm_compute. discriminate. Qed.

Theorem ojn_tempo_at_measure_0_refuted :
  wf_file w_tempo0 = true /\ read_old (encode_file w_tempo0) = None /\ ojn_denote w_tempo0 <> None.
Proof. split; [vm_compute; reflexivity|]. split; [vm_compute; reflexivity|]. vm_compute. discriminate. Qed.

Theorem ojn_hold_length_refuted :
  wf_file w_trunc = true
  /\ (exists o, read_with true true (encode_file w_trunc) = Some o /\ specb (1 # 1000000) w_trunc (Some o) = false
        /\ map om_holds (os_maps o) = [[mkHold 0 0 5333 0 0]; []; []])
  /\ (exists o, read_fixed (encode_file w_trunc) = Some o /\ specb 0 w_trunc (Some o) = true
        /\ map om_holds (os_maps o) = [[mkHold 0 0 (16000 # 3) 0 0]; []; []]).
Proof.
  split; [vm_compute; reflexivity|]. split.
  - eexists. split; [vm_compute; reflexivity|]. vm_compute. auto.
  - eexists. split; [vm_compute; reflexivity|]. vm_compute. auto.
Qed.

(* the repaired reader is right on all four witnesses *)
Theorem ojn_fixed_on_witnesses :
  forallb (fun f => wf_file f && specb 0 f (read_fixed (encode_file f))) [w_sweep; w_notempo; w_tempo0; w_trunc] = true.
Proof. vm_compute. reflexivity. Qed.

(* guarded form for the pinned tree: a difficulty without notes is read without error and every tempo
   point is put at 0 ms -- which is right exactly when every tempo event sits at position 0 (stay_put) *)
Lemma insert_by_Forall {A} (P : A -> Prop) key x l : P x -> Forall P l -> Forall P (insert_by key x l).
Proof.
  intros Hx H; induction H as [|y r Hy Hr IH]; cbn [insert_by]; [repeat constructor; auto|].
  destruct (Qle_bool (key x) (key y)); repeat constructor; auto.
Qed.
Lemma sort_by_Forall {A} (P : A -> Prop) key l : Forall P l -> Forall P (sort_by key l).
Proof. intro H; induction H; cbn; [constructor|apply insert_by_Forall; auto]. Qed.
Lemma bpm_rows_nil_zero l : Forall (fun r => b_off r = 0) (bpm_rows l []).
Proof. induction l as [|[m b] r IH]; cbn; constructor; auto. Qed.

Theorem ojn_old_guarded_no_notes pkgs init :
  Forall (fun e => is_bpm e = true) (concat pkgs) ->
  exists rows, read_pkgs_old pkgs init = Some (mkOMap [] [] (mkBpm 0 init :: rows))
    /\ Forall (fun r => b_off r = 0) rows.
Proof.
  intro H. unfold read_pkgs_old, read_pkgs_with.
  assert (E1 : existsb (fun e => match e with EMeasureChange => true | _ => false end) (concat pkgs) = false).
  { induction H as [|e r He Hr IH]; cbn; auto. destruct e; try discriminate; auto. }
  rewrite E1.
  pose proof (sort_by_Forall _ key_of _ H) as Hs.
  assert (E2 : filter (fun e => negb (is_bpm e)) (sort_by key_of (concat pkgs)) = []).
  { induction Hs as [|e r He Hr IH]; cbn; auto. rewrite He. cbn. exact IH. }
  rewrite E2. cbn [note_measures_of flat_map sort_by fold_right dedup_adj sweep_old assign_notes sw_done].
  eexists. split; [reflexivity|]. apply bpm_rows_nil_zero.
Qed.
