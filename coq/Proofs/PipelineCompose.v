(* C09 — END-TO-END composition through the generated converter descriptions (C08's conv_chart / conv_run over
   Tables.convert), for the pairs whose reader and writer whole-file theorems exist.

   The common currency is [rows]: the hits (offset, column), long notes (offset, column, length) and tempo points
   (offset, bpm) of one chart.
     reader side   rows_of_<A> : the rows of the chart the reader MODEL of A returns; lemma: their timeline is the
                   timeline the source FILE denotes (from the whole-file reader theorem of C01 / C06 / C07 ...);
     converter     any frame-level chart cs (Convert/Converters.v) that carries those rows - whatever its other columns,
                   row labels, other lists and metadata - is converted by a description d with conv_okb d (every shipped
                   one: C08_all_shipped_converters_ok) inside the converter's domain chart_wfb into a chart carrying
                   the same rows, the note column moved by the converter's shift argument (from C08_converter_preserves);
     writer side   build_<B> r p : the chart of game B with rows r and arbitrary other attributes p; lemma: inside the
                   writer's domain the writer MODEL of B produces a well-formed file whose timeline is within B's
                   resolution of the rows (from the whole-file writer theorem of C01 / C06 / C03 / C05).
   What is NOT composed: the metadata path (the converter's metadata assignments are C08's subject; here the chart handed
   to the writer has the converted ROWS and any other attributes for which it lies in the writer's domain). *)
From Coq Require Import String ZArith QArith Qround Qabs List Bool Permutation Lia Lqa.
From RV Require Import Base.PyNum Formats.Timeline Proofs.PipelineProofs.
From RV Require Import Frame.Frame Convert.Cast Map.StackerSpec Generated.Tables Convert.Converters Proofs.CastProofs
  Proofs.ConvertersProofs.
Import ListNotations.
Open Scope Q_scope.

(* ================================================================== rows *)
Record rows := mkRows { r_hits : list (Q * Z); r_holds : list (Q * Z * Q); r_bpms : list (Q * Q) }.

Definition tl_of_rows (r : rows) : timeline :=
  mkTL (map (fun h : Q * Z => mkTN false (snd h) (fst h) 0) (r_hits r)
        ++ map (fun h : Q * Z * Q => mkTN true (snd (fst h)) (fst (fst h)) (snd h)) (r_holds r))
       (r_bpms r).
Definition shift_rows (s : Z) (r : rows) : rows :=
  mkRows (map (fun h : Q * Z => (fst h, (snd h + s)%Z)) (r_hits r))
         (map (fun h : Q * Z * Q => (fst (fst h), (snd (fst h) + s)%Z, snd h)) (r_holds r)) (r_bpms r).
Lemma tl_of_shift_rows s r : tl_of_rows (shift_rows s r) = tl_shift s (tl_of_rows r).
Proof.
  unfold tl_of_rows, shift_rows, tl_shift. cbn [r_hits r_holds r_bpms tl_notes tl_tempo]. f_equal.
  rewrite map_app, !map_map. reflexivity.
Qed.

(* ---- the rows a frame-level chart carries ---- *)
Fixpoint num_cells (vs : list cell) : option (list Q) :=
  match vs with
  | [] => Some []
  | CNum q :: vs' => option_map (cons q) (num_cells vs')
  | _ => None
  end.
Definition col_nums (f : frame) (c : Z) : option (list Q) :=
  match col_vals f c with Some vs => num_cells vs | None => None end.
Definition rows_of_cchart (cs : chart) : option rows :=
  match assocZ L_HITS (c_lists cs), assocZ L_HOLDS (c_lists cs), assocZ L_BPMS (c_lists cs) with
  | Some fh, Some fl, Some fb =>
      match col_nums fh COL_OFFSET, col_nums fh COL_COLUMN, col_nums fl COL_OFFSET, col_nums fl COL_COLUMN,
            col_nums fl COL_LENGTH, col_nums fb COL_OFFSET, col_nums fb COL_BPM with
      | Some ho, Some hc, Some lo, Some lc, Some ll, Some bo, Some bb =>
          Some (mkRows (combine ho (map Qfloor hc)) (combine (combine lo (map Qfloor lc)) ll) (combine bo bb))
      | _, _, _, _, _, _, _ => None
      end
  | _, _, _ => None
  end.

(* the simplest chart carrying given rows (for non-vacuity; the theorems quantify over ALL charts carrying them) *)
Definition cchart_of_rows (r : rows) (others : list (Z * frame)) (m : meta) : chart :=
  mkChart ([(L_HITS, mkFrame [COL_OFFSET; COL_COLUMN]
                       (map (fun h : Q * Z => (0%Z, [CNum (fst h); CNum (inject_Z (snd h))])) (r_hits r)));
            (L_HOLDS, mkFrame [COL_OFFSET; COL_COLUMN; COL_LENGTH]
                        (map (fun h : Q * Z * Q => (0%Z, [CNum (fst (fst h)); CNum (inject_Z (snd (fst h))); CNum (snd h)])) (r_holds r)));
            (L_BPMS, mkFrame [COL_OFFSET; COL_BPM] (map (fun b : Q * Q => (0%Z, [CNum (fst b); CNum (snd b)])) (r_bpms r)))]
           ++ others) m.

(* ================================================================== the converter carries the rows *)
Lemma num_cells_map_shift sh vs qs : num_cells vs = Some qs ->
  num_cells (map (shift_cell sh) vs) = Some (map (fun x => Qred (x + sh)) qs).
Proof.
  revert qs. induction vs as [|v vs IH]; intros qs H; cbn in *.
  - inversion H; reflexivity.
  - destruct v; try discriminate. destruct (num_cells vs) as [qs'|]; [|discriminate]. inversion H; subst.
    cbn. rewrite (IH _ eq_refl). reflexivity.
Qed.
Lemma Qfloor_shift x sz : Qfloor (Qred (x + inject_Z sz)) = (Qfloor x + sz)%Z.
Proof. rewrite (Qfloor_comp _ _ (Qred_correct _)). apply Qfloor_add_Z. Qed.

Definition conv_shift (d : conv_desc) (sz : Z) : Z := if has_shift d then sz else 0%Z.

Lemma col_nums_preserved d a src out L cols c qs fs :
  list_preserved d a src out L cols -> In c cols -> assocZ L (c_lists src) = Some fs -> col_nums fs c = Some qs ->
  exists fo, assocZ L (c_lists out) = Some fo /\
    exists vs, col_vals fs c = Some vs /\ col_vals fo c = Some (carry d a c vs).
Proof.
  intros [fs' [fo [A1 [A2 [_ H]]]]] Hin As _. rewrite As in A1. inversion A1; subst fs'.
  exists fo. split; [exact A2|]. apply H. exact Hin.
Qed.

Theorem conv_carries_rows d a sm k src oracle out r sz :
  chart_preserved d a sm k src oracle out -> a_shift a = inject_Z sz ->
  rows_of_cchart src = Some r -> rows_of_cchart out = Some (shift_rows (conv_shift d sz) r).
Proof.
  intros [LP _] Hs. unfold rows_of_cchart.
  destruct (assocZ L_HITS (c_lists src)) as [fh|] eqn:Eh; [|discriminate].
  destruct (assocZ L_HOLDS (c_lists src)) as [fl|] eqn:El; [|discriminate].
  destruct (assocZ L_BPMS (c_lists src)) as [fb|] eqn:Eb; [|discriminate].
  destruct (col_nums fh COL_OFFSET) as [ho|] eqn:N1; [|discriminate].
  destruct (col_nums fh COL_COLUMN) as [hc|] eqn:N2; [|discriminate].
  destruct (col_nums fl COL_OFFSET) as [lo|] eqn:N3; [|discriminate].
  destruct (col_nums fl COL_COLUMN) as [lc|] eqn:N4; [|discriminate].
  destruct (col_nums fl COL_LENGTH) as [ll|] eqn:N5; [|discriminate].
  destruct (col_nums fb COL_OFFSET) as [bo|] eqn:N6; [|discriminate].
  destruct (col_nums fb COL_BPM) as [bb|] eqn:N7; [|discriminate].
  intro H. inversion H; subst r; clear H.
  assert (RH: In (L_HITS, [COL_OFFSET; COL_COLUMN]) (role_lists d)) by (unfold role_lists; cbn; auto).
  assert (RL: In (L_HOLDS, [COL_OFFSET; COL_COLUMN; COL_LENGTH]) (role_lists d)) by (unfold role_lists; cbn; auto).
  assert (RB: In (L_BPMS, [COL_OFFSET; COL_BPM]) (role_lists d)) by (unfold role_lists; cbn; auto).
  pose proof (LP _ _ RH) as PH. pose proof (LP _ _ RL) as PL. pose proof (LP _ _ RB) as PB.
  destruct PH as [fh' [foh [A1 [A2 [_ Hh]]]]]. rewrite Eh in A1. inversion A1; subst fh'.
  destruct PL as [fl' [fol [B1 [B2 [_ Hl]]]]]. rewrite El in B1. inversion B1; subst fl'.
  destruct PB as [fb' [fob [C1 [C2 [_ Hb]]]]]. rewrite Eb in C1. inversion C1; subst fb'.
  rewrite A2, B2, C2.
  (* a column other than `column` is carried as it is; `column` through the shift *)
  assert (plain: forall (fs fo : frame) c qs, c <> COL_COLUMN -> col_nums fs c = Some qs ->
            (exists vs, col_vals fs c = Some vs /\ col_vals fo c = Some (carry d a c vs)) -> col_nums fo c = Some qs).
  { intros fs fo c qs Hc Hn [vs [V1 V2]]. unfold col_nums in *. rewrite V1 in Hn. rewrite V2. unfold carry.
    replace (c =? COL_COLUMN)%Z with false by (symmetry; apply Z.eqb_neq; exact Hc). exact Hn. }
  assert (colm: forall (fs fo : frame) qs, col_nums fs COL_COLUMN = Some qs ->
            (exists vs, col_vals fs COL_COLUMN = Some vs /\ col_vals fo COL_COLUMN = Some (carry d a COL_COLUMN vs)) ->
            exists qs', col_nums fo COL_COLUMN = Some qs' /\ map Qfloor qs' = map (fun z => (z + conv_shift d sz)%Z) (map Qfloor qs)).
  { intros fs fo qs Hn [vs [V1 V2]]. unfold col_nums in *. rewrite V1 in Hn. rewrite V2. unfold carry, conv_shift.
    rewrite Z.eqb_refl. cbn [andb]. destruct (has_shift d).
    - exists (map (fun x => Qred (x + a_shift a)) qs). split; [apply num_cells_map_shift; exact Hn|].
      rewrite !map_map. apply map_ext. intro x. rewrite Hs. apply Qfloor_shift.
    - exists qs. split; [exact Hn|]. rewrite map_map. apply map_ext. intro x. lia. }
  rewrite (plain fh foh COL_OFFSET ho ltac:(discriminate) N1 (Hh COL_OFFSET (or_introl eq_refl))).
  destruct (colm fh foh hc N2 (Hh COL_COLUMN (or_intror (or_introl eq_refl)))) as [hc' [E1 E1']]. rewrite E1.
  rewrite (plain fl fol COL_OFFSET lo ltac:(discriminate) N3 (Hl COL_OFFSET (or_introl eq_refl))).
  destruct (colm fl fol lc N4 (Hl COL_COLUMN (or_intror (or_introl eq_refl)))) as [lc' [E2 E2']]. rewrite E2.
  rewrite (plain fl fol COL_LENGTH ll ltac:(discriminate) N5 (Hl COL_LENGTH (or_intror (or_intror (or_introl eq_refl))))).
  rewrite (plain fb fob COL_OFFSET bo ltac:(discriminate) N6 (Hb COL_OFFSET (or_introl eq_refl))).
  rewrite (plain fb fob COL_BPM bb ltac:(discriminate) N7 (Hb COL_BPM (or_intror (or_introl eq_refl)))).
  f_equal. unfold shift_rows. cbn [r_hits r_holds r_bpms]. rewrite E1', E2'. f_equal.
  - clear. generalize (map Qfloor hc). revert ho. induction ho as [|o ho IH]; intros [|c cs]; cbn; auto. rewrite IH. reflexivity.
  - clear. generalize (map Qfloor lc). revert ll. revert lo. induction lo as [|o lo IH]; intros ll [|c cs]; cbn; auto.
    destruct ll as [|l ll]; cbn; auto. rewrite IH. reflexivity.
Qed.

(* ================================================================== osu! *)
From RV Require Import Base.Text.
From RV Require Formats.Osu Formats.OsuSpec Proofs.OsuWhole Proofs.OsuRead Proofs.OsuWrite.
Open Scope Q_scope.

Definition rows_of_osu (c : Osu.chart) : rows :=
  mkRows (map (fun n => (Osu.n_off n, Osu.n_col n)) (Osu.c_hits c))
         (map (fun n => (Osu.n_off n, Osu.n_col n, Osu.n_len n)) (Osu.c_holds c))
         (map (fun b => (Osu.b_off b, Osu.b_bpm b)) (Osu.c_bpms c)).

(* reader: the rows of the chart read are the rows the text denotes *)
Theorem osu_reader_rows lines : OsuSpec.wf_read_text lines = true -> OsuSpec.strict_read_text lines = true ->
  exists d c, OsuSpec.osu_denote lines = Some d /\ Osu.osu_read lines = Some c /\ tl_of_rows (rows_of_osu c) = tl_of_osu d.
Proof.
  intros W S. destruct (OsuRead.osu_read_denotes lines W S) as [d [D R]].
  exists d, (OsuSpec.realize d). split; [exact D|]. split; [exact R|].
  unfold tl_of_rows, rows_of_osu, tl_of_osu, OsuSpec.realize. cbn [r_hits r_holds r_bpms Osu.c_hits Osu.c_holds Osu.c_bpms].
  rewrite !map_map. reflexivity.
Qed.

(* writer: the chart with rows r, every other note / tempo attribute at the class default, and any metadata, background,
   sample events and scroll velocities *)
Record osu_rest := mkOsuRest { or_meta : list Osu.mval; or_bg : text; or_samples : list Osu.sample; or_svs : list Osu.svpt }.
Definition build_osu (r : rows) (p : osu_rest) : Osu.chart :=
  Osu.mkChart (or_meta p) (or_bg p) (or_samples p)
    (map (fun b : Q * Q => Osu.mkBpm (fst b) (snd b) 4 0 0 50 false) (r_bpms r)) (or_svs p)
    (map (fun h : Q * Z => Osu.mkNote (fst h) (snd h) 0 0 0 0 0 0 []) (r_hits r))
    (map (fun h : Q * Z * Q => Osu.mkNote (fst (fst h)) (snd (fst h)) (snd h) 0 0 0 0 0 []) (r_holds r)).
Lemma map_id_ext {A} (f : A -> A) l : (forall x, f x = x) -> map f l = l.
Proof. intro H. induction l; cbn; [reflexivity|]. rewrite H, IHl. reflexivity. Qed.
Lemma rows_of_build_osu r p : rows_of_osu (build_osu r p) = r.
Proof.
  destruct r as [h l b]. unfold rows_of_osu, build_osu. cbn [Osu.c_hits Osu.c_holds Osu.c_bpms r_hits r_holds r_bpms].
  rewrite !map_map. cbn. f_equal; apply map_id_ext; intros x; destruct x as [x y]; try destruct x; reflexivity.
Qed.

Lemma remove_first_spec {A} (p : A -> bool) l r : OsuSpec.remove_first p l = Some r -> exists y, p y = true /\ Permutation l (y :: r).
Proof.
  revert r. induction l as [|y l IH]; cbn; intros r H; [discriminate|].
  destruct (p y) eqn:E.
  - inversion H; subst. exists y. split; [exact E | apply Permutation_refl].
  - destruct (OsuSpec.remove_first p l) as [r'|] eqn:T; [|discriminate]. inversion H; subst.
    destruct (IH _ eq_refl) as [z [Pz Pp]]. exists z. split; [exact Pz|].
    eapply Permutation_trans; [apply perm_skip; exact Pp | apply perm_swap].
Qed.
Lemma perm_match_sound {A} (rel : A -> A -> bool) a : forall b, OsuSpec.perm_match rel a b = true -> ms_rel (fun x y => rel x y = true) a b.
Proof.
  induction a as [|x a IH]; cbn; intros b H.
  - destruct b; [|discriminate]. exists []. split; constructor.
  - destruct (OsuSpec.remove_first (rel x) b) as [b'|] eqn:T; [|discriminate].
    destruct (remove_first_spec _ _ _ T) as [y [Rxy P]]. destruct (IH _ H) as [c [Pc Fc]].
    exists (y :: c). split; [eapply Permutation_trans; [exact P | apply perm_skip; exact Pc] | constructor; assumption].
Qed.

Lemma q_close0 a b : OsuSpec.q_close 0 a b = true -> a == b.
Proof.
  unfold OsuSpec.q_close. intro H. apply Qle_bool_iff in H.
  assert (Z: Qabs (a - b) <= 0) by (eapply Qle_trans; [exact H|]; ring_simplify; apply Qle_refl).
  apply Qabs_Qle_condition in Z. lra.
Qed.
Lemma qtrunc_within1 x : Qabs (inject_Z (qtrunc x) - x) <= 1.
Proof.
  unfold qtrunc. destruct (Qle_bool 0 x) eqn:E.
  - pose proof (Qfloor_le x). pose proof (Qlt_floor x) as F. rewrite inject_Z_plus in F. change (inject_Z 1) with 1 in F.
    apply Qabs_Qle_condition. split; lra.
  - pose proof (Qfloor_le (- x)). pose proof (Qlt_floor (- x)) as F. rewrite inject_Z_plus in F. change (inject_Z 1) with 1 in F.
    rewrite inject_Z_opp. apply Qabs_Qle_condition. split; lra.
Qed.

Lemma osu_note_close0 x y : OsuSpec.note_close 0 x y = true ->
  Osu.n_off x == Osu.n_off y /\ Osu.n_col x = Osu.n_col y /\ Osu.n_len x == Osu.n_len y.
Proof.
  unfold OsuSpec.note_close. intro H. do 6 (apply andb_true_iff in H as [H _]).
  apply andb_true_iff in H as [H L]. apply andb_true_iff in H as [O C].
  split; [apply q_close0; exact O|]. split; [apply Z.eqb_eq; exact C | apply q_close0; exact L].
Qed.
Lemma osu_bpm_close0 x y : OsuSpec.bpm_close 0 x y = true ->
  Osu.b_off x == Osu.b_off y /\ Qabs (Osu.b_bpm x - Osu.b_bpm y) <= OsuSpec.META_TOL * (1 + Qabs (Osu.b_bpm x)).
Proof.
  unfold OsuSpec.bpm_close. intro H. do 5 (apply andb_true_iff in H as [H _]). apply andb_true_iff in H as [O Bp].
  split; [apply q_close0; exact O|]. unfold OsuSpec.q_close in Bp. apply Qle_bool_iff in Bp. exact Bp.
Qed.

Definition OSU_BPM_EPS (B : Q) : Q := 2 * OsuSpec.META_TOL * (1 + B).

Theorem osu_writer_rows r p ut ua B : OsuWhole.wdom6 (build_osu r p) ut ua = true ->
  (forall b, In b (r_bpms r) -> Qabs (snd b) <= B) ->
  exists text d, OsuWhole.written6 (build_osu r p) ut ua = Some text /\ OsuSpec.wf_osu_text text = true
    /\ OsuSpec.osu_denote text = Some d /\ timeline_close 1 (OSU_BPM_EPS B) (tl_of_osu d) (tl_of_rows r).
Proof.
  intros W HB.
  destruct (OsuWhole.osu_write_denotes_dec6 _ _ _ W) as [text [d [Wr [D [_ [Den _]]]]]].
  destruct (OsuWhole.osu_write_wf_dec6 _ _ _ W) as [text' [Wr' Wf]]. rewrite Wr in Wr'. inversion Wr'; subst text'.
  exists text, d. split; [exact Wr|]. split; [exact Wf|]. split; [exact D|].
  unfold OsuSpec.denotes in Den. repeat (apply andb_true_iff in Den as [Den ?]).
  rename H into Hholds, H0 into Hhits, H2 into Hbpms.
  unfold OsuSpec.written_chart, OsuSpec.written_chart_raw in *. cbn [Osu.c_hits Osu.c_holds Osu.c_bpms build_osu] in *.
  apply perm_match_sound in Hholds, Hhits, Hbpms.
  unfold tl_of_osu, tl_of_rows. split; cbn [tl_notes tl_tempo].
  - apply ms_rel_app.
    + rewrite map_map in Hhits.
      eapply (ms_rel_trans (fun x y => note_close 0 x y) (fun x y => note_close 1 x y) (note_close 1)).
      * intros x y z A1 A2. pose proof (note_close_trans _ _ _ _ _ A1 A2) as T.
        destruct T as [T1 [T2 [T3 T4]]]. unfold note_close. repeat split; auto; lra.
      * eapply ms_rel_map with (f := fun n => mkTN false (Osu.n_col n) (Osu.n_off n) 0); [|exact Hhits].
        cbv beta. intros x y C. destruct (osu_note_close0 _ _ C) as [C1 [C2 C3]].
        unfold note_close, tn_end; cbn [tn_hold tn_col tn_time tn_len].
        repeat split; auto; apply Qabs_zero_le; try lra; rewrite C1; ring.
      * rewrite map_map. apply ms_rel_of_Forall2. apply Forall2_map_same. intros [o c]. cbn [fst snd OsuSpec.trunc_note Osu.n_off Osu.n_col Osu.n_len].
        unfold note_close, tn_end; cbn [tn_hold tn_col tn_time tn_len]. repeat split; auto.
        -- apply qtrunc_within1.
        -- apply (Qabs_le_eq _ (inject_Z (qtrunc o) - o)); [ring | apply qtrunc_within1].
    + rewrite map_map in Hholds.
      eapply (ms_rel_trans (fun x y => note_close 0 x y) (fun x y => note_close 1 x y) (note_close 1)).
      * intros x y z A1 A2. pose proof (note_close_trans _ _ _ _ _ A1 A2) as T.
        destruct T as [T1 [T2 [T3 T4]]]. unfold note_close. repeat split; auto; lra.
      * eapply ms_rel_map with (f := fun n => mkTN true (Osu.n_col n) (Osu.n_off n) (Osu.n_len n)); [|exact Hholds].
        cbv beta. intros x y C. destruct (osu_note_close0 _ _ C) as [C1 [C2 C3]].
        unfold note_close, tn_end; cbn [tn_hold tn_col tn_time tn_len].
        repeat split; auto; apply Qabs_zero_le; try lra; rewrite C1; try rewrite C3; ring.
      * rewrite map_map. apply ms_rel_of_Forall2. apply Forall2_map_same. intros [[o c] ln].
        cbn [fst snd OsuSpec.trunc_note Osu.n_off Osu.n_col Osu.n_len].
        unfold note_close, tn_end; cbn [tn_hold tn_col tn_time tn_len]. repeat split; auto.
        -- apply qtrunc_within1.
        -- apply (Qabs_le_eq _ (inject_Z (qtrunc (o + ln)) - (o + ln))); [rewrite Qred_correct; ring | apply qtrunc_within1].
  - idtac.
    assert (G: ms_rel (fun x y : Osu.bpmpt => tempo_close 1 (OSU_BPM_EPS B) (Osu.b_off x, Osu.b_bpm x) (Osu.b_off y, Osu.b_bpm y))
                 (OsuSpec.d_bpms d) (map (fun b : Q * Q => Osu.mkBpm (fst b) (snd b) 4 0 0 50 false) (r_bpms r))).
    { destruct Hbpms as [b' [P F]]. exists b'. split; [exact P|].
      assert (Hin: forall y, In y b' -> Qabs (Osu.b_bpm y) <= B).
      { intros y Hy. apply (Permutation_in _ (Permutation_sym P)) in Hy. apply in_map_iff in Hy as [z [Ez Hz]]. subst y. apply HB; exact Hz. }
      clear P. induction F; constructor; [|apply IHF; intros z Hz; apply Hin; right; exact Hz].
      destruct (osu_bpm_close0 _ _ H) as [H5 H6].
      pose proof (Hin y (or_introl eq_refl)) as By.
      unfold tempo_close; cbn [fst snd]. split; [apply Qabs_zero_le; [rewrite H5; ring | lra]|].
      unfold OSU_BPM_EPS.
      pose proof (Qabs_triangle (Osu.b_bpm x - Osu.b_bpm y) (Osu.b_bpm y)) as T.
      setoid_replace (Osu.b_bpm x - Osu.b_bpm y + Osu.b_bpm y) with (Osu.b_bpm x) in T by ring.
      pose proof (Qabs_nonneg (Osu.b_bpm x - Osu.b_bpm y)). unfold OsuSpec.META_TOL in *. lra. }
    destruct G as [b' [P F]]. exists (map (fun y => (Osu.b_off y, Osu.b_bpm y)) b'). split.
    + replace (r_bpms r) with (map (fun y => (Osu.b_off y, Osu.b_bpm y)) (map (fun b : Q * Q => Osu.mkBpm (fst b) (snd b) 4 0 0 50 false) (r_bpms r))).
      * apply Permutation_map. exact P.
      * rewrite map_map. cbn. apply map_id_ext. intros [x y]; reflexivity.
    + apply Forall2_map. exact F.
Qed.

(* ================================================================== the converter step, in the form every pair uses *)
Theorem convert_step d a sm k cs oracle sz rA tsrc rq eq_ :
  conv_okb d = true -> chart_wfb d a sm k cs oracle = true -> a_shift a = inject_Z sz ->
  rows_of_cchart cs = Some rA -> timeline_close rq eq_ (tl_of_rows rA) tsrc ->
  exists out, conv_chart d a sm k cs oracle = Some out
    /\ rows_of_cchart out = Some (shift_rows (conv_shift d sz) rA)
    /\ timeline_close rq eq_ (tl_of_rows (shift_rows (conv_shift d sz) rA)) (tl_shift (conv_shift d sz) tsrc).
Proof.
  intros Ok Wf Hs Hr Hc. destruct (conv_chart_preserves d a sm k cs oracle Ok Wf) as [out [Hout Hp]].
  exists out. split; [exact Hout|]. split; [eapply conv_carries_rows; eassumption|].
  rewrite tl_of_shift_rows. apply timeline_close_shift. exact Hc.
Qed.
Lemma shipped_conv_okb n d : In (n, d) Tables.convert.converters -> conv_okb d = true.
Proof.
  intro H. pose proof shipped_ok as S. unfold shipped in S. rewrite forallb_forall in S. exact (S _ H).
Qed.

(* ================================================================== Quaver *)
From RV Require Formats.Qua Formats.QuaSpec Proofs.QuaProofs Formats.O2J Formats.O2JSpec Proofs.O2JComposeProofs.
Open Scope Q_scope.

(* reader: rows of what the chart denotes (notes without an end are hits; lane l is column l - 1) *)
Definition rows_of_den (a : QuaSpec.den) : rows :=
  mkRows (flat_map (fun n => match QuaSpec.n_end n with None => [(QuaSpec.n_start n, (QuaSpec.n_lane n - 1)%Z)] | Some _ => [] end) (QuaSpec.d_notes a))
         (flat_map (fun n => match QuaSpec.n_end n with Some e => [(QuaSpec.n_start n, (QuaSpec.n_lane n - 1)%Z, e - QuaSpec.n_start n)] | None => [] end) (QuaSpec.d_notes a))
         (QuaSpec.d_bpms a).
Definition rows_of_qua (c : Qua.chart) : option rows := option_map rows_of_den (QuaSpec.chart_denote c).

Lemma rows_of_den_timeline a : timeline_close 0 0 (tl_of_rows (rows_of_den a)) (tl_of_qua a).
Proof.
  apply timeline_close_of_perm; [|apply Permutation_refl].
  unfold rows_of_den. cbn [r_hits r_holds]. induction (QuaSpec.d_notes a) as [|n l IH]; [constructor|].
  cbn [flat_map map]. destruct (QuaSpec.n_end n) as [e|] eqn:E; cbn [app map fst snd].
  - replace (tn_of_qua n) with (mkTN true (QuaSpec.n_lane n - 1) (QuaSpec.n_start n) (e - QuaSpec.n_start n))
      by (unfold tn_of_qua; rewrite E; reflexivity).
    eapply Permutation_trans; [apply Permutation_sym; apply Permutation_middle|]. apply perm_skip. exact IH.
  - replace (tn_of_qua n) with (mkTN false (QuaSpec.n_lane n - 1) (QuaSpec.n_start n) 0)
      by (unfold tn_of_qua; rewrite E; reflexivity).
    apply perm_skip. exact IH.
Qed.

Theorem qua_reader_rows doc : QuaSpec.wf_docb doc = true ->
  exists c e rA, Qua.Live.read doc = Some c /\ QuaSpec.qua_denote doc = Some e /\ rows_of_qua c = Some rA
    /\ timeline_close 0 0 (tl_of_rows rA) (tl_of_qua e).
Proof.
  intro H. destruct (qua_reader_half doc H) as [c [e [a [Hr [He [Ha Hc]]]]]].
  exists c, e, (rows_of_den a). split; [exact Hr|]. split; [exact He|]. split; [unfold rows_of_qua; rewrite Ha; reflexivity|].
  pose proof (timeline_close_trans _ _ _ _ _ _ _ (rows_of_den_timeline a) Hc) as T.
  eapply timeline_close_weaken; [| |exact T]; lra.
Qed.

(* writer: the Quaver chart with rows r (key sounds empty, metronome 4, no scroll velocities) and metadata meta *)
Definition omap_of_rows (r : rows) : O2J.omap :=
  O2J.mkOMap (map (fun h : Q * Z => O2J.mkHit (snd h) (fst h) 0 0) (r_hits r))
             (map (fun h : Q * Z * Q => O2J.mkHold (snd (fst h)) (fst (fst h)) (snd h) 0 0) (r_holds r))
             (map (fun b : Q * Q => O2J.mkBpm (fst b) (snd b)) (r_bpms r)).
Lemma tl_of_omap_of_rows r : tl_of_omap (omap_of_rows r) = tl_of_rows r.
Proof.
  unfold tl_of_omap, omap_of_rows, tl_of_rows. cbn [O2J.om_hits O2J.om_holds O2J.om_bpms]. rewrite !map_map. cbn.
  f_equal. apply map_id_ext. intros [x y]; reflexivity.
Qed.
Definition build_qua (r : rows) (meta : list Qua.ytree) : Qua.chart := q_chart meta (omap_of_rows r).
Definition cols_nonneg (r : rows) : bool :=
  forallb (fun h : Q * Z => (0 <=? snd h)%Z) (r_hits r) && forallb (fun h : Q * Z * Q => (0 <=? snd (fst h))%Z) (r_holds r).

Theorem qua_writer_rows r meta : cols_nonneg r = true -> QuaSpec.meta_okb false meta = true ->
  QuaSpec.wf_chartb false (build_qua r meta) = true /\
  exists doc e, Qua.Live.write (build_qua r meta) = Some doc /\ QuaSpec.wf_qua_docb doc = true /\ QuaSpec.qua_denote doc = Some e
    /\ QuaSpec.all_declared (QuaSpec.d_meta e) = true /\ timeline_close 1 0 (tl_of_qua e) (tl_of_rows r).
Proof.
  intros Hc Hm. unfold cols_nonneg in Hc. apply andb_true_iff in Hc as [C1 C2]. rewrite forallb_forall in C1, C2.
  assert (Wf: QuaSpec.wf_chartb false (build_qua r meta) = true).
  { apply q_chart_wf; [| |exact Hm]; unfold omap_of_rows; cbn [O2J.om_hits O2J.om_holds]; apply Forall_map; apply Forall_forall;
      intros x Hx; cbn; apply Z.leb_le; auto. }
  split; [exact Wf|].
  destruct (QuaProofs.qua_write_wf_denotes _ Wf) as [doc [e [a [Hw [Hwd [He [Ha [Hcl Hall]]]]]]]].
  exists doc, e. split; [exact Hw|]. split; [exact Hwd|]. split; [exact He|]. split; [exact Hall|].
  assert (Hlen: length meta = length QuaSpec.ref_meta_table).
  { unfold QuaSpec.meta_okb in Hm. symmetry. eapply QuaProofs.all2_length. exact Hm. }
  unfold build_qua in Ha. rewrite (q_chart_denote meta _ Hlen) in Ha. inversion Ha; subst a; clear Ha.
  pose proof (tl_of_qua_close _ _ Hcl) as T1.
  pose proof (q_chart_timeline (map Some meta) (omap_of_rows r)) as T2. rewrite tl_of_omap_of_rows in T2.
  pose proof (timeline_close_trans _ _ _ _ _ _ _ T1 T2) as T.
  eapply timeline_close_weaken; [| |exact T]; lra.
Qed.

(* ================================================================== O2Jam (reader) *)
Definition rows_of_omap (m : O2J.omap) : rows :=
  mkRows (map (fun h => (O2J.h_off h, O2J.h_col h)) (O2J.om_hits m))
         (map (fun h => (O2J.l_off h, O2J.l_col h, O2J.l_len h)) (O2J.om_holds m))
         (map (fun b => (O2J.b_off b, O2J.b_bpm b)) (O2J.om_bpms m)).
Lemma tl_of_rows_of_omap m : tl_of_rows (rows_of_omap m) = tl_of_omap m.
Proof. unfold tl_of_rows, rows_of_omap, tl_of_omap. cbn [r_hits r_holds r_bpms]. rewrite !map_map. reflexivity. Qed.

(* ================================================================== END TO END, per pair
   Common shape.  For a shipped converter description d (In (n, d) Tables.convert.converters; conv_okb d then holds by
   C08_all_shipped_converters_ok, re-checked against the code on every run), a source FILE in the reader's domain, and
   EVERY frame-level chart cs that carries the rows of the chart the reader model returns and lies in the converter's
   domain (chart_wfb: decidable; lists with their declared columns, metadata expressions evaluate):
   the converter model produces out, out carries rows r', and for the chart of the target game with rows r' and any other
   attributes for which it lies in the writer's domain, the writer model writes a well-formed file whose timeline is within
   the stated bound of the source file's timeline (columns moved by the converter's own shift argument). *)
Import Qua QuaSpec.
Open Scope Q_scope.

(* ---- osu! -> Quaver : 1 ms, tempo values exact ---- *)
Theorem osu_to_qua_pipeline n d lines a sm k oracle sz meta :
  In (n, d) Tables.convert.converters ->
  OsuSpec.wf_read_text lines = true -> OsuSpec.strict_read_text lines = true ->
  a_shift a = inject_Z sz -> meta_okb false meta = true ->
  exists dsrc c, OsuSpec.osu_denote lines = Some dsrc /\ Osu.osu_read lines = Some c /\
    forall cs, rows_of_cchart cs = Some (rows_of_osu c) -> chart_wfb d a sm k cs oracle = true ->
      exists out r', conv_chart d a sm k cs oracle = Some out /\ rows_of_cchart out = Some r' /\
        (cols_nonneg r' = true ->
         wf_chartb false (build_qua r' meta) = true /\
         exists doc e, Live.write (build_qua r' meta) = Some doc /\ wf_qua_docb doc = true /\ qua_denote doc = Some e
           /\ timeline_close 1 0 (tl_of_qua e) (tl_shift (conv_shift d sz) (tl_of_osu dsrc))).
Proof.
  intros Hd W S Hs Hm. destruct (osu_reader_rows lines W S) as [dsrc [c [D [R T]]]].
  exists dsrc, c. split; [exact D|]. split; [exact R|]. intros cs Hr Hwf.
  assert (T0: timeline_close 0 0 (tl_of_rows (rows_of_osu c)) (tl_of_osu dsrc)) by (rewrite T; apply timeline_close_refl; lra).
  destruct (convert_step d a sm k cs oracle sz _ _ _ _ (shipped_conv_okb _ _ Hd) Hwf Hs Hr T0) as [out [Ho [Hro Hc]]].
  exists out, (shift_rows (conv_shift d sz) (rows_of_osu c)). split; [exact Ho|]. split; [exact Hro|]. intro Hcol.
  destruct (qua_writer_rows _ meta Hcol Hm) as [Wf [doc [e [Hw [Hwd [He [_ Hcl]]]]]]]. split; [exact Wf|].
  exists doc, e. split; [exact Hw|]. split; [exact Hwd|]. split; [exact He|].
  pose proof (timeline_close_trans _ _ _ _ _ _ _ Hcl Hc) as X. eapply timeline_close_weaken; [| |exact X]; lra.
Qed.

(* ---- Quaver -> osu! : 1 ms; tempo values as printed with six decimals (relative 1e-9, stated through a bound B) ---- *)
Theorem qua_to_osu_pipeline n d doc a sm k oracle sz p ut ua B :
  In (n, d) Tables.convert.converters -> wf_docb doc = true -> a_shift a = inject_Z sz ->
  exists c e rA, Live.read doc = Some c /\ qua_denote doc = Some e /\ rows_of_qua c = Some rA /\
    forall cs, rows_of_cchart cs = Some rA -> chart_wfb d a sm k cs oracle = true ->
      exists out r', conv_chart d a sm k cs oracle = Some out /\ rows_of_cchart out = Some r' /\
        (OsuWhole.wdom6 (build_osu r' p) ut ua = true -> (forall b, In b (r_bpms r') -> Qabs (snd b) <= B) ->
         exists text dt, OsuWhole.written6 (build_osu r' p) ut ua = Some text /\ OsuSpec.wf_osu_text text = true
           /\ OsuSpec.osu_denote text = Some dt
           /\ timeline_close 1 (OSU_BPM_EPS B) (tl_of_osu dt) (tl_shift (conv_shift d sz) (tl_of_qua e))).
Proof.
  intros Hd W Hs. destruct (qua_reader_rows doc W) as [c [e [rA [R [E [Hr0 T0]]]]]].
  exists c, e, rA. split; [exact R|]. split; [exact E|]. split; [exact Hr0|]. intros cs Hr Hwf.
  destruct (convert_step d a sm k cs oracle sz _ _ _ _ (shipped_conv_okb _ _ Hd) Hwf Hs Hr T0) as [out [Ho [Hro Hc]]].
  exists out, (shift_rows (conv_shift d sz) rA). split; [exact Ho|]. split; [exact Hro|]. intros Wd HB.
  destruct (osu_writer_rows _ p ut ua B Wd HB) as [text [dt [Hw [Hwf' [Hd' Hcl]]]]].
  exists text, dt. split; [exact Hw|]. split; [exact Hwf'|]. split; [exact Hd'|].
  pose proof (timeline_close_trans _ _ _ _ _ _ _ Hcl Hc) as X. eapply timeline_close_weaken; [| |exact X]; lra.
Qed.

(* ---- O2Jam -> osu!, per difficulty ---- *)
Theorem o2j_to_osu_pipeline n d f trail a sm oracle sz p ut ua B :
  Tables.c07.layout = O2JSpec.ref_layout ->
  In (n, d) Tables.convert.converters -> O2JSpec.wf_file f = true -> a_shift a = inject_Z sz ->
  exists o dn, O2J.read_fixed (O2JSpec.encode_file f ++ trail) = Some o /\ O2JSpec.ojn_denote f = Some dn /\
    forall k mo md, nth_error (O2J.os_maps o) k = Some mo -> nth_error (O2J.os_maps dn) k = Some md ->
    forall cs, rows_of_cchart cs = Some (rows_of_omap mo) -> chart_wfb d a sm k cs oracle = true ->
      exists out r', conv_chart d a sm k cs oracle = Some out /\ rows_of_cchart out = Some r' /\
        (OsuWhole.wdom6 (build_osu r' p) ut ua = true -> (forall b, In b (r_bpms r') -> Qabs (snd b) <= B) ->
         exists text dt, OsuWhole.written6 (build_osu r' p) ut ua = Some text /\ OsuSpec.wf_osu_text text = true
           /\ OsuSpec.osu_denote text = Some dt
           /\ timeline_close 1 (OSU_BPM_EPS B) (tl_of_osu dt) (tl_shift (conv_shift d sz) (tl_of_omap md))).
Proof.
  intros L Hd W Hs. destruct (o2j_reader_half L f trail W) as [o [dn [R [D H]]]].
  exists o, dn. split; [exact R|]. split; [exact D|]. intros k mo md No Nd cs Hr Hwf.
  destruct (H k mo md No Nd) as [T0 _]. rewrite <- tl_of_rows_of_omap in T0 at 1.
  destruct (convert_step d a sm k cs oracle sz _ _ _ _ (shipped_conv_okb _ _ Hd) Hwf Hs Hr T0) as [out [Ho [Hro Hc]]].
  exists out, (shift_rows (conv_shift d sz) (rows_of_omap mo)). split; [exact Ho|]. split; [exact Hro|]. intros Wd HB.
  destruct (osu_writer_rows _ p ut ua B Wd HB) as [text [dt [Hw [Hwf' [Hd' Hcl]]]]].
  exists text, dt. split; [exact Hw|]. split; [exact Hwf'|]. split; [exact Hd'|].
  pose proof (timeline_close_trans _ _ _ _ _ _ _ Hcl Hc) as X. eapply timeline_close_weaken; [| |exact X]; lra.
Qed.

(* ---- O2Jam -> Quaver through the converter description, per difficulty; the converted chart is in the writer's
        domain (proved: lanes 0..6, moved right by a non-negative shift) ---- *)
Lemma cols_nonneg_shift s r : (0 <= s)%Z -> cols_nonneg r = true -> cols_nonneg (shift_rows s r) = true.
Proof.
  intros Hs H. unfold cols_nonneg in *. apply andb_true_iff in H as [H1 H2]. rewrite forallb_forall in H1, H2.
  apply andb_true_iff. split; apply forallb_forall; intros x Hx; cbn [shift_rows r_hits r_holds] in Hx;
    apply in_map_iff in Hx as [y [Ey Hy]]; subst x; cbn [fst snd]; apply Z.leb_le.
  - specialize (H1 _ Hy). apply Z.leb_le in H1. lia.
  - specialize (H2 _ Hy). apply Z.leb_le in H2. lia.
Qed.
Theorem o2j_to_qua_conv_pipeline n d f trail a sm oracle sz meta :
  Tables.c07.layout = O2JSpec.ref_layout ->
  In (n, d) Tables.convert.converters -> O2JSpec.wf_file f = true -> a_shift a = inject_Z sz -> (0 <= conv_shift d sz)%Z ->
  meta_okb false meta = true ->
  exists o dn, O2J.read_fixed (O2JSpec.encode_file f ++ trail) = Some o /\ O2JSpec.ojn_denote f = Some dn /\
    forall k mo md, nth_error (O2J.os_maps o) k = Some mo -> nth_error (O2J.os_maps dn) k = Some md ->
    forall cs, rows_of_cchart cs = Some (rows_of_omap mo) -> chart_wfb d a sm k cs oracle = true ->
      exists out r', conv_chart d a sm k cs oracle = Some out /\ rows_of_cchart out = Some r' /\
        wf_chartb false (build_qua r' meta) = true /\
        exists doc e, Live.write (build_qua r' meta) = Some doc /\ wf_qua_docb doc = true /\ qua_denote doc = Some e
          /\ timeline_close 1 0 (tl_of_qua e) (tl_shift (conv_shift d sz) (tl_of_omap md)).
Proof.
  intros L Hd W Hs Hnn Hm. destruct (o2j_reader_half L f trail W) as [o [dn [R [D H]]]].
  exists o, dn. split; [exact R|]. split; [exact D|]. intros k mo md No Nd cs Hr Hwf.
  destruct (H k mo md No Nd) as [T0 _]. rewrite <- tl_of_rows_of_omap in T0 at 1.
  destruct (convert_step d a sm k cs oracle sz _ _ _ _ (shipped_conv_okb _ _ Hd) Hwf Hs Hr T0) as [out [Ho [Hro Hc]]].
  exists out, (shift_rows (conv_shift d sz) (rows_of_omap mo)). split; [exact Ho|]. split; [exact Hro|].
  assert (Hcol: cols_nonneg (shift_rows (conv_shift d sz) (rows_of_omap mo)) = true).
  { apply cols_nonneg_shift; [exact Hnn|].
    destruct (O2JComposeProofs.ojn_read_fixed_denotes L f trail W) as [o' [d' [R' [D' [_ Hm']]]]].
    rewrite R in R'. inversion R'; subst o'. rewrite D in D'. inversion D'; subst d'.
    destruct (Forall2_nth _ _ _ _ _ _ Hm' No Nd) as [Ph [Pl _]].
    destruct (ojn_denote_cols _ _ _ _ D Nd) as [Ch Cl].
    unfold cols_nonneg, rows_of_omap. cbn [r_hits r_holds]. apply andb_true_iff. split; apply forallb_forall; intros x Hx;
      apply in_map_iff in Hx as [y [Ey Hy]]; subst x; cbn [fst snd]; apply Z.leb_le.
    - pose proof (Forall_perm _ _ _ Ph Ch) as F. rewrite Forall_forall in F. apply F; exact Hy.
    - pose proof (Forall_perm _ _ _ Pl Cl) as F. rewrite Forall_forall in F. apply F; exact Hy. }
  destruct (qua_writer_rows _ meta Hcol Hm) as [Wf [doc [e [Hw [Hwd [He [_ Hcl]]]]]]]. split; [exact Wf|].
  exists doc, e. split; [exact Hw|]. split; [exact Hwd|]. split; [exact He|].
  pose proof (timeline_close_trans _ _ _ _ _ _ _ Hcl Hc) as X. eapply timeline_close_weaken; [| |exact X]; lra.
Qed.

(* ================================================================== StepMania (writer) *)
From RV Require Formats.SM Formats.SMSpec Formats.SMWriteDom Proofs.SMProofs Proofs.SMWriteWholeFile.
Open Scope Q_scope.

Record sm_rest := mkSmRest { sr_txt : list (list Z); sr_offset : option Q; sr_sstart : Q; sr_slen : Q; sr_sel : bool;
                             sr_type : list Z; sr_desc : list Z; sr_diff : list Z; sr_meter : Z; sr_radar : list Q }.
(* the one-chart mapset with rows r (metronome 4, no rolls / mines / lifts / fakes / keysounds) and any other attributes *)
Definition build_sm (r : rows) (p : sm_rest) : SM.smset :=
  SM.mkSet (sr_txt p) (sr_offset p) (sr_sstart p) (sr_slen p) (sr_sel p)
    [SM.mkChart (sr_type p) (sr_desc p) (sr_diff p) (sr_meter p) (sr_radar p)
       (map (fun b : Q * Q => (fst b, snd b, 4)) (r_bpms r)) (r_hits r) (r_holds r) [] [] [] [] []].

Definition t_hit (n : SMSpec.note4) : tnote := mkTN false (fst (fst n)) (snd (fst n)) 0.
Definition t_hold (n : SMSpec.note4) : tnote := mkTN true (fst (fst n)) (snd (fst n)) (snd n).

Lemma sm_notes_split l :
  Permutation (flat_map tn_of_sm l) (map t_hit (SMSpec.dnotes_of SM.KHit l) ++ map t_hold (SMSpec.dnotes_of SM.KHold l)).
Proof.
  unfold SMSpec.dnotes_of. induction l as [|n l IH]; [constructor|].
  cbn [flat_map filter]. unfold tn_of_sm at 1. destruct (SMSpec.dn_kind n); cbn [SM.kind_eqb app map]; try exact IH.
  - apply perm_skip. exact IH.
  - eapply Permutation_trans; [apply perm_skip; exact IH|]. apply Permutation_middle.
Qed.

Lemma perm_eqv_ms_rel (R : tnote -> tnote -> Prop) (f g : SMSpec.note4 -> tnote) A Bl :
  (forall x y, SMWriteDom.note_eqv x y -> R (f x) (g y)) -> SMWriteDom.perm_eqv A Bl -> ms_rel R (map f A) (map g Bl).
Proof.
  intros H [a' [P F]]. destruct (Permutation_Forall2 (Permutation_sym P) F) as [B' [PB FB]].
  exists (map g B'). split; [apply Permutation_map; exact PB|]. apply Forall2_map. eapply Forall2_impl; [|exact FB]. exact H.
Qed.

(* injective choice: every row has its own tempo change *)
Lemma choose_tps (tps : list (Q * Q * Q)) (rowsl : list (Q * Q * Q)) (P : Q * Q * Q -> Q * Q * Q -> Prop) :
  (forall r, In r rowsl -> exists tp, In tp tps /\ P tp r) -> exists l, Forall2 P l rowsl /\ incl l tps.
Proof.
  induction rowsl as [|r rs IH]; intro H.
  - exists []. split; [constructor | intros x []].
  - destruct (H r (or_introl eq_refl)) as [tp [I Pt]]. destruct IH as [l [F Inc]]; [intros x Hx; apply H; right; exact Hx|].
    exists (tp :: l). split; [constructor; assumption | intros x [E|Hx]; [subst; exact I | apply Inc; exact Hx]].
Qed.

Fixpoint distinct_offs (l : list (Q * Q)) : Prop :=
  match l with [] => True | x :: r => Forall (fun y => ~ fst x == fst y) r /\ distinct_offs r end.

Lemma Forall2_In_l {A B} (R : A -> B -> Prop) l bs x : Forall2 R l bs -> In x l -> exists y, In y bs /\ R x y.
Proof.
  induction 1 as [|a b l' bs' Rab F IH]; intros Hin; [destruct Hin|]. destruct Hin as [E|Hin].
  - subst. exists b. split; [left; reflexivity | exact Rab].
  - destruct (IH Hin) as [y [Iy Ry]]. exists y. split; [right; exact Iy | exact Ry].
Qed.
Lemma nodup_from_distinct (tl : list (Q * Q * Q)) (bs : list (Q * Q)) :
  distinct_offs bs -> Forall2 (fun tp b => snd tp == fst b) tl bs -> NoDup tl.
Proof.
  intros Hd F. revert Hd. induction F as [|x b l bs' Rxb F IH]; intro Hd; constructor.
  - destruct Hd as [Hd _]. intro Hin. destruct (Forall2_In_l _ _ _ _ F Hin) as [y [Iy Ry]].
    rewrite Forall_forall in Hd. apply (Hd y Iy). rewrite <- Rxb, <- Ry. reflexivity.
  - apply IH. exact (proj2 Hd).
Qed.

Theorem sm_writer_rows r p : SMWriteWholeFile.c03_domb (build_sm r p) = true -> distinct_offs (r_bpms r) ->
  exists toks, SM.sm_write SMProofs.live_conf SM.current (build_sm r p) = Some toks /\
    forall txt, SM.match_toks 0 toks txt = true ->
      exists d dc, SMSpec.sm_denote txt = Some d /\ SMSpec.d_charts d = [dc]
        /\ timeline_close 0 0 (tl_of_sm_chart d dc) (tl_of_rows r).
Proof.
  intros Hdom Hdist.
  destruct (SMWriteWholeFile.sm_write_denotes _ Hdom) as [toks [W H1]].
  destruct (SMWriteWholeFile.sm_write_tempo _ Hdom) as [toks' [W' H2]]. rewrite W in W'. inversion W'; subst toks'.
  exists toks. split; [exact W|]. intros txt Hm.
  destruct (H1 txt Hm) as [d [D [_ F]]]. destruct (H2 txt Hm) as [d' [D' [init [l [_ Tp]]]]].
  rewrite D in D'. inversion D'; subst d'. cbn [build_sm SM.s_maps] in F, Tp.
  inversion F as [|dc c0 dl cl Hc Fr]; subst. inversion Fr; subst.
  exists d, dc. split; [exact D|]. split; [symmetry; assumption|].
  destruct Hc as [_ Hk]. unfold tl_of_sm_chart, tl_of_rows. split; cbn [tl_notes tl_tempo].
  - eapply ms_rel_perm; [apply Permutation_sym; apply sm_notes_split | apply Permutation_refl |].
    apply ms_rel_app.
    + pose proof (Hk SM.KHit) as K. cbn [SMWriteDom.chart_list SM.c_hits] in K. unfold SMSpec.simple4 in K.
      replace (map (fun h : Q * Z => mkTN false (snd h) (fst h) 0) (r_hits r))
        with (map t_hit (map (fun n : Q * Z => (snd n, fst n, 0)) (r_hits r))) by (rewrite map_map; reflexivity).
      apply perm_eqv_ms_rel; [|exact K]. intros x y [E1 [E2 _]]. unfold t_hit, Timeline.note_close, tn_end; cbn [tn_hold tn_col tn_time tn_len].
      repeat split; auto; apply Qabs_zero_le; try lra; rewrite E2; ring.
    + pose proof (Hk SM.KHold) as K. cbn [SMWriteDom.chart_list SM.c_holds] in K. unfold SMSpec.hold4 in K.
      replace (map (fun h : Q * Z * Q => mkTN true (snd (fst h)) (fst (fst h)) (snd h)) (r_holds r))
        with (map t_hold (map (fun n : Q * Z * Q => (snd (fst n), fst (fst n), snd n)) (r_holds r))) by (rewrite map_map; reflexivity).
      apply perm_eqv_ms_rel; [|exact K]. intros x y [E1 [E2 E3]]. unfold t_hold, Timeline.note_close, tn_end; cbn [tn_hold tn_col tn_time tn_len].
      repeat split; auto; apply Qabs_zero_le; try lra; rewrite E2; try rewrite E3; ring.
  - cbn [SM.c_bpms] in Tp. destruct Tp as [Len Each].
    set (P := fun (tp rw : Q * Q * Q) => snd (fst tp) == snd (fst rw) /\ snd tp == fst (fst rw)).
    destruct (choose_tps (SMSpec.d_tempo d) (map (fun b : Q * Q => (fst b, snd b, 4)) (r_bpms r)) P) as [tl [F2 Inc]].
    { intros rw Hrw. destruct (Each rw Hrw) as [tp [I [_ [E1 E2]]]]. exists tp. split; [exact I | split; assumption]. }
    assert (ND: NoDup tl).
    { apply (nodup_from_distinct tl (r_bpms r) Hdist). clear - F2. revert tl F2.
      induction (r_bpms r) as [|b bs IH]; intros tl F2; inversion F2; subst; constructor.
      - match goal with H : P _ _ |- _ => destruct H as [_ Y]; exact Y end.
      - apply IH; assumption. }
    assert (Pm: Permutation tl (SMSpec.d_tempo d)).
    { apply NoDup_Permutation_bis; [exact ND | | exact Inc]. rewrite Len. rewrite (Forall2_len _ _ _ F2). apply Nat.le_refl. }
    eapply ms_rel_perm; [apply Permutation_map; exact Pm | apply Permutation_refl |].
    apply ms_rel_of_Forall2. clear - F2. revert tl F2. induction (r_bpms r) as [|b bs IH]; intros tl F2; inversion F2; subst; cbn [map]; constructor.
    + match goal with H : P _ _ |- _ => destruct H as [X Y] end. cbn [fst snd] in X, Y.
      split; cbn [fst snd]; apply Qabs_zero_le; try lra; try (rewrite Y; ring); try (rewrite X; ring).
    + apply IH; assumption.
Qed.

Lemma sm_writer_tail r' p tsrc rq eq_ : timeline_close rq eq_ (tl_of_rows r') tsrc ->
  SMWriteWholeFile.c03_domb (build_sm r' p) = true -> distinct_offs (r_bpms r') ->
  exists toks, SM.sm_write SMProofs.live_conf SM.current (build_sm r' p) = Some toks /\
    forall txt, SM.match_toks 0 toks txt = true ->
      exists dt dc, SMSpec.sm_denote txt = Some dt /\ SMSpec.d_charts dt = [dc]
        /\ timeline_close rq eq_ (tl_of_sm_chart dt dc) tsrc.
Proof.
  intros Hc Hdom Hdist. destruct (sm_writer_rows r' p Hdom Hdist) as [toks [W H]]. exists toks. split; [exact W|].
  intros txt Hm. destruct (H txt Hm) as [dt [dc [D [E T]]]]. exists dt, dc. split; [exact D|]. split; [exact E|].
  pose proof (timeline_close_trans _ _ _ _ _ _ _ T Hc) as X. eapply timeline_close_weaken; [| |exact X]; lra.
Qed.

(* ---- osu! -> StepMania, Quaver -> StepMania, O2Jam -> StepMania: EXACT inside the exact domain c03_domb of the converted
        chart (every time on the snap grid of the tempo in force, measures within 384 rows, #OFFSET = first tempo point) ---- *)
Theorem osu_to_sm_pipeline n d lines a sm k oracle sz p :
  In (n, d) Tables.convert.converters ->
  OsuSpec.wf_read_text lines = true -> OsuSpec.strict_read_text lines = true -> a_shift a = inject_Z sz ->
  exists dsrc c, OsuSpec.osu_denote lines = Some dsrc /\ Osu.osu_read lines = Some c /\
    forall cs, rows_of_cchart cs = Some (rows_of_osu c) -> chart_wfb d a sm k cs oracle = true ->
      exists out r', conv_chart d a sm k cs oracle = Some out /\ rows_of_cchart out = Some r' /\
        (SMWriteWholeFile.c03_domb (build_sm r' p) = true -> distinct_offs (r_bpms r') ->
         exists toks, SM.sm_write SMProofs.live_conf SM.current (build_sm r' p) = Some toks /\
           forall txt, SM.match_toks 0 toks txt = true ->
             exists dt dc, SMSpec.sm_denote txt = Some dt /\ SMSpec.d_charts dt = [dc]
               /\ timeline_close 0 0 (tl_of_sm_chart dt dc) (tl_shift (conv_shift d sz) (tl_of_osu dsrc))).
Proof.
  intros Hd W S Hs. destruct (osu_reader_rows lines W S) as [dsrc [c [D [R T]]]].
  exists dsrc, c. split; [exact D|]. split; [exact R|]. intros cs Hr Hwf.
  assert (T0: timeline_close 0 0 (tl_of_rows (rows_of_osu c)) (tl_of_osu dsrc)) by (rewrite T; apply timeline_close_refl; lra).
  destruct (convert_step d a sm k cs oracle sz _ _ _ _ (shipped_conv_okb _ _ Hd) Hwf Hs Hr T0) as [out [Ho [Hro Hc]]].
  exists out, (shift_rows (conv_shift d sz) (rows_of_osu c)). split; [exact Ho|]. split; [exact Hro|].
  intros Hdom Hdist. exact (sm_writer_tail _ p _ _ _ Hc Hdom Hdist).
Qed.
Theorem qua_to_sm_pipeline n d doc a sm k oracle sz p :
  In (n, d) Tables.convert.converters -> wf_docb doc = true -> a_shift a = inject_Z sz ->
  exists c e rA, Live.read doc = Some c /\ qua_denote doc = Some e /\ rows_of_qua c = Some rA /\
    forall cs, rows_of_cchart cs = Some rA -> chart_wfb d a sm k cs oracle = true ->
      exists out r', conv_chart d a sm k cs oracle = Some out /\ rows_of_cchart out = Some r' /\
        (SMWriteWholeFile.c03_domb (build_sm r' p) = true -> distinct_offs (r_bpms r') ->
         exists toks, SM.sm_write SMProofs.live_conf SM.current (build_sm r' p) = Some toks /\
           forall txt, SM.match_toks 0 toks txt = true ->
             exists dt dc, SMSpec.sm_denote txt = Some dt /\ SMSpec.d_charts dt = [dc]
               /\ timeline_close 0 0 (tl_of_sm_chart dt dc) (tl_shift (conv_shift d sz) (tl_of_qua e))).
Proof.
  intros Hd W Hs. destruct (qua_reader_rows doc W) as [c [e [rA [R [E [Hr0 T0]]]]]].
  exists c, e, rA. split; [exact R|]. split; [exact E|]. split; [exact Hr0|]. intros cs Hr Hwf.
  destruct (convert_step d a sm k cs oracle sz _ _ _ _ (shipped_conv_okb _ _ Hd) Hwf Hs Hr T0) as [out [Ho [Hro Hc]]].
  exists out, (shift_rows (conv_shift d sz) rA). split; [exact Ho|]. split; [exact Hro|].
  intros Hdom Hdist. exact (sm_writer_tail _ p _ _ _ Hc Hdom Hdist).
Qed.
Theorem o2j_to_sm_pipeline n d f trail a sm oracle sz p :
  Tables.c07.layout = O2JSpec.ref_layout ->
  In (n, d) Tables.convert.converters -> O2JSpec.wf_file f = true -> a_shift a = inject_Z sz ->
  exists o dn, O2J.read_fixed (O2JSpec.encode_file f ++ trail) = Some o /\ O2JSpec.ojn_denote f = Some dn /\
    forall k mo md, nth_error (O2J.os_maps o) k = Some mo -> nth_error (O2J.os_maps dn) k = Some md ->
    forall cs, rows_of_cchart cs = Some (rows_of_omap mo) -> chart_wfb d a sm k cs oracle = true ->
      exists out r', conv_chart d a sm k cs oracle = Some out /\ rows_of_cchart out = Some r' /\
        (SMWriteWholeFile.c03_domb (build_sm r' p) = true -> distinct_offs (r_bpms r') ->
         exists toks, SM.sm_write SMProofs.live_conf SM.current (build_sm r' p) = Some toks /\
           forall txt, SM.match_toks 0 toks txt = true ->
             exists dt dc, SMSpec.sm_denote txt = Some dt /\ SMSpec.d_charts dt = [dc]
               /\ timeline_close 0 0 (tl_of_sm_chart dt dc) (tl_shift (conv_shift d sz) (tl_of_omap md))).
Proof.
  intros L Hd W Hs. destruct (o2j_reader_half L f trail W) as [o [dn [R [D H]]]].
  exists o, dn. split; [exact R|]. split; [exact D|]. intros k mo md No Nd cs Hr Hwf.
  destruct (H k mo md No Nd) as [T0 _]. rewrite <- tl_of_rows_of_omap in T0 at 1.
  destruct (convert_step d a sm k cs oracle sz _ _ _ _ (shipped_conv_okb _ _ Hd) Hwf Hs Hr T0) as [out [Ho [Hro Hc]]].
  exists out, (shift_rows (conv_shift d sz) (rows_of_omap mo)). split; [exact Ho|]. split; [exact Hro|].
  intros Hdom Hdist. exact (sm_writer_tail _ p _ _ _ Hc Hdom Hdist).
Qed.

(* ================================================================== StepMania (reader) *)
From RV Require Proofs.SMReadWhole Props.C02.
Open Scope Q_scope.

Definition rows_of_smchart (c : SM.smchart) : rows :=
  mkRows (SM.c_hits c) (SM.c_holds c) (map (fun b : Q * Q * Q => (fst (fst b), snd (fst b))) (SM.c_bpms c)).
(* The reader theorem of C02 says of the tempo list only that every tempo change of the file is IN the chart's list at
   its millisecond position: the list itself is TimingMap.reseat()'s (tempo changes off a measure line are replaced by
   invented points with scaled bpm: C09's known finding tempo-reseated).  The end-to-end statement therefore carries the
   decidable hypothesis that for this file the chart's tempo rows ARE the file's tempo changes. *)
Definition sm_tempo_same (d : SMSpec.dfile) (c : SM.smchart) : bool :=
  ms_matchb (tempo_close_byb (fun _ => 0) 0) (r_bpms (rows_of_smchart c))
            (map (fun tp : Q * Q * Q => (snd tp, snd (fst tp))) (SMSpec.d_tempo d)).

Theorem sm_reader_rows txt : SMReadDom.c02_domb txt = true ->
  exists d s, SMSpec.sm_denote txt = Some d /\ SM.sm_read SMProofs.live_conf SM.current txt = Some s /\
    forall k dc c, nth_error (SMSpec.d_charts d) k = Some dc -> nth_error (SM.s_maps s) k = Some c ->
      sm_tempo_same d c = true -> timeline_close 0 0 (tl_of_rows (rows_of_smchart c)) (tl_of_sm_chart d dc).
Proof.
  intro H. destruct (C02.C02_sm_read_denotes txt H) as [d [s [D [R [F _]]]]].
  exists d, s. split; [exact D|]. split; [exact R|]. intros k dc c Nd Nc Ht.
  pose proof (Forall2_nth _ _ _ _ _ _ F Nd Nc) as [_ [Hobj _]].
  unfold tl_of_rows, tl_of_sm_chart, rows_of_smchart. cbn [r_hits r_holds r_bpms]. split; cbn [tl_notes tl_tempo].
  - eapply ms_rel_perm; [apply Permutation_refl | apply Permutation_sym; apply sm_notes_split |].
    apply ms_rel_app.
    + assert (I: In (SM.KHit, SMSpec.simple4 (SM.c_hits c)) (SMSpec.chart_objs c)) by (unfold SMSpec.chart_objs; cbn; auto).
      pose proof (Hobj _ I) as P. cbn [fst snd] in P.
      eapply ms_rel_perm; [apply Permutation_refl | apply Permutation_map; exact P |].
      unfold SMSpec.simple4. rewrite map_map. cbn [t_hit fst snd]. apply ms_rel_refl. intro x. apply note_close_refl. lra.
    + assert (I: In (SM.KHold, SMSpec.hold4 (SM.c_holds c)) (SMSpec.chart_objs c)) by (unfold SMSpec.chart_objs; cbn; auto).
      pose proof (Hobj _ I) as P. cbn [fst snd] in P.
      eapply ms_rel_perm; [apply Permutation_refl | apply Permutation_map; exact P |].
      unfold SMSpec.hold4. rewrite map_map. cbn [t_hold fst snd]. apply ms_rel_refl. intro x. apply note_close_refl. lra.
  - unfold sm_tempo_same in Ht. apply ms_matchb_sound in Ht. cbn [rows_of_smchart r_bpms] in Ht.
    eapply ms_rel_impl; [|exact Ht]. cbv beta. intros x y Hxy. unfold tempo_close_byb in Hxy. apply andb_true_iff in Hxy as [H1 H2].
    split; apply q_within_true; assumption.
Qed.

(* ---- StepMania -> osu!, StepMania -> Quaver, per chart of the file ---- *)
Theorem sm_to_osu_pipeline n d txt a oracle sz p ut ua B :
  In (n, d) Tables.convert.converters -> SMReadDom.c02_domb txt = true -> a_shift a = inject_Z sz ->
  exists ds s, SMSpec.sm_denote txt = Some ds /\ SM.sm_read SMProofs.live_conf SM.current txt = Some s /\
    forall k dc c, nth_error (SMSpec.d_charts ds) k = Some dc -> nth_error (SM.s_maps s) k = Some c -> sm_tempo_same ds c = true ->
    forall sm cs, rows_of_cchart cs = Some (rows_of_smchart c) -> chart_wfb d a sm k cs oracle = true ->
      exists out r', conv_chart d a sm k cs oracle = Some out /\ rows_of_cchart out = Some r' /\
        (OsuWhole.wdom6 (build_osu r' p) ut ua = true -> (forall b, In b (r_bpms r') -> Qabs (snd b) <= B) ->
         exists text dt, OsuWhole.written6 (build_osu r' p) ut ua = Some text /\ OsuSpec.wf_osu_text text = true
           /\ OsuSpec.osu_denote text = Some dt
           /\ timeline_close 1 (OSU_BPM_EPS B) (tl_of_osu dt) (tl_shift (conv_shift d sz) (tl_of_sm_chart ds dc))).
Proof.
  intros Hd W Hs. destruct (sm_reader_rows txt W) as [ds [s [D [R H]]]].
  exists ds, s. split; [exact D|]. split; [exact R|]. intros k dc c Nd Nc Ht sm cs Hr Hwf.
  pose proof (H k dc c Nd Nc Ht) as T0.
  destruct (convert_step d a sm k cs oracle sz _ _ _ _ (shipped_conv_okb _ _ Hd) Hwf Hs Hr T0) as [out [Ho [Hro Hc]]].
  exists out, (shift_rows (conv_shift d sz) (rows_of_smchart c)). split; [exact Ho|]. split; [exact Hro|]. intros Wd HB.
  destruct (osu_writer_rows _ p ut ua B Wd HB) as [text [dt [Hw [Hwf' [Hd' Hcl]]]]].
  exists text, dt. split; [exact Hw|]. split; [exact Hwf'|]. split; [exact Hd'|].
  pose proof (timeline_close_trans _ _ _ _ _ _ _ Hcl Hc) as X. eapply timeline_close_weaken; [| |exact X]; lra.
Qed.
Theorem sm_to_qua_pipeline n d txt a oracle sz meta :
  In (n, d) Tables.convert.converters -> SMReadDom.c02_domb txt = true -> a_shift a = inject_Z sz -> meta_okb false meta = true ->
  exists ds s, SMSpec.sm_denote txt = Some ds /\ SM.sm_read SMProofs.live_conf SM.current txt = Some s /\
    forall k dc c, nth_error (SMSpec.d_charts ds) k = Some dc -> nth_error (SM.s_maps s) k = Some c -> sm_tempo_same ds c = true ->
    forall sm cs, rows_of_cchart cs = Some (rows_of_smchart c) -> chart_wfb d a sm k cs oracle = true ->
      exists out r', conv_chart d a sm k cs oracle = Some out /\ rows_of_cchart out = Some r' /\
        (cols_nonneg r' = true ->
         wf_chartb false (build_qua r' meta) = true /\
         exists doc e, Live.write (build_qua r' meta) = Some doc /\ wf_qua_docb doc = true /\ qua_denote doc = Some e
           /\ timeline_close 1 0 (tl_of_qua e) (tl_shift (conv_shift d sz) (tl_of_sm_chart ds dc))).
Proof.
  intros Hd W Hs Hm. destruct (sm_reader_rows txt W) as [ds [s [D [R H]]]].
  exists ds, s. split; [exact D|]. split; [exact R|]. intros k dc c Nd Nc Ht sm cs Hr Hwf.
  pose proof (H k dc c Nd Nc Ht) as T0.
  destruct (convert_step d a sm k cs oracle sz _ _ _ _ (shipped_conv_okb _ _ Hd) Hwf Hs Hr T0) as [out [Ho [Hro Hc]]].
  exists out, (shift_rows (conv_shift d sz) (rows_of_smchart c)). split; [exact Ho|]. split; [exact Hro|]. intro Hcol.
  destruct (qua_writer_rows _ meta Hcol Hm) as [Wf [doc [e [Hw [Hwd [He [_ Hcl]]]]]]]. split; [exact Wf|].
  exists doc, e. split; [exact Hw|]. split; [exact Hwd|]. split; [exact He|].
  pose proof (timeline_close_trans _ _ _ _ _ _ _ Hcl Hc) as X. eapply timeline_close_weaken; [| |exact X]; lra.
Qed.

(* ================================================================== BMS *)
From RV Require Formats.BMS Formats.BMSSpec Props.C04 Props.C05 Timing.Snap Timing.Domain2.
Open Scope Q_scope.

(* ---- reader.  C04's text-level theorem speaks of hits and holds (multisets) and of the header; of the tempo LIST it
        says nothing (it is TimingMap.reseat()'s, C11): as for StepMania the end-to-end statement carries the decidable
        hypothesis that the chart's tempo rows are the tempo changes the text denotes; and that the read returned. ---- *)
Definition rows_of_bms (c : BMS.bms_chart) : rows :=
  mkRows (map (fun h => (BMS.h_off h, BMS.h_col h)) (BMS.c_hits c))
         (map (fun h => (BMS.ho_off h, BMS.ho_col h, BMS.ho_len h)) (BMS.c_holds c))
         (map (fun b => (Snap.bo_off b, Snap.bo_bpm b)) (BMS.c_bpms c)).
Definition bms_tempo_same (d : BMSSpec.denotation) (c : BMS.bms_chart) : bool :=
  ms_matchb (tempo_close_byb (fun _ => 0) 0) (r_bpms (rows_of_bms c)) (BMSSpec.d_tempo d).

Theorem bms_reader_rows lay mk lines c :
  BMSSpec.layout_ok mk lay = true -> BMSSpec.wf_bms_lines lay lines = true -> BMSSpec.read_guards C04.tbl lines = true ->
  BMS.bms_read C04.tbl lay mk lines = Some c ->
  exists d, BMSSpec.bms_denote lay lines = Some d /\
    (bms_tempo_same d c = true -> timeline_close 0 0 (tl_of_rows (rows_of_bms c)) (tl_of_bms d)).
Proof.
  intros HL HW HG HR. destruct (C04.C04_bms_read_text lay mk lines c HL HW HG HR) as [d [D [[hs [Ph Fh]] [[ls [Pl Fl]] _]]]].
  exists d. split; [exact D|]. intro Ht.
  unfold tl_of_rows, tl_of_bms, rows_of_bms. cbn [r_hits r_holds r_bpms]. split; cbn [tl_notes tl_tempo].
  - apply ms_rel_app.
    + rewrite map_map. exists (map (fun h => mkTN false (BMSSpec.sh_col h) (BMSSpec.sh_time h) 0) hs).
      split; [apply Permutation_map; apply Permutation_sym; exact Ph|]. apply Forall2_map.
      apply Forall2_flip in Fh. eapply Forall2_impl; [|exact Fh]. cbv beta. intros x y [E1 [E2 _]].
      unfold Timeline.note_close, tn_end; cbn [tn_hold tn_col tn_time tn_len fst snd].
      repeat split; auto; apply Qabs_zero_le; try lra; rewrite E2; ring.
    + rewrite map_map. exists (map (fun h => mkTN true (BMSSpec.sl_col h) (BMSSpec.sl_time h) (BMSSpec.sl_len h)) ls).
      split; [apply Permutation_map; apply Permutation_sym; exact Pl|]. apply Forall2_map.
      apply Forall2_flip in Fl. eapply Forall2_impl; [|exact Fl]. cbv beta. intros x y [E1 [E2 [E3 _]]].
      unfold Timeline.note_close, tn_end; cbn [tn_hold tn_col tn_time tn_len fst snd].
      repeat split; auto; apply Qabs_zero_le; try lra; rewrite E2; try rewrite E3; ring.
  - unfold bms_tempo_same in Ht. apply ms_matchb_sound in Ht. cbn [rows_of_bms r_bpms] in Ht.
    eapply ms_rel_impl; [|exact Ht]. cbv beta. intros x y Hxy. unfold tempo_close_byb in Hxy. apply andb_true_iff in Hxy as [H1 H2].
    split; apply q_within_true; assumption.
Qed.

(* ---- writer: the BMS chart with rows r (metronome 4, no sample names) and any header; EXACT regime: every start and end
        on the snap grid of the tempo change in force (C10's time_on_gridb), inside C05's domain write_dom ---- *)
Record bms_rest := mkBmsRest { br_samples : list (list Z * list Z); br_lnobj : list Z; br_title : list Z; br_artist : list Z;
                               br_version : list Z; br_misc : BMS.header }.
Definition build_bms (r : rows) (p : bms_rest) : BMS.wchart :=
  BMS.mkW (map (fun h : Q * Z => BMS.mkHit (snd h) (fst h) []) (r_hits r))
          (map (fun h : Q * Z * Q => BMS.mkHold (snd (fst h)) (fst (fst h)) (snd h) []) (r_holds r))
          (map (fun b : Q * Q => Snap.mkBco (snd b) 4 (fst b)) (r_bpms r))
          (br_samples p) (br_lnobj p) (br_title p) (br_artist p) (br_version p) (br_misc p).
Definition bms_on_grid (r : rows) (l : list Snap.bcs) : bool :=
  forallb (fun h : Q * Z => Domain2.time_on_gridb C05.tbl 0 l (fst h)) (r_hits r)
  && forallb (fun h : Q * Z * Q => Domain2.time_on_gridb C05.tbl 0 l (fst (fst h))
                                   && Domain2.time_on_gridb C05.tbl 0 l (Qred (fst (fst h) + snd h))) (r_holds r).

Theorem bms_writer_rows mk lay dflt r p (rd : Q -> list Z) :
  BMSSpec.write_dom C05.tbl mk lay dflt (build_bms r p) = true -> (forall q, BMSText.parse_decimal (rd q) <> None) ->
  exists ls l d, BMS.bms_write C05.tbl lay dflt (build_bms r p) = Some ls /\ BMSSpec.wscript C05.tbl (build_bms r p) = Some l
    /\ BMSSpec.bms_denote lay (map (BMSSpec.render_with rd) ls) = Some d
    /\ (bms_on_grid r l = true -> timeline_close 0 0 (tl_of_bms d) (tl_of_rows r)).
Proof.
  intros Hdom Hr. destruct (C05.C05_bms_write_denotes mk lay dflt _ rd Hdom Hr) as [ls [l [d [W [S [D Wd]]]]]].
  exists ls, l, d. split; [exact W|]. split; [exact S|]. split; [exact D|]. intro Hg.
  destruct Wd as [[hs [Ph Fh]] [[hl [Pl Fl]] [Ft _]]].
  unfold bms_on_grid in Hg. apply andb_true_iff in Hg as [G1 G2]. rewrite forallb_forall in G1, G2.
  unfold tl_of_bms, tl_of_rows. cbn [build_bms BMS.w_hits BMS.w_holds BMS.w_bpms] in *. split; cbn [tl_notes tl_tempo].
  - apply ms_rel_app.
    + eapply ms_rel_perm; [apply Permutation_map; exact Ph | apply Permutation_refl |].
      apply ms_rel_of_Forall2. apply Forall2_map. apply Forall2_flip in Fh.
      assert (X: forall s h, In h (r_hits r) ->
                 (BMSSpec.sh_col s = snd h /\ BMSSpec.time_rt C05.tbl l (fst h) (BMSSpec.sh_time s)) ->
                 Timeline.note_close 0 (mkTN false (BMSSpec.sh_col s) (BMSSpec.sh_time s) 0) (mkTN false (snd h) (fst h) 0)).
      { intros s h Hin [E1 [_ E2]]. specialize (E2 (G1 _ Hin)).
        unfold Timeline.note_close, tn_end; cbn [tn_hold tn_col tn_time tn_len]. repeat split; auto; apply Qabs_zero_le; try lra; rewrite E2; ring. }
      clear - Fh X. revert Fh X. generalize (r_hits r). intros hr Fh. induction hs as [|s hs IH] in hr, Fh |- *; intro X;
        destruct hr as [|h hr]; cbn [map] in Fh; inversion Fh; subst; constructor.
      * apply X; [left; reflexivity|]. cbn [BMS.h_col BMS.h_off] in *. tauto.
      * apply IH; [assumption|]. intros s' h' Hin. apply X. right; exact Hin.
    + eapply ms_rel_perm; [apply Permutation_map; exact Pl | apply Permutation_refl |].
      apply ms_rel_of_Forall2. apply Forall2_map. apply Forall2_flip in Fl.
      assert (X: forall s h, In h (r_holds r) ->
                 (BMSSpec.sl_col s = snd (fst h) /\ BMSSpec.time_rt C05.tbl l (fst (fst h)) (BMSSpec.sl_time s)
                  /\ BMSSpec.time_rt C05.tbl l (Qred (fst (fst h) + snd h)) (BMSSpec.sl_time s + BMSSpec.sl_len s)) ->
                 Timeline.note_close 0 (mkTN true (BMSSpec.sl_col s) (BMSSpec.sl_time s) (BMSSpec.sl_len s))
                                       (mkTN true (snd (fst h)) (fst (fst h)) (snd h))).
      { intros s h Hin [E1 [[_ E2] [_ E3]]]. pose proof (G2 _ Hin) as G. apply andb_true_iff in G as [Ga Gb].
        specialize (E2 Ga). specialize (E3 Gb). rewrite Qred_correct in E3.
        unfold Timeline.note_close, tn_end; cbn [tn_hold tn_col tn_time tn_len]. repeat split; auto; apply Qabs_zero_le; try lra;
          try (rewrite E2; ring); try (rewrite E3; ring). }
      clear - Fl X. revert Fl X. generalize (r_holds r). intros hr Fl. induction hl as [|s hl IH] in hr, Fl |- *; intro X;
        destruct hr as [|h hr]; cbn [map] in Fl; inversion Fl; subst; constructor.
      * apply X; [left; reflexivity|]. cbn [BMS.ho_col BMS.ho_off BMS.ho_len] in *. tauto.
      * apply IH; [assumption|]. intros s' h' Hin. apply X. right; exact Hin.
  - apply ms_rel_of_Forall2. apply Forall2_flip in Ft. clear - Ft. revert Ft. generalize (BMSSpec.d_tempo d). generalize (r_bpms r).
    intros bs. induction bs as [|b bs IH]; intros tp Ft; destruct tp as [|t tp]; cbn [map] in Ft; inversion Ft; subst; constructor.
    + match goal with H : _ /\ _ |- _ => destruct H as [E1 E2] end. cbn [Snap.bo_off Snap.bo_bpm] in E1, E2.
      split; apply Qabs_zero_le; try lra; try (rewrite E1; ring); try (rewrite E2; ring).
    + apply IH. assumption.
Qed.

(* ---- writer tails (writer lemma + triangle) ---- *)
Lemma osu_writer_tail r' p ut ua B tsrc : timeline_close 0 0 (tl_of_rows r') tsrc ->
  OsuWhole.wdom6 (build_osu r' p) ut ua = true -> (forall b, In b (r_bpms r') -> Qabs (snd b) <= B) ->
  exists text dt, OsuWhole.written6 (build_osu r' p) ut ua = Some text /\ OsuSpec.wf_osu_text text = true
    /\ OsuSpec.osu_denote text = Some dt /\ timeline_close 1 (OSU_BPM_EPS B) (tl_of_osu dt) tsrc.
Proof.
  intros Hc Wd HB. destruct (osu_writer_rows _ p ut ua B Wd HB) as [text [dt [Hw [Hwf' [Hd' Hcl]]]]].
  exists text, dt. split; [exact Hw|]. split; [exact Hwf'|]. split; [exact Hd'|].
  pose proof (timeline_close_trans _ _ _ _ _ _ _ Hcl Hc) as X. eapply timeline_close_weaken; [| |exact X]; lra.
Qed.
Lemma qua_writer_tail r' meta tsrc : timeline_close 0 0 (tl_of_rows r') tsrc ->
  cols_nonneg r' = true -> meta_okb false meta = true ->
  wf_chartb false (build_qua r' meta) = true /\
  exists doc e, Live.write (build_qua r' meta) = Some doc /\ wf_qua_docb doc = true /\ qua_denote doc = Some e
    /\ timeline_close 1 0 (tl_of_qua e) tsrc.
Proof.
  intros Hc Hcol Hm. destruct (qua_writer_rows _ meta Hcol Hm) as [Wf [doc [e [Hw [Hwd [He [_ Hcl]]]]]]]. split; [exact Wf|].
  exists doc, e. split; [exact Hw|]. split; [exact Hwd|]. split; [exact He|].
  pose proof (timeline_close_trans _ _ _ _ _ _ _ Hcl Hc) as X. eapply timeline_close_weaken; [| |exact X]; lra.
Qed.
Lemma bms_writer_tail mk lay dflt r' p rd tsrc : timeline_close 0 0 (tl_of_rows r') tsrc ->
  BMSSpec.write_dom C05.tbl mk lay dflt (build_bms r' p) = true -> (forall q, BMSText.parse_decimal (rd q) <> None) ->
  exists ls l dt, BMS.bms_write C05.tbl lay dflt (build_bms r' p) = Some ls /\ BMSSpec.wscript C05.tbl (build_bms r' p) = Some l
    /\ BMSSpec.bms_denote lay (map (BMSSpec.render_with rd) ls) = Some dt
    /\ (bms_on_grid r' l = true -> timeline_close 0 0 (tl_of_bms dt) tsrc).
Proof.
  intros Hc Hdom Hr. destruct (bms_writer_rows mk lay dflt r' p rd Hdom Hr) as [ls [l [dt [W [S [D H]]]]]].
  exists ls, l, dt. split; [exact W|]. split; [exact S|]. split; [exact D|]. intro Hg.
  pose proof (timeline_close_trans _ _ _ _ _ _ _ (H Hg) Hc) as X. eapply timeline_close_weaken; [| |exact X]; lra.
Qed.

(* ---- BMS -> osu!, Quaver, StepMania ---- *)
Section BmsSource.
  Variables (n : Z) (d : conv_desc) (lay : BMSSpec.slayout) (mk : Z) (lines : list (list Z)) (c : BMS.bms_chart)
            (a : cargs) (sm : meta) (k : nat) (oracle : Converters.chart) (sz : Z).
  Hypothesis Hd : In (n, d) Tables.convert.converters.
  Hypothesis HL : BMSSpec.layout_ok mk lay = true.
  Hypothesis HW : BMSSpec.wf_bms_lines lay lines = true.
  Hypothesis HG : BMSSpec.read_guards C04.tbl lines = true.
  Hypothesis HR : BMS.bms_read C04.tbl lay mk lines = Some c.
  Hypothesis Hs : a_shift a = inject_Z sz.

  Lemma bms_source_step : exists ds, BMSSpec.bms_denote lay lines = Some ds /\
    (bms_tempo_same ds c = true ->
     forall cs, rows_of_cchart cs = Some (rows_of_bms c) -> chart_wfb d a sm k cs oracle = true ->
       exists out, conv_chart d a sm k cs oracle = Some out
         /\ rows_of_cchart out = Some (shift_rows (conv_shift d sz) (rows_of_bms c))
         /\ timeline_close 0 0 (tl_of_rows (shift_rows (conv_shift d sz) (rows_of_bms c))) (tl_shift (conv_shift d sz) (tl_of_bms ds))).
  Proof.
    destruct (bms_reader_rows lay mk lines c HL HW HG HR) as [ds [D H]]. exists ds. split; [exact D|].
    intros Ht cs Hr Hwf. exact (convert_step d a sm k cs oracle sz _ _ _ _ (shipped_conv_okb _ _ Hd) Hwf Hs Hr (H Ht)).
  Qed.

  Theorem bms_to_osu_pipeline p ut ua B : exists ds, BMSSpec.bms_denote lay lines = Some ds /\
    (bms_tempo_same ds c = true ->
     forall cs, rows_of_cchart cs = Some (rows_of_bms c) -> chart_wfb d a sm k cs oracle = true ->
       exists out r', conv_chart d a sm k cs oracle = Some out /\ rows_of_cchart out = Some r' /\
         (OsuWhole.wdom6 (build_osu r' p) ut ua = true -> (forall b, In b (r_bpms r') -> Qabs (snd b) <= B) ->
          exists text dt, OsuWhole.written6 (build_osu r' p) ut ua = Some text /\ OsuSpec.wf_osu_text text = true
            /\ OsuSpec.osu_denote text = Some dt
            /\ timeline_close 1 (OSU_BPM_EPS B) (tl_of_osu dt) (tl_shift (conv_shift d sz) (tl_of_bms ds)))).
  Proof.
    destruct bms_source_step as [ds [D H]]. exists ds. split; [exact D|]. intros Ht cs Hr Hwf.
    destruct (H Ht cs Hr Hwf) as [out [Ho [Hro Hc]]]. exists out, (shift_rows (conv_shift d sz) (rows_of_bms c)).
    split; [exact Ho|]. split; [exact Hro|]. intros Wd HB. exact (osu_writer_tail _ p ut ua B _ Hc Wd HB).
  Qed.
  Theorem bms_to_qua_pipeline qmeta : meta_okb false qmeta = true -> exists ds, BMSSpec.bms_denote lay lines = Some ds /\
    (bms_tempo_same ds c = true ->
     forall cs, rows_of_cchart cs = Some (rows_of_bms c) -> chart_wfb d a sm k cs oracle = true ->
       exists out r', conv_chart d a sm k cs oracle = Some out /\ rows_of_cchart out = Some r' /\
         (cols_nonneg r' = true ->
          wf_chartb false (build_qua r' qmeta) = true /\
          exists doc e, Live.write (build_qua r' qmeta) = Some doc /\ wf_qua_docb doc = true /\ qua_denote doc = Some e
            /\ timeline_close 1 0 (tl_of_qua e) (tl_shift (conv_shift d sz) (tl_of_bms ds)))).
  Proof.
    intro Hm. destruct bms_source_step as [ds [D H]]. exists ds. split; [exact D|]. intros Ht cs Hr Hwf.
    destruct (H Ht cs Hr Hwf) as [out [Ho [Hro Hc]]]. exists out, (shift_rows (conv_shift d sz) (rows_of_bms c)).
    split; [exact Ho|]. split; [exact Hro|]. intro Hcol. exact (qua_writer_tail _ qmeta _ Hc Hcol Hm).
  Qed.
  Theorem bms_to_sm_pipeline p : exists ds, BMSSpec.bms_denote lay lines = Some ds /\
    (bms_tempo_same ds c = true ->
     forall cs, rows_of_cchart cs = Some (rows_of_bms c) -> chart_wfb d a sm k cs oracle = true ->
       exists out r', conv_chart d a sm k cs oracle = Some out /\ rows_of_cchart out = Some r' /\
         (SMWriteWholeFile.c03_domb (build_sm r' p) = true -> distinct_offs (r_bpms r') ->
          exists toks, SM.sm_write SMProofs.live_conf SM.current (build_sm r' p) = Some toks /\
            forall txt, SM.match_toks 0 toks txt = true ->
              exists dt dc, SMSpec.sm_denote txt = Some dt /\ SMSpec.d_charts dt = [dc]
                /\ timeline_close 0 0 (tl_of_sm_chart dt dc) (tl_shift (conv_shift d sz) (tl_of_bms ds)))).
  Proof.
    destruct bms_source_step as [ds [D H]]. exists ds. split; [exact D|]. intros Ht cs Hr Hwf.
    destruct (H Ht cs Hr Hwf) as [out [Ho [Hro Hc]]]. exists out, (shift_rows (conv_shift d sz) (rows_of_bms c)).
    split; [exact Ho|]. split; [exact Hro|]. intros Hdom Hdist. exact (sm_writer_tail _ p _ _ _ Hc Hdom Hdist).
  Qed.
End BmsSource.

(* ---- osu!, Quaver, StepMania, O2Jam -> BMS (exact regime of the BMS writer) ---- *)
Definition bms_target_concl (mk : Z) (lay : BMSSpec.slayout) (dflt : list Z) (p : bms_rest) (rd : Q -> list Z) (r' : rows) (tsrc : timeline) : Prop :=
  BMSSpec.write_dom C05.tbl mk lay dflt (build_bms r' p) = true -> (forall q, BMSText.parse_decimal (rd q) <> None) ->
  exists ls l dt, BMS.bms_write C05.tbl lay dflt (build_bms r' p) = Some ls /\ BMSSpec.wscript C05.tbl (build_bms r' p) = Some l
    /\ BMSSpec.bms_denote lay (map (BMSSpec.render_with rd) ls) = Some dt
    /\ (bms_on_grid r' l = true -> timeline_close 0 0 (tl_of_bms dt) tsrc).

Theorem osu_to_bms_pipeline n d lines a sm k oracle sz mk lay dflt p rd :
  In (n, d) Tables.convert.converters ->
  OsuSpec.wf_read_text lines = true -> OsuSpec.strict_read_text lines = true -> a_shift a = inject_Z sz ->
  exists dsrc c, OsuSpec.osu_denote lines = Some dsrc /\ Osu.osu_read lines = Some c /\
    forall cs, rows_of_cchart cs = Some (rows_of_osu c) -> chart_wfb d a sm k cs oracle = true ->
      exists out r', conv_chart d a sm k cs oracle = Some out /\ rows_of_cchart out = Some r' /\
        bms_target_concl mk lay dflt p rd r' (tl_shift (conv_shift d sz) (tl_of_osu dsrc)).
Proof.
  intros Hd W S Hs. destruct (osu_reader_rows lines W S) as [dsrc [c [D [R T]]]].
  exists dsrc, c. split; [exact D|]. split; [exact R|]. intros cs Hr Hwf.
  assert (T0: timeline_close 0 0 (tl_of_rows (rows_of_osu c)) (tl_of_osu dsrc)) by (rewrite T; apply timeline_close_refl; lra).
  destruct (convert_step d a sm k cs oracle sz _ _ _ _ (shipped_conv_okb _ _ Hd) Hwf Hs Hr T0) as [out [Ho [Hro Hc]]].
  exists out, (shift_rows (conv_shift d sz) (rows_of_osu c)). split; [exact Ho|]. split; [exact Hro|].
  intros Hdom Hrd. exact (bms_writer_tail mk lay dflt _ p rd _ Hc Hdom Hrd).
Qed.
Theorem qua_to_bms_pipeline n d doc a sm k oracle sz mk lay dflt p rd :
  In (n, d) Tables.convert.converters -> wf_docb doc = true -> a_shift a = inject_Z sz ->
  exists c e rA, Live.read doc = Some c /\ qua_denote doc = Some e /\ rows_of_qua c = Some rA /\
    forall cs, rows_of_cchart cs = Some rA -> chart_wfb d a sm k cs oracle = true ->
      exists out r', conv_chart d a sm k cs oracle = Some out /\ rows_of_cchart out = Some r' /\
        bms_target_concl mk lay dflt p rd r' (tl_shift (conv_shift d sz) (tl_of_qua e)).
Proof.
  intros Hd W Hs. destruct (qua_reader_rows doc W) as [c [e [rA [R [E [Hr0 T0]]]]]].
  exists c, e, rA. split; [exact R|]. split; [exact E|]. split; [exact Hr0|]. intros cs Hr Hwf.
  destruct (convert_step d a sm k cs oracle sz _ _ _ _ (shipped_conv_okb _ _ Hd) Hwf Hs Hr T0) as [out [Ho [Hro Hc]]].
  exists out, (shift_rows (conv_shift d sz) rA). split; [exact Ho|]. split; [exact Hro|].
  intros Hdom Hrd. exact (bms_writer_tail mk lay dflt _ p rd _ Hc Hdom Hrd).
Qed.
Theorem sm_to_bms_pipeline n d txt a oracle sz mk lay dflt p rd :
  In (n, d) Tables.convert.converters -> SMReadDom.c02_domb txt = true -> a_shift a = inject_Z sz ->
  exists ds s, SMSpec.sm_denote txt = Some ds /\ SM.sm_read SMProofs.live_conf SM.current txt = Some s /\
    forall k dc c, nth_error (SMSpec.d_charts ds) k = Some dc -> nth_error (SM.s_maps s) k = Some c -> sm_tempo_same ds c = true ->
    forall sm cs, rows_of_cchart cs = Some (rows_of_smchart c) -> chart_wfb d a sm k cs oracle = true ->
      exists out r', conv_chart d a sm k cs oracle = Some out /\ rows_of_cchart out = Some r' /\
        bms_target_concl mk lay dflt p rd r' (tl_shift (conv_shift d sz) (tl_of_sm_chart ds dc)).
Proof.
  intros Hd W Hs. destruct (sm_reader_rows txt W) as [ds [s [D [R H]]]].
  exists ds, s. split; [exact D|]. split; [exact R|]. intros k dc c Nd Nc Ht sm cs Hr Hwf.
  pose proof (H k dc c Nd Nc Ht) as T0.
  destruct (convert_step d a sm k cs oracle sz _ _ _ _ (shipped_conv_okb _ _ Hd) Hwf Hs Hr T0) as [out [Ho [Hro Hc]]].
  exists out, (shift_rows (conv_shift d sz) (rows_of_smchart c)). split; [exact Ho|]. split; [exact Hro|].
  intros Hdom Hrd. exact (bms_writer_tail mk lay dflt _ p rd _ Hc Hdom Hrd).
Qed.
Theorem o2j_to_bms_pipeline n d f trail a sm oracle sz mk lay dflt p rd :
  Tables.c07.layout = O2JSpec.ref_layout ->
  In (n, d) Tables.convert.converters -> O2JSpec.wf_file f = true -> a_shift a = inject_Z sz ->
  exists o dn, O2J.read_fixed (O2JSpec.encode_file f ++ trail) = Some o /\ O2JSpec.ojn_denote f = Some dn /\
    forall k mo md, nth_error (O2J.os_maps o) k = Some mo -> nth_error (O2J.os_maps dn) k = Some md ->
    forall cs, rows_of_cchart cs = Some (rows_of_omap mo) -> chart_wfb d a sm k cs oracle = true ->
      exists out r', conv_chart d a sm k cs oracle = Some out /\ rows_of_cchart out = Some r' /\
        bms_target_concl mk lay dflt p rd r' (tl_shift (conv_shift d sz) (tl_of_omap md)).
Proof.
  intros L Hd W Hs. destruct (o2j_reader_half L f trail W) as [o [dn [R [D H]]]].
  exists o, dn. split; [exact R|]. split; [exact D|]. intros k mo md No Nd cs Hr Hwf.
  destruct (H k mo md No Nd) as [T0 _]. rewrite <- tl_of_rows_of_omap in T0 at 1.
  destruct (convert_step d a sm k cs oracle sz _ _ _ _ (shipped_conv_okb _ _ Hd) Hwf Hs Hr T0) as [out [Ho [Hro Hc]]].
  exists out, (shift_rows (conv_shift d sz) (rows_of_omap mo)). split; [exact Ho|]. split; [exact Hro|].
  intros Hdom Hrd. exact (bms_writer_tail mk lay dflt _ p rd _ Hc Hdom Hrd).
Qed.

(* ================================================================== non-vacuity: a chart in the converter's domain, built
   generically from the description (so it follows the regenerated table) *)
(* the kind of value an attribute must hold for the expression that reads it *)
Inductive vkind := VText | VInt | VBytes | VTexts | VLit (t : list Z).
Fixpoint attr_kinds (want : vkind) (e : mexpr) : list (mkey * vkind) :=
  match e with
  | EAttr b f => [((b, f), want)]
  | EListCopy e' => attr_kinds VTexts e'
  | EToInt e' => attr_kinds VInt e'
  | EDecodeSjis e' => attr_kinds VBytes e'
  | EEncodeSjis e' => attr_kinds VText e'
  | EStr e' => attr_kinds VText e'
  | ECat x y => attr_kinds VText x ++ attr_kinds VText y
  | ELookupInt _ _ e' => attr_kinds VInt e'
  | ELookupText tb _ e' => attr_kinds (match tb with (t, _) :: _ => VLit t | [] => VText end) e'
  | EOr x y => attr_kinds want x ++ attr_kinds want y
  | EIf c x y => attr_kinds VInt c ++ attr_kinds want x ++ attr_kinds want y
  | EDefault _ _ v => attr_kinds want v
  | ENotNaN e' => attr_kinds want e'
  | _ => []
  end.
Definition value_of_kind (k : vkind) : mval :=
  match k with VText => MText [65%Z] | VInt => MInt 4 | VBytes => MBytes [65%Z] | VTexts => MTexts [] | VLit t => MText t end.
Definition example_meta (d : conv_desc) : Converters.meta :=
  ((true, F_LEVEL), MInts [1; 2; 3]%Z)
  :: flat_map (fun s => match s with
                        | SMeta _ _ e | SLocal _ e => map (fun kv => (fst kv, value_of_kind (snd kv))) (attr_kinds VText e)
                        | _ => [] end) (steps_of d).
Definition example_cell (c : Z) (o col len bpm : Q) : Frame.cell :=
  if (c =? COL_OFFSET)%Z then CNum o else if (c =? COL_COLUMN)%Z then CNum col else if (c =? COL_LENGTH)%Z then CNum len
  else if (c =? COL_BPM)%Z then CNum bpm else CNum 1.
Definition example_frame (cols : list Z) (L : Z) (r : rows) : Frame.frame :=
  Frame.mkFrame cols
    (if (L =? L_HITS)%Z then map (fun h : Q * Z => (7%Z, map (fun c => example_cell c (fst h) (inject_Z (snd h)) 0 0) cols)) (r_hits r)
     else if (L =? L_HOLDS)%Z then map (fun h : Q * Z * Q => (7%Z, map (fun c => example_cell c (fst (fst h)) (inject_Z (snd (fst h))) (snd h) 0) cols)) (r_holds r)
     else if (L =? L_BPMS)%Z then map (fun b : Q * Q => (7%Z, map (fun c => example_cell c (fst b) 0 0 (snd b)) cols)) (r_bpms r)
     else []).
Definition example_cchart (d : conv_desc) (r : rows) : Converters.chart :=
  Converters.mkChart (map (fun ld => (fst ld, example_frame (snd ld) (fst ld) r)) (cd_src_lists d))
          (filter (fun kv => negb (fst (fst kv))) (example_meta d)).
(* what is not modelled (computed columns) is supplied: one opaque value per source row *)
Definition example_oracle (d : conv_desc) (r : rows) : Converters.chart :=
  Converters.mkChart
    (map (fun t => (fst t, Frame.mkFrame (fst (snd t))
                     (repeat (0%Z, map (fun _ => CStr 0) (fst (snd t)))
                             (if (fst t =? L_HITS)%Z then length (r_hits r) else if (fst t =? L_HOLDS)%Z then length (r_holds r)
                              else if (fst t =? L_BPMS)%Z then length (r_bpms r) else 0%nat)))) (cd_tgt_lists d)) [].
Definition example_setmeta (d : conv_desc) : Converters.meta := filter (fun kv => fst (fst kv)) (example_meta d).
Definition example_rows : rows :=
  mkRows [(0, 0%Z); (500, 3%Z)] [(1000, 1%Z, 250)] [(0, 120); (2000, 150)].
Definition example_args : cargs := mkArgs 0 true [].
Definition conv_named (name : string) : option conv_desc :=
  option_map snd (List.find (fun p => String.eqb (cd_name (snd p)) name) Tables.convert.converters).
(* the example chart carries the example rows and lies in the converter's domain *)
Definition example_okb (name : string) : bool :=
  match conv_named name with
  | Some d =>
      chart_wfb d example_args (example_setmeta d) 0 (example_cchart d example_rows) (example_oracle d example_rows)
      && match rows_of_cchart (example_cchart d example_rows) with
         | Some r => (length (r_hits r) =? 2)%nat && (length (r_holds r) =? 1)%nat && (length (r_bpms r) =? 2)%nat
         | None => false end
  | None => false
  end.

(* ---- one pair computed end to end on a concrete file: C01's example text (7 keys, a hit, a hold, a tempo point, an SV)
        through the shipped OsuToQua description into a Quaver document ---- *)
Definition example_qmeta : list Qua.ytree := map snd Qua.Live.meta_defaults.
Definition example_osu_qua : bool :=
  match conv_named "OsuToQua", Osu.osu_read OsuWhole.example_text, OsuSpec.osu_denote OsuWhole.example_text with
  | Some d, Some c, Some ds =>
      let cs := example_cchart d (rows_of_osu c) in
      let orc := example_oracle d (rows_of_osu c) in
      OsuSpec.wf_read_text OsuWhole.example_text && OsuSpec.strict_read_text OsuWhole.example_text
      && chart_wfb d example_args (example_setmeta d) 0 cs orc
      && match rows_of_cchart cs, conv_chart d example_args (example_setmeta d) 0 cs orc with
         | Some r0, Some out =>
             timeline_closeb 0 0 (tl_of_rows r0) (tl_of_rows (rows_of_osu c))
             && match rows_of_cchart out with
                | Some r' =>
                    cols_nonneg r' && QuaSpec.meta_okb false example_qmeta
                    && match Qua.Live.write (build_qua r' example_qmeta) with
                       | Some doc => QuaSpec.wf_qua_docb doc
                                     && match QuaSpec.qua_denote doc with
                                        | Some e => timeline_closeb 1 0 (tl_of_qua e) (tl_of_osu ds)
                                                    && (length (tl_notes (tl_of_osu ds)) =? 2)%nat
                                        | None => false end
                       | None => false end
                | None => false end
         | _, _ => false end
  | _, _, _ => false
  end.
Lemma example_osu_qua_ok : example_osu_qua = true.
Proof. vm_compute. reflexivity. Qed.

(* ---- the writers' domains hold of charts built from converted rows ---- *)
Definition example_sm_rest : sm_rest :=
  mkSmRest (repeat [65%Z] 16) (Some 0) 0 10000 true (SMText.tx "dance-single") [68%Z] (SMText.tx "Easy") 1 [0; 0; 0; 0; 0].
Lemma example_sm_domain : SMWriteWholeFile.c03_domb (build_sm example_rows example_sm_rest) = true /\ distinct_offs (r_bpms example_rows).
Proof.
  split; [vm_compute; reflexivity|]. cbn. split; [constructor; [intro H; unfold Qeq in H; cbn in H; discriminate | constructor] | split; [constructor | exact I]].
Qed.
Definition example_osu_rest : osu_rest := mkOsuRest (Osu.c_meta OsuWhole.example_chart7) [98; 103]%Z [] [].
Lemma example_osu_domain : OsuWhole.wdom6 (build_osu example_rows example_osu_rest) [65]%Z [66]%Z = true.
Proof. vm_compute. reflexivity. Qed.
Definition example_bms_rest : bms_rest := mkBmsRest [] [90; 90]%Z [84]%Z [65]%Z [49]%Z [].
Lemma example_bms_domain :
  forallb (fun lay => BMSSpec.write_dom C05.tbl Tables.bms.max_keys lay [48; 49]%Z (build_bms example_rows example_bms_rest)
                      && match BMSSpec.wscript C05.tbl (build_bms example_rows example_bms_rest) with
                         | Some l => bms_on_grid example_rows l | None => false end) Tables.bms.layouts = true.
Proof. vm_compute. reflexivity. Qed.
Lemma example_converter_domains :
  forallb example_okb ["OsuToQua"; "QuaToOsu"; "O2JToOsu"; "O2JToQua"; "OsuToSM"; "QuaToSM"; "O2JToSM"; "SMToOsu"; "SMToQua";
                       "BMSToOsu"; "BMSToQua"; "BMSToSM"; "OsuToBMS"; "QuaToBMS"; "SMToBMS"; "O2JToBMS"]%string = true.
Proof. vm_compute. reflexivity. Qed.
(* the 16 pairs are shipped converters between the games they are named after *)
Definition pair_table : list (string * Z * Z) :=
  [("OsuToQua", G_OSU, G_QUA); ("OsuToSM", G_OSU, G_SM); ("OsuToBMS", G_OSU, G_BMS); ("QuaToOsu", G_QUA, G_OSU);
   ("QuaToSM", G_QUA, G_SM); ("QuaToBMS", G_QUA, G_BMS); ("SMToOsu", G_SM, G_OSU); ("SMToQua", G_SM, G_QUA);
   ("SMToBMS", G_SM, G_BMS); ("BMSToOsu", G_BMS, G_OSU); ("BMSToQua", G_BMS, G_QUA); ("BMSToSM", G_BMS, G_SM);
   ("O2JToOsu", G_O2J, G_OSU); ("O2JToQua", G_O2J, G_QUA); ("O2JToSM", G_O2J, G_SM); ("O2JToBMS", G_O2J, G_BMS)]%string.
Lemma pair_converters_shipped :
  forallb (fun t => match conv_named (fst (fst t)) with
                    | Some d => (cd_src_game d =? snd (fst t))%Z && (cd_tgt_game d =? snd t)%Z | None => false end) pair_table = true.
Proof. vm_compute. reflexivity. Qed.
Lemma conv_named_in name d : conv_named name = Some d -> exists n, In (n, d) Tables.convert.converters.
Proof.
  unfold conv_named.
  destruct (List.find (fun p : Z * conv_desc => String.eqb (cd_name (snd p)) name) Tables.convert.converters) as [[n d']|] eqn:E;
    [|discriminate].
  intro H. inversion H; subst. exists n. exact (proj1 (find_some _ _ E)).
Qed.

(* ================================================================== the nine formerly partial pairs, with the follow-up lemmas
   C02_sm_read_tempo_list_on_lines / C04_bms_read_tempo_list_on_lines (tempo changes on measure lines: the chart's tempo
   list IS the denoted one; off the lines the reader reseats: the known finding tempo-reseated) and C05_bms_write_timeline
   (the 1/192-beat bound of the BMS writer as timeline closeness). *)
From RV Require Proofs.BMSTimelineProofs Proofs.TimingProofs Formats.BMSGuards.
Open Scope Q_scope.

(* ---- StepMania reader, tempo changes on measure lines ---- *)
Theorem sm_reader_rows_lines txt : SMReadDom.c02_domb txt = true -> SMReadDom.sm_tempo_on_lines txt = true ->
  exists d s, SMSpec.sm_denote txt = Some d /\ SM.sm_read SMProofs.live_conf SM.current txt = Some s /\
    forall k dc c, nth_error (SMSpec.d_charts d) k = Some dc -> nth_error (SM.s_maps s) k = Some c ->
      timeline_close 0 0 (tl_of_rows (rows_of_smchart c)) (tl_of_sm_chart d dc).
Proof.
  intros H HL. destruct (sm_reader_rows txt H) as [d [s [D [R F]]]].
  destruct (C02.C02_sm_read_tempo_list_on_lines txt H HL) as [d' [s' [D' [R' TE]]]].
  rewrite D in D'. inversion D'; subst d'. rewrite R in R'. inversion R'; subst s'.
  exists d, s. split; [exact D|]. split; [exact R|]. intros k dc c Nd Nc. apply (F k dc c Nd Nc).
  unfold sm_tempo_same. unfold SMReadWhole.tempo_exact in TE. rewrite Forall_forall in TE.
  specialize (TE c (nth_error_In _ _ Nc)). unfold rows_of_smchart. cbn [r_bpms].
  clear - TE. induction TE as [|b tp bl tl Hb F IH]; [reflexivity|]. cbn [map ms_matchb take_first].
  destruct Hb as [E1 [E2 _]]. unfold tempo_close_byb at 1. cbn [fst snd]. unfold q_within.
  replace (Qle_bool (Qabs (fst (fst b) - snd tp)) 0) with true.
  2:{ symmetry. apply Qle_bool_iff. apply Qabs_zero_le; [rewrite E1; ring | lra]. }
  replace (Qle_bool (Qabs (snd (fst b) - snd (fst tp))) 0) with true.
  2:{ symmetry. apply Qle_bool_iff. apply Qabs_zero_le; [rewrite E2; ring | lra]. }
  cbn [andb]. exact IH.
Qed.

(* ---- BMS reader, tempo objects on measure lines: the read RETURNS ---- *)
Theorem bms_reader_rows_lines lay mk lines :
  BMSSpec.layout_ok mk lay = true -> BMSSpec.wf_bms_lines lay lines = true -> BMSSpec.read_guards C04.tbl lines = true ->
  BMSGuards.bms_tempo_on_lines lines = true ->
  exists c d, BMS.bms_read C04.tbl lay mk lines = Some c /\ BMSSpec.bms_denote lay lines = Some d
    /\ timeline_close 0 0 (tl_of_rows (rows_of_bms c)) (tl_of_bms d).
Proof.
  intros HL HW HG HT. destruct (C04.C04_bms_read_tempo_list_on_lines lay mk lines HL HW HG HT) as [c [d [R [D [_ FT]]]]].
  exists c, d. split; [exact R|]. split; [exact D|].
  destruct (bms_reader_rows lay mk lines c HL HW HG R) as [d' [D' H]]. rewrite D in D'. inversion D'; subst d'.
  apply H. unfold bms_tempo_same, rows_of_bms. cbn [r_bpms].
  clear - FT. induction FT as [|b tb bl tl Hb F IH]; [reflexivity|]. cbn [map ms_matchb take_first].
  destruct Hb as [E1 [E2 _]]. unfold tempo_close_byb at 1. cbn [fst snd]. unfold q_within.
  replace (Qle_bool (Qabs (Snap.bo_off b - fst tb)) 0) with true.
  2:{ symmetry. apply Qle_bool_iff. apply Qabs_zero_le; [rewrite E1; ring | lra]. }
  replace (Qle_bool (Qabs (Snap.bo_bpm b - snd tb)) 0) with true.
  2:{ symmetry. apply Qle_bool_iff. apply Qabs_zero_le; [rewrite E2; ring | lra]. }
  cbn [andb]. exact IH.
Qed.

(* ---- BMS writer: every time within 1/192 beat at the local tempo of the chart written (exact on the snap grid) ---- *)
Lemma tl_of_wchart_build r p : timeline_close 0 0 (BMSTimelineProofs.tl_of_wchart (build_bms r p)) (tl_of_rows r).
Proof.
  unfold BMSTimelineProofs.tl_of_wchart, build_bms, tl_of_rows. cbn [BMS.w_hits BMS.w_holds BMS.w_bpms].
  rewrite !map_map. cbn [BMS.h_col BMS.h_off BMS.ho_col BMS.ho_off BMS.ho_len].
  apply timeline_close_of_perm; [apply Permutation_refl|].
  eapply Permutation_trans; [apply Permutation_map; apply Permutation_sym; apply TimingProofs.sort_by_perm|].
  rewrite map_map. cbn [Snap.bo_off Snap.bo_bpm]. rewrite (map_id_ext _ (r_bpms r)); [apply Permutation_refl|]. intros [x y]; reflexivity.
Qed.

Lemma close_by_then_exact (rf : Q -> Q) e a b c : (forall t t', t == t' -> rf t = rf t') ->
  timeline_close_by rf e a b -> timeline_close 0 0 b c -> timeline_close_by rf e a c.
Proof.
  intros Hrf [N1 T1] [N2 T2]. split.
  - eapply ms_rel_trans; [|exact N1|exact N2]. intros x y z [A [B [C D]]] [A' [B' [C' D']]].
    assert (Ez: tn_time y == tn_time z) by (apply Qabs_Qle_condition in C'; lra).
    assert (Ee: tn_end y == tn_end z) by (apply Qabs_Qle_condition in D'; lra).
    unfold note_close_by. repeat split; try congruence.
    + rewrite <- (Hrf _ _ Ez). apply (Qabs_le_eq _ (tn_time x - tn_time y)); [rewrite Ez; ring | exact C].
    + rewrite <- (Hrf _ _ Ee). apply (Qabs_le_eq _ (tn_end x - tn_end y)); [rewrite Ee; ring | exact D].
  - eapply ms_rel_trans; [|exact T1|exact T2]. intros x y z [A B] [A' B'].
    assert (Ez: fst y == fst z) by (apply Qabs_Qle_condition in A'; lra).
    assert (Eb: snd y == snd z) by (apply Qabs_Qle_condition in B'; lra).
    split.
    + rewrite <- (Hrf _ _ Ez). apply (Qabs_le_eq _ (fst x - fst y)); [rewrite Ez; ring | exact A].
    + apply (Qabs_le_eq _ (snd x - snd y)); [rewrite Eb; ring | exact B].
Qed.

Definition bms_res (r : rows) (p : bms_rest) : Q -> Q := res_of FBms (tl_tempo (BMSTimelineProofs.tl_of_wchart (build_bms r p))).

Theorem bms_writer_bound mk lay dflt r p (rd : Q -> list Z) tsrc :
  timeline_close 0 0 (tl_of_rows r) tsrc ->
  BMSSpec.write_dom C05.tbl mk lay dflt (build_bms r p) = true -> (forall q, BMSText.parse_decimal (rd q) <> None) ->
  exists ls dt, BMS.bms_write C05.tbl lay dflt (build_bms r p) = Some ls
    /\ BMSSpec.bms_denote lay (map (BMSSpec.render_with rd) ls) = Some dt
    /\ timeline_close_by (bms_res r p) 0 (tl_of_bms dt) tsrc.
Proof.
  intros Hc Hdom Hr. destruct (C05.C05_bms_write_timeline mk lay dflt _ rd Hdom Hr) as [ls [l [dt [W [_ [D [_ T]]]]]]].
  exists ls, dt. split; [exact W|]. split; [exact D|].
  pose proof (timeline_close_trans _ _ _ _ _ _ _ (tl_of_wchart_build r p) Hc) as X.
  assert (X0: timeline_close 0 0 (BMSTimelineProofs.tl_of_wchart (build_bms r p)) tsrc) by (eapply timeline_close_weaken; [| |exact X]; lra).
  unfold bms_res. eapply close_by_then_exact; [|exact T|exact X0].
  intros t t' E. apply BMSTimelineProofs.bl_near_res_comp_gen. exact E.
Qed.

Definition bms_target_bound (mk : Z) (lay : BMSSpec.slayout) (dflt : list Z) (p : bms_rest) (rd : Q -> list Z) (r' : rows) (tsrc : timeline) : Prop :=
  BMSSpec.write_dom C05.tbl mk lay dflt (build_bms r' p) = true -> (forall q, BMSText.parse_decimal (rd q) <> None) ->
  exists ls dt, BMS.bms_write C05.tbl lay dflt (build_bms r' p) = Some ls
    /\ BMSSpec.bms_denote lay (map (BMSSpec.render_with rd) ls) = Some dt
    /\ timeline_close_by (bms_res r' p) 0 (tl_of_bms dt) tsrc.

(* ---- StepMania -> osu! / Quaver / BMS, FULL for files whose tempo changes lie on measure lines ---- *)
Section SmSourceLines.
  Variables (n : Z) (d : conv_desc) (txt : list Z) (a : cargs) (oracle : Converters.chart) (sz : Z).
  Hypothesis Hd : In (n, d) Tables.convert.converters.
  Hypothesis W : SMReadDom.c02_domb txt = true.
  Hypothesis WL : SMReadDom.sm_tempo_on_lines txt = true.
  Hypothesis Hs : a_shift a = inject_Z sz.

  Lemma sm_lines_step : exists ds s, SMSpec.sm_denote txt = Some ds /\ SM.sm_read SMProofs.live_conf SM.current txt = Some s /\
    forall k dc c, nth_error (SMSpec.d_charts ds) k = Some dc -> nth_error (SM.s_maps s) k = Some c ->
    forall sm cs, rows_of_cchart cs = Some (rows_of_smchart c) -> chart_wfb d a sm k cs oracle = true ->
      exists out, conv_chart d a sm k cs oracle = Some out
        /\ rows_of_cchart out = Some (shift_rows (conv_shift d sz) (rows_of_smchart c))
        /\ timeline_close 0 0 (tl_of_rows (shift_rows (conv_shift d sz) (rows_of_smchart c))) (tl_shift (conv_shift d sz) (tl_of_sm_chart ds dc)).
  Proof.
    destruct (sm_reader_rows_lines txt W WL) as [ds [s [D [R H]]]]. exists ds, s. split; [exact D|]. split; [exact R|].
    intros k dc c Nd Nc sm cs Hr Hwf.
    exact (convert_step d a sm k cs oracle sz _ _ _ _ (shipped_conv_okb _ _ Hd) Hwf Hs Hr (H k dc c Nd Nc)).
  Qed.

  Theorem sm_to_osu_lines_pipeline p ut ua B :
    exists ds s, SMSpec.sm_denote txt = Some ds /\ SM.sm_read SMProofs.live_conf SM.current txt = Some s /\
    forall k dc c, nth_error (SMSpec.d_charts ds) k = Some dc -> nth_error (SM.s_maps s) k = Some c ->
    forall sm cs, rows_of_cchart cs = Some (rows_of_smchart c) -> chart_wfb d a sm k cs oracle = true ->
      exists out r', conv_chart d a sm k cs oracle = Some out /\ rows_of_cchart out = Some r' /\
        (OsuWhole.wdom6 (build_osu r' p) ut ua = true -> (forall b, In b (r_bpms r') -> Qabs (snd b) <= B) ->
         exists text dt, OsuWhole.written6 (build_osu r' p) ut ua = Some text /\ OsuSpec.wf_osu_text text = true
           /\ OsuSpec.osu_denote text = Some dt
           /\ timeline_close 1 (OSU_BPM_EPS B) (tl_of_osu dt) (tl_shift (conv_shift d sz) (tl_of_sm_chart ds dc))).
  Proof.
    destruct sm_lines_step as [ds [s [D [R H]]]]. exists ds, s. split; [exact D|]. split; [exact R|].
    intros k dc c Nd Nc sm cs Hr Hwf. destruct (H k dc c Nd Nc sm cs Hr Hwf) as [out [Ho [Hro Hc]]].
    exists out, (shift_rows (conv_shift d sz) (rows_of_smchart c)). split; [exact Ho|]. split; [exact Hro|].
    intros Wd HB. exact (osu_writer_tail _ p ut ua B _ Hc Wd HB).
  Qed.
  Theorem sm_to_qua_lines_pipeline qmeta : meta_okb false qmeta = true ->
    exists ds s, SMSpec.sm_denote txt = Some ds /\ SM.sm_read SMProofs.live_conf SM.current txt = Some s /\
    forall k dc c, nth_error (SMSpec.d_charts ds) k = Some dc -> nth_error (SM.s_maps s) k = Some c ->
    forall sm cs, rows_of_cchart cs = Some (rows_of_smchart c) -> chart_wfb d a sm k cs oracle = true ->
      exists out r', conv_chart d a sm k cs oracle = Some out /\ rows_of_cchart out = Some r' /\
        (cols_nonneg r' = true ->
         wf_chartb false (build_qua r' qmeta) = true /\
         exists doc e, Live.write (build_qua r' qmeta) = Some doc /\ wf_qua_docb doc = true /\ qua_denote doc = Some e
           /\ timeline_close 1 0 (tl_of_qua e) (tl_shift (conv_shift d sz) (tl_of_sm_chart ds dc))).
  Proof.
    intro Hm. destruct sm_lines_step as [ds [s [D [R H]]]]. exists ds, s. split; [exact D|]. split; [exact R|].
    intros k dc c Nd Nc sm cs Hr Hwf. destruct (H k dc c Nd Nc sm cs Hr Hwf) as [out [Ho [Hro Hc]]].
    exists out, (shift_rows (conv_shift d sz) (rows_of_smchart c)). split; [exact Ho|]. split; [exact Hro|].
    intro Hcol. exact (qua_writer_tail _ qmeta _ Hc Hcol Hm).
  Qed.
  Theorem sm_to_bms_lines_pipeline mk lay dflt p rd :
    exists ds s, SMSpec.sm_denote txt = Some ds /\ SM.sm_read SMProofs.live_conf SM.current txt = Some s /\
    forall k dc c, nth_error (SMSpec.d_charts ds) k = Some dc -> nth_error (SM.s_maps s) k = Some c ->
    forall sm cs, rows_of_cchart cs = Some (rows_of_smchart c) -> chart_wfb d a sm k cs oracle = true ->
      exists out r', conv_chart d a sm k cs oracle = Some out /\ rows_of_cchart out = Some r' /\
        bms_target_bound mk lay dflt p rd r' (tl_shift (conv_shift d sz) (tl_of_sm_chart ds dc)).
  Proof.
    destruct sm_lines_step as [ds [s [D [R H]]]]. exists ds, s. split; [exact D|]. split; [exact R|].
    intros k dc c Nd Nc sm cs Hr Hwf. destruct (H k dc c Nd Nc sm cs Hr Hwf) as [out [Ho [Hro Hc]]].
    exists out, (shift_rows (conv_shift d sz) (rows_of_smchart c)). split; [exact Ho|]. split; [exact Hro|].
    intros Hdom Hrd. exact (bms_writer_bound mk lay dflt _ p rd _ Hc Hdom Hrd).
  Qed.
End SmSourceLines.

(* ---- BMS -> osu! / Quaver / StepMania, FULL for texts whose tempo objects sit on measure lines (the read returns) ---- *)
Section BmsSourceLines.
  Variables (n : Z) (d : conv_desc) (lay : BMSSpec.slayout) (mk : Z) (lines : list (list Z))
            (a : cargs) (sm : meta) (k : nat) (oracle : Converters.chart) (sz : Z).
  Hypothesis Hd : In (n, d) Tables.convert.converters.
  Hypothesis HL : BMSSpec.layout_ok mk lay = true.
  Hypothesis HW : BMSSpec.wf_bms_lines lay lines = true.
  Hypothesis HG : BMSSpec.read_guards C04.tbl lines = true.
  Hypothesis HT : BMSGuards.bms_tempo_on_lines lines = true.
  Hypothesis Hs : a_shift a = inject_Z sz.

  Lemma bms_lines_step : exists c ds, BMS.bms_read C04.tbl lay mk lines = Some c /\ BMSSpec.bms_denote lay lines = Some ds /\
    forall cs, rows_of_cchart cs = Some (rows_of_bms c) -> chart_wfb d a sm k cs oracle = true ->
      exists out, conv_chart d a sm k cs oracle = Some out
        /\ rows_of_cchart out = Some (shift_rows (conv_shift d sz) (rows_of_bms c))
        /\ timeline_close 0 0 (tl_of_rows (shift_rows (conv_shift d sz) (rows_of_bms c))) (tl_shift (conv_shift d sz) (tl_of_bms ds)).
  Proof.
    destruct (bms_reader_rows_lines lay mk lines HL HW HG HT) as [c [ds [R [D T]]]]. exists c, ds. split; [exact R|]. split; [exact D|].
    intros cs Hr Hwf. exact (convert_step d a sm k cs oracle sz _ _ _ _ (shipped_conv_okb _ _ Hd) Hwf Hs Hr T).
  Qed.

  Theorem bms_to_osu_lines_pipeline p ut ua B :
    exists c ds, BMS.bms_read C04.tbl lay mk lines = Some c /\ BMSSpec.bms_denote lay lines = Some ds /\
    forall cs, rows_of_cchart cs = Some (rows_of_bms c) -> chart_wfb d a sm k cs oracle = true ->
      exists out r', conv_chart d a sm k cs oracle = Some out /\ rows_of_cchart out = Some r' /\
        (OsuWhole.wdom6 (build_osu r' p) ut ua = true -> (forall b, In b (r_bpms r') -> Qabs (snd b) <= B) ->
         exists text dt, OsuWhole.written6 (build_osu r' p) ut ua = Some text /\ OsuSpec.wf_osu_text text = true
           /\ OsuSpec.osu_denote text = Some dt
           /\ timeline_close 1 (OSU_BPM_EPS B) (tl_of_osu dt) (tl_shift (conv_shift d sz) (tl_of_bms ds))).
  Proof.
    destruct bms_lines_step as [c [ds [R [D H]]]]. exists c, ds. split; [exact R|]. split; [exact D|]. intros cs Hr Hwf.
    destruct (H cs Hr Hwf) as [out [Ho [Hro Hc]]]. exists out, (shift_rows (conv_shift d sz) (rows_of_bms c)).
    split; [exact Ho|]. split; [exact Hro|]. intros Wd HB. exact (osu_writer_tail _ p ut ua B _ Hc Wd HB).
  Qed.
  Theorem bms_to_qua_lines_pipeline qmeta : meta_okb false qmeta = true ->
    exists c ds, BMS.bms_read C04.tbl lay mk lines = Some c /\ BMSSpec.bms_denote lay lines = Some ds /\
    forall cs, rows_of_cchart cs = Some (rows_of_bms c) -> chart_wfb d a sm k cs oracle = true ->
      exists out r', conv_chart d a sm k cs oracle = Some out /\ rows_of_cchart out = Some r' /\
        (cols_nonneg r' = true ->
         wf_chartb false (build_qua r' qmeta) = true /\
         exists doc e, Live.write (build_qua r' qmeta) = Some doc /\ wf_qua_docb doc = true /\ qua_denote doc = Some e
           /\ timeline_close 1 0 (tl_of_qua e) (tl_shift (conv_shift d sz) (tl_of_bms ds))).
  Proof.
    intro Hm. destruct bms_lines_step as [c [ds [R [D H]]]]. exists c, ds. split; [exact R|]. split; [exact D|]. intros cs Hr Hwf.
    destruct (H cs Hr Hwf) as [out [Ho [Hro Hc]]]. exists out, (shift_rows (conv_shift d sz) (rows_of_bms c)).
    split; [exact Ho|]. split; [exact Hro|]. intro Hcol. exact (qua_writer_tail _ qmeta _ Hc Hcol Hm).
  Qed.
  Theorem bms_to_sm_lines_pipeline p :
    exists c ds, BMS.bms_read C04.tbl lay mk lines = Some c /\ BMSSpec.bms_denote lay lines = Some ds /\
    forall cs, rows_of_cchart cs = Some (rows_of_bms c) -> chart_wfb d a sm k cs oracle = true ->
      exists out r', conv_chart d a sm k cs oracle = Some out /\ rows_of_cchart out = Some r' /\
        (SMWriteWholeFile.c03_domb (build_sm r' p) = true -> distinct_offs (r_bpms r') ->
         exists toks, SM.sm_write SMProofs.live_conf SM.current (build_sm r' p) = Some toks /\
           forall txt, SM.match_toks 0 toks txt = true ->
             exists dt dc, SMSpec.sm_denote txt = Some dt /\ SMSpec.d_charts dt = [dc]
               /\ timeline_close 0 0 (tl_of_sm_chart dt dc) (tl_shift (conv_shift d sz) (tl_of_bms ds))).
  Proof.
    destruct bms_lines_step as [c [ds [R [D H]]]]. exists c, ds. split; [exact R|]. split; [exact D|]. intros cs Hr Hwf.
    destruct (H cs Hr Hwf) as [out [Ho [Hro Hc]]]. exists out, (shift_rows (conv_shift d sz) (rows_of_bms c)).
    split; [exact Ho|]. split; [exact Hro|]. intros Hdom Hdist. exact (sm_writer_tail _ p _ _ _ Hc Hdom Hdist).
  Qed.
End BmsSourceLines.

(* ---- osu! / Quaver / O2Jam -> BMS, FULL inside write_dom: every time within 1/192 beat at the local tempo ---- *)
Theorem osu_to_bms_bound_pipeline n d lines a sm k oracle sz mk lay dflt p rd :
  In (n, d) Tables.convert.converters ->
  OsuSpec.wf_read_text lines = true -> OsuSpec.strict_read_text lines = true -> a_shift a = inject_Z sz ->
  exists dsrc c, OsuSpec.osu_denote lines = Some dsrc /\ Osu.osu_read lines = Some c /\
    forall cs, rows_of_cchart cs = Some (rows_of_osu c) -> chart_wfb d a sm k cs oracle = true ->
      exists out r', conv_chart d a sm k cs oracle = Some out /\ rows_of_cchart out = Some r' /\
        bms_target_bound mk lay dflt p rd r' (tl_shift (conv_shift d sz) (tl_of_osu dsrc)).
Proof.
  intros Hd W S Hs. destruct (osu_reader_rows lines W S) as [dsrc [c [D [R T]]]].
  exists dsrc, c. split; [exact D|]. split; [exact R|]. intros cs Hr Hwf.
  assert (T0: timeline_close 0 0 (tl_of_rows (rows_of_osu c)) (tl_of_osu dsrc)) by (rewrite T; apply timeline_close_refl; lra).
  destruct (convert_step d a sm k cs oracle sz _ _ _ _ (shipped_conv_okb _ _ Hd) Hwf Hs Hr T0) as [out [Ho [Hro Hc]]].
  exists out, (shift_rows (conv_shift d sz) (rows_of_osu c)). split; [exact Ho|]. split; [exact Hro|].
  intros Hdom Hrd. exact (bms_writer_bound mk lay dflt _ p rd _ Hc Hdom Hrd).
Qed.
Theorem qua_to_bms_bound_pipeline n d doc a sm k oracle sz mk lay dflt p rd :
  In (n, d) Tables.convert.converters -> wf_docb doc = true -> a_shift a = inject_Z sz ->
  exists c e rA, Live.read doc = Some c /\ qua_denote doc = Some e /\ rows_of_qua c = Some rA /\
    forall cs, rows_of_cchart cs = Some rA -> chart_wfb d a sm k cs oracle = true ->
      exists out r', conv_chart d a sm k cs oracle = Some out /\ rows_of_cchart out = Some r' /\
        bms_target_bound mk lay dflt p rd r' (tl_shift (conv_shift d sz) (tl_of_qua e)).
Proof.
  intros Hd W Hs. destruct (qua_reader_rows doc W) as [c [e [rA [R [E [Hr0 T0]]]]]].
  exists c, e, rA. split; [exact R|]. split; [exact E|]. split; [exact Hr0|]. intros cs Hr Hwf.
  destruct (convert_step d a sm k cs oracle sz _ _ _ _ (shipped_conv_okb _ _ Hd) Hwf Hs Hr T0) as [out [Ho [Hro Hc]]].
  exists out, (shift_rows (conv_shift d sz) rA). split; [exact Ho|]. split; [exact Hro|].
  intros Hdom Hrd. exact (bms_writer_bound mk lay dflt _ p rd _ Hc Hdom Hrd).
Qed.
Theorem o2j_to_bms_bound_pipeline n d f trail a sm oracle sz mk lay dflt p rd :
  Tables.c07.layout = O2JSpec.ref_layout ->
  In (n, d) Tables.convert.converters -> O2JSpec.wf_file f = true -> a_shift a = inject_Z sz ->
  exists o dn, O2J.read_fixed (O2JSpec.encode_file f ++ trail) = Some o /\ O2JSpec.ojn_denote f = Some dn /\
    forall k mo md, nth_error (O2J.os_maps o) k = Some mo -> nth_error (O2J.os_maps dn) k = Some md ->
    forall cs, rows_of_cchart cs = Some (rows_of_omap mo) -> chart_wfb d a sm k cs oracle = true ->
      exists out r', conv_chart d a sm k cs oracle = Some out /\ rows_of_cchart out = Some r' /\
        bms_target_bound mk lay dflt p rd r' (tl_shift (conv_shift d sz) (tl_of_omap md)).
Proof.
  intros L Hd W Hs. destruct (o2j_reader_half L f trail W) as [o [dn [R [D H]]]].
  exists o, dn. split; [exact R|]. split; [exact D|]. intros k mo md No Nd cs Hr Hwf.
  destruct (H k mo md No Nd) as [T0 _]. rewrite <- tl_of_rows_of_omap in T0 at 1.
  destruct (convert_step d a sm k cs oracle sz _ _ _ _ (shipped_conv_okb _ _ Hd) Hwf Hs Hr T0) as [out [Ho [Hro Hc]]].
  exists out, (shift_rows (conv_shift d sz) (rows_of_omap mo)). split; [exact Ho|]. split; [exact Hro|].
  intros Hdom Hrd. exact (bms_writer_bound mk lay dflt _ p rd _ Hc Hdom Hrd).
Qed.

(* non-vacuity of the new guards: C02's / C04's on-lines witnesses are in the readers' domains *)
From RV Require Proofs.SMReadWitness.
Lemma example_sm_on_lines :
  SMReadDom.c02_domb SMReadWitness.w_read_on_lines = true /\ SMReadDom.sm_tempo_on_lines SMReadWitness.w_read_on_lines = true.
Proof. split; vm_compute; reflexivity. Qed.
Lemma example_bms_on_lines :
  BMSSpec.layout_ok Tables.bms.max_keys C04.lay_PMS && BMSSpec.wf_bms_lines C04.lay_PMS C04.w_on_lines
  && BMSSpec.read_guards C04.tbl C04.w_on_lines && BMSGuards.bms_tempo_on_lines C04.w_on_lines = true.
Proof. vm_compute. reflexivity. Qed.
(* ... and a chart in write_dom whose times are NOT on the snap grid (the regime the bound is for): a hit 1 ms after a beat *)
Definition example_rows_offgrid : rows := mkRows [(501, 0%Z)] [(1000, 1%Z, 251)] [(0, 120)].
Lemma example_bms_offgrid :
  BMSSpec.write_dom C05.tbl Tables.bms.max_keys C04.lay_PMS [48; 49]%Z (build_bms example_rows_offgrid example_bms_rest) = true
  /\ match BMSSpec.wscript C05.tbl (build_bms example_rows_offgrid example_bms_rest) with
     | Some l => bms_on_grid example_rows_offgrid l | None => true end = false.
Proof. split; vm_compute; reflexivity. Qed.
