(* C15, part 2: permutation invariance, for ALL inputs, of models that other properties built:
     A. generic list facts
     B. the timing engine (restatement of C10's any-order theorem)
     C. full_ln (Algo/FullLN.v)
     D. ConvertBase.cast, whole rows at once (Convert/Cast.v)
   Further parts: PermAnalysisProofs.v (dominant_bpm, scroll_speed, sv_normalize), PermHitsoundProofs.v (hitsound_copy),
   PermWriterProofs.v (osu, Quaver, StepMania writers). *)
From Coq Require Import ZArith QArith Qround List Bool Sorting.Permutation Sorting.Sorted Lia.
From RV Require Import Base.PyNum.
Import ListNotations.

(* ================================================================== A. generic *)
Lemma perm_flat_map_F2 {A B} (R : A -> A -> Prop) (f : A -> list B) l l' :
  Forall2 R l l' -> (forall a b, R a b -> Permutation (f a) (f b)) -> Permutation (flat_map f l) (flat_map f l').
Proof.
  intros H Hf. induction H as [|a b l l' Hab _ IH]; cbn [flat_map]; [constructor|].
  apply Permutation_app; [apply Hf; exact Hab|exact IH].
Qed.

Lemma F2_filter {A} (R : A -> A -> Prop) (p : A -> bool) l l' :
  Forall2 R l l' -> (forall a b, R a b -> p a = p b) -> Forall2 R (filter p l) (filter p l').
Proof.
  intros H Hp. induction H as [|a b l l' Hab _ IH]; cbn [filter]; [constructor|].
  rewrite (Hp a b Hab). destruct (p b); [constructor; assumption|exact IH].
Qed.

Lemma F2_map {A B} (R : A -> A -> Prop) (S : B -> B -> Prop) (f g : A -> B) l l' :
  Forall2 R l l' -> (forall a b, R a b -> S (f a) (g b)) -> Forall2 S (map f l) (map g l').
Proof. intros H Hf. induction H; cbn [map]; constructor; auto. Qed.

Lemma perm_filter' {A} (p : A -> bool) l l' : Permutation l l' -> Permutation (filter p l) (filter p l').
Proof.
  induction 1 as [|x l l' _ IH|x y l|l l' l'' _ IH1 _ IH2]; cbn [filter].
  - constructor.
  - destruct (p x); [constructor|]; exact IH.
  - destruct (p x), (p y); try apply Permutation_refl. apply perm_swap.
  - eapply perm_trans; eassumption.
Qed.

(* two strictly increasing lists with the same elements are equal *)
Lemma strict_sorted_ext (l1 : list Z) : forall l2,
  StronglySorted Z.lt l1 -> StronglySorted Z.lt l2 -> (forall x, In x l1 <-> In x l2) -> l1 = l2.
Proof.
  induction l1 as [|x l1 IH]; intros l2 H1 H2 Hi.
  - destruct l2 as [|y l2]; [reflexivity|]. exfalso. apply (proj2 (Hi y)). left. reflexivity.
  - destruct l2 as [|y l2]; [exfalso; apply (proj1 (Hi x)); left; reflexivity|].
    apply StronglySorted_inv in H1. destruct H1 as [H1 F1]. apply StronglySorted_inv in H2. destruct H2 as [H2 F2].
    rewrite Forall_forall in F1, F2.
    assert (E: x = y).
    { destruct (proj1 (Hi x) (or_introl eq_refl)) as [E|Hx]; [symmetry; exact E|].
      destruct (proj2 (Hi y) (or_introl eq_refl)) as [E|Hy]; [exact E|].
      pose proof (F1 y Hy). pose proof (F2 x Hx). lia. }
    subst y. f_equal. apply IH; auto. intro z. split; intro Hz.
    + destruct (proj1 (Hi z) (or_intror Hz)) as [E|Hz']; [|exact Hz']. subst z. pose proof (F1 x Hz). lia.
    + destruct (proj2 (Hi z) (or_intror Hz)) as [E|Hz']; [|exact Hz']. subst z. pose proof (F2 x Hz). lia.
Qed.

(* ================================================================== B. timing engine *)
From RV Require Import Timing.Snapper Timing.Snap Timing.TimingMap Timing.Domain2 Proofs.TimingProofs2.

(* the tempo changes of a chart handed to the engine in any row order (pairwise distinct offsets) are the same timing
   map: position -> ms, ms -> position and cumulative beats agree for every query list.  Reuses C10's proof. *)
Theorem timing_perm tbl bcos bcos' : Permutation bcos bcos' -> distinct_offsb bcos = true ->
  (forall qs, tm_offsets tbl bcos' qs = tm_offsets tbl bcos qs)
  /\ (forall os, tm_snaps tbl bcos' os = tm_snaps tbl bcos os)
  /\ (forall os, tm_beats tbl bcos' os = tm_beats tbl bcos os).
Proof. intros Hp Hd. apply (any_order_b tbl); [apply Permutation_sym; exact Hp|exact Hd]. Qed.

(* without the side condition the statement is false of the engine: two tempo changes at one time *)
Theorem timing_perm_needs_distinct_refuted :
  exists tbl bcos bcos' qs, Permutation bcos bcos' /\ tm_offsets tbl bcos' qs <> tm_offsets tbl bcos qs.
Proof.
  exists [0; 1], [mkBco 120 4 0; mkBco 240 4 0], [mkBco 240 4 0; mkBco 120 4 0], [mkSnap 1 0 4].
  split; [apply perm_swap|]. vm_compute. discriminate.
Qed.

(* ================================================================== C. full_ln *)
From RV Require Import Algo.FullLN Algo.FullLNSpec Proofs.FullLNProofs.
Open Scope Z_scope.

(* one list of the chart with its rows in another order: same attribute, same class, the (column, offset, length)
   views and the interned full rows are permutations *)
Definition tl_perm (a b : tlist) : Prop :=
  tl_slot a = tl_slot b /\ tl_class a = tl_class b
  /\ Permutation (tl_notes a) (tl_notes b) /\ Permutation (tl_ids a) (tl_ids b).
Definition ln_chart_perm (m m' : chart) : Prop := Forall2 tl_perm m m'.

(* no two notes at the same time in one column *)
Definition same_key (x y : note) : bool := (n_col x =? n_col y) && (n_off x =? n_off y).
Fixpoint distinct_keysb (l : list note) : bool :=
  match l with
  | [] => true
  | x :: l' => negb (existsb (same_key x) l') && distinct_keysb l'
  end.
Definition DistinctKeys (l : list note) : Prop :=
  forall x y, In x l -> In y l -> n_col x = n_col y -> n_off x = n_off y -> x = y.

Lemma distinct_keysb_sound l : distinct_keysb l = true -> DistinctKeys l.
Proof.
  induction l as [|z l IH]; intro H; [intros x y []|]. cbn [distinct_keysb] in H. apply andb_true_iff in H. destruct H as [Hz Hl].
  apply negb_true_iff in Hz.
  assert (Hne: forall y, In y l -> ~ (n_col z = n_col y /\ n_off z = n_off y)).
  { intros y Hy [E1 E2]. assert (existsb (same_key z) l = true); [|congruence].
    apply existsb_exists. exists y. split; [exact Hy|]. unfold same_key. rewrite E1, E2, !Z.eqb_refl. reflexivity. }
  intros x y [<-|Hx] [<-|Hy] E1 E2; [reflexivity|exfalso; apply (Hne y Hy); auto|
    exfalso; apply (Hne x Hx); auto|apply (IH Hl x y Hx Hy E1 E2)].
Qed.

Lemma DistinctKeys_perm l l' : Permutation l l' -> DistinctKeys l -> DistinctKeys l'.
Proof.
  intros Hp HD x y Hx Hy. apply HD; eapply Permutation_in; try (apply Permutation_sym; exact Hp); assumption.
Qed.

(* sorted permutations whose offsets identify the note are equal *)
Lemma sorted_off_unique s1 : forall s2, SortedOff s1 -> SortedOff s2 -> Permutation s1 s2 ->
  (forall x y, In x s1 -> In y s1 -> n_off x = n_off y -> x = y) -> s1 = s2.
Proof.
  induction s1 as [|x t1 IH]; intros s2 H1 H2 Hp HD.
  - apply Permutation_nil in Hp. subst. reflexivity.
  - destruct s2 as [|y t2]; [apply Permutation_sym, Permutation_nil in Hp; discriminate|].
    apply StronglySorted_inv in H1. destruct H1 as [H1 Hx]. rewrite Forall_forall in Hx.
    apply StronglySorted_inv in H2. destruct H2 as [H2 Hy]. rewrite Forall_forall in Hy.
    assert (Exy: x = y).
    { assert (Ix: In x (y :: t2)) by (apply (Permutation_in _ Hp); left; reflexivity).
      assert (Iy: In y (x :: t1)) by (apply (Permutation_in _ (Permutation_sym Hp)); left; reflexivity).
      destruct Ix as [E|Ix]; [symmetry; exact E|]. destruct Iy as [E|Iy]; [exact E|].
      pose proof (Hy x Ix) as L1. pose proof (Hx y Iy) as L2. unfold le_off in L1, L2.
      apply HD; [left; reflexivity|right; exact Iy|lia]. }
    subst y. f_equal. apply Permutation_cons_inv in Hp. apply (IH t2 H1 H2 Hp).
    intros a b Ha Hb. apply HD; right; assumption.
Qed.

Lemma group_perm_eq c s s' : Permutation s s' -> DistinctKeys s -> group c (isort s) = group c (isort s').
Proof.
  intros Hp HD. rewrite !group_is_filter. apply sorted_off_unique.
  - apply sorted_filter, isort_sorted.
  - apply sorted_filter, isort_sorted.
  - apply perm_filter'. eapply perm_trans; [apply isort_perm|]. eapply perm_trans; [exact Hp|apply Permutation_sym, isort_perm].
  - intros x y Hx Hy E. apply filter_In in Hx. destruct Hx as [Hx Cx]. apply filter_In in Hy. destruct Hy as [Hy Cy].
    unfold in_col in Cx, Cy. apply Z.eqb_eq in Cx, Cy.
    apply HD; [apply (Permutation_in _ (isort_perm s) Hx)|apply (Permutation_in _ (isort_perm s) Hy)|congruence|exact E].
Qed.

Lemma columns_perm_eq s s' : Permutation s s' -> columns s = columns s'.
Proof.
  intro Hp. apply strict_sorted_ext; try apply columns_sorted. intro c. rewrite !columns_in.
  split; apply Permutation_in; [apply Permutation_map; exact Hp|apply Permutation_map, Permutation_sym; exact Hp].
Qed.

(* the rows full_ln generates do not depend on the order of the stacked frame *)
Theorem ln_rows_perm gap thr s s' : Permutation s s' -> DistinctKeys s ->
  ln_rows gap thr (isort s) = ln_rows gap thr (isort s').
Proof.
  intros Hp HD. unfold ln_rows.
  rewrite (columns_perm_eq (isort s) (isort s'))
    by (eapply perm_trans; [apply isort_perm|]; eapply perm_trans; [exact Hp|apply Permutation_sym, isort_perm]).
  apply flat_map_ext. intro c. rewrite (group_perm_eq c s s' Hp HD). reflexivity.
Qed.

Lemma in_slot_F2 sl m m' : ln_chart_perm m m' -> Forall2 tl_perm (in_slot sl m) (in_slot sl m').
Proof. intro H. apply F2_filter; [exact H|]. intros a b [E _]. rewrite E. reflexivity. Qed.

Lemma stack_rows_perm a b : tl_perm a b -> Permutation (stack_rows a) (stack_rows b).
Proof.
  intros [_ [Ec [Hn _]]]. unfold stack_rows. rewrite Ec. destruct (tl_class b); [apply Permutation_map; exact Hn|exact Hn|constructor].
Qed.

Lemma stacked_chart_perm m m' : ln_chart_perm m m' -> Permutation (stacked m) (stacked m').
Proof.
  intro H. unfold stacked. apply Permutation_app; apply (perm_flat_map_F2 tl_perm); try apply in_slot_F2; try exact H; apply stack_rows_perm.
Qed.

Lemma find_slot_F2 sl m m' : ln_chart_perm m m' ->
  match find_slot sl m, find_slot sl m' with Some _, Some _ | None, None => True | _, _ => False end.
Proof.
  intro H. unfold find_slot. rewrite !find_filter. pose proof (in_slot_F2 sl m m' H) as F. unfold in_slot in F.
  destruct F; exact I.
Qed.

Lemma upd_F2 h o m m' : ln_chart_perm m m' -> ln_chart_perm (map (upd h o) m) (map (upd h o) m').
Proof.
  intro H. apply (F2_map tl_perm tl_perm); [exact H|]. intros a b [Es [Ec [Hn Hi]]]. unfold upd. rewrite Es.
  destruct (tl_slot b) eqn:Eb; unfold set_rows, tl_perm; cbn [tl_slot tl_class tl_notes tl_ids]; rewrite ?Es, ?Ec, ?Eb; auto 6.
Qed.

(* MAIN: full_ln of a chart whose lists have their rows permuted (no two notes of the stacked frame at the same
   time in one column): the same lists are produced - the generated hits and holds are EQUAL row for row, every other
   list is carried over (so it is the same permutation of itself as in the input) *)
Theorem full_ln_perm m m' gap thr r :
  ln_chart_perm m m' -> distinct_keysb (stacked m) = true -> full_ln m gap thr = Some r ->
  exists r', full_ln m' gap thr = Some r' /\ ln_chart_perm r r'
             /\ slot_notes SHits r' = slot_notes SHits r /\ slot_notes SHolds r' = slot_notes SHolds r.
Proof.
  intros Hm Hd Hr. apply distinct_keysb_sound in Hd. pose proof (stacked_chart_perm m m' Hm) as Hp.
  pose proof (ln_rows_perm gap thr _ _ Hp Hd) as E.
  pose proof (full_ln_sorted_inv _ _ _ _ _ Hr) as Er. unfold full_ln in Hr |- *. unfold full_ln_sorted in Hr |- *.
  pose proof (find_slot_F2 SHits m m' Hm) as F1. pose proof (find_slot_F2 SHolds m m' Hm) as F2.
  destruct (find_slot SHits m); [|discriminate]. destruct (find_slot SHolds m); [|discriminate].
  destruct (find_slot SHits m'); [|destruct F1]. destruct (find_slot SHolds m'); [|destruct F2].
  rewrite <- E.
  destruct (rebuild (filter is_hit _)) as [h|] eqn:E1; [|discriminate].
  destruct (rebuild (filter (fun n => negb (is_hit n)) _)) as [o|] eqn:E2; [|discriminate].
  apply rebuild_some in E1, E2. eexists. split; [reflexivity|]. subst r. rewrite <- E1, <- E2.
  fold (upd h o). split; [apply upd_F2; exact Hm|].
  rewrite !upd_hits, !upd_holds. unfold slot_lists.
  pose proof (in_slot_F2 SHits m m' Hm) as G1. pose proof (in_slot_F2 SHolds m m' Hm) as G2. unfold in_slot in G1, G2.
  split.
  - clear - G1. induction G1; cbn [flat_map]; [reflexivity|]. rewrite IHG1. reflexivity.
  - clear - G2. induction G2; cbn [flat_map]; [reflexivity|]. rewrite IHG2. reflexivity.
Qed.

(* the side condition is needed: two notes at one time in one column, the later-listed one is processed last *)
Theorem full_ln_perm_needs_distinct_refuted :
  exists m m' gap thr r r', ln_chart_perm m m' /\ wf_chart m = true /\ full_ln m gap thr = Some r /\ full_ln m' gap thr = Some r'
    /\ ~ Permutation (chart_notes r) (chart_notes r').
Proof.
  exists [mkTL SHits CHit [] []; mkTL SHolds CHold [mkNote 0 0 (Some 10); mkNote 0 0 (Some 20)] []],
         [mkTL SHits CHit [] []; mkTL SHolds CHold [mkNote 0 0 (Some 20); mkNote 0 0 (Some 10)] []], 0, 1.
  eexists. eexists. split; [|split; [vm_compute; reflexivity|split; [vm_compute; reflexivity|split; [vm_compute; reflexivity|]]]].
  - constructor; [repeat split; constructor|]. constructor; [|constructor]. split; [reflexivity|]. split; [reflexivity|]. split; [apply perm_swap|constructor].
  - intro H. apply (Permutation_in (mkNote 0 0 (Some 20))) in H; [|right; left; reflexivity].
    destruct H as [H|[H|[]]]; discriminate.
Qed.

(* ================================================================== D. cast, whole rows *)
From RV Require Import Frame.Frame Convert.Cast Map.StackerSpec Proofs.CastProofs.
Open Scope Q_scope.

(* a directly passed value array that is computed row by row from the source (e.g. BMS samples rendered as strings) follows
   the rows when they are permuted; a column name is the same name *)
Inductive src_rel (f g : frame) : source -> source -> Prop :=
| sr_col c : src_rel f g (FromCol c) (FromCol c)
| sr_vals h : src_rel f g (FromVals (map h (abs_rows f))) (FromVals (map h (abs_rows g))).
Definition mapping_rel (f g : frame) (mp mp' : list (Z * source)) : Prop :=
  Forall2 (fun a b => fst a = fst b /\ src_rel f g (snd a) (snd b)) mp mp'.

Lemma mapping_rel_cols f g mp : (forall t s, In (t, s) mp -> exists c, s = FromCol c) -> mapping_rel f g mp mp.
Proof.
  induction mp as [|[t s] mp IH]; intro H; [constructor|]. constructor.
  - split; [reflexivity|]. destruct (H t s (or_introl eq_refl)) as [c ->]. constructor.
  - apply IH. intros t' s' Hin. apply (H t' s'). right. exact Hin.
Qed.

Lemma abs_set_col_rows i vals : forall rows, length vals = length rows ->
  map snd (set_col_rows i vals rows) = map (fun p => set_nth i (fst p) (snd p)) (combine vals (map snd rows)).
Proof.
  induction vals as [|v vals IH]; intros [|[lab r] rows] H; try discriminate; [reflexivity|].
  cbn [set_col_rows map combine fst snd]. rewrite IH by (simpl in H; lia). reflexivity.
Qed.

Lemma abs_rows_set c i vals rows : length vals = length rows ->
  abs_rows (mkFrame c (set_col_rows i vals rows)) = map (fun p => set_nth i (fst p) (snd p)) (combine vals (map snd rows)).
Proof. intro H. unfold abs_rows. cbn [frows]. apply abs_set_col_rows. exact H. Qed.

Lemma combine_step {A} (v : A -> cell) j : forall (F : list A) (B : list row), length F = length B ->
  combine F (map (fun p => set_nth j (fst p) (snd p)) (combine (map v F) B))
  = map (fun p => (fst p, set_nth j (v (fst p)) (snd p))) (combine F B).
Proof.
  induction F as [|a F IH]; intros [|b B] H; try discriminate; [reflexivity|].
  cbn [map combine fst snd]. rewrite IH by (simpl in H; lia). reflexivity.
Qed.

Lemma source_vals_rel f g s s' vs : fcols f = fcols g -> src_rel f g s s' -> source_vals f s = Some vs ->
  exists v, vs = map v (abs_rows f) /\ source_vals g s' = Some (map v (abs_rows g)).
Proof.
  intros Hc R H. destruct R as [c|h]; cbn [source_vals] in *.
  - unfold col_vals in *. rewrite <- Hc. destruct (col_index c (fcols f)) as [i|]; [|discriminate].
    injection H as <-. exists (fun r => nth i r CNaN). split; reflexivity.
  - injection H as <-. exists h. split; reflexivity.
Qed.

Lemma apply_mapping_perm f g : fcols f = fcols g -> forall mp mp' b b' out,
  mapping_rel f g mp mp' -> fcols b = fcols b' -> nrows b = nrows f -> nrows b' = nrows g ->
  Permutation (combine (abs_rows f) (abs_rows b)) (combine (abs_rows g) (abs_rows b')) ->
  apply_mapping f mp b = Some out ->
  exists out', apply_mapping g mp' b' = Some out' /\ fcols out' = fcols out
    /\ Permutation (combine (abs_rows f) (abs_rows out)) (combine (abs_rows g) (abs_rows out')).
Proof.
  intros Hc mp mp' b b' out R. revert b b' out. induction R as [|[t s] [t' s'] mp mp' [Et Rs] _ IH]; intros b b' out Hb Nb Nb' Hp H.
  - cbn [apply_mapping] in *. injection H as <-. exists b'. split; [reflexivity|]. split; [symmetry; exact Hb|exact Hp].
  - cbn [fst snd] in Et, Rs. subst t'. cbn [apply_mapping] in H |- *.
    change (match s with FromCol c => col_vals f c | FromVals vs0 => Some vs0 end) with (source_vals f s) in H.
    change (match s' with FromCol c => col_vals g c | FromVals vs0 => Some vs0 end) with (source_vals g s').
    destruct (source_vals f s) as [vs|] eqn:Ev; [|discriminate].
    destruct (source_vals_rel f g s s' vs Hc Rs Ev) as [v [-> Ev']]. rewrite Ev'.
    unfold set_col in H |- *. rewrite <- Hb. destruct (col_index t (fcols b)) as [j|]; [|discriminate].
    destruct (Nat.eqb (length (map v (abs_rows f))) (nrows b)) eqn:El; [|discriminate].
    assert (El': Nat.eqb (length (map v (abs_rows g))) (nrows b') = true).
    { apply Nat.eqb_eq. unfold abs_rows. rewrite !map_length. symmetry. exact Nb'. }
    rewrite El'. apply Nat.eqb_eq in El, El'.
    apply (IH (mkFrame (fcols b) (set_col_rows j (map v (abs_rows f)) (frows b))) _ out); [reflexivity| | | |exact H]; unfold nrows in *; cbn [frows fcols].
    + rewrite <- Nb. rewrite <- (map_length snd (set_col_rows _ _ _)), abs_set_col_rows by exact El.
      rewrite map_length, combine_length, El. unfold abs_rows. rewrite map_length. apply Nat.min_id.
    + rewrite <- Nb'. rewrite <- (map_length snd (set_col_rows _ _ _)), abs_set_col_rows by exact El'.
      rewrite map_length, combine_length, El'. unfold abs_rows. rewrite map_length. apply Nat.min_id.
    + rewrite !abs_rows_set by assumption. fold (abs_rows b). fold (abs_rows b').
      rewrite !combine_step by (unfold abs_rows; rewrite !map_length; congruence).
      apply Permutation_map. exact Hp.
Qed.

Lemma combine_repeat {A B} (d : B) : forall (l : list A), combine l (repeat d (length l)) = map (fun a => (a, d)) l.
Proof. induction l as [|a l IH]; [reflexivity|]. cbn [length repeat combine map]. rewrite IH. reflexivity. Qed.

Lemma combine_snd {A B} : forall (l : list A) (m : list B), length l = length m -> map snd (combine l m) = m.
Proof. induction l as [|a l IH]; intros [|b m] H; try discriminate; [reflexivity|]. cbn [combine map snd]. rewrite IH by (simpl in H; lia). reflexivity. Qed.

Lemma apply_mapping_nrows src : forall mp b out, apply_mapping src mp b = Some out -> nrows out = nrows b.
Proof.
  induction mp as [|[t s] mp IH]; intros b out H; cbn [apply_mapping] in H; [injection H as <-; reflexivity|].
  destruct (match s with FromCol c => col_vals src c | FromVals vs => Some vs end) as [vs|]; [|discriminate].
  destruct (set_col t vs b) as [b1|] eqn:Eb; [|discriminate]. rewrite (IH _ _ H).
  unfold set_col in Eb. destruct (col_index t (fcols b)); [|discriminate]. destruct (Nat.eqb (length vs) (nrows b)) eqn:El; [|discriminate].
  injection Eb as <-. apply Nat.eqb_eq in El. unfold nrows in *. cbn [frows].
  rewrite <- (map_length snd), abs_set_col_rows, map_length, combine_length, map_length by exact El. rewrite El. apply Nat.min_id.
Qed.

(* MAIN: ConvertBase.cast of a source list with its rows permuted is the converted list with its ROWS permuted (all mapped
   columns at once, rows as tuples), for every source frame (any labels), any declared fields / defaults / mapping *)
Theorem cast_rows_perm f g declared defaults mp mp' out :
  fcols f = fcols g -> Permutation (abs_rows f) (abs_rows g) -> mapping_rel f g mp mp' ->
  cast f declared defaults mp = Some out ->
  exists out', cast g declared defaults mp' = Some out' /\ fcols out' = fcols out
               /\ Permutation (abs_rows out) (abs_rows out').
Proof.
  intros Hc Hp R H. unfold cast in *.
  assert (Hn: nrows f = nrows g) by (unfold nrows; rewrite <- (map_length snd (frows f)), <- (map_length snd (frows g)); apply Permutation_length; exact Hp).
  assert (N: forall (h : frame) n, nrows (empty_frame declared defaults n) = n /\ abs_rows (empty_frame declared defaults n) = repeat defaults n).
  { intros _ n. unfold nrows, abs_rows, empty_frame. cbn [frows]. rewrite relabel_length, repeat_length, relabel_snd. split; reflexivity. }
  destruct (N f (nrows f)) as [N1 A1]. destruct (N g (nrows g)) as [N2 A2].
  destruct (apply_mapping_perm f g Hc mp mp' (empty_frame declared defaults (nrows f)) (empty_frame declared defaults (nrows g)) out R eq_refl N1 N2) as [out' [E [C P]]]; [|exact H|].
  - rewrite A1, A2. unfold nrows. rewrite <- (map_length snd (frows f)), <- (map_length snd (frows g)).
    fold (abs_rows f). fold (abs_rows g). rewrite !combine_repeat. apply Permutation_map. exact Hp.
  - exists out'. split; [exact E|]. split; [exact C|].
    apply (Permutation_map snd) in P. rewrite !combine_snd in P; [exact P| |].
    + pose proof (apply_mapping_nrows _ _ _ _ E) as L. rewrite N2 in L. unfold nrows, abs_rows in *. rewrite !map_length. congruence.
    + pose proof (apply_mapping_nrows _ _ _ _ H) as L. rewrite N1 in L. unfold nrows, abs_rows in *. rewrite !map_length. congruence.
Qed.
