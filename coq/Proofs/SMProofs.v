(* Proofs for C02 / C03 (StepMania reader and writer models). *)
From Coq Require Import String ZArith QArith Qround Qabs List Bool Lia Lqa.
From RV Require Import Base.PyNum Timing.Snapper Timing.Snap Timing.TimingMap Timing.Reseat Timing.Integrate
  Formats.SMText Formats.SM Formats.SMSpec.
Import ListNotations.
Open Scope Q_scope.

(* ====================== C02: slicing arithmetic ====================== *)
(* a measure of n = 4k rows: beat b takes rows [b*k, (b+1)*k) *)
Lemma slice_lo (k b : Z) : (b * (4 * k) / 4 = b * k)%Z.
Proof. replace (b * (4 * k))%Z with (b * k * 4)%Z by ring. apply Z.div_mul. lia. Qed.

Lemma slice_len (k b : Z) : ((b + 1) * (4 * k) / 4 - b * (4 * k) / 4 = k)%Z.
Proof. rewrite !slice_lo. ring. Qed.

(* row j of beat b is row r = b*k + j of the measure and its Snap beat  b + Fraction(j, k)  is  4 r / n *)
Theorem slice_row_beat_arith (k b j : Z) : (0 < k)%Z ->
  inject_Z b + inject_Z j / inject_Z k == 4 * inject_Z (b * k + j) / inject_Z (4 * k).
Proof.
  intro Hk. rewrite inject_Z_plus, !inject_Z_mult.
  assert (Hk' : ~ inject_Z k == 0).
  { intro E. assert (inject_Z 0 < inject_Z k) by (rewrite <- Zlt_Qlt; exact Hk). change (inject_Z 0) with 0 in H. lra. }
  change (inject_Z 4) with 4. field. exact Hk'.
Qed.

Section ReaderFacts.
Variable cf : smconf.
Hypothesis Hmet : k_metronome cf = 4%Z.

Lemma beat_slice_spec (rows : list text) (k b : Z) :
  (0 <= k)%Z -> (0 <= b)%Z -> Z.of_nat (length rows) = (4 * k)%Z ->
  beat_slice cf rows b = firstn (Z.to_nat k) (skipn (Z.to_nat (b * k)) rows).
Proof.
  intros Hk Hb Hl. unfold beat_slice. rewrite Hmet, Hl, slice_len, slice_lo. reflexivity.
Qed.

(* the four slices partition the measure, in order *)
Lemma skipn_add {A} (k a : nat) (l : list A) : skipn k (skipn a l) = skipn (a + k) l.
Proof.
  revert l. induction a as [|a IH]; intro l; simpl.
  - reflexivity.
  - destruct l; simpl. + destruct k; reflexivity. + apply IH.
Qed.
Lemma firstn_skipn_split {A} (l : list A) (a k : nat) :
  firstn k (skipn a l) ++ skipn (a + k) l = skipn a l.
Proof. rewrite <- skipn_add. apply firstn_skipn. Qed.
Lemma nth_error_firstn' {A} (l : list A) (k j : nat) : (j < k)%nat -> nth_error (firstn k l) j = nth_error l j.
Proof.
  revert l j. induction k as [|k IH]; intros l j H. - lia.
  - destruct l; simpl. + destruct j; reflexivity. + destruct j; simpl. * reflexivity. * apply IH. lia.
Qed.
Lemma nth_error_skipn' {A} (l : list A) (a j : nat) : nth_error (skipn a l) j = nth_error l (a + j).
Proof.
  revert l. induction a as [|a IH]; intro l; simpl. - reflexivity.
  - destruct l; simpl. + destruct j; reflexivity. + apply IH.
Qed.

Theorem slices_partition (rows : list text) (k : Z) :
  (0 <= k)%Z -> Z.of_nat (length rows) = (4 * k)%Z ->
  beat_slice cf rows 0 ++ beat_slice cf rows 1 ++ beat_slice cf rows 2 ++ beat_slice cf rows 3 = rows.
Proof.
  intros Hk Hl.
  rewrite !(beat_slice_spec rows k) by (auto; lia).
  set (n := Z.to_nat k).
  replace (Z.to_nat (0 * k)) with (0 * n)%nat by (unfold n; lia).
  replace (Z.to_nat (1 * k)) with (1 * n)%nat by (unfold n; lia).
  replace (Z.to_nat (2 * k)) with (2 * n)%nat by (unfold n; lia).
  replace (Z.to_nat (3 * k)) with (3 * n)%nat by (unfold n; lia).
  assert (Hlen : length rows = (4 * n)%nat) by (unfold n; lia).
  assert (E4 : skipn (3 * n + n) rows = []) by (apply skipn_all2; lia).
  assert (E3 : firstn n (skipn (3 * n) rows) = skipn (3 * n) rows).
  { pose proof (firstn_skipn_split rows (3 * n) n) as F. rewrite E4, app_nil_r in F. exact F. }
  rewrite E3.
  replace (3 * n)%nat with (2 * n + n)%nat by lia. rewrite firstn_skipn_split.
  replace (2 * n)%nat with (1 * n + n)%nat by lia. rewrite firstn_skipn_split.
  replace (1 * n)%nat with (0 * n + n)%nat by lia. rewrite firstn_skipn_split.
  reflexivity.
Qed.

(* row j (0-based) of slice b is row b*k + j of the measure *)
Theorem slice_row_index (rows : list text) (k b : Z) (j : nat) :
  (0 <= k)%Z -> (0 <= b)%Z -> Z.of_nat (length rows) = (4 * k)%Z -> (j < Z.to_nat k)%nat ->
  nth_error (beat_slice cf rows b) j = nth_error rows (Z.to_nat (b * k) + j).
Proof.
  intros Hk Hb Hl Hj. rewrite (beat_slice_spec rows k b) by auto.
  rewrite nth_error_firstn' by exact Hj. apply nth_error_skipn'.
Qed.
End ReaderFacts.

(* ====================== C02: head/tail pairing ====================== *)
Lemma is_open_app (l : list hentry) : is_open l = true -> exists pre h, l = pre ++ [(h, None)].
Proof.
  unfold is_open. intro H. destruct (rev l) as [|[h [t|]] r] eqn:E; try discriminate.
  exists (rev r), h. rewrite <- (rev_involutive l), E. reflexivity.
Qed.

(* closing pairs the LAST entry (the open head) with the tail and keeps everything else *)
Lemma close_last_app (pre : list hentry) (h t : snap) :
  close_last (pre ++ [(h, None)]) t = pre ++ [(h, Some t)].
Proof. unfold close_last. rewrite rev_unit. simpl. rewrite rev_involutive. reflexivity. Qed.

Lemma is_open_snoc (pre : list hentry) (h : snap) (o : option snap) :
  is_open (pre ++ [(h, o)]) = match o with None => true | Some _ => false end.
Proof. unfold is_open. rewrite rev_unit. destruct o; reflexivity. Qed.

Section Pairing.
Variable cf : smconf.
(* the tail symbol differs from every other symbol (checked on the live constants in Props) *)
Hypothesis Hdistinct :
  (k_roll_tail cf =? k_hit cf)%Z = false /\ (k_roll_tail cf =? k_mine cf)%Z = false /\
  (k_roll_tail cf =? k_hold_head cf)%Z = false /\ (k_roll_tail cf =? k_roll_head cf)%Z = false.

(* a '3' closes the open hold head of its column if there is one (preferred), else the open roll head, else fails *)
Theorem tail_closes_open_head (st : nst) (so : snap) (col : nat) (hl rl : list hentry) :
  nth_error (n_holds st) col = Some hl -> nth_error (n_rolls st) col = Some rl ->
  read_char cf st so col (k_roll_tail cf) =
    if is_open hl then Some (mkNst (n_simple st) (replace_at col (close_last hl so) (n_holds st)) (n_rolls st))
    else if is_open rl then Some (mkNst (n_simple st) (n_holds st) (replace_at col (close_last rl so) (n_rolls st)))
    else None.
Proof.
  intros Hh Hr. unfold read_char. destruct Hdistinct as (A & B & C & D).
  rewrite A, B, C, D, Z.eqb_refl, Hh, Hr. reflexivity.
Qed.

(* with at most one head open in the column (the well-formedness rule of the format) the reader's choice is the
   format's rule "3 closes the open head of its column": the closed entry is that head, with this tail *)
Corollary tail_pairs_the_open_head (st : nst) (so : snap) (col : nat) (pre : list hentry) (h : snap) (rl : list hentry) :
  nth_error (n_holds st) col = Some (pre ++ [(h, None)]) -> nth_error (n_rolls st) col = Some rl ->
  read_char cf st so col (k_roll_tail cf)
  = Some (mkNst (n_simple st) (replace_at col (pre ++ [(h, Some so)]) (n_holds st)) (n_rolls st)).
Proof.
  intros Hh Hr. rewrite (tail_closes_open_head st so col _ rl Hh Hr), is_open_snoc, close_last_app. reflexivity.
Qed.
Corollary tail_pairs_the_open_roll (st : nst) (so : snap) (col : nat) (hl pre : list hentry) (h : snap) :
  nth_error (n_holds st) col = Some hl -> is_open hl = false ->
  nth_error (n_rolls st) col = Some (pre ++ [(h, None)]) ->
  read_char cf st so col (k_roll_tail cf)
  = Some (mkNst (n_simple st) (n_holds st) (replace_at col (pre ++ [(h, Some so)]) (n_rolls st))).
Proof.
  intros Hh Ho Hr. rewrite (tail_closes_open_head st so col hl _ Hh Hr), Ho, is_open_snoc, close_last_app. reflexivity.
Qed.
End Pairing.

(* ====================== C02: every chart of the file is returned ====================== *)
Lemma map_opt_length {A B} (f : A -> option B) (l : list A) (r : list B) :
  map_opt f l = Some r -> length r = length l.
Proof.
  revert r. induction l as [|x l IH]; intros r H; simpl in H.
  - inversion H. reflexivity.
  - destruct (f x); try discriminate. destruct (map_opt f l) eqn:E; try discriminate.
    inversion H. simpl. f_equal. apply IH. reflexivity.
Qed.

Lemma map_opt_nth {A B} (f : A -> option B) (l : list A) (r : list B) (i : nat) (x : A) :
  map_opt f l = Some r -> nth_error l i = Some x -> exists y, nth_error r i = Some y /\ f x = Some y.
Proof.
  revert r i. induction l as [|a l IH]; intros r i H Hx.
  - destruct i; discriminate.
  - simpl in H. destruct (f a) eqn:Fa; try discriminate. destruct (map_opt f l) eqn:E; try discriminate.
    inversion H; subst. destruct i; simpl in *.
    + inversion Hx; subst. eauto.
    + eapply IH; eauto.
Qed.

(* one chart per ';'-token containing "#NOTES:", in file order, each read from its own token
   with the file's offset and tempo set *)
Theorem sm_read_all_charts (cf : smconf) (v : variant) (txt : text) (s : smset) :
  sm_read cf v txt = Some s ->
  let toks := filter (contains (tx "#NOTES:")) (map strip (split_on 59 txt)) in
  length (s_maps s) = length toks /\
  forall i tok, nth_error toks i = Some tok ->
    exists c st, nth_error (s_maps s) i = Some c /\
                 read_chart cf tok (m_offset st) (m_bcs st) (m_stops st) = Some c /\
                 s_offset s = m_offset st.
Proof.
  unfold sm_read. intro H.
  destruct (read_metadata (meta_init v) _) as [st|] eqn:M; try discriminate.
  destruct (map_opt _ _) as [cs|] eqn:C; try discriminate.
  inversion H; subst; simpl. split.
  - eapply map_opt_length; eauto.
  - intros i tok Hi. destruct (map_opt_nth _ _ _ _ _ C Hi) as (y & Hy & Fy). exists y, st. auto.
Qed.

(* ====================== C03: LCM with cap ====================== *)
Section Lcm.
Variable cf : smconf.
Let cap := k_max_snap cf.
Hypothesis Hcap : (0 < cap)%Z.

Lemma lcm_pos (a b : Z) : (0 < a)%Z -> (0 < b)%Z -> (0 < Z.lcm a b)%Z.
Proof.
  intros Ha Hb. pose proof (Z.lcm_nonneg a b). assert (Z.lcm a b <> 0)%Z.
  { intro E. apply Z.lcm_eq_0 in E. lia. } lia.
Qed.
Lemma lcm_ge (a b : Z) : (0 < a)%Z -> (0 < b)%Z -> (a <= Z.lcm a b)%Z.
Proof.
  intros Ha Hb. apply Z.divide_pos_le. apply lcm_pos; auto. apply Z.divide_lcm_l.
Qed.

(* once the cap is reached it stays *)
Lemma fold_cap_stays (r : list Z) : Forall (fun y => 0 < y)%Z r -> fold_left (lcm_and_cap cf) r cap = cap.
Proof.
  induction 1 as [|y r Hy _ IH]; simpl; auto.
  unfold lcm_and_cap at 2. fold cap. rewrite Z.min_r. exact IH. apply lcm_ge; auto.
Qed.

(* below the cap the fold is the true LCM fold *)
Lemma fold_below_cap (r : list Z) (d : Z) :
  Forall (fun y => 0 < y)%Z r -> (0 < d)%Z ->
  (fold_left (lcm_and_cap cf) r d < cap)%Z -> fold_left (lcm_and_cap cf) r d = fold_left Z.lcm r d.
Proof.
  intros Hr. revert d. induction Hr as [|y r Hy Hr IH]; intros d Hd H; simpl in *; auto.
  unfold lcm_and_cap at 2 in H. unfold lcm_and_cap at 2. fold cap in H |- *.
  destruct (Z.le_gt_cases cap (Z.lcm d y)) as [L|L].
  - rewrite Z.min_r in H by exact L. rewrite fold_cap_stays in H by exact Hr. lia.
  - rewrite Z.min_l in H |- * by lia. apply IH; auto. apply lcm_pos; auto.
Qed.

Lemma fold_lcm_div_acc (r : list Z) (d x : Z) : (x | d)%Z -> (x | fold_left Z.lcm r d)%Z.
Proof.
  revert d. induction r as [|y r IH]; intros d H; simpl; auto.
  apply IH. eapply Z.divide_trans. exact H. apply Z.divide_lcm_l.
Qed.
Lemma fold_lcm_divides (r : list Z) (d x : Z) : In x (d :: r) -> (x | fold_left Z.lcm r d)%Z.
Proof.
  revert d. induction r as [|y r IH]; intros d H.
  - destruct H as [->|[]]. apply Z.divide_refl.
  - destruct H as [->|[->|H]]; simpl.
    + apply fold_lcm_div_acc. apply Z.divide_lcm_l.
    + apply fold_lcm_div_acc. apply Z.divide_lcm_r.
    + apply IH. right. exact H.
Qed.

(* den_max below the cap is a common multiple of every denominator of the measure *)
Theorem den_max_below_cap_divides (dens : list Z) (x : Z) :
  Forall (fun y => 0 < y)%Z dens -> (den_max_of cf dens < cap)%Z -> In x dens -> (x | den_max_of cf dens)%Z.
Proof.
  intros Hp H Hx. destruct dens as [|d r]; [destruct Hx|].
  inversion Hp; subst. unfold den_max_of in *. fold cap in H |- *.
  assert (L : (fold_left (lcm_and_cap cf) r d < cap)%Z) by lia.
  rewrite Z.min_l by lia. rewrite fold_below_cap by auto. apply fold_lcm_divides. exact Hx.
Qed.

Theorem den_max_le_cap (dens : list Z) : (den_max_of cf dens <= cap)%Z.
Proof. destruct dens; simpl; fold cap; lia. Qed.
End Lcm.

(* ====================== C03: row index arithmetic ====================== *)
(* when den divides den_max the row index is exact: row/den_max = num/den (the object keeps its position) *)
Theorem row_integral (num den dm : Z) : (0 < den)%Z -> (den | dm)%Z ->
  (num * dm / den * den = num * dm)%Z.
Proof.
  intros Hd [k ->]. replace (num * (k * den))%Z with (num * k * den)%Z by ring.
  rewrite Z.div_mul by lia. reflexivity.
Qed.
Lemma div_le_cross (a b c d : Q) : 0 < b -> 0 < d -> a * d <= c * b -> a / b <= c / d.
Proof.
  intros Hb Hd H. apply Qle_shift_div_l; auto.
  setoid_replace (a / b * d) with (a * d / b) by (field; lra).
  apply Qle_shift_div_r; auto.
Qed.
Lemma div_lt_cross (a b c d : Q) : 0 < b -> 0 < d -> a * d < c * b -> a / b < c / d.
Proof.
  intros Hb Hd H. apply Qlt_shift_div_l; auto.
  setoid_replace (a / b * d) with (a * d / b) by (field; lra).
  apply Qlt_shift_div_r; auto.
Qed.
Lemma inj_pos (z : Z) : (0 < z)%Z -> 0 < inject_Z z.
Proof. intro H. change 0 with (inject_Z 0). rewrite <- Zlt_Qlt. exact H. Qed.

Corollary row_position_exact (num den dm : Z) : (0 < den)%Z -> (0 < dm)%Z -> (den | dm)%Z ->
  inject_Z (num * dm / den) / inject_Z dm == inject_Z num / inject_Z den.
Proof.
  intros Hd Hm Hdiv. pose proof (row_integral num den dm Hd Hdiv) as E.
  pose proof (inj_pos _ Hd) as Hd'. pose proof (inj_pos _ Hm) as Hm'.
  apply (f_equal inject_Z) in E. rewrite !inject_Z_mult in E.
  set (r := inject_Z (num * dm / den)) in *.
  assert (E' : r * inject_Z den == inject_Z num * inject_Z dm) by (rewrite E; reflexivity).
  apply Qle_antisym; apply div_le_cross; auto; lra.
Qed.

(* in general (cap reached) the row is the position rounded DOWN to the row grid: early by less than one row,
   i.e. with 384 rows per 4-beat measure by less than 1/96 beat *)
Theorem row_truncation_bound (num den dm : Z) : (0 < den)%Z -> (0 < dm)%Z -> (0 <= num)%Z ->
  inject_Z (num * dm / den) / inject_Z dm <= inject_Z num / inject_Z den /\
  inject_Z num / inject_Z den < (inject_Z (num * dm / den) + 1) / inject_Z dm.
Proof.
  intros Hd Hm Hn.
  pose proof (inj_pos _ Hd) as Hd'. pose proof (inj_pos _ Hm) as Hm'.
  pose proof (Z.mul_div_le (num * dm) den Hd) as L.
  pose proof (Z.mul_succ_div_gt (num * dm) den Hd) as U.
  set (r := (num * dm / den)%Z) in *.
  assert (L' : inject_Z den * inject_Z r <= inject_Z num * inject_Z dm).
  { rewrite <- !inject_Z_mult, <- Zle_Qle. exact L. }
  assert (U' : inject_Z num * inject_Z dm < inject_Z den * (inject_Z r + 1)).
  { change 1 with (inject_Z 1). rewrite <- inject_Z_plus, <- !inject_Z_mult, <- Zlt_Qlt. unfold Z.succ in U. exact U. }
  split.
  - apply div_le_cross; auto. lra.
  - apply div_lt_cross; auto. lra.
Qed.

(* place: the measure-relative position num/den of a beat q is (q mod 4)/4 *)
Theorem place_position (cf : smconf) (q : Q) (col ch : Z) : k_metronome cf = 4%Z ->
  let p := place cf q col ch in
  (0 < p_den p)%Z /\ (0 <= p_num p < p_den p)%Z /\
  inject_Z (p_num p) / inject_Z (p_den p) == (q - 4 * inject_Z (p_measure p)) / 4 /\
  p_measure p = Qfloor (q / 4).
Proof.
  intros Hm p. unfold p, place. rewrite Hm. cbn [p_den p_num p_measure]. change (inject_Z 4) with 4.
  set (d := Z.pos (Qden q)). set (n := Qnum q).
  assert (Hd : (0 < d * 4)%Z) by (unfold d; lia).
  refine (conj Hd (conj (Z.mod_pos_bound _ _ Hd) (conj _ eq_refl))).
  assert (Fl : Qfloor (q / 4) = (n / (d * 4))%Z).
  { unfold Qfloor, Qdiv, Qmult, Qinv; simpl. destruct q as [qn qd]; simpl in *. unfold n, d; simpl.
    rewrite Z.mul_1_r. f_equal; lia. }
  rewrite Fl. pose proof (Z.div_mod n (d * 4) ltac:(lia)) as DM.
  assert (Q1 : q == inject_Z n / inject_Z d).
  { unfold n, d. destruct q as [qn qd]. unfold Qeq, Qdiv, Qmult, Qinv, inject_Z; simpl. lia. }
  assert (Hd' : ~ inject_Z d == 0). { unfold d. unfold inject_Z, Qeq; simpl. lia. }
  assert (DM' : inject_Z n == inject_Z (d * 4) * inject_Z (n / (d * 4)) + inject_Z (n mod (d * 4))).
  { rewrite <- inject_Z_mult, <- inject_Z_plus. rewrite <- DM. reflexivity. }
  rewrite Q1. rewrite inject_Z_mult in *. change (inject_Z 4) with 4 in *.
  set (a := inject_Z (n / (d * 4))) in *. set (m := inject_Z (n mod (d * 4))) in *.
  rewrite DM'. field. exact Hd'.
Qed.

(* ====================== C03: header formatter and padding ====================== *)
Lemma repeat_length' {A} (x : A) (n : nat) : length (repeat x n) = n.
Proof. apply repeat_length. Qed.

(* the rows of a padding measure: four of them, each as wide as the variant says *)
Theorem pad_rows (cf : smconf) (v : variant) (k : Z) : k_metronome cf = 4%Z -> (0 <= k)%Z ->
  split_on 10 (pad_measure cf v (Some k))
  = repeat (if v_pad v then repeat 48%Z (Z.to_nat k) else tx "0000") 4.
Proof.
  intros Hm Hk. unfold pad_measure. rewrite Hm. simpl Z.to_nat. simpl repeat at 1.
  set (row := if v_pad v then repeat 48%Z (Z.to_nat k) else tx "0000").
  assert (Hrow : forall r, ~ In 10%Z row -> forall acc, split_go 10 acc (row ++ r) = split_go 10 (rev_append row acc) r).
  { intros r. clear. induction row as [|x row IH]; intros Hn acc; simpl; auto.
    destruct (Z.eqb_spec x 10). - exfalso. apply Hn. left. auto. - apply IH. intro C. apply Hn. right. exact C. }
  assert (Hn : ~ In 10%Z row).
  { unfold row. destruct (v_pad v). - intro C. apply repeat_spec in C. discriminate. - simpl. intuition discriminate. }
  unfold split_on, join, nl.
  repeat (rewrite Hrow by exact Hn; simpl split_go at 1; rewrite ?Z.eqb_refl).
  assert (E : forall acc, split_go 10 acc row = [frev (rev_append row acc)]).
  { clear -Hn. induction row as [|x row IH]; intro acc; simpl; auto.
    destruct (Z.eqb_spec x 10). - exfalso. apply Hn. left. auto. - apply IH. intro C. apply Hn. right. exact C. }
  rewrite E. unfold frev. rewrite !rev_append_rev, !app_nil_r, !rev_involutive. reflexivity.
Qed.

(* hence the padding rows are keys wide exactly when v_pad is set (the current behaviour) or the chart has 4 keys *)
Corollary pad_rows_width (cf : smconf) (v : variant) (k : Z) : k_metronome cf = 4%Z -> (0 <= k)%Z ->
  (forall r, In r (split_on 10 (pad_measure cf v (Some k))) -> Z.of_nat (length r) = k) <-> (v_pad v = true \/ k = 4%Z).
Proof.
  intros Hm Hk. rewrite pad_rows by auto. split.
  - intro H. destruct (v_pad v); auto. right. specialize (H (tx "0000")). simpl in H. symmetry. apply H. auto.
  - intros [E|E] r Hr; apply repeat_spec in Hr; subst r.
    + rewrite E, repeat_length. lia.
    + subst k. destruct (v_pad v). rewrite repeat_length; lia. reflexivity.
Qed.

(* the current writer: padding rows are always keys wide *)
Corollary pad_rows_width_current (cf : smconf) (k : Z) : k_metronome cf = 4%Z -> (0 <= k)%Z ->
  forall r, In r (split_on 10 (pad_measure cf current (Some k))) -> Z.of_nat (length r) = k.
Proof. intros Hm Hk. apply (pad_rows_width cf current k Hm Hk). left. reflexivity. Qed.

(* ====================== former defects (OLD variants): witnesses; the current model on the same inputs ====================== *)
From RV Require Import Generated.Tables Proofs.SMWitness.

Definition live_conf : smconf :=
  mkConf Tables.sm.hit_string Tables.sm.hold_string_head Tables.sm.hold_string_tail Tables.sm.roll_string_head
         Tables.sm.roll_string_tail Tables.sm.mine_string Tables.sm.lift_string Tables.sm.fake_string
         Tables.sm.keysound_string Tables.sm.metronome Tables.sm.max_snap Tables.sm.max_keys
         Tables.sm.chart_keys Tables.snapper_table.

Definition renders (tol : Q) (o : option (list tok)) (t : text) : bool :=
  match o with Some toks => match_toks tol toks t | None => false end.
Definition tol9 : Q := 1 # 1000000000.

(* OLD (before 16f3fe3), selectable = False: the bare token "NO;" — the text the old implementation wrote is a rendering
   of the OLD model's tokens, and it is not a well-formed .sm text. *)
Theorem sm_write_wf_refuted_OLD_selectable :
  exists s txt, s_sel s = false /\ renders tol9 (sm_write live_conf OLD_selectable_bare_no s) txt = true /\ wf_sm_textb txt = false.
Proof. exists w_sel_set, w_sel_txt_old. vm_compute. auto. Qed.
(* the current model writes the same mapset as a well-formed text that denotes it *)
Theorem sm_write_selectable_current :
  renders tol9 (sm_write live_conf current w_sel_set) w_sel_txt_current = true /\
  match sm_denote w_sel_txt_current with Some d => write_spec (1 # 1000000) true w_sel_set d | None => false end = true.
Proof. vm_compute. auto. Qed.

(* OLD (before d872b70): "0000" padding in a chart whose key count is not 4 (kb7-single, first object in measure 1) *)
Theorem sm_write_wf_refuted_OLD_padding :
  exists s txt, renders tol9 (sm_write live_conf OLD_pad_0000 s) txt = true /\ wf_sm_textb txt = false.
Proof. exists w_pad_set, w_pad_txt_old. vm_compute. auto. Qed.
Theorem sm_write_padding_current :
  renders tol9 (sm_write live_conf current w_pad_set) w_pad_txt_current = true /\
  match sm_denote w_pad_txt_current with Some d => write_spec (1 # 1000000) true w_pad_set d | None => false end = true.
Proof. vm_compute. auto. Qed.

(* OLD (before d64b5ab): a well-formed text in the domain without a #STOPS tag raised (None);
   the current reader returns what the text denotes *)
Definition has_no_stops_item (txt : text) : bool :=
  match sm_denote txt with Some d => negb (has_stops_tag d) | None => false end.
Definition in_c02_domain (txt : text) : bool :=
  match sm_denote txt with Some d => c02_dom d && dialect_ok txt d | None => false end.
Theorem sm_read_refuted_OLD_no_stops_tag :
  exists txt, in_c02_domain txt = true /\ sm_read live_conf OLD_stops_none txt = None.
Proof. exists w_read_txt. vm_compute. auto. Qed.
Theorem sm_read_no_stops_tag_current :
  in_c02_domain w_read_txt = true /\ has_no_stops_item w_read_txt = true /\
  match sm_denote w_read_txt, sm_read live_conf current w_read_txt with
  | Some d, Some s => read_spec 0 d s
  | _, _ => false end = true.
Proof. vm_compute. auto. Qed.

(* non-vacuity: inputs inside the domains *)
Theorem sm_read_example :
  in_c02_domain w_read_txt2 = true /\
  match sm_denote w_read_txt2, sm_read live_conf current w_read_txt2 with
  | Some d, Some s => read_spec 0 d s && negb (length (d_tempo d) <? 2)%nat && negb (length (flat_map d_notes (d_charts d)) <? 4)%nat
  | _, _ => false end = true.
Proof. vm_compute. auto. Qed.
Theorem sm_write_example :
  renders tol9 (sm_write live_conf current w_ok_set) w_ok_txt = true /\
  match sm_denote w_ok_txt with Some d => write_spec (1 # 1000000) false w_ok_set d | None => false end = true.
Proof. vm_compute. auto. Qed.

(* ====================== C03: an item is read back as written ====================== *)
Lemma cut_colon_app (tag v acc : text) : ~ In 58%Z tag -> cut_colon acc (tag ++ 58%Z :: v) = Some (frev (rev_append tag acc), v).
Proof.
  revert acc. induction tag as [|x tag IH]; intros acc H; simpl.
  - reflexivity.
  - destruct (Z.eqb_spec x 58). + exfalso. apply H. left. auto. + apply IH. intro C. apply H. right. exact C.
Qed.
(* "#TAG:value" denotes (TAG, value): the value is everything after the first colon, whatever it contains *)
Theorem item_roundtrip (tag v : text) : ~ In 58%Z tag ->
  parse_item ((35%Z :: tag) ++ 58%Z :: v) = Some (35%Z :: tag, v).
Proof.
  intro H. unfold parse_item. simpl app.
  assert (H' : ~ In 58%Z (35%Z :: tag)) by (intros [C|C]; [discriminate|auto]).
  change (35%Z :: tag ++ 58%Z :: v) with ((35%Z :: tag) ++ 58%Z :: v).
  rewrite (cut_colon_app (35%Z :: tag) v [] H'). unfold frev. rewrite !rev_append_rev, !app_nil_r, rev_involutive. reflexivity.
Qed.

(* the current header formatter: the #SELECTABLE line is an item for both values, read back as written *)
Theorem selectable_item_current (b : bool) :
  parse_item (tx (if b then "#SELECTABLE:YES" else "#SELECTABLE:NO")) = Some (tx "#SELECTABLE", tx (if b then "YES" else "NO")).
Proof. destruct b; vm_compute; reflexivity. Qed.
