(* Canonical order of object lists (SMSpec.canon = stable insertion sort by (column, time)): two permutations of one
   list have the same canonical form when any two of its elements are equal or strictly ordered; a list is `notes_close`
   to itself with tolerance 0.  Shared by the whole-file theorems of C02 and C03. *)
From Coq Require Import ZArith QArith Qabs List Bool Lia Lqa Sorting.Permutation.
From RV Require Import Base.PyNum Timing.Snapper Timing.Snap Timing.TimingMap Timing.Reseat Timing.Integrate
  Formats.SMText Formats.SM Formats.SMSpec Proofs.TimingProofs.
Import ListNotations.
Open Scope Q_scope.

Section Sort.
Context {A : Type} (lt : A -> A -> bool).
Hypothesis lt_asym : forall a b, lt a b = true -> lt b a = false.
(* "not less" is transitive (a strict weak order) *)
Hypothesis nlt_trans : forall a b c, lt a b = false -> lt b c = false -> lt a c = false.

Definition cmp_ok (x y : A) : Prop := x = y \/ lt x y = true \/ lt y x = true.

Lemma insert_cons x z l : insert_by lt x (z :: l) = if negb (lt z x) then x :: z :: l else z :: insert_by lt x l.
Proof. reflexivity. Qed.

Lemma insert_comm x y : cmp_ok x y -> forall l, insert_by lt x (insert_by lt y l) = insert_by lt y (insert_by lt x l).
Proof.
  intros C.
  assert (Two : forall l, (if negb (lt y x) then x :: y :: l else y :: x :: l) = (if negb (lt x y) then y :: x :: l else x :: y :: l)).
  { intro l. destruct C as [->|[C|C]].
    - destruct (negb (lt y y)); reflexivity.
    - rewrite C, (lt_asym _ _ C). reflexivity.
    - rewrite C, (lt_asym _ _ C). reflexivity. }
  induction l as [|z l IH].
  - cbn [insert_by]. apply Two.
  - rewrite (insert_cons y z l), (insert_cons x z l). destruct (lt z y) eqn:Zy, (lt z x) eqn:Zx; cbn [negb].
    + rewrite !insert_cons, Zx, Zy. cbn [negb]. f_equal. exact IH.
    + (* x <= z < y : x < y *)
      assert (Lyx : lt y x = false).
      { destruct (lt y x) eqn:E; [|reflexivity]. rewrite (nlt_trans z x y Zx (lt_asym _ _ E)) in Zy. discriminate. }
      assert (Lt : lt x y = true).
      { destruct C as [->|[C|C]]; [rewrite Zx in Zy; discriminate|exact C|rewrite C in Lyx; discriminate]. }
      rewrite !insert_cons, ?Zx, ?Zy, ?Lt. cbn [negb]. reflexivity.
    + assert (Lxy : lt x y = false).
      { destruct (lt x y) eqn:E; [|reflexivity]. rewrite (nlt_trans z y x Zy (lt_asym _ _ E)) in Zx. discriminate. }
      assert (Lt : lt y x = true).
      { destruct C as [->|[C|C]]; [rewrite Zx in Zy; discriminate|rewrite C in Lxy; discriminate|exact C]. }
      rewrite !insert_cons, ?Zx, ?Zy, ?Lt. cbn [negb]. reflexivity.
    + rewrite !insert_cons, Zx, Zy. cbn [negb]. apply Two.
Qed.

Theorem sort_by_perm_eq a b : Permutation a b -> (forall x y, In x a -> In y a -> cmp_ok x y) -> sort_by lt a = sort_by lt b.
Proof.
  unfold sort_by. induction 1 as [|x l l' P IH|x y l|l l' l'' P1 IH1 P2 IH2]; intro H.
  - reflexivity.
  - cbn [fold_right]. rewrite IH; [reflexivity|]. intros u v Hu Hv. apply H; right; assumption.
  - cbn [fold_right]. apply insert_comm. apply H; [left; reflexivity|right; left; reflexivity].
  - rewrite IH1 by exact H. apply IH2. intros u v Hu Hv. apply H; eapply Permutation_in; try eassumption; apply Permutation_sym; exact P1.
Qed.
End Sort.

(* ------------------------------------------------------------------ note4 *)
Definition lt4 (a b : note4) : Prop :=
  let '(ca, ta, _) := a in let '(cb, tb, _) := b in (ca < cb)%Z \/ (ca = cb /\ ta < tb).
Lemma note4_lt_iff a b : note4_lt a b = true <-> lt4 a b.
Proof.
  destruct a as [[ca ta] la], b as [[cb tb] lb]. unfold note4_lt, lt4.
  rewrite orb_true_iff, andb_true_iff, Z.ltb_lt, Z.eqb_eq, Qlt_bool_iff. tauto.
Qed.
Lemma note4_lt_false a b : note4_lt a b = false <->
  (let '(ca, ta, _) := a in let '(cb, tb, _) := b in (cb < ca)%Z \/ (ca = cb /\ tb <= ta)).
Proof.
  destruct a as [[ca ta] la], b as [[cb tb] lb]. unfold note4_lt.
  rewrite orb_false_iff, andb_false_iff, Z.ltb_ge, Z.eqb_neq, Qlt_bool_false. split.
  - intros [H1 [H2|H2]]; [left; lia|]. destruct (Z.eq_dec ca cb); [right; auto|left; lia].
  - intros [H|[H1 H2]]; (split; [lia|]); [left; lia|right; exact H2].
Qed.
Lemma note4_asym a b : note4_lt a b = true -> note4_lt b a = false.
Proof.
  rewrite note4_lt_iff, note4_lt_false. destruct a as [[ca ta] la], b as [[cb tb] lb]. cbn.
  intros [H|[H1 H2]]; [left; exact H|right; split; [auto|lra]].
Qed.
Lemma note4_nlt_trans a b c : note4_lt a b = false -> note4_lt b c = false -> note4_lt a c = false.
Proof.
  rewrite !note4_lt_false. destruct a as [[ca ta] la], b as [[cb tb] lb], c as [[cc tc] lc].
  intros [H|[H1 H2]] [G|[G1 G2]]; try (left; lia). right. split; [lia|lra].
Qed.

Theorem canon_perm_eq a b : Permutation a b -> (forall x y, In x a -> In y a -> cmp_ok note4_lt x y) -> canon a = canon b.
Proof. apply (sort_by_perm_eq note4_lt note4_asym note4_nlt_trans). Qed.

Lemma q_close_refl x : q_close 0 x x = true.
Proof. unfold q_close. apply Qle_bool_iff. setoid_replace (x - x) with 0 by ring. cbn. lra. Qed.
Lemma notes_close_refl l : notes_close (fun _ => 0) l l = true.
Proof.
  induction l as [|[[c t] n] l IH]; [reflexivity|]. cbn [notes_close]. rewrite Z.eqb_refl, q_close_refl, IH.
  change (0 + 0) with 0. rewrite q_close_refl. reflexivity.
Qed.
