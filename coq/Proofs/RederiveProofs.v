(* C10: on the snap grid the positions a TimingMap re-derives from its millisecond offsets are the original ones,
   hence TimingMap.offsets of a map built from a script equals the integration over that script. *)
From Coq Require Import ZArith QArith Qround Qabs List Bool Lia Lqa.
From RV Require Import Base.PyNum Timing.Snapper Timing.Snap Timing.TimingMap Timing.Integrate Timing.Domain
  Proofs.SnapperProofs Proofs.TimingProofs.
Import ListNotations.
Open Scope Q_scope.

(* ------------------------------------------------------------------ arithmetic *)
Lemma inject_Z_ge1 z : (1 <= z)%Z -> 1 <= inject_Z z.
Proof. intro H. change 1 with (inject_Z 1). rewrite <- Zle_Qle. exact H. Qed.

Lemma inject_Z_minus (x y : Z) : inject_Z (x - y) == inject_Z x - inject_Z y.
Proof. unfold Z.sub. rewrite inject_Z_plus, inject_Z_opp. reflexivity. Qed.

(* (measure, beat) with 0 <= beat < met is a unique representation of a beat count *)
Lemma snap_val_unique met m1 b1 m2 b2 : 0 < met ->
  0 <= b1 -> b1 < met -> 0 <= b2 -> b2 < met ->
  snap_val met m1 b1 == snap_val met m2 b2 -> m1 = m2 /\ b1 == b2.
Proof.
  intros Hm A1 A2 B1 B2 E. unfold snap_val in E.
  destruct (Z.lt_trichotomy m1 m2) as [L|[L|L]].
  - exfalso. pose proof (inject_Z_ge1 (m2 - m1) ltac:(lia)) as G. rewrite inject_Z_minus in G.
    assert ((inject_Z m2 - inject_Z m1) * met >= 1 * met) by (apply Qmult_le_compat_r; lra). lra.
  - subst m2. split; [reflexivity|lra].
  - exfalso. pose proof (inject_Z_ge1 (m1 - m2) ltac:(lia)) as G. rewrite inject_Z_minus in G.
    assert ((inject_Z m1 - inject_Z m2) * met >= 1 * met) by (apply Qmult_le_compat_r; lra). lra.
Qed.

(* the fractional part ignores integers *)
Lemma frac_minus_Z x (z : Z) : frac (x - inject_Z z) == frac x.
Proof.
  unfold frac. assert (E: x - inject_Z z == x + inject_Z (- z)) by (rewrite inject_Z_opp; lra).
  rewrite (Qfloor_comp _ _ E), Qfloor_add_Z, inject_Z_plus, inject_Z_opp. lra.
Qed.

Definition is_intQ (q : Q) : Prop := exists z : Z, q == inject_Z z.

Lemma frac_minus_int x y : is_intQ y -> frac (x - y) == frac x.
Proof.
  intros [z Hz]. assert (E: x - y == x - inject_Z z) by (rewrite Hz; reflexivity).
  unfold frac at 1. rewrite (Qfloor_comp _ _ E). fold (frac (x - inject_Z z)).
  assert (E2: frac (x - inject_Z z) == x - inject_Z z - inject_Z (Qfloor (x - inject_Z z))) by reflexivity.
  rewrite <- (frac_minus_Z x z). unfold frac. rewrite E. reflexivity.
Qed.

Lemma is_int_mul z q : is_intQ q -> is_intQ (inject_Z z * q).
Proof. intros [w Hw]. exists (z * w)%Z. rewrite Hw, inject_Z_mult. reflexivity. Qed.

(* ------------------------------------------------------------------ the snapper on grid points *)
Section Grid.
  Variable tbl : list Q.
  Hypothesis Hok : table_ok (1 # 96) tbl = true.

  Definition on_grid (x : Q) : Prop := exists t, In t tbl /\ frac x == t.

  Lemma snapper_snap_comp x y : x == y -> snapper_snap tbl x == snapper_snap tbl y.
  Proof.
    intro E. unfold snapper_snap. rewrite !Qred_correct.
    assert (Ef: frac x == frac y) by (unfold frac; rewrite (Qfloor_comp _ _ E), E; reflexivity).
    rewrite (snap_frac_comp (1 # 96) tbl Hok _ _ Ef), (Qfloor_comp _ _ E). reflexivity.
  Qed.

  Lemma snapper_on_grid x : on_grid x -> snapper_snap tbl x == x.
  Proof.
    intros [t [Hin Ht]]. unfold snapper_snap. rewrite Qred_correct.
    rewrite (snap_frac_comp (1 # 96) tbl Hok _ _ Ht).
    destruct (table_range (1 # 96) tbl Hok t Hin) as [T0 T1].
    rewrite (snap_frac_fix (1 # 96) tbl Hok t Hin T0 T1). rewrite <- Ht. unfold frac. lra.
  Qed.

  Lemma on_grid_comp x y : x == y -> on_grid x -> on_grid y.
  Proof.
    intros E [t [Hin Ht]]. exists t. split; [exact Hin|]. rewrite <- Ht. unfold frac. rewrite (Qfloor_comp _ _ E), E. reflexivity.
  Qed.
End Grid.

(* ------------------------------------------------------------------ one re-derived position *)
Section Rederive.
  Variable tbl : list Q.
  Hypothesis Hok : table_ok (1 # 96) tbl = true.

  Lemma beat_len_pos bpm : 0 < bpm -> 0 < beat_len bpm.
  Proof. intro H. unfold beat_len, MIN_TO_MSEC. apply Qlt_shift_div_l; lra. Qed.

  Lemma seg_beats_pos met sp sc : 0 < met -> slt sp sc -> 0 <= s_b sc -> s_b sp < met -> 0 < seg_beats met sp sc.
  Proof.
    intros Hm [L|[L1 L2]] Hc Hp; unfold seg_beats.
    - pose proof (inject_Z_ge1 (s_m sc - s_m sp) ltac:(lia)) as G.
      assert (inject_Z (s_m sc - s_m sp) * met >= 1 * met) by (apply Qmult_le_compat_r; lra). lra.
    - rewrite <- L1, Z.sub_diag. change (inject_Z 0) with 0. lra.
  Qed.

  Lemma rederive_step P L sp sc off_c :
    0 < bo_bpm P -> 0 < bo_met P -> is_intQ (bo_met P) ->
    s_m L = s_m sp -> s_b L == s_b sp -> (0 <= s_m sp)%Z ->
    slt sp sc -> s_b sp < bo_met P -> 0 <= s_b sc -> s_b sc < bo_met P ->
    on_grid tbl (seg_beats (bo_met P) sp sc) ->
    off_c == bo_off P + beat_len (bo_bpm P) * seg_beats (bo_met P) sp sc ->
    exists s, snap_from_offset tbl off_c P L = Some s
              /\ s_m s = s_m sc /\ s_b s == s_b sc /\ s_met s = bo_met P.
  Proof.
    intros Hbpm Hmet Hint HLm HLb Hspm Hlt Hspb Hscb0 Hscb Hgrid Hoff.
    set (met := bo_met P) in *. set (B := seg_beats met sp sc) in *.
    pose proof (beat_len_pos _ Hbpm) as Hbl. set (bl := beat_len (bo_bpm P)) in *.
    assert (HB: 0 < B) by (apply seg_beats_pos; assumption).
    unfold snap_from_offset. fold met. fold bl.
    set (del := off_c - bo_off P). assert (Edel: del == bl * B) by (unfold del; rewrite Hoff; ring).
    set (ml := measure_len (bo_bpm P) met). assert (Eml: ml == bl * met) by reflexivity.
    assert (Ediv: del / ml == B / met) by (rewrite Edel, Eml; field; split; lra).
    set (k := qfloordiv del ml).
    assert (Ek: k = qfloordiv B met) by (unfold k, qfloordiv; apply Qfloor_comp; exact Ediv).
    destruct (qfloordiv_mod B met Hmet) as [Ev [Hr0 Hr1]]. rewrite <- Ek in Ev. set (r := qmod B met) in *.
    assert (Hk: (0 <= k)%Z).
    { rewrite Ek. unfold qfloordiv. assert (L0: inject_Z 0 <= B / met) by (change (inject_Z 0) with 0; apply Qle_shift_div_l; lra).
      apply Qfloor_resp_le in L0. rewrite Qfloor_Z in L0. exact L0. }
    set (x := (del - inject_Z k * ml) / bl).
    assert (Ex0: x == B - inject_Z k * met) by (unfold x; rewrite Edel, Eml; field; lra).
    assert (Ex: x == r) by lra.
    assert (Hgr: on_grid tbl r).
    { assert (Er: r == B - inject_Z k * met) by lra.
      apply (on_grid_comp tbl (B - inject_Z k * met) r); [lra|].
      destruct Hgrid as [t [Hin Ht]]. exists t. split; [exact Hin|].
      rewrite (frac_minus_int B (inject_Z k * met) (is_int_mul k met Hint)). exact Ht. }
    assert (Ebeat: snapper_snap tbl x == r).
    { rewrite (snapper_snap_comp tbl Hok x r Ex). apply (snapper_on_grid tbl Hok r Hgr). }
    set (beat := snapper_snap tbl x) in *.
    assert (Hval: snap_val met (k + s_m L) (beat + s_b L) == snap_val met (s_m sc) (s_b sc)).
    { unfold snap_val. rewrite inject_Z_plus, Ebeat, HLb, HLm. unfold B, seg_beats in Ev. rewrite inject_Z_minus in Ev. lra. }
    assert (Hnn: 0 <= snap_val met (k + s_m L) (beat + s_b L)).
    { rewrite Hval. unfold snap_val.
      assert (0 <= inject_Z (s_m sc)) by (change 0 with (inject_Z 0); rewrite <- Zle_Qle; destruct Hlt as [A|[A _]]; lia).
      assert (0 <= inject_Z (s_m sc) * met) by (apply Qmult_le_0_compat; lra). lra. }
    assert (Hm0: (0 <= k + s_m L)%Z) by lia.
    destruct (snap_norm_defined _ _ _ Hm0 Hmet Hnn) as [s Hs].
    exists s. split; [exact Hs|].
    destruct (snap_norm_value _ _ _ _ Hm0 Hmet Hs) as [V1 [V2 [V3 [V4 _]]]].
    rewrite Hval in V1.
    destruct (snap_val_unique met (s_m s) (s_b s) (s_m sc) (s_b sc) Hmet V2 V3 Hscb0 Hscb V1) as [U1 U2].
    repeat split; assumption.
  Qed.
End Rederive.

(* ------------------------------------------------------------------ scripts on the grid *)
Section Script.
  Variable tbl : list Q.
  Hypothesis Hok : table_ok (1 # 96) tbl = true.

  Definition node_ok (p : bcs) : Prop :=
    wfc p /\ (0 <= s_m (bs_snap p))%Z /\ 0 <= s_b (bs_snap p) /\ s_b (bs_snap p) < bs_met p /\ is_intQ (bs_met p).
  Definition step_ok (p c : bcs) : Prop :=
    slt (bs_snap p) (bs_snap c) /\ node_ok c /\ s_b (bs_snap c) < bs_met p
    /\ on_grid tbl (seg_beats (bs_met p) (bs_snap p) (bs_snap c)).
  Fixpoint script_ok (p : bcs) (rest : list bcs) : Prop :=
    match rest with [] => True | c :: rest' => step_ok p c /\ script_ok c rest' end.

  (* the millisecond form of a script: each offset is the previous one plus the integrated segment *)
  Fixpoint linked (off : Q) (p : bcs) (rest : list bcs) (brest : list bco) : Prop :=
    match rest, brest with
    | [], [] => True
    | c :: rest', b :: brest' =>
        bo_bpm b = bs_bpm c /\ bo_met b = bs_met c
        /\ bo_off b == off + beat_len (bs_bpm p) * seg_beats (bs_met p) (bs_snap p) (bs_snap c)
        /\ linked (bo_off b) c rest' brest'
    | _, _ => False
    end.

  Lemma linked_comp off off' p rest brest : off == off' -> linked off p rest brest -> linked off' p rest brest.
  Proof.
    intros E. destruct rest as [|c rest], brest as [|b brest]; cbn [linked]; auto.
    intros [A [B [C D]]]. repeat split; auto. rewrite <- E. exact C.
  Qed.

  (* from_bpm_changes_snap(reseat=False) computes exactly that *)
  Lemma from_bcs_go_linked rest : forall off p, node_ok p -> script_ok p rest ->
    exists brest, from_bcs_go off p rest = Some brest /\ linked off p rest brest.
  Proof.
    induction rest as [|c rest IH]; intros off p Hp Hs; [exists []; split; [reflexivity|exact I]|].
    destruct Hs as [[Hlt [Hc [Hcb Hg]]] Hs]. cbn [from_bcs_go].
    destruct Hp as [[Hbpm [Hmet Heq]] [Hm [Hb0 [Hb1 Hint]]]].
    destruct Hc as [Wc [Hcm [Hcb0 [Hcb1 Hcint]]]].
    assert (Hmet': 0 < s_met (bs_snap p)) by (rewrite Heq; exact Hmet).
    assert (Hpos: 0 < seg_beats (bs_met p) (bs_snap p) (bs_snap c)) by (apply seg_beats_pos; assumption).
    assert (Hge: (0 <= s_m (bs_snap c) - s_m (bs_snap p))%Z) by (apply sle_m in Hlt || (apply slt_sle in Hlt; apply sle_m in Hlt); lia).
    assert (Hval: 0 <= snap_val (s_met (bs_snap p)) (s_m (bs_snap c) - s_m (bs_snap p)) (s_b (bs_snap c) - s_b (bs_snap p))).
    { rewrite Heq. unfold snap_val. unfold seg_beats in Hpos. lra. }
    destruct (snap_norm_defined _ _ _ Hge Hmet' Hval) as [d Hd].
    assert (Hsub: snap_sub (bs_snap c) (bs_snap p) = Some d) by exact Hd.
    rewrite Hsub.
    set (off' := Qred (off + snap_offset d (bs_bpm p) (bs_met p))).
    assert (Eoff: off' == off + beat_len (bs_bpm p) * seg_beats (bs_met p) (bs_snap p) (bs_snap c)).
    { unfold off'. rewrite Qred_correct. rewrite <- Heq.
      assert (Hnz: ~ bs_bpm p == 0) by (intro E; rewrite E in Hbpm; lra).
      assert (Hmm: (s_m (bs_snap p) <= s_m (bs_snap c))%Z) by lia.
      rewrite (snap_sub_offset (bs_snap c) (bs_snap p) (bs_bpm p) d Hmm Hmet' Hnz Hsub). reflexivity. }
    destruct (IH off' c (conj Wc (conj Hcm (conj Hcb0 (conj Hcb1 Hcint)))) Hs) as [brest [R1 R2]].
    rewrite R1. eexists. split; [reflexivity|]. cbn [linked bo_bpm bo_met bo_off]. repeat split; auto.
  Qed.

  (* positions agree as numbers *)
  Definition sim (x y : bcs) : Prop :=
    bs_bpm x = bs_bpm y /\ bs_met x = bs_met y /\ s_m (bs_snap x) = s_m (bs_snap y)
    /\ s_b (bs_snap x) == s_b (bs_snap y) /\ s_met (bs_snap x) = s_met (bs_snap y).

  (* bpm_changes_offset_to_snap re-derives every position of the script *)
  Lemma rederive_go rest : forall brest P L p,
    bo_bpm P = bs_bpm p -> bo_met P = bs_met p ->
    s_m L = s_m (bs_snap p) -> s_b L == s_b (bs_snap p) ->
    node_ok p -> script_ok p rest -> linked (bo_off P) p rest brest ->
    exists bcss, bco_to_bcs_go tbl P L brest = Some bcss /\ Forall2 sim bcss rest.
  Proof.
    induction rest as [|c rest IH]; intros brest P L p HPb HPm HLm HLb Hp Hs Hl.
    - destruct brest; [|destruct Hl]. exists []. split; [reflexivity|constructor].
    - destruct brest as [|b brest]; [destruct Hl|]. destruct Hl as [Lb [Lm [Loff Ll]]].
      destruct Hs as [[Hlt [Hc [Hcb Hg]]] Hs].
      destruct Hp as [[Hbpm [Hmet Heq]] [Hm [Hb0 [Hb1 Hint]]]].
      pose proof Hc as Hc'. destruct Hc as [[Wcb [Wcm Wce]] [Hcm [Hcb0 [Hcb1 Hcint]]]].
      cbn [bco_to_bcs_go].
      destruct (rederive_step tbl Hok P L (bs_snap p) (bs_snap c) (bo_off b)) as [s [S1 [S2 [S3 S4]]]];
        try (rewrite ?HPb, ?HPm; assumption).
      all: try (rewrite ?HPb, ?HPm; exact Loff).
      rewrite S1.
      destruct (IH brest b (mkSnap (s_m s) (s_b s) (bo_met b)) c) as [bcss [R1 R2]]; auto.
      rewrite R1. eexists. split; [reflexivity|]. constructor; [|exact R2].
      unfold sim. cbn [bs_bpm bs_met bs_snap s_m s_b s_met]. repeat split; auto. rewrite Lm. symmetry. exact Wce.
  Qed.
End Script.

(* ------------------------------------------------------------------ assembling the on-grid theorem *)
Section Final.
  Variable tbl : list Q.
  Hypothesis Hok : table_ok (1 # 96) tbl = true.

  Definition ssim (a b : snap) : Prop := s_m a = s_m b /\ s_b a == s_b b.

  Lemma slt_ssim a a' b b' : ssim a a' -> ssim b b' -> slt a b -> slt a' b'.
  Proof. intros [A1 A2] [B1 B2]. unfold slt. rewrite <- A1, <- B1, <- A2, <- B2. tauto. Qed.
  Lemma sle_ssim a a' b b' : ssim a a' -> ssim b b' -> sle a b -> sle a' b'.
  Proof. intros [A1 A2] [B1 B2]. unfold sle. rewrite <- A1, <- B1, <- A2, <- B2. tauto. Qed.
  Lemma seg_beats_ssim met a a' b b' : ssim a a' -> ssim b b' -> seg_beats met a b == seg_beats met a' b'.
  Proof. intros [A1 A2] [B1 B2]. unfold seg_beats. rewrite A1, B1, A2, B2. reflexivity. Qed.
  Lemma sim_ssim x y : sim x y -> ssim (bs_snap x) (bs_snap y).
  Proof. intros [_ [_ [A [B _]]]]. split; assumption. Qed.
  Lemma snap_le_ssim a a' q : ssim a a' -> snap_le a q = snap_le a' q.
  Proof.
    intros H. destruct (snap_le a q) eqn:E.
    - symmetry. apply snap_le_iff. apply snap_le_iff in E. apply (sle_ssim a a' q q H); [split; reflexivity|exact E].
    - destruct (snap_le a' q) eqn:E'; auto. apply snap_le_iff in E'.
      assert (sle a q). { apply (sle_ssim a' a q q); [destruct H; split; [auto|symmetry; auto]|split; reflexivity|exact E']. }
      apply snap_le_iff in H0. congruence.
  Qed.

  (* integration is the same over positions that agree as numbers *)
  Lemma time_of_go_sim rest rest' : Forall2 sim rest' rest -> forall t c c' q, sim c' c ->
    time_of_go t c' rest' q == time_of_go t c rest q.
  Proof.
    induction 1 as [|n' n rest' rest Hn _ IH]; intros t c c' q Hc; cbn [time_of_go].
    - destruct Hc as [E1 [E2 [E3 [E4 E5]]]]. rewrite E1, E2.
      rewrite (seg_beats_ssim (bs_met c) (bs_snap c') (bs_snap c) q q); [reflexivity|split; assumption|split; reflexivity].
    - pose proof (sim_ssim _ _ Hn) as Sn. pose proof (sim_ssim _ _ Hc) as Sc.
      rewrite (snap_le_ssim _ _ q Sn). destruct Hc as [E1 [E2 _]]. rewrite E1, E2.
      destruct (snap_le (bs_snap n) q).
      + rewrite (time_of_go_comp _ (t + beat_len (bs_bpm c) * seg_beats (bs_met c) (bs_snap c) (bs_snap n))).
        * apply IH. exact Hn.
        * rewrite (seg_beats_ssim (bs_met c) _ _ _ _ Sc Sn). reflexivity.
      + rewrite (seg_beats_ssim (bs_met c) (bs_snap c') (bs_snap c) q q Sc); [reflexivity|split; reflexivity].
  Qed.

  Lemma wf_of_sim c' p : sim c' p -> node_ok p -> wfc c' /\ s_b (bs_snap c') < bs_met c'.
  Proof.
    intros [E1 [E2 [E3 [E4 E5]]]] [[Hbpm [Hmet Heq]] [Hm [Hb0 [Hb1 Hint]]]].
    split; [unfold wfc; rewrite E1, E2, E5; repeat split; assumption|rewrite E2, E4; exact Hb1].
  Qed.

  (* the pairs (stored offset, re-derived change) have the three properties the main theorem needs *)
  Lemma pairs_props rest : forall brest bcss P c' p,
    sim c' p -> node_ok p -> script_ok tbl p rest -> linked (bo_off P) p rest brest -> Forall2 sim bcss rest ->
    incr_pairs (P, c') (combine brest bcss) /\ consistent (P, c') (combine brest bcss)
    /\ pairs_wf ((P, c') :: combine brest bcss).
  Proof.
    induction rest as [|c rest IH]; intros brest bcss P c' p Hsim Hp Hs Hl Hf.
    - inversion Hf; subst. destruct brest; [|destruct Hl]. cbn [combine incr_pairs consistent].
      split; [exact I|]. split; [exact I|]. intros x Hx. destruct Hx as [<-|[]]. unfold p_s. cbn [snd].
      apply (wf_of_sim c' p Hsim Hp).
    - inversion Hf as [|c1' c1 bcss' rest0 Hc1 Hf']; subst. destruct brest as [|b brest]; [destruct Hl|].
      destruct Hl as [Lb [Lm [Loff Ll]]]. destruct Hs as [[Hlt [Hc [Hcb Hg]]] Hs].
      destruct (IH brest bcss' b c1' c Hc1 Hc Hs Ll Hf') as [I1 [I2 I3]].
      pose proof (sim_ssim _ _ Hsim) as S0. pose proof (sim_ssim _ _ Hc1) as S1.
      cbn [combine incr_pairs consistent]. unfold p_s, p_t. cbn [fst snd].
      split; [split|split; [split|]].
      + apply (slt_ssim (bs_snap p) (bs_snap c') (bs_snap c) (bs_snap c1')); [destruct S0; split; [auto|symmetry; auto]|destruct S1; split; [auto|symmetry; auto]|exact Hlt].
      + exact I1.
      + destruct Hsim as [E1 [E2 _]]. rewrite E1, E2, Loff.
        rewrite (seg_beats_ssim (bs_met p) (bs_snap c') (bs_snap p) (bs_snap c1') (bs_snap c) S0 S1). reflexivity.
      + exact I2.
      + intros x [<-|Hin]; [|apply I3; exact Hin]. unfold p_s. cbn [snd]. apply (wf_of_sim c' p Hsim Hp).
  Qed.

  (* stored offsets strictly increase, so sorting them is the identity *)
  Lemma sort_by_sorted {A} (lt : A -> A -> bool) l :
    (fix ok l := match l with x :: ((y :: _) as l') => lt y x = false /\ ok l' | _ => True end) l ->
    sort_by lt l = l.
  Proof.
    unfold sort_by. induction l as [|x l IH]; intro H; [reflexivity|]. cbn [fold_right].
    destruct l as [|y l']; [reflexivity|]. destruct H as [H1 H2]. rewrite (IH H2). cbn [insert_by]. rewrite H1. reflexivity.
  Qed.
End Final.

Fixpoint adj_ok {A} (lt : A -> A -> bool) (l : list A) : Prop :=
  match l with
  | x :: ((y :: _) as l') => lt y x = false /\ adj_ok lt l'
  | _ => True
  end.
Lemma sort_by_adj_ok {A} (lt : A -> A -> bool) l : adj_ok lt l -> sort_by lt l = l.
Proof.
  unfold sort_by. induction l as [|x l IH]; intro H; [reflexivity|]. cbn [fold_right].
  destruct l as [|y l']; [reflexivity|]. destruct H as [H1 H2]. rewrite (IH H2). cbn [insert_by]. rewrite H1. reflexivity.
Qed.

Section Main.
  Variable tbl : list Q.
  Hypothesis Hok : table_ok (1 # 96) tbl = true.

  Lemma script_adj_ok p rest : script_ok tbl p rest -> adj_ok bcs_lt (p :: rest).
  Proof.
    revert p. induction rest as [|c rest IH]; intros p H; [exact I|]. destruct H as [[Hlt _] Hs].
    cbn [adj_ok]. split; [|apply IH; exact Hs]. unfold bcs_lt.
    destruct (snap_lt (bs_snap c) (bs_snap p)) eqn:E; auto. apply snap_lt_iff in E.
    exfalso. apply (slt_not_sle _ _ Hlt). apply slt_sle. exact E.
  Qed.

  Lemma linked_adj_ok rest : forall brest P p, bo_bpm P = bs_bpm p -> bo_met P = bs_met p ->
    node_ok p -> script_ok tbl p rest -> linked (bo_off P) p rest brest -> adj_ok bco_lt (P :: brest).
  Proof.
    induction rest as [|c rest IH]; intros brest P p HPb HPm Hp Hs Hl.
    - destruct brest; [exact I|destruct Hl].
    - destruct brest as [|b brest]; [destruct Hl|]. destruct Hl as [Lb [Lm [Loff Ll]]].
      destruct Hs as [[Hlt [Hc [Hcb Hg]]] Hs]. cbn [adj_ok]. split.
      + unfold bco_lt. apply Qlt_bool_false. rewrite Loff.
        destruct Hp as [[Hbpm [Hmet Heq]] [Hm [Hb0 [Hb1 Hint]]]]. destruct Hc as [_ [_ [Hcb0 _]]].
        pose proof (beat_len_pos _ Hbpm). pose proof (seg_beats_pos (bs_met p) _ _ Hmet Hlt Hcb0 Hb1).
        assert (0 < beat_len (bs_bpm p) * seg_beats (bs_met p) (bs_snap p) (bs_snap c)) by (apply Qmult_lt_0_compat; assumption). lra.
      + apply (IH brest b c Lb Lm Hc Hs Ll).
  Qed.

  Lemma linked_length off p rest brest : linked off p rest brest -> length brest = length rest.
  Proof.
    revert off p brest. induction rest as [|c rest IH]; intros off p brest Hl; destruct brest as [|b brest];
      try (destruct Hl; fail); [reflexivity|].
    destruct Hl as [_ [_ [_ Hl]]]. cbn [length]. f_equal. apply (IH _ _ _ Hl).
  Qed.
  Lemma forall2_length {A B} (R : A -> B -> Prop) l r : Forall2 R l r -> length l = length r.
  Proof. induction 1; cbn; auto. Qed.
  Lemma map_snd_combine {A B} (a : list A) (b : list B) : length a = length b -> map snd (combine a b) = b.
  Proof. revert b. induction a as [|x a IH]; intros b H; destruct b; try discriminate; cbn; [reflexivity|]. f_equal. apply IH. cbn in H. lia. Qed.

  (* C10, closed form: a script on the snap grid (first change at measure 0 beat 0, strictly increasing normalised
     positions, positive bpm, integer metronomes, consecutive changes a grid fraction apart), any initial offset,
     any queries at or after the first change in any order with duplicates:
     from_bpm_changes_snap(init, script, reseat=False).offsets(queries) is the integration over the script. *)
  Theorem offsets_on_grid init c0 rest qs :
    node_ok c0 -> s_m (bs_snap c0) = 0%Z -> s_b (bs_snap c0) == 0 -> script_ok tbl c0 rest ->
    (forall q, In q qs -> sle (bs_snap c0) q /\ 0 <= s_b q) ->
    exists bcos res, from_bcs init (c0 :: rest) = Some bcos
                     /\ tm_offsets tbl bcos qs = Some res
                     /\ Forall2 (fun q r => r == time_of init (c0 :: rest) q) qs res.
  Proof.
    intros H0 Hm0 Hb0 Hs Hq.
    destruct (from_bcs_go_linked tbl rest init c0 H0 Hs) as [brest [F1 F2]].
    set (B0 := mkBco (bs_bpm c0) (bs_met c0) init).
    assert (Efrom: from_bcs init (c0 :: rest) = Some (B0 :: brest)).
    { unfold from_bcs. rewrite (sort_by_adj_ok bcs_lt (c0 :: rest) (script_adj_ok c0 rest Hs)).
      rewrite Hm0. assert (Eb: Qeq_bool (s_b (bs_snap c0)) 0 = true) by (apply Qeq_bool_iff; exact Hb0).
      rewrite Eb. cbn [Z.eqb andb negb]. rewrite F1. reflexivity. }
    assert (Hl: linked (bo_off B0) c0 rest brest) by exact F2.
    assert (Esort: sort_by bco_lt (B0 :: brest) = B0 :: brest).
    { apply sort_by_adj_ok. apply (linked_adj_ok rest brest B0 c0 eq_refl eq_refl H0 Hs Hl). }
    destruct H0 as [[Hbpm [Hmet Heq]] [Hm [Hb0' [Hb1 Hint]]]].
    assert (Hnode: node_ok c0) by (repeat split; assumption).
    (* the re-derived first position *)
    assert (Es0: snap_norm 0 0 (bs_met c0) = Some (mkSnap 0 (Qred 0) (bs_met c0))).
    { unfold snap_norm. change (0 <? 0)%Z with false. cbv iota. assert (E1: Qlt_bool 0 0 = false) by (apply Qlt_bool_false; lra).
      assert (E2: Qle_bool (bs_met c0) 0 = false) by (apply Qle_bool_false; exact Hmet).
      rewrite E1, E2. cbn [orb fst snd]. rewrite E1. reflexivity. }
    set (s0 := mkSnap 0 (Qred 0) (bs_met c0)).
    destruct (rederive_go tbl Hok rest brest B0 s0 c0 eq_refl eq_refl) as [bcss' [R1 R2]]; auto.
    all: try (cbn; symmetry; exact Hm0).
    all: try (cbn [s0 s_b]; rewrite Qred_correct; symmetry; exact Hb0).
    set (c0' := mkBcs (bs_bpm c0) (bs_met c0) s0).
    assert (Ebcs: bco_to_bcs tbl (B0 :: brest) = Some (c0' :: bcss')).
    { unfold bco_to_bcs. rewrite Esort. cbn [bo_met B0]. rewrite Es0. fold s0. rewrite R1. reflexivity. }
    assert (Hsim0: sim c0' c0).
    { unfold sim, c0', s0. cbn [bs_bpm bs_met bs_snap s_m s_b s_met]. split; [reflexivity|]. split; [reflexivity|].
      split; [symmetry; exact Hm0|]. split; [rewrite Qred_correct; symmetry; exact Hb0|symmetry; exact Heq]. }
    destruct (pairs_props tbl rest brest bcss' B0 c0' c0 Hsim0 Hnode Hs Hl R2) as [P1 [P2 P3]].
    assert (Hlen: length brest = length bcss').
    { rewrite (linked_length _ _ _ _ Hl). symmetry. apply (forall2_length _ _ _ R2). }
    destruct (offsets_integrate tbl (B0 :: brest) qs (c0' :: bcss') (B0, c0') (combine brest bcss')) as [res [O1 O2]].
    - rewrite Esort. exact Ebcs.
    - rewrite Esort. reflexivity.
    - exact P1.
    - exact P2.
    - exact P3.
    - intros q Hin. destruct (Hq q Hin) as [Q1 Q2]. split; [|exact Q2]. unfold p_s. cbn [snd c0' bs_snap].
      apply (sle_ssim (bs_snap c0) s0 q q); [split; [cbn; exact Hm0|cbn [s0 s_b]; rewrite Qred_correct; exact Hb0]|split; reflexivity|exact Q1].
    - exists (B0 :: brest), res. split; [exact Efrom|]. split; [exact O1|].
      apply (forall2_impl_in _ _ _ _ O2). intros q r _ Hr. rewrite Hr.
      unfold p_t. cbn [fst snd map B0 bo_off]. rewrite (map_snd_combine brest bcss' Hlen).
      cbn [time_of]. apply (time_of_go_sim rest bcss' R2 init c0 c0' q Hsim0).
  Qed.
End Main.

(* ------------------------------------------------------------------ boolean domain predicate and the checkable theorem *)
Section Bool.
  Variable tbl : list Q.
  Hypothesis Hok : table_ok (1 # 96) tbl = true.

  Lemma is_intb_sound q : is_intb q = true -> is_intQ q.
  Proof. unfold is_intb. intro H. apply Qeq_bool_iff in H. exists (Qfloor q). exact H. Qed.
  Lemma on_gridb_sound x : on_gridb tbl x = true -> on_grid tbl x.
  Proof.
    unfold on_gridb, on_grid. rewrite existsb_exists. intros [t [Hin Ht]]. apply Qeq_bool_iff in Ht. exists t. split; assumption.
  Qed.
  Lemma node_okb_sound p : node_okb p = true -> node_ok p.
  Proof.
    unfold node_okb, node_ok. intro H. do 4 (apply andb_true_iff in H; destruct H as [H ?]).
    apply wfcb_sound in H. apply Z.leb_le in H3. apply Qle_bool_iff in H2. apply Qlt_bool_iff in H1. apply is_intb_sound in H0.
    repeat split; try assumption; apply H.
  Qed.
  Lemma script_okb_sound rest : forall p, script_okb tbl p rest = true -> script_ok tbl p rest.
  Proof.
    induction rest as [|c rest IH]; intros p H; [exact I|]. cbn [script_okb] in H. apply andb_true_iff in H.
    destruct H as [H Hr]. unfold step_okb in H. do 3 (apply andb_true_iff in H; destruct H as [H ?]).
    split; [|apply IH; exact Hr]. unfold step_ok. split; [apply snap_lt_iff; exact H|]. split; [apply node_okb_sound; exact H2|].
    split; [apply Qlt_bool_iff; exact H1|apply on_gridb_sound; exact H0].
  Qed.

  Theorem offsets_on_grid_b init l qs : domainb tbl l qs = true ->
    exists bcos res, from_bcs init l = Some bcos
                     /\ tm_offsets tbl bcos qs = Some res
                     /\ Forall2 (fun q r => r == time_of init l q) qs res.
  Proof.
    destruct l as [|c0 rest]; [discriminate|]. unfold domainb. intro H.
    do 4 (apply andb_true_iff in H; destruct H as [H ?]).
    apply (offsets_on_grid tbl Hok init c0 rest qs).
    - apply node_okb_sound. exact H.
    - apply Z.eqb_eq. exact H3.
    - apply Qeq_bool_iff. exact H2.
    - apply script_okb_sound. exact H1.
    - intros q Hin. rewrite forallb_forall in H0. specialize (H0 q Hin). apply andb_true_iff in H0. destruct H0 as [A B].
      split; [apply snap_le_iff; exact A|apply Qle_bool_iff; exact B].
  Qed.
End Bool.
