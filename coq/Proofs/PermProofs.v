(* C15: permutation invariance of the models that factor through row-wise maps or sorting. *)
From Coq Require Import ZArith QArith Qround List Bool Sorting.Permutation.
From RV Require Import Base.PyNum Frame.Frame Lists.TimedList Lists.SeqSpec Map.Stacker Map.StackerSpec Map.Rate
  Convert.Cast Proofs.TimedListProofs Proofs.RateProofs.
Import ListNotations.
Open Scope Q_scope.

(* two charts that hold the same objects: list by list the same columns and a permutation of the rows *)
Inductive same_objects : list ulist -> list ulist -> Prop :=
| so_nil : same_objects [] []
| so_cons u v us vs : u_cols u = u_cols v -> Permutation (u_rows u) (u_rows v) -> same_objects us vs ->
                      same_objects (u :: us) (v :: vs).

(* rate: scaling a permuted chart gives a permutation of the scaled chart *)
Theorem rate_perm by_ a b : same_objects a b -> same_objects (rate_spec by_ a) (rate_spec by_ b).
Proof.
  induction 1 as [|u v us vs Hc Hp _ IH]; [constructor|]. cbn [rate_spec map]. constructor.
  - exact Hc.
  - cbn [scale_ulist u_rows u_cols]. rewrite Hc. apply Permutation_map. exact Hp.
  - exact IH.
Qed.

(* sorting: any two lists sorted from permuted inputs are permutations of each other (and both sorted) *)
Theorem sorted_perm asc f g :
  fcols f = fcols g -> Permutation (abs_rows f) (abs_rows g) ->
  Permutation (abs_rows (sort_values COL_OFFSET asc f)) (abs_rows (sort_values COL_OFFSET asc g))
  /\ sorted_prop (fcols f) asc (abs_rows (sort_values COL_OFFSET asc f))
  /\ sorted_prop (fcols g) asc (abs_rows (sort_values COL_OFFSET asc g)).
Proof.
  intros Hc Hp. destruct (sort_values_refines asc f) as [Pf [Sf _]]. destruct (sort_values_refines asc g) as [Pg [Sg _]].
  split; [|split; assumption].
  eapply perm_trans; [apply Permutation_sym; exact Pf|]. eapply perm_trans; [exact Hp|exact Pg].
Qed.

(* filters: keeping the rows that satisfy a row-wise predicate commutes with permutation *)
Lemma filter_perm {A} (p : A -> bool) l l' : Permutation l l' -> Permutation (filter p l) (filter p l').
Proof.
  induction 1 as [|x l l' _ IH|x y l|l l' l'' _ IH1 _ IH2]; cbn [filter].
  - constructor.
  - destruct (p x); [constructor|]; exact IH.
  - destruct (p x), (p y); try apply Permutation_refl. apply perm_swap.
  - eapply perm_trans; eassumption.
Qed.

Theorem filter_rows_perm p f g : Permutation (abs_rows f) (abs_rows g) ->
  Permutation (abs_rows (filter_rows p f)) (abs_rows (filter_rows p g)).
Proof. intro H. rewrite !abs_filter. apply filter_perm. exact H. Qed.

(* cast (converters): the value copied into a target column is the source column read row by row, so permuting
   the source rows permutes the copied values the same way *)
Theorem col_vals_perm f g c vs :
  fcols f = fcols g -> Permutation (abs_rows f) (abs_rows g) ->
  col_vals f c = Some vs -> exists ws, col_vals g c = Some ws /\ Permutation vs ws.
Proof.
  intros Hc Hp. unfold col_vals. rewrite <- Hc. destruct (col_index c (fcols f)) as [i|]; [|discriminate].
  intro H. injection H as <-. eexists. split; [reflexivity|]. apply Permutation_map. exact Hp.
Qed.
