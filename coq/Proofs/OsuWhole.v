(* C01, whole-file theorems in their final form (boolean domains, as evaluated by the runner), the
   generation chain, a concrete instance of the printer oracles (non-vacuity), and the refuted corner of
   the write direction. *)
From Coq Require Import String Ascii.
From Coq Require Import ZArith QArith Qround Qabs List Bool Lia Lqa.
From RV Require Import Base.PyNum Base.Text Formats.Osu Formats.OsuSpec Proofs.OsuProofs Proofs.OsuText Proofs.OsuRead Proofs.OsuWrite.
Import ListNotations.
Open Scope Z_scope.

(* ================================================================== with the printers as oracles *)
Section Oracle.
  Variable show_num show_inum : Q -> text.
  Variable printable iprintable : Q -> bool.
  Hypothesis show_num_reads : forall q, printable q = true -> parse_dec (show_num q) = Some (Qred q).
  Hypothesis show_inum_reads : forall q, iprintable q = true -> parse_int (show_inum q) = Some (Qfloor q).
  Hypothesis printable_ext : forall q q', (q == q')%Q -> printable q = printable q'.
  Hypothesis iprintable_ext : forall q q', (q == q')%Q -> iprintable q = iprintable q'.

  Notation wdom := (wdom printable iprintable).
  Notation written := (written show_num show_inum).
  Notation FILE := (FILE show_num show_inum).
  Notation wfacts := (wfacts printable iprintable).

  (* the current writer replaces the line feeds of the transliterations by blanks (one_line); every theorem below is
     the corresponding theorem of Proofs/OsuWrite.v at the transliterations (one_line ut), (one_line ua) *)
  Lemma facts c ut ua : wdom c ut ua = true -> wfacts c (one_line ut) (one_line ua).
  Proof. apply wdom_facts. Qed.
  Lemma written_is c ut ua : wdom c ut ua = true -> written c ut ua = Some (FILE c (one_line ut) (one_line ua)).
  Proof. intro D. rewrite written_one_line. eapply written_file; eauto using facts. Qed.

  (* write_wf *)
  Theorem osu_write_wf c ut ua : wdom c ut ua = true ->
    exists text, written c ut ua = Some text /\ wf_osu_text text = true.
  Proof.
    intro D. pose proof (facts _ _ _ D) as W. exists (FILE c (one_line ut) (one_line ua)). split.
    - apply written_is; exact D.
    - eapply write_wf; eauto.
  Qed.

  (* write_denotes: the text denotes the chart with note / sample / preview times truncated toward zero, every
     attribute present, columns exact, no row dropped or merged (rows up to order) *)
  Theorem osu_write_denotes c ut ua : wdom c ut ua = true ->
    exists text d, written c ut ua = Some text /\ osu_denote text = Some d /\
                   all_present d = true /\ denotes 0 d (written_chart c ut ua) = true /\
                   write_specb 0 c ut ua text = true.
  Proof.
    intro D. pose proof (facts _ _ _ D) as W.
    exists (FILE c (one_line ut) (one_line ua)), (den_of c (one_line ut) (one_line ua)).
    destruct (write_denotes _ _ c _ _ W) as [A B].
    split; [apply written_is; exact D|]. split; [eapply denote_written; eauto|].
    split; [exact A|]. split; [exact B|]. eapply write_spec; eauto.
  Qed.

  (* read after write: the written text is in the domain of the read theorem and is read back as [canon]:
     the chart with times truncated toward zero, rows in written order, numbers in lowest terms *)
  Theorem osu_read_after_write c ut ua : wdom c ut ua = true ->
    exists text, written c ut ua = Some text /\ read_domain text = true /\
                 osu_read text = Some (canon c (one_line ut) (one_line ua)) /\
                 denotes 0 (den_of c (one_line ut) (one_line ua)) (written_chart c ut ua) = true /\
                 realize (den_of c (one_line ut) (one_line ua)) = canon c (one_line ut) (one_line ua).
  Proof.
    intro D. pose proof (facts _ _ _ D) as W. exists (FILE c (one_line ut) (one_line ua)).
    split; [apply written_is; exact D|].
    split; [eapply written_in_read_domain; eauto|].
    split; [eapply read_after_write; eauto|].
    split; [eapply write_denotes; eauto|].
    apply realize_den. eapply wf_len; eauto.
  Qed.

  (* one more generation: read the text, write what was read (Title / Artist are what was read: unidecode
     is the identity on its own output - oracle assumption, tested by the harness on every use) *)
  Definition regen_with (g : list text) : option (list text) :=
    match osu_read g with
    | Some c => written c (meta_str (c_meta c) IX_TITLE) (meta_str (c_meta c) IX_ARTIST)
    | None => None
    end.

  (* generation 2 denotes what generation 1 denotes (rows of equal truncated time may be reordered once:
     holds before hits), and generation 3 IS generation 2, character for character *)
  Theorem osu_generation_stable c ut ua : wdom c ut ua = true ->
    exists g1 g2, written c ut ua = Some g1 /\ regen_with g1 = Some g2 /\
                  wf_osu_text g2 = true /\ same_denotation 0 g1 g2 = true /\
                  regen_with g2 = Some g2.
  Proof.
    intro D. pose proof (facts _ _ _ D) as W. set (ut' := one_line ut) in *. set (ua' := one_line ua) in *.
    destruct (generation_stable show_num show_inum printable iprintable show_num_reads show_inum_reads printable_ext iprintable_ext c ut' ua' W)
      as [R1 [W2 [WF2 [SD [R2 [C3 G3]]]]]].
    assert (K: kinds_ok key_table (c_meta c) = true) by (eapply wf_kinds; eauto).
    destruct (canon_title c ut' ua' K) as [T1 T2].
    assert (N1: one_line (strip ut') = strip ut').
    { apply one_line_id. intro I. apply in_strip in I. exact (one_line_no_lf ut I). }
    assert (N2: one_line (strip ua') = strip ua').
    { apply one_line_id. intro I. apply in_strip in I. exact (one_line_no_lf ua I). }
    exists (FILE c ut' ua'), (FILE (canon c ut' ua') (strip ut') (strip ua')).
    split; [apply written_is; exact D|].
    split; [unfold regen_with; rewrite R1, T1, T2, written_one_line, N1, N2; exact W2|].
    split; [exact WF2|]. split; [exact SD|].
    unfold regen_with. rewrite R2, C3, T1, T2, written_one_line, N1, N2. exact W2.
  Qed.
End Oracle.

(* ================================================================== a concrete instance of the oracles
   (non-vacuity of the hypotheses): every number with at most 6 decimal places is printed in fixed point;
   int-typed attributes are printed by str *)
Definition dec6_printable (q : Q) : bool := is_integral (q * 1000000).
Definition show_dec6 (q : Q) : text := show_fixed (Qfloor (q * 1000000)) 6.
Definition show_intq (q : Q) : text := show_int (Qfloor q).
Definition any_q (q : Q) : bool := true.

Lemma is_integral_comp a b : (a == b)%Q -> is_integral a = is_integral b.
Proof.
  intro E. unfold is_integral. rewrite (Qfloor_comp _ _ E).
  destruct (Qeq_bool a (inject_Z (Qfloor b))) eqn:A; destruct (Qeq_bool b (inject_Z (Qfloor b))) eqn:B; auto.
  - apply Qeq_bool_iff in A. assert (X: Qeq_bool b (inject_Z (Qfloor b)) = true) by (apply Qeq_bool_iff; transitivity a; [symmetry; exact E|exact A]). congruence.
  - apply Qeq_bool_iff in B. assert (X: Qeq_bool a (inject_Z (Qfloor b)) = true) by (apply Qeq_bool_iff; transitivity b; [exact E|exact B]). congruence.
Qed.

Lemma show_dec6_reads q : dec6_printable q = true -> parse_dec (show_dec6 q) = Some (Qred q).
Proof.
  unfold dec6_printable, show_dec6. intro I.
  destruct (parse_dec_show_fixed (Qfloor (q * 1000000)) 6 ltac:(discriminate)) as [q' [P E]].
  rewrite P. f_equal. pose proof (integral_eq _ I) as IE.
  apply canon_eq; [eapply parse_dec_canon; eauto|apply Qred_idem|].
  rewrite E, Qred_correct, IE. change (inject_Z (10 ^ Z.of_nat 6)) with 1000000%Q. field.
Qed.
Lemma show_intq_reads q : any_q q = true -> parse_int (show_intq q) = Some (Qfloor q).
Proof. intros _. apply parse_show_int. Qed.
Lemma dec6_ext q q' : (q == q')%Q -> dec6_printable q = dec6_printable q'.
Proof. intro E. apply is_integral_comp. rewrite E. reflexivity. Qed.
Lemma any_ext q q' : (q == q')%Q -> any_q q = any_q q'.
Proof. reflexivity. Qed.

Definition wdom6 := wdom dec6_printable any_q.
Definition written6 := written show_dec6 show_intq.
Definition regen6 := regen_with show_dec6 show_intq.

Theorem osu_write_wf_dec6 c ut ua : wdom6 c ut ua = true ->
  exists text, written6 c ut ua = Some text /\ wf_osu_text text = true.
Proof. exact (osu_write_wf show_dec6 show_intq dec6_printable any_q show_dec6_reads show_intq_reads c ut ua). Qed.
Theorem osu_write_denotes_dec6 c ut ua : wdom6 c ut ua = true ->
  exists text d, written6 c ut ua = Some text /\ osu_denote text = Some d /\
                 all_present d = true /\ denotes 0 d (written_chart c ut ua) = true /\ write_specb 0 c ut ua text = true.
Proof. exact (osu_write_denotes show_dec6 show_intq dec6_printable any_q show_dec6_reads show_intq_reads c ut ua). Qed.
Theorem osu_read_after_write_dec6 c ut ua : wdom6 c ut ua = true ->
  exists text, written6 c ut ua = Some text /\ read_domain text = true /\ osu_read text = Some (canon c (one_line ut) (one_line ua)) /\
               denotes 0 (den_of c (one_line ut) (one_line ua)) (written_chart c ut ua) = true /\
               realize (den_of c (one_line ut) (one_line ua)) = canon c (one_line ut) (one_line ua).
Proof. exact (osu_read_after_write show_dec6 show_intq dec6_printable any_q show_dec6_reads show_intq_reads c ut ua). Qed.
Theorem osu_generation_stable_dec6 c ut ua : wdom6 c ut ua = true ->
  exists g1 g2, written6 c ut ua = Some g1 /\ regen6 g1 = Some g2 /\ wf_osu_text g2 = true /\
                same_denotation 0 g1 g2 = true /\ regen6 g2 = Some g2.
Proof. exact (osu_generation_stable show_dec6 show_intq dec6_printable any_q show_dec6_reads show_intq_reads dec6_ext any_ext c ut ua). Qed.

(* ================================================================== concrete members of the domains *)
(* a 7K text: metadata value with colons, background, a sample event, tempo point and SV, hit and hold,
   blank lines, trailing blanks, [Colours] *)
Definition example_text : list text :=
  [ t "osu file format v14"; []; t "[General]"; t "AudioFilename: audio.mp3"; t "Mode: 3"; t "SampleSet: Soft"; [];
    t "[Metadata]"; t "Title:Re:Zero - Starting: Life"; t "Tags:a b  c "; [];
    t "[Difficulty]"; t "CircleSize:7"; t "SliderMultiplier:1.4"; [];
    t "[Events]"; t "//Background and Video events"; t "0,0,""bg:1.png"",0,0"; t "//Break Periods";
    t "//Storyboard Sound Samples"; t "Sample,1234.5,0,""clap.wav"",70"; [];
    t "[TimingPoints]"; t "565,375,4,2,1,60,1,0"; t "1000.5,-125,4,2,1,60,0,1 "; [];
    t "[Colours]"; t "Combo1 : 255,0,0"; [];
    t "[HitObjects]"; t "36,192,1000,1,0,0:0:0:0:"; t "475,192,2001.5,128,2,2500:1:3:7:40:a.wav" ].
Example example_text_in_domain :
  read_domain example_text = true /\
  option_map (fun c => (length (c_hits c), length (c_holds c), length (c_bpms c), length (c_svs c), length (c_samples c),
                        map n_col (c_hits c ++ c_holds c), meta_str (c_meta c) IX_TITLE))
             (osu_read example_text)
  = Some (1%nat, 1%nat, 1%nat, 1%nat, 1%nat, [0; 6], t "Re:Zero - Starting: Life").
Proof. vm_compute. split; reflexivity. Qed.

(* a 7K chart: fractional / negative times, a tie between a hold and a hit after truncation, ':' in the title,
   a sample event, a tempo point, an SV, decimal attributes *)
Definition example_chart7 : chart :=
  mkChart (set_nth (set_nth (set_nth meta_default 25 (MNum 7)) 14 (MStr (t "Re:Zero"))) 2 (MNum (12345 # 2)))
          (t "bg.png")
          [mkSample (24565 # 2) (34 :: t "clap.wav" ++ [34]) 70]
          [mkBpm (565 # 1) (160 # 1) 4 2 1 60 false]
          [mkSv (178585 # 2) (8 # 10) 2 1 60 true]
          [mkNote (1000 # 1) 6 0 0 0 0 0 0 []; mkNote ((-7) # 2) 0 0 2 1 3 7 40 (t "a.wav")]
          [mkNote (2001 # 2) 3 (21 # 2) 0 0 0 0 0 []].
Example example_chart_in_domain :
  wdom6 example_chart7 (t "Re:Zero ") [] = true /\
  match written6 example_chart7 (t "Re:Zero ") [] with
  | Some g1 => write_specb 0 example_chart7 (t "Re:Zero ") [] g1 = true /\ read_domain g1 = true /\
               match regen6 g1 with
               | Some g2 => list_eqb text_eqb g1 g2 = false /\ same_denotation 0 g1 g2 = true /\
                            match regen6 g2 with Some g3 => list_eqb text_eqb g2 g3 = true | None => False end
               | None => False end
  | None => False
  end.
Proof. vm_compute. repeat split; reflexivity. Qed.

(* ================================================================== the former defect of the write direction
   (fixed in repo commit fde22cd).  unidecode maps U+2028 / U+2029 to line feeds: the OLD writer wrote such a
   Title on two lines; the chart satisfies the runner's wf_chart, yet the text written by the old writer does not
   denote it (Title is read back as "x", and with this witness everything after the title is lost).  The current
   writer replaces the line feed by a blank: the same witness is written on one line and read back whole. *)
Definition written6_OLD := written_raw show_dec6 show_intq.
Definition linefeed_chart : chart :=
  mkChart (set_nth (set_nth meta_default 14 (MStr (120 :: 8232 :: t "[TimingPoints]"))) 15 (MStr (t "u"))) [] [] [] [] [] [].
Definition linefeed_ut : text := 120 :: 10 :: t "[TimingPoints]".
Theorem write_title_linefeed_OLD_refuted :
  wf_chart linefeed_chart = true /\ kinds_ok key_table (c_meta linefeed_chart) = true /\
  match written6_OLD linefeed_chart linefeed_ut [] with
  | Some text => (wf_osu_text text && match osu_denote text with
                                      | Some d => denotes 0 d (written_chart_raw linefeed_chart linefeed_ut []) | None => false end) = false /\
                 option_map (fun c => (meta_str (c_meta c) IX_TITLE, meta_str (c_meta c) 15)) (osu_read text) = Some ([120], [])
  | None => False
  end.
Proof. vm_compute. repeat split; reflexivity. Qed.
Theorem write_title_linefeed_current :
  wdom6 linefeed_chart linefeed_ut [] = true /\
  match written6 linefeed_chart linefeed_ut [] with
  | Some text => write_specb 0 linefeed_chart linefeed_ut [] text = true /\
                 option_map (fun c => (meta_str (c_meta c) IX_TITLE, meta_str (c_meta c) 15)) (osu_read text)
                 = Some (t "x [TimingPoints]", t "u")
  | None => False
  end.
Proof. vm_compute. repeat split; reflexivity. Qed.
